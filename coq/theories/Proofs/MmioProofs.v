(* C10: theorems about the MMIO transport model (Model/Mmio.v) against the register tables and   *)
(* constraints of Model/MmioSpec.v. Everything is for ALL argument values in the ranges of the    *)
(* Rust types (queue index < 2^16, size / status / page size < 2^32, addresses and feature words  *)
(* < 2^64), every list of device answers (each truncated to 32 bits by the model), both versions  *)
(* and both cargo profiles.                                                                      *)
From VD Require Import Base.Words Model.Mmio Model.MmioSpec.
From Coq Require Import ZArith Lia ZifyBool ZifyN.
Ltac Zify.zify_post_hook ::= Z.div_mod_to_equations.

(* ---------- the struct layout gives the specified offsets ---------- *)
Lemma offsets_match_spec :
  o_magic = S_MagicValue /\ o_version = S_Version /\ o_device_id = S_DeviceID /\
  o_vendor_id = S_VendorID /\ o_device_features = S_DeviceFeatures /\
  o_device_features_sel = S_DeviceFeaturesSel /\ o_driver_features = S_DriverFeatures /\
  o_driver_features_sel = S_DriverFeaturesSel /\ o_guest_page_size = S_GuestPageSize /\
  o_queue_sel = S_QueueSel /\ o_queue_num_max = S_QueueNumMax /\ o_queue_num = S_QueueNum /\
  o_queue_align = S_QueueAlign /\ o_queue_pfn = S_QueuePFN /\ o_queue_ready = S_QueueReady /\
  o_queue_notify = S_QueueNotify /\ o_interrupt_status = S_InterruptStatus /\
  o_interrupt_ack = S_InterruptACK /\ o_status = S_Status /\
  o_queue_desc_low = S_QueueDescLow /\ o_queue_desc_high = S_QueueDescHigh /\
  o_queue_driver_low = S_QueueDriverLow /\ o_queue_driver_high = S_QueueDriverHigh /\
  o_queue_device_low = S_QueueDeviceLow /\ o_queue_device_high = S_QueueDeviceHigh /\
  o_config_generation = S_ConfigGeneration /\
  header_size = REGISTER_BLOCK /\ CONFIG_SPACE_OFFSET = S_Config /\ MAGIC_VALUE = MAGIC.
Proof. repeat split; reflexivity. Qed.

(* the accessor type chosen for each member (ReadPure / WriteOnly / ReadPureWrite) is the
   direction the specification gives the register at that offset; every member is 4 bytes *)
Definition wrapper_dir (k : fkind) (d : dir) : bool :=
  match k, d with
  | KReadPure, RO => true | KWriteOnly, WO => true | KReadPureWrite, RW => true | _, _ => false
  end.

Lemma wrappers_match_spec :
  forallb (fun x => match x with
                    | (f, KReserved, _) => true
                    | (f, k, sz) =>
                        (sz =? 4) &&
                        match find (fun r => r_off r =? offset_of f) regtable with
                        | Some r => wrapper_dir k (r_dir r)
                        | None => false
                        end
                    end) header_layout = true.
Proof. vm_compute. reflexivity. Qed.

(* ---------- 64-bit values as two 32-bit words ---------- *)
Lemma w32_lt x : w32 x < two32.
Proof. unfold w32, two32. lia. Qed.

Lemma split64 x : x < two64 -> w32 x + two32 * w32 (N.shiftr x 32) = x.
Proof.
  intros H. unfold w32, two32, two64 in *. rewrite N.shiftr_div_pow2.
  change (2 ^ 32) with 4294967296. lia.
Qed.

Lemma split64_words x : x < two64 ->
  w32 x = x mod two32 /\ w32 (N.shiftr x 32) = x / two32.
Proof.
  intros H. unfold w32, two32, two64 in *. rewrite N.shiftr_div_pow2.
  change (2 ^ 32) with 4294967296. lia.
Qed.

Lemma join64 lo hi : lo + N.shiftl hi 32 = lo + two32 * hi.
Proof. rewrite N.shiftl_mul_pow2. change (2 ^ 32) with two32. lia. Qed.

Lemma land_lt a b n : b < 2 ^ n -> N.land a b < 2 ^ n.
Proof.
  intros H. destruct (N.eq_dec (N.land a b) 0) as [E|E]; [rewrite E; lia|].
  apply N.log2_lt_pow2; [lia|].
  assert (Hb : b <> 0) by (intros ->; rewrite N.land_0_r in E; congruence).
  pose proof (N.log2_land a b) as Hl.
  assert (N.log2 b < n) by (apply N.log2_lt_pow2; lia). lia.
Qed.

Lemma land_lt64 a b : b < two64 -> N.land a b < two64.
Proof. apply (land_lt a b 64). Qed.

(* ---------- every operation conforms to the specification predicate ---------- *)
Definition rc_of (r : outcome N) : N :=
  match r with Ok _ => 0 | Err _ => 1 | Panic => 2 | UB => 3 end.
Definition rv_of (r : outcome N) : N :=
  match r with Ok x => x | Err e => e | _ => 0 end.

(* the argument ranges of the Rust types *)
Definition args_in_range (o : op) : Prop :=
  match o with
  | OWriteDriverFeatures f => f < two64
  | OMaxQueueSize q | ONotify q | OQueueUnset q | OQueueUsed q => q < two16
  | OSetStatus s | OSetGuestPageSize s => s < two32
  | OQueueSet q size desc drv dev =>
      q < two16 /\ size < two32 /\ desc < two64 /\ drv < two64 /\ dev < two64
  | OBeginInit s => s < two64
  | _ => True
  end.

(* the monitor predicate applied to what the model does *)
Definition conforms (m : mode) (v : version) (dt : N) (o : op) (ans : list N) : bool :=
  match op_args o with
  | [a1; a2; a3; a4; a5] =>
      mmio_conform_b v (op_code o) a1 a2 a3 a4 a5
        (rc_of (fst (exec m v dt o ans))) (rv_of (fst (exec m v dt o ans)))
        (snd (exec m v dt o ans))
  | _ => false
  end.

Ltac conj5 := unfold conforms, mmio_conform_b; cbn [op_args op_code exec fst snd rc_of rv_of];
  unfold write_driver_features_trace, read_device_features_trace.

Lemma conf_simple_0 m v dt ans : conforms m v dt ODeviceType ans = true.
Proof. destruct v; reflexivity. Qed.

Ltac redc := cbn -[N.mul N.add N.land N.shiftr N.shiftl N.div N.modulo N.ldiff w32 two32 two64].

Lemma conf_read_features m v dt ans : conforms m v dt OReadDeviceFeatures ans = true.
Proof.
  conj5. remember (ans_nth ans 0) as lo. remember (ans_nth ans 1) as hi.
  rewrite join64. destruct v; redc; rewrite N.eqb_refl; reflexivity.
Qed.

Lemma conf_write_features m v dt f ans : f < two64 -> conforms m v dt (OWriteDriverFeatures f) ans = true.
Proof.
  intros Hf. conj5. pose proof (split64 f Hf) as Hs.
  remember (w32 f) as lo. remember (w32 (N.shiftr f 32)) as hi.
  destruct v; redc; rewrite Hs, N.eqb_refl; reflexivity.
Qed.

Lemma conf_max_queue_size m v dt q ans : conforms m v dt (OMaxQueueSize q) ans = true.
Proof.
  conj5. remember (ans_nth ans 0) as a. destruct v; redc; rewrite !N.eqb_refl; reflexivity.
Qed.

Lemma conf_notify m v dt q ans : conforms m v dt (ONotify q) ans = true.
Proof. conj5. destruct v; redc; rewrite !N.eqb_refl; reflexivity. Qed.

Lemma conf_get_status m v dt ans : conforms m v dt OGetStatus ans = true.
Proof. conj5. remember (ans_nth ans 0) as a. destruct v; redc; rewrite !N.eqb_refl; reflexivity. Qed.

Lemma conf_set_status m v dt s ans : conforms m v dt (OSetStatus s) ans = true.
Proof. conj5. destruct v; redc; rewrite !N.eqb_refl; reflexivity. Qed.

Lemma conf_set_guest_page_size m v dt p ans : conforms m v dt (OSetGuestPageSize p) ans = true.
Proof. conj5. destruct v; redc; rewrite ?N.eqb_refl; reflexivity. Qed.

Lemma conf_requires_legacy m v dt ans : conforms m v dt ORequiresLegacyLayout ans = true.
Proof. destruct v; reflexivity. Qed.

Lemma conf_queue_used m v dt q ans : conforms m v dt (OQueueUsed q) ans = true.
Proof. conj5. remember (ans_nth ans 0) as a. destruct v; redc; rewrite !N.eqb_refl; reflexivity. Qed.

Lemma conf_ack m v dt ans : conforms m v dt OAckInterrupt ans = true.
Proof.
  conj5. remember (ans_nth ans 0) as a.
  destruct (a =? 0) eqn:E; cbn [negb fst snd rc_of rv_of].
  - apply N.eqb_eq in E. subst a. rewrite E. destruct v; reflexivity.
  - destruct v; redc; rewrite E, !N.eqb_refl; reflexivity.
Qed.

Lemma conf_config_generation_modern m dt ans : conforms m Modern dt OReadConfigGeneration ans = true.
Proof. conj5. remember (ans_nth ans 0) as a. redc; rewrite !N.eqb_refl; reflexivity. Qed.

Lemma conf_drop m v dt ans : conforms m v dt ODrop ans = true.
Proof. destruct v; reflexivity. Qed.

Lemma conf_vendor m v dt ans : conforms m v dt OVendorId ans = true.
Proof. conj5. remember (ans_nth ans 0) as a. destruct v; redc; rewrite !N.eqb_refl; reflexivity. Qed.

Lemma conf_finish_init m v dt ans : conforms m v dt OFinishInit ans = true.
Proof. destruct v; reflexivity. Qed.

(* --- queue_set --- *)
Lemma conf_queue_set_modern m dt q size desc drv dev ans :
  desc < two64 -> drv < two64 -> dev < two64 ->
  conforms m Modern dt (OQueueSet q size desc drv dev) ans = true.
Proof.
  intros H1 H2 H3. conj5.
  pose proof (split64 desc H1) as S1. pose proof (split64 drv H2) as S2.
  pose proof (split64 dev H3) as S3.
  remember (w32 desc) as dl. remember (w32 (N.shiftr desc 32)) as dh.
  remember (w32 drv) as al. remember (w32 (N.shiftr drv 32)) as ah.
  remember (w32 dev) as ul. remember (w32 (N.shiftr dev 32)) as uh.
  redc. rewrite S1, S2, S3, !N.eqb_refl. reflexivity.
Qed.

Lemma align_up_phys_eq x : align_up_phys x = 4096 * (x / 4096 + 1).
Proof.
  unfold align_up_phys, PAGE_SIZE. change 4095 with (N.ones 12).
  rewrite N.ldiff_ones_r, N.shiftr_div_pow2, N.shiftl_mul_pow2.
  change (2 ^ 12) with 4096. lia.
Qed.

(* what the three asserts and the unwrap of the legacy branch accept *)
Definition legacy_layout_ok (size desc drv dev : N) : Prop :=
  drv = desc + 16 * size /\
  dev = desc + align_up_phys (16 * size + 2 * (size + 3)) /\
  desc mod 4096 = 0 /\ desc / 4096 < two32.

Lemma legacy_checks_spec m size desc drv dev :
  size < two32 -> desc < two64 -> drv < two64 -> dev < two64 ->
  (legacy_layout_ok size desc drv dev ->
     legacy_queue_set_checks m size desc drv dev = Ok (desc / 4096)) /\
  (~ legacy_layout_ok size desc drv dev ->
     legacy_queue_set_checks m size desc drv dev = Panic).
Proof.
  intros Hs H1 H2 H3. unfold legacy_layout_ok, legacy_queue_set_checks, sub_u64, PAGE_SIZE.
  assert (Hal : align_up_phys (16 * size + 2 * (size + 3)) <= 16 * size + 2 * (size + 3) + 4096)
    by (rewrite align_up_phys_eq; lia).
  remember (align_up_phys (16 * size + 2 * (size + 3))) as al.
  unfold two32, two64 in *.
  split.
  - intros (E1 & E2 & E3 & E4).
    destruct (N.leb_spec desc drv); [|lia].
    destruct (N.eqb_spec (drv - desc) (16 * size)); [|lia]. cbn [negb].
    destruct (N.leb_spec desc dev); [|lia].
    destruct (N.eqb_spec (dev - desc) al); [|lia]. cbn [negb].
    destruct (N.leb_spec 4294967296 (desc / 4096)); [lia|].
    destruct (N.eqb_spec (desc / 4096 * 4096) desc); [reflexivity|lia].
  - intros Hn.
    destruct (N.leb_spec desc drv).
    + destruct (N.eqb_spec (drv - desc) (16 * size)); [|reflexivity]. cbn [negb].
      destruct (N.leb_spec desc dev).
      * destruct (N.eqb_spec (dev - desc) al); [|reflexivity]. cbn [negb].
        destruct (N.leb_spec 4294967296 (desc / 4096)); [reflexivity|].
        destruct (N.eqb_spec (desc / 4096 * 4096) desc); [|reflexivity].
        exfalso. apply Hn. repeat split; lia.
      * destruct m; [reflexivity|].
        destruct (N.eqb_spec (dev + 18446744073709551616 - desc) al); [|reflexivity]. cbn [negb].
        destruct (N.leb_spec 4294967296 (desc / 4096)); [reflexivity|].
        destruct (N.eqb_spec (desc / 4096 * 4096) desc); [|reflexivity].
        exfalso. lia.
    + destruct m; [reflexivity|].
      destruct (N.eqb_spec (drv + 18446744073709551616 - desc) (16 * size)); [|reflexivity].
      cbn [negb].
      assert (Hbig : 4294967296 <= desc / 4096) by lia.
      destruct (N.leb_spec desc dev).
      * destruct (N.eqb_spec (dev - desc) al); [|reflexivity]. cbn [negb].
        destruct (N.leb_spec 4294967296 (desc / 4096)); [reflexivity|lia].
      * destruct (N.eqb_spec (dev + 18446744073709551616 - desc) al); [|reflexivity]. cbn [negb].
        destruct (N.leb_spec 4294967296 (desc / 4096)); [reflexivity|lia].
Qed.

Lemma legacy_checks_outcome m size desc drv dev :
  (exists pfn, legacy_queue_set_checks m size desc drv dev = Ok pfn /\ pfn * 4096 = desc /\ pfn < two32)
  \/ legacy_queue_set_checks m size desc drv dev = Panic.
Proof.
  unfold legacy_queue_set_checks, PAGE_SIZE.
  destruct (sub_u64 m drv desc) as [d1| | |] eqn:E1; auto.
  destruct (negb (d1 =? 16 * size)); auto.
  destruct (sub_u64 m dev desc) as [d2| | |] eqn:E2; auto.
  destruct (negb (d2 =? _)); auto.
  destruct (N.leb_spec two32 (desc / 4096)); auto.
  destruct (N.eqb_spec (desc / 4096 * 4096) desc); auto.
  left. eexists; repeat split; eauto.
Qed.

Lemma conf_queue_set_legacy m dt q size desc drv dev ans :
  conforms m Legacy dt (OQueueSet q size desc drv dev) ans = true.
Proof.
  conj5.
  destruct (legacy_checks_outcome m size desc drv dev) as [(pfn & E & Hp & _)|E]; rewrite E.
  - cbn [fst snd rc_of rv_of]. unfold PAGE_SIZE.
    destruct (pfn =? 0) eqn:Z; redc; rewrite ?Z, Hp, !N.eqb_refl; reflexivity.
  - reflexivity.
Qed.

(* --- queue_unset --- *)
Lemma conf_queue_unset_legacy m dt q ans : conforms m Legacy dt (OQueueUnset q) ans = true.
Proof. conj5. redc. rewrite !N.eqb_refl. reflexivity. Qed.

(* the busy-wait of the modern branch: reads of QueueReady only, the last one answering 0 *)
Lemma spin_forall (P : access -> bool) ans :
  (forall x, P (R o_queue_ready x) = true) -> forallb P (spin_ready ans) = true.
Proof.
  intros HP. induction ans as [|a t IH]; cbn [spin_ready].
  - cbn. rewrite HP. reflexivity.
  - destruct (w32 a =? 0); cbn [forallb]; rewrite HP; [reflexivity|exact IH].
Qed.

Lemma spin_filter_none (P : access -> bool) ans :
  (forall x, P (R o_queue_ready x) = false) -> filter P (spin_ready ans) = [].
Proof.
  intros HP. induction ans as [|a t IH]; cbn [spin_ready].
  - cbn. rewrite HP. reflexivity.
  - destruct (w32 a =? 0); cbn [filter]; rewrite HP; [reflexivity|exact IH].
Qed.

Lemma spin_qsel oq ans t :
  qsel_scan Modern oq true (spin_ready ans ++ t) = qsel_scan Modern oq true t.
Proof.
  induction ans as [|a u IH]; cbn [spin_ready].
  - reflexivity.
  - destruct (w32 a =? 0); [reflexivity|].
    change ((R o_queue_ready (w32 a) :: spin_ready u) ++ t)
      with (R o_queue_ready (w32 a) :: (spin_ready u ++ t)).
    cbn [qsel_scan]. change (is_w S_QueueSel (R o_queue_ready (w32 a))) with false.
    change (perq Modern (a_off (R o_queue_ready (w32 a)))) with true. cbn [andb]. exact IH.
Qed.

Lemma spin_enable w ans t :
  enable_scan Modern w (spin_ready ans ++ t) = enable_scan Modern w t.
Proof.
  induction ans as [|a u IH]; cbn [spin_ready].
  - reflexivity.
  - destruct (w32 a =? 0); [reflexivity|].
    change ((R o_queue_ready (w32 a) :: spin_ready u) ++ t)
      with (R o_queue_ready (w32 a) :: (spin_ready u ++ t)).
    cbn [enable_scan]. change (is_w S_QueueSel (R o_queue_ready (w32 a))) with false.
    change (is_enable Modern (R o_queue_ready (w32 a))) with false.
    change (a_write (R o_queue_ready (w32 a))) with false. cbn iota. exact IH.
Qed.

Lemma spin_sync s ans t : ready_sync s (spin_ready ans ++ t) = ready_sync true t.
Proof.
  revert s. induction ans as [|a u IH]; intros s; cbn [spin_ready].
  - reflexivity.
  - destruct (w32 a =? 0) eqn:E; [reflexivity|].
    change ((R o_queue_ready (w32 a) :: spin_ready u) ++ t)
      with (R o_queue_ready (w32 a) :: (spin_ready u ++ t)).
    cbn [ready_sync]. change (is_w S_QueueReady (R o_queue_ready (w32 a))) with false.
    change (is_r S_QueueReady (R o_queue_ready (w32 a))) with true. cbn iota. apply IH.
Qed.

Lemma wvals_app off a b : wvals off (a ++ b) = wvals off a ++ wvals off b.
Proof. unfold wvals. rewrite filter_app, map_app. reflexivity. Qed.

Lemma spin_wvals off ans : wvals off (spin_ready ans) = [].
Proof. unfold wvals. rewrite spin_filter_none; [reflexivity|]. intros x. reflexivity. Qed.

Lemma and5 a b c d e :
  a = true -> b = true -> c = true -> d = true -> e = true -> a && b && c && d && e = true.
Proof. intros -> -> -> -> ->. reflexivity. Qed.
Lemma and4 a b c d : a = true -> b = true -> c = true -> d = true -> a && b && (c && d) = true.
Proof. intros -> -> -> ->. reflexivity. Qed.

Lemma conf_queue_unset_modern m dt q ans : conforms m Modern dt (OQueueUnset q) ans = true.
Proof.
  conj5.
  set (pre := [W o_queue_sel q; W o_queue_ready 0]).
  set (post := [W o_queue_num 0; W o_queue_desc_low 0; W o_queue_desc_high 0;
                W o_queue_driver_low 0; W o_queue_driver_high 0;
                W o_queue_device_low 0; W o_queue_device_high 0]).
  apply and5.
  - unfold table_ok. rewrite !forallb_app, spin_forall; [reflexivity|]. intros x. reflexivity.
  - rewrite !forallb_app, spin_forall; [reflexivity|]. intros x. reflexivity.
  - subst pre. cbn [app qsel_scan].
    change (is_w S_QueueSel (W o_queue_sel q)) with true. cbn iota.
    unfold queue_of. cbn [N.eqb Pos.eqb orb]. change (a_val (W o_queue_sel q)) with q.
    rewrite N.eqb_refl. cbn [andb].
    change (is_w S_QueueSel (W o_queue_ready 0)) with false. cbn iota.
    change (perq Modern (a_off (W o_queue_ready 0))) with true. cbn iota. cbn [andb].
    rewrite spin_qsel. reflexivity.
  - subst pre. cbn [app enable_scan].
    change (is_w S_QueueSel (W o_queue_sel q)) with true. cbn iota.
    change (is_w S_QueueSel (W o_queue_ready 0)) with false. cbn iota.
    change (is_enable Modern (W o_queue_ready 0)) with false. cbn iota.
    change (a_write (W o_queue_ready 0)) with true. cbn iota.
    rewrite spin_enable. reflexivity.
  - cbn [op_ok]. rewrite !wvals_app, !spin_wvals.
    apply and4.
    + subst pre post. redc. rewrite N.eqb_refl. reflexivity.
    + rewrite !forallb_app, spin_forall; [|intros x; reflexivity].
      subst pre post. reflexivity.
    + reflexivity.
    + subst pre. cbn [app ready_sync].
      change (is_w S_QueueReady (W o_queue_sel q)) with false. cbn iota.
      change (is_r S_QueueReady (W o_queue_sel q)) with false. cbn iota.
      change (a_write (W o_queue_sel q) && memN (a_off (W o_queue_sel q)) (params Modern)) with false.
      cbn iota.
      change (is_w S_QueueReady (W o_queue_ready 0)) with true. cbn iota.
      rewrite spin_sync. reflexivity.
Qed.

(* --- begin_init (provided method of the trait, run on this transport) --- *)
Lemma conf_begin_init m v dt s ans : s < two64 -> conforms m v dt (OBeginInit s) ans = true.
Proof.
  intros Hs. conj5.
  remember (ans_nth ans 0) as lo. remember (ans_nth ans 1) as hi.
  rewrite join64. remember (lo + two32 * hi) as device.
  pose proof (split64 _ (land_lt64 device s Hs)) as Hn.
  remember (N.land device s) as neg.
  remember (w32 neg) as nl. remember (w32 (N.shiftr neg 32)) as nh.
  remember (negb (N.land device VERSION_1_BIT =? 0) && (N.land neg VERSION_1_BIT =? 0)) as dbg.
  destruct m; [destruct dbg|]; destruct v; cbn [fst snd rc_of rv_of]; unfold PAGE_SIZE;
    redc; rewrite ?Hn, ?N.eqb_refl; reflexivity.
Qed.

(* ---------- C10_ops_conform ---------- *)
(* one case is false on the code as written: see ops_conform_refuted below *)
Theorem ops_conform m v dt o ans :
  args_in_range o ->
  ~ (v = Legacy /\ o = OReadConfigGeneration) ->
  conforms m v dt o ans = true.
Proof.
  intros Hr Hx. destruct o; cbn [args_in_range] in Hr.
  - apply conf_simple_0.
  - apply conf_read_features.
  - apply conf_write_features; assumption.
  - apply conf_max_queue_size.
  - apply conf_notify.
  - apply conf_get_status.
  - apply conf_set_status.
  - apply conf_set_guest_page_size.
  - apply conf_requires_legacy.
  - destruct Hr as (_ & _ & H1 & H2 & H3).
    destruct v; [apply conf_queue_set_legacy | apply conf_queue_set_modern; assumption].
  - destruct v; [apply conf_queue_unset_legacy | apply conf_queue_unset_modern].
  - apply conf_queue_used.
  - apply conf_ack.
  - destruct v; [exfalso; apply Hx; split; reflexivity | apply conf_config_generation_modern].
  - apply conf_drop.
  - apply conf_vendor.
  - apply conf_begin_init; assumption.
  - apply conf_finish_init.
Qed.

(* since the repair the excluded case conforms too: nothing is accessed on a legacy device *)
Lemma legacy_config_generation_trace m dt ans :
  exec m Legacy dt OReadConfigGeneration ans = (Ok 0, [])
  /\ lookup Legacy 0x0fc = None /\ (exists r, lookup Modern 0x0fc = Some r /\ r_dir r = RO).
Proof. repeat split. eexists; split; reflexivity. Qed.

Theorem ops_conform_all m v dt o ans :
  args_in_range o -> conforms m v dt o ans = true.
Proof.
  intros Hr.
  assert (Hc : (v = Legacy /\ o = OReadConfigGeneration) \/ ~ (v = Legacy /\ o = OReadConfigGeneration)).
  { destruct v; [|right; intros [E _]; discriminate E].
    destruct o; try (right; intros [_ E]; discriminate E). left. split; reflexivity. }
  destruct Hc as [[-> ->]|Hx]; [reflexivity|]. apply ops_conform; assumption.
Qed.

(* before the repair read_config_generation did not look at the version: on a legacy device it read
   offset 0x0fc, where the legacy register layout (4.2.4) defines nothing *)
Theorem ops_conform_refuted :
  exists ans,
    snd (read_config_generation_prefix ans) = [R 0x0fc 0] /\ lookup Legacy 0x0fc = None
    /\ mmio_conform_b Legacy 13 0 0 0 0 0 0 0 (snd (read_config_generation_prefix ans)) = false.
Proof. exists []. repeat split. Qed.

(* ---------- what the boolean predicate means, as propositions ---------- *)
Lemma memN_In x l : memN x l = true <-> In x l.
Proof.
  induction l as [|y t IH]; cbn [memN In]; [split; [discriminate|tauto]|].
  rewrite orb_true_iff, IH, N.eqb_eq. split; intros [H|H]; auto.
Qed.

Lemma lookup_sound v off r :
  lookup v off = Some r -> In r regtable /\ r_off r = off /\ in_version v r = true.
Proof.
  unfold lookup. intros H. apply find_some in H. destruct H as [Hi H].
  apply andb_true_iff in H. destruct H as [H1 H2]. apply N.eqb_eq in H1. auto.
Qed.

(* every access: 4 bytes, a register the table defines for this version, permitted direction *)
Lemma table_ok_sound v tr : table_ok v tr = true ->
  forall a, In a tr ->
    a_width a = 4 /\
    exists r, In r regtable /\ r_off r = a_off a /\ in_version v r = true /\
              dir_ok (r_dir r) (a_write a) = true.
Proof.
  unfold table_ok. rewrite forallb_forall. intros H a Ha. specialize (H a Ha).
  unfold acc_ok in H. apply andb_true_iff in H. destruct H as [Hw H]. apply N.eqb_eq in Hw.
  split; [exact Hw|]. destruct (lookup v (a_off a)) as [r|] eqn:E; [|discriminate].
  destruct (lookup_sound _ _ _ E) as (H1 & H2 & H3). exists r. auto.
Qed.

(* no read of a write-only and no write of a read-only register *)
Lemma dir_ok_meaning d w : dir_ok d w = true ->
  (d = WO -> w = true) /\ (d = RO -> w = false).
Proof. destruct d, w; cbn; intros H; split; intros E; try discriminate; auto. Qed.

Lemma perq_not_sel v off : perq v off = true -> off <> S_QueueSel.
Proof. intros H ->. destruct v; discriminate H. Qed.

(* a per-queue register is only touched after QueueSel has been written, earlier in the same
   operation (with the operation's queue index when it has one) *)
Lemma qsel_scan_sound v oq tr : forall sel,
  qsel_scan v oq sel tr = true ->
  forall pre a post, tr = pre ++ a :: post -> perq v (a_off a) = true ->
    sel = true \/
    exists p1 s p2, pre = p1 ++ s :: p2 /\ a_write s = true /\ a_off s = S_QueueSel /\
                    (forall q, oq = Some q -> a_val s = q).
Proof.
  induction tr as [|x t IH]; intros sel H pre a post E Hp.
  - destruct pre; discriminate E.
  - cbn [qsel_scan] in H. destruct pre as [|y pre'].
    + cbn [app] in E. injection E as -> ->.
      assert (Hn : is_w S_QueueSel a = false).
      { unfold is_w. destruct (N.eqb_spec (a_off a) S_QueueSel) as [e|e];
          [exfalso; exact (perq_not_sel _ _ Hp e)|apply andb_false_r]. }
      rewrite Hn, Hp in H. apply andb_true_iff in H. left. tauto.
    + cbn [app] in E. injection E as -> ->.
      destruct (is_w S_QueueSel y) eqn:Ey.
      * apply andb_true_iff in H. destruct H as [Hq H].
        right. destruct (IH true H pre' a post eq_refl Hp) as [_|(p1 & s & p2 & -> & Hs)].
        -- exists [], y, pre'. unfold is_w in Ey. apply andb_true_iff in Ey.
           destruct Ey as [E1 E2]. apply N.eqb_eq in E2. repeat split; auto.
           intros q ->. apply N.eqb_eq in Hq. exact Hq.
        -- exists (y :: p1), s, p2. auto.
      * destruct (perq v (a_off y)).
        -- apply andb_true_iff in H. destruct H as [-> H]. left. reflexivity.
        -- destruct (IH sel H pre' a post eq_refl Hp) as [Hs|(p1 & s & p2 & -> & Hs)]; auto.
           right. exists (y :: p1), s, p2. auto.
Qed.

Lemma is_enable_not_sel v a : is_enable v a = true -> is_w S_QueueSel a = false.
Proof.
  unfold is_enable, is_w. intros H. apply andb_true_iff in H. destruct H as [H _].
  apply andb_true_iff in H. destruct H as [Hw H]. rewrite Hw. cbn [andb].
  destruct v; apply N.eqb_eq in H; rewrite H; reflexivity.
Qed.

(* the write that enables a queue (QueueReady := non-zero / QueuePFN := non-zero) is the last access of
   the operation, and every parameter register of the version has been written before it *)
Lemma enable_scan_sound v tr : forall w,
  enable_scan v w tr = true ->
  forall pre a post, tr = pre ++ a :: post -> is_enable v a = true ->
    post = [] /\
    forall p, In p (params v) ->
      In p w \/ exists x, In x pre /\ a_write x = true /\ a_off x = p.
Proof.
  induction tr as [|x t IH]; intros w H pre a post E He.
  - destruct pre; discriminate E.
  - cbn [enable_scan] in H. destruct pre as [|y pre'].
    + cbn [app] in E. injection E as -> ->.
      rewrite (is_enable_not_sel _ _ He), He in H. apply andb_true_iff in H. destruct H as [H1 H2].
      split; [destruct post; [reflexivity|discriminate]|].
      intros p Hp. left. rewrite forallb_forall in H2. apply memN_In. apply H2. exact Hp.
    + cbn [app] in E. injection E as -> ->.
      destruct (is_w S_QueueSel y) eqn:Ey.
      * destruct (IH [] H pre' a post eq_refl He) as [Hl Hp]. split; [exact Hl|].
        intros p Hin. destruct (Hp p Hin) as [[]|(z & Hz & Hz')]. right. exists z. cbn; auto.
      * destruct (is_enable v y).
        -- apply andb_true_iff in H. destruct H as [H _]. destruct pre'; discriminate H.
        -- destruct (a_write y) eqn:Ew.
           ++ destruct (IH _ H pre' a post eq_refl He) as [Hl Hp]. split; [exact Hl|].
              intros p Hin. destruct (Hp p Hin) as [[<-|Hw]|(z & Hz & Hz')]; auto.
              ** right. exists y. cbn; auto.
              ** right. exists z. cbn; auto.
           ++ destruct (IH _ H pre' a post eq_refl He) as [Hl Hp]. split; [exact Hl|].
              intros p Hin. destruct (Hp p Hin) as [Hw|(z & Hz & Hz')]; auto.
              right. exists z. cbn; auto.
Qed.

Definition arg (o : op) (k : nat) : N := nth k (op_args o) 0.

Lemma conforms_unfold m v dt o ans :
  conforms m v dt o ans =
  mmio_conform_b v (op_code o) (arg o 0) (arg o 1) (arg o 2) (arg o 3) (arg o 4)
    (rc_of (fst (exec m v dt o ans))) (rv_of (fst (exec m v dt o ans))) (snd (exec m v dt o ans)).
Proof. destruct o; reflexivity. Qed.

Lemma conform_parts v opc a1 a2 a3 a4 a5 rc rv tr :
  mmio_conform_b v opc a1 a2 a3 a4 a5 rc rv tr = true ->
  table_ok v tr = true /\ forallb (fun a => memN (a_off a) (allowed v opc)) tr = true /\
  qsel_scan v (queue_of opc a1) false tr = true /\ enable_scan v [] tr = true /\
  op_ok v opc a1 a2 a3 a4 a5 rc rv tr = true.
Proof. unfold mmio_conform_b. rewrite !andb_true_iff. tauto. Qed.

(* ---------- C10_accesses_defined: the first clause of the property, as a proposition ---------- *)
Theorem ops_accesses_defined m v dt o ans :
  args_in_range o -> ~ (v = Legacy /\ o = OReadConfigGeneration) ->
  forall a, In a (snd (exec m v dt o ans)) ->
    a_width a = 4 /\
    (exists r, In r regtable /\ r_off r = a_off a /\ in_version v r = true /\
               (r_dir r = WO -> a_write a = true) /\ (r_dir r = RO -> a_write a = false)) /\
    In (a_off a) (allowed v (op_code o)).
Proof.
  intros Hr Hx a Ha. pose proof (ops_conform m v dt o ans Hr Hx) as H.
  rewrite conforms_unfold in H. apply conform_parts in H. destruct H as (H1 & H2 & _).
  destruct (table_ok_sound _ _ H1 a Ha) as (Hw & r & Hi & Ho & Hv & Hd).
  split; [exact Hw|]. split.
  - exists r. destruct (dir_ok_meaning _ _ Hd). auto.
  - rewrite forallb_forall in H2. apply memN_In. apply H2. exact Ha.
Qed.

(* the queue-selection clause; it holds for every operation and version, the refuted case included *)
Lemma ops_qsel m v dt o ans :
  args_in_range o ->
  qsel_scan v (queue_of (op_code o) (arg o 0)) false (snd (exec m v dt o ans)) = true
  /\ enable_scan v [] (snd (exec m v dt o ans)) = true.
Proof.
  intros Hr.
  assert (Hc : (v = Legacy /\ o = OReadConfigGeneration) \/ ~ (v = Legacy /\ o = OReadConfigGeneration)).
  { destruct v; [|right; intros [E _]; discriminate].
    destruct o; try (right; intros [_ E]; discriminate). left; auto. }
  destruct Hc as [[-> ->]|Hx]; [split; reflexivity|].
  pose proof (ops_conform m v dt o ans Hr Hx) as H.
  rewrite conforms_unfold in H. apply conform_parts in H. tauto.
Qed.

Theorem ops_queue_selected m v dt o ans :
  args_in_range o ->
  forall pre a post, snd (exec m v dt o ans) = pre ++ a :: post -> perq v (a_off a) = true ->
    exists p1 s p2, pre = p1 ++ s :: p2 /\ a_write s = true /\ a_off s = S_QueueSel /\
                    (forall q, queue_of (op_code o) (arg o 0) = Some q -> a_val s = q).
Proof.
  intros Hr pre a post E Hp. destruct (ops_qsel m v dt o ans Hr) as [H _].
  destruct (qsel_scan_sound _ _ _ _ H pre a post E Hp) as [F|F]; [discriminate|exact F].
Qed.

Theorem ops_enable_last m v dt o ans :
  args_in_range o ->
  forall pre a post, snd (exec m v dt o ans) = pre ++ a :: post -> is_enable v a = true ->
    post = [] /\
    forall p, In p (params v) -> exists x, In x pre /\ a_write x = true /\ a_off x = p.
Proof.
  intros Hr pre a post E He. destruct (ops_qsel m v dt o ans Hr) as [_ H].
  destruct (enable_scan_sound _ _ _ H pre a post E He) as [Hl Hp]. split; [exact Hl|].
  intros p Hin. destruct (Hp p Hin) as [[]|F]. exact F.
Qed.

(* ---------- what each operation does, exactly (offsets are those of the specification) ---------- *)

(* modern queue_set: QueueSel, QueueNum, the three address pairs, QueueReady := 1 last *)
Theorem modern_queue_set_trace m dt q size desc drv dev ans :
  desc < two64 -> drv < two64 -> dev < two64 ->
  exists dl dh al ah ul uh,
    exec m Modern dt (OQueueSet q size desc drv dev) ans =
      (Ok 0, [W S_QueueSel q; W S_QueueNum size;
              W S_QueueDescLow dl; W S_QueueDescHigh dh;
              W S_QueueDriverLow al; W S_QueueDriverHigh ah;
              W S_QueueDeviceLow ul; W S_QueueDeviceHigh uh;
              W S_QueueReady 1])
    /\ dl + two32 * dh = desc /\ al + two32 * ah = drv /\ ul + two32 * uh = dev
    /\ dl = desc mod two32 /\ dh = desc / two32
    /\ al = drv mod two32 /\ ah = drv / two32
    /\ ul = dev mod two32 /\ uh = dev / two32
    /\ dl < two32 /\ dh < two32 /\ al < two32 /\ ah < two32 /\ ul < two32 /\ uh < two32.
Proof.
  intros H1 H2 H3.
  exists (w32 desc), (w32 (N.shiftr desc 32)), (w32 drv), (w32 (N.shiftr drv 32)),
         (w32 dev), (w32 (N.shiftr dev 32)).
  destruct (split64_words desc H1), (split64_words drv H2), (split64_words dev H3).
  repeat split; auto using split64, w32_lt.
Qed.

(* legacy queue_set: accepted exactly for the layout the asserts describe (in both profiles);
   then QueueSel, QueueNum, QueueAlign := 4096, QueuePFN := descriptors / 4096 last; otherwise a panic
   before the first access *)
Theorem legacy_queue_set_trace m dt q size desc drv dev ans :
  size < two32 -> desc < two64 -> drv < two64 -> dev < two64 ->
  (legacy_layout_ok size desc drv dev ->
     exec m Legacy dt (OQueueSet q size desc drv dev) ans =
       (Ok 0, [W S_QueueSel q; W S_QueueNum size; W S_QueueAlign 4096; W S_QueuePFN (desc / 4096)])
     /\ desc / 4096 * 4096 = desc) /\
  (~ legacy_layout_ok size desc drv dev ->
     exec m Legacy dt (OQueueSet q size desc drv dev) ans = (Panic, [])).
Proof.
  intros Hs H1 H2 H3. destruct (legacy_checks_spec m size desc drv dev Hs H1 H2 H3) as [Ha Hb].
  split; intros H; cbn [exec].
  - rewrite (Ha H). split; [reflexivity|]. destruct H as (_ & _ & Hm & _). lia.
  - rewrite (Hb H). reflexivity.
Qed.

(* the used-ring offset the asserts demand is the code's align_up_phys, which is the specification's
   ALIGN except on multiples of the page size, where it is a page further (C06 shows that the sixteen
   power-of-two sizes never hit that case; 1365 is the smallest size that does) *)
Lemma legacy_asserted_offset_overshoots :
  let n := 1365 in
  (16 * n + 2 * (n + 3)) mod 4096 = 0 /\
  align_up_phys (16 * n + 2 * (n + 3)) = (16 * n + 2 * (n + 3)) + 4096.
Proof. split; reflexivity. Qed.

(* begin_init on a legacy device ends by announcing the guest page size *)
Theorem begin_init_legacy_page_size m dt s ans r :
  fst (exec m Legacy dt (OBeginInit s) ans) = Ok r ->
  exists t, snd (exec m Legacy dt (OBeginInit s) ans) = t ++ [W S_GuestPageSize 4096]
            /\ no_reads (filter (fun a => a_off a =? S_GuestPageSize) t) = true
            /\ wvals S_QueuePFN t = [].
Proof.
  cbn [exec]. unfold read_device_features_trace, write_driver_features_trace.
  remember (ans_nth ans 0) as lo. remember (ans_nth ans 1) as hi.
  remember (N.land (lo + N.shiftl hi 32) s) as neg.
  remember (w32 neg) as nl. remember (w32 (N.shiftr neg 32)) as nh.
  destruct m.
  - destruct (negb (N.land (lo + N.shiftl hi 32) VERSION_1_BIT =? 0) && (N.land neg VERSION_1_BIT =? 0));
      cbn [fst snd]; [discriminate|]. intros _.
    (exists [W o_status 0; W o_status 3; W o_device_features_sel 0; R o_device_features lo;
             W o_device_features_sel 1; R o_device_features hi; W o_driver_features_sel 0;
             W o_driver_features nl; W o_driver_features_sel 1; W o_driver_features nh; W o_status 11]).
    repeat split; reflexivity.
  - cbn [fst snd]. intros _.
    (exists [W o_status 0; W o_status 3; W o_device_features_sel 0; R o_device_features lo;
             W o_device_features_sel 1; R o_device_features hi; W o_driver_features_sel 0;
             W o_driver_features nl; W o_driver_features_sel 1; W o_driver_features nh; W o_status 11]).
    repeat split; reflexivity.
Qed.

(* features: two 32-bit words under selectors 0 and 1 *)
Theorem read_features_trace m v dt ans :
  exists lo hi,
    exec m v dt OReadDeviceFeatures ans =
      (Ok (lo + two32 * hi),
       [W S_DeviceFeaturesSel 0; R S_DeviceFeatures lo; W S_DeviceFeaturesSel 1; R S_DeviceFeatures hi])
    /\ lo = ans_nth ans 0 /\ hi = ans_nth ans 1 /\ lo < two32 /\ hi < two32
    /\ lo + two32 * hi < two64.
Proof.
  exists (ans_nth ans 0), (ans_nth ans 1). cbn [exec]. rewrite join64.
  pose proof (w32_lt (nth 0 ans 0)). pose proof (w32_lt (nth 1 ans 0)).
  unfold ans_nth, two32, two64 in *. repeat split; auto. lia.
Qed.

Theorem write_features_trace m v dt f ans :
  f < two64 ->
  exists lo hi,
    exec m v dt (OWriteDriverFeatures f) ans =
      (Ok 0,
       [W S_DriverFeaturesSel 0; W S_DriverFeatures lo; W S_DriverFeaturesSel 1; W S_DriverFeatures hi])
    /\ lo + two32 * hi = f /\ lo = f mod two32 /\ hi = f / two32.
Proof.
  intros H. exists (w32 f), (w32 (N.shiftr f 32)). destruct (split64_words f H).
  repeat split; auto using split64.
Qed.

(* ack_interrupt: the bits read are written back unchanged; nothing is written when none is set *)
Theorem ack_interrupt_trace m v dt ans :
  let a := ans_nth ans 0 in
  (a <> 0 ->
     exec m v dt OAckInterrupt ans = (Ok (N.land a 3), [R S_InterruptStatus a; W S_InterruptACK a])) /\
  (a = 0 ->
     exec m v dt OAckInterrupt ans = (Ok 0, [R S_InterruptStatus 0])).
Proof.
  cbn zeta. cbn [exec]. split; intros H.
  - destruct (N.eqb_spec (ans_nth ans 0) 0); [contradiction|reflexivity].
  - rewrite H. reflexivity.
Qed.

(* dropping the transport: one write, Status := 0 *)
Theorem drop_trace m v dt ans : exec m v dt ODrop ans = (Ok 0, [W S_Status 0]).
Proof. reflexivity. Qed.

(* the remaining operations *)
Theorem simple_traces m v dt ans q s :
  exec m v dt ODeviceType ans = (Ok dt, []) /\
  exec m v dt ORequiresLegacyLayout ans = (Ok (match v with Legacy => 1 | Modern => 0 end), []) /\
  exec m v dt (OMaxQueueSize q) ans = (Ok (ans_nth ans 0), [W S_QueueSel q; R S_QueueNumMax (ans_nth ans 0)]) /\
  exec m v dt (ONotify q) ans = (Ok 0, [W S_QueueNotify q]) /\
  exec m v dt OGetStatus ans = (Ok (ans_nth ans 0), [R S_Status (ans_nth ans 0)]) /\
  exec m v dt (OSetStatus s) ans = (Ok 0, [W S_Status s]) /\
  exec m v dt (OSetGuestPageSize s) ans =
    (Ok 0, match v with Legacy => [W S_GuestPageSize s] | Modern => [] end) /\
  exec m v dt (OQueueUsed q) ans =
    (Ok (b2n (negb (ans_nth ans 0 =? 0))),
     [W S_QueueSel q; R (match v with Legacy => S_QueuePFN | Modern => S_QueueReady end) (ans_nth ans 0)]) /\
  exec m Modern dt OReadConfigGeneration ans = (Ok (ans_nth ans 0), [R S_ConfigGeneration (ans_nth ans 0)]) /\
  exec m v dt OFinishInit ans = (Ok 0, [W S_Status 15]).
Proof. destruct v; repeat split; reflexivity. Qed.

(* queue_unset: legacy clears QueueNum, QueueAlign, QueuePFN; modern clears QueueReady, reads it back
   until the device answers 0 (k non-zero answers first), then clears the size and the six address words *)
Theorem queue_unset_legacy_trace m dt q ans :
  exec m Legacy dt (OQueueUnset q) ans =
    (Ok 0, [W S_QueueSel q; W S_QueueNum 0; W S_QueueAlign 0; W S_QueuePFN 0]).
Proof. reflexivity. Qed.

Theorem queue_unset_modern_trace m dt q ans :
  exists spin,
    exec m Modern dt (OQueueUnset q) ans =
      (Ok 0, [W S_QueueSel q; W S_QueueReady 0] ++ spin ++
             [W S_QueueNum 0; W S_QueueDescLow 0; W S_QueueDescHigh 0; W S_QueueDriverLow 0;
              W S_QueueDriverHigh 0; W S_QueueDeviceLow 0; W S_QueueDeviceHigh 0])
    /\ (exists nz, spin = map (R S_QueueReady) nz ++ [R S_QueueReady 0] /\ Forall (fun x => x <> 0) nz).
Proof.
  exists (spin_ready ans). split; [reflexivity|].
  induction ans as [|a t IH]; cbn [spin_ready].
  - exists []. split; [reflexivity|constructor].
  - destruct (N.eqb_spec (w32 a) 0) as [E|E].
    + exists []. split; [reflexivity|constructor].
    + destruct IH as (nz & -> & Hf). exists (w32 a :: nz). split; [reflexivity|constructor; auto].
Qed.

(* no operation other than the legacy queue_set (its asserts) and begin_init in the debug profile (its
   debug_assert) can panic, and none reports an error or undefined behaviour *)
Theorem ops_outcomes m v dt o ans :
  match fst (exec m v dt o ans) with
  | Ok _ => True
  | Panic => (v = Legacy /\ exists q n a b c, o = OQueueSet q n a b c) \/
             (m = Debug /\ exists s, o = OBeginInit s)
  | _ => False
  end.
Proof.
  destruct o; cbn [exec fst]; try exact I.
  - destruct v; exact I.
  - destruct v; [|exact I].
    destruct (legacy_queue_set_checks m size descriptors driver_area device_area); cbn [fst];
      try exact I; left; split; eauto 10.
  - destruct v; exact I.
  - destruct (negb (ans_nth ans 0 =? 0)); exact I.
  - destruct v; exact I.
  - destruct m; [|exact I]. destruct (_ && _); cbn [fst]; [right; eauto|exact I].
Qed.

(* ---------- legacy: the guest page size is announced before any queue's page frame number ---------- *)
Lemma gps_run_app g a b :
  gps_run g (a ++ b) = match gps_run g a with Some g' => gps_run g' b | None => None end.
Proof.
  revert g. induction a as [|x t IH]; intros g; [reflexivity|].
  cbn [app gps_run].
  destruct (is_w S_Status x && (a_val x =? 0)); [apply IH|].
  destruct (is_w S_GuestPageSize x && negb (a_val x =? 0)); [apply IH|].
  destruct (is_w S_QueuePFN x && negb (a_val x =? 0)); [|apply IH].
  destruct g; [apply IH|reflexivity].
Qed.

(* an operation together with the answers the device gives during it *)
Definition opans : Type := (op * list N)%type.

(* operations that neither reset the device nor redo the initialisation *)
Definition keeps_gps (o : op) : bool :=
  match o with
  | OSetStatus _ | ODrop | OBeginInit _ | OSetGuestPageSize _ => false
  | _ => true
  end.

Lemma gps_op m dt o ans :
  keeps_gps o = true -> gps_run true (snd (exec m Legacy dt o ans)) = Some true.
Proof.
  destruct o; cbn [keeps_gps]; try discriminate; intros _; cbn [exec snd];
    unfold read_device_features_trace, write_driver_features_trace; try reflexivity.
  - destruct (legacy_queue_set_checks m size descriptors driver_area device_area) as [pfn| | |];
      cbn [snd]; try reflexivity.
    cbn [gps_run]. change (is_w S_Status (W o_queue_sel queue)) with false.
    change (is_w S_GuestPageSize (W o_queue_sel queue)) with false.
    change (is_w S_QueuePFN (W o_queue_sel queue)) with false.
    change (is_w S_Status (W o_queue_num size)) with false.
    change (is_w S_GuestPageSize (W o_queue_num size)) with false.
    change (is_w S_QueuePFN (W o_queue_num size)) with false.
    cbn [andb]. cbn iota.
    change (is_w S_Status (W o_queue_align PAGE_SIZE)) with false.
    change (is_w S_GuestPageSize (W o_queue_align PAGE_SIZE)) with false.
    change (is_w S_QueuePFN (W o_queue_align PAGE_SIZE)) with false.
    change (is_w S_Status (W o_queue_pfn pfn)) with false.
    change (is_w S_GuestPageSize (W o_queue_pfn pfn)) with false.
    cbn [andb]. cbn iota.
    destruct (is_w S_QueuePFN (W o_queue_pfn pfn) && negb (a_val (W o_queue_pfn pfn) =? 0)); reflexivity.
  - destruct (negb (ans_nth ans 0 =? 0)); reflexivity.
Qed.

Lemma gps_begin_init m dt s ans r g :
  fst (exec m Legacy dt (OBeginInit s) ans) = Ok r ->
  gps_run g (snd (exec m Legacy dt (OBeginInit s) ans)) = Some true.
Proof.
  intros H. destruct (begin_init_legacy_page_size m dt s ans r H) as (t & E & _ & Hn).
  rewrite E, gps_run_app.
  assert (Ht : forall g, exists g', gps_run g t = Some g'); [|destruct (Ht g) as [g' ->]; reflexivity].
  clear E g. intros g.
  clear H. revert g. induction t as [|x t IH]; intros g; [eexists; reflexivity|].
  cbn [gps_run]. unfold wvals in Hn. cbn [filter] in Hn.
  destruct (is_w S_QueuePFN x) eqn:E; [discriminate Hn|]. cbn [andb].
  destruct (is_w S_Status x && (a_val x =? 0)); [apply IH; exact Hn|].
  destruct (is_w S_GuestPageSize x && negb (a_val x =? 0)); apply IH; exact Hn.
Qed.

(* C10 legacy ordering clause over a whole initialisation: after begin_init, any sequence of operations
   that does not reset the device keeps "guest page size announced"; in particular every QueuePFN write
   of every queue_set in it comes after the GuestPageSize write *)
Theorem legacy_page_size_before_pfn m dt s ans0 r (ops : list opans) :
  fst (exec m Legacy dt (OBeginInit s) ans0) = Ok r ->
  forallb (fun x => keeps_gps (fst x)) ops = true ->
  gps_run false (snd (exec m Legacy dt (OBeginInit s) ans0)
                 ++ concat (map (fun x => snd (exec m Legacy dt (fst x) (snd x))) ops)) = Some true.
Proof.
  intros H Hk. rewrite gps_run_app, (gps_begin_init m dt s ans0 r false H).
  induction ops as [|[o a] t IH]; [reflexivity|].
  cbn [forallb fst] in Hk. apply andb_true_iff in Hk. destruct Hk as [Ho Hk].
  cbn [map concat fst snd]. rewrite gps_run_app, (gps_op m dt o a Ho). exact (IH Hk).
Qed.

(* ---------- probing ---------- *)
Lemma device_type_table d :
  match device_type_of d with
  | Some dt => memN d known_ids = true /\ dt <> 0 /\ dt = (if d =? 5 then 13 else d)
  | None => memN d known_ids = false
  end.
Proof.
  destruct d as [|p]; [reflexivity|].
  do 6 (try destruct p as [p|p|]); cbn; repeat split; discriminate.
Qed.

Definition enc_probe_rc (r : probe_result) : N * N * N :=
  match r with POk v dt => (0, version_num v, dt) | PErr c p => (1, c, p) end.

Lemma w32_id x : x < two32 -> w32 x = x.
Proof. unfold w32, two32. intros H. apply N.mod_small. exact H. Qed.

(* probe, with the truncations to 32 bits removed and the device-ID table replaced by membership *)
Lemma probe_cases size magic version devid :
  magic < two32 -> version < two32 -> devid < two32 ->
  probe size magic version devid =
    if size <? REGISTER_BLOCK then (PErr ME_MmioRegionTooSmall 0, [])
    else if negb (magic =? MAGIC) then (PErr ME_BadMagic magic, [R S_MagicValue magic])
    else if negb (memN devid known_ids)
         then (PErr ME_InvalidDeviceID devid, [R S_MagicValue magic; R S_DeviceID devid])
    else if version =? 1
         then (POk Legacy (if devid =? 5 then 13 else devid),
               [R S_MagicValue magic; R S_DeviceID devid; R S_Version version])
    else if version =? 2
         then (POk Modern (if devid =? 5 then 13 else devid),
               [R S_MagicValue magic; R S_DeviceID devid; R S_Version version])
    else (PErr ME_UnsupportedVersion version,
          [R S_MagicValue magic; R S_DeviceID devid; R S_Version version]).
Proof.
  intros Hm Hv Hd. unfold probe. rewrite (w32_id _ Hm), (w32_id _ Hv), (w32_id _ Hd).
  change CONFIG_SPACE_OFFSET with REGISTER_BLOCK. change MAGIC_VALUE with MAGIC.
  destruct (size <? REGISTER_BLOCK); [reflexivity|].
  destruct (negb (magic =? MAGIC)); [reflexivity|].
  pose proof (device_type_table devid) as Ht.
  destruct (device_type_of devid) as [dt|].
  - destruct Ht as (-> & _ & ->). reflexivity.
  - rewrite Ht. reflexivity.
Qed.

Lemma known_ids_nonzero d : memN d known_ids = true -> d <> 0 /\ (if d =? 5 then 13 else d) <> 0.
Proof.
  intros H. pose proof (device_type_table d) as Ht.
  destruct (device_type_of d) as [dt|] eqn:E; [|congruence].
  destruct Ht as (_ & Hnz & ->). split; [intros ->; discriminate E|exact Hnz].
Qed.

(* nothing is written while probing *)
Theorem probe_writes_nothing size magic version devid :
  no_writes (snd (probe size magic version devid)) = true.
Proof.
  unfold probe. destruct (size <? CONFIG_SPACE_OFFSET); [reflexivity|].
  destruct (negb (w32 magic =? MAGIC_VALUE)); [reflexivity|].
  destruct (device_type_of (w32 devid)); [|reflexivity].
  destruct (w32 version =? LEGACY_VERSION); [reflexivity|].
  destruct (w32 version =? MODERN_VERSION); reflexivity.
Qed.

(* accepted iff the region holds the register block, the magic value is right, the version is 1 or 2
   and the device ID is one of the known (hence non-zero) ones *)
Theorem probe_accepts_iff size magic version devid :
  magic < two32 -> version < two32 -> devid < two32 ->
  (exists v dt, fst (probe size magic version devid) = POk v dt)
  <-> (REGISTER_BLOCK <= size /\ magic = MAGIC /\ (version = 1 \/ version = 2)
       /\ In devid known_ids /\ devid <> 0).
Proof.
  intros Hm Hv Hd. rewrite (probe_cases _ _ _ _ Hm Hv Hd).
  destruct (N.ltb_spec size REGISTER_BLOCK) as [Hs|Hs]; cbn [fst].
  { split; [intros (v & dt & E); discriminate E|intros (H & _); lia]. }
  destruct (N.eqb_spec magic MAGIC) as [Em|Em]; cbn [negb fst].
  2:{ split; [intros (v & dt & E); discriminate E|intros (_ & H & _); contradiction]. }
  destruct (memN devid known_ids) eqn:Ek; cbn [negb fst].
  2:{ split; [intros (v & dt & E); discriminate E|].
      intros (_ & _ & _ & H & _). apply memN_In in H. congruence. }
  destruct (known_ids_nonzero _ Ek) as [Hnz _]. apply memN_In in Ek.
  destruct (N.eqb_spec version 1) as [E1|E1]; cbn [fst]; [split; eauto 10|].
  destruct (N.eqb_spec version 2) as [E2|E2]; cbn [fst]; [split; eauto 10|].
  split; [intros (v & dt & E); discriminate E|intros (_ & _ & [H|H] & _); contradiction].
Qed.

Theorem probe_accepts_b_iff size magic version devid :
  probe_accepts size magic version devid = true
  <-> (REGISTER_BLOCK <= size /\ magic = MAGIC /\ (version = 1 \/ version = 2) /\ In devid known_ids).
Proof.
  unfold probe_accepts. rewrite !andb_true_iff, orb_true_iff, N.leb_le, !N.eqb_eq, memN_In. tauto.
Qed.

(* what an accepted probe returns and reads *)
Theorem probe_accepted size magic version devid v dt :
  magic < two32 -> version < two32 -> devid < two32 ->
  fst (probe size magic version devid) = POk v dt ->
  version_num v = version /\ dt = (if devid =? 5 then 13 else devid) /\ dt <> 0 /\
  snd (probe size magic version devid) = [R S_MagicValue MAGIC; R S_DeviceID devid; R S_Version version].
Proof.
  intros Hm Hv Hd. rewrite (probe_cases _ _ _ _ Hm Hv Hd).
  destruct (size <? REGISTER_BLOCK); cbn [fst]; [discriminate|].
  destruct (N.eqb_spec magic MAGIC) as [Em|Em]; cbn [negb fst]; [|discriminate].
  destruct (memN devid known_ids) eqn:Ek; cbn [negb fst]; [|discriminate].
  destruct (known_ids_nonzero _ Ek) as [_ Hnz]. subst magic.
  destruct (N.eqb_spec version 1) as [E1|E1]; cbn [fst snd].
  { intros E. injection E as <- <-. subst version. auto. }
  destruct (N.eqb_spec version 2) as [E2|E2]; cbn [fst snd]; [|discriminate].
  intros E. injection E as <- <-. subst version. auto.
Qed.

(* every refusal: which error, and the reads made up to it *)
Theorem probe_refusals size magic version devid :
  magic < two32 -> version < two32 -> devid < two32 ->
  (size < REGISTER_BLOCK ->
     probe size magic version devid = (PErr ME_MmioRegionTooSmall 0, [])) /\
  (REGISTER_BLOCK <= size -> magic <> MAGIC ->
     probe size magic version devid = (PErr ME_BadMagic magic, [R S_MagicValue magic])) /\
  (REGISTER_BLOCK <= size -> magic = MAGIC -> ~ In devid known_ids ->
     probe size magic version devid =
       (PErr ME_InvalidDeviceID devid, [R S_MagicValue magic; R S_DeviceID devid])) /\
  (REGISTER_BLOCK <= size -> magic = MAGIC -> In devid known_ids -> version <> 1 -> version <> 2 ->
     probe size magic version devid =
       (PErr ME_UnsupportedVersion version,
        [R S_MagicValue magic; R S_DeviceID devid; R S_Version version])).
Proof.
  intros Hm Hv Hd. rewrite (probe_cases _ _ _ _ Hm Hv Hd).
  destruct (N.ltb_spec size REGISTER_BLOCK) as [Hs|Hs].
  { repeat split; try reflexivity; intros; lia. }
  destruct (N.eqb_spec magic MAGIC) as [Em|Em]; cbn [negb].
  2:{ repeat split; try reflexivity; intros; try lia; contradiction. }
  destruct (memN devid known_ids) eqn:Ek; cbn [negb].
  2:{ repeat split; try reflexivity; intros; try lia; try contradiction.
      match goal with H : In _ _ |- _ => apply memN_In in H; congruence end. }
  apply memN_In in Ek.
  destruct (N.eqb_spec version 1) as [E1|E1]; [repeat split; intros; try lia; contradiction|].
  destruct (N.eqb_spec version 2) as [E2|E2]; repeat split; intros; try lia; try contradiction;
    reflexivity.
Qed.

(* the probe monitor holds of the model for every header and region size *)
Theorem probe_conforms size magic version devid :
  magic < two32 -> version < two32 -> devid < two32 ->
  let '(rc, ra, rb) := enc_probe_rc (fst (probe size magic version devid)) in
  probe_conform_b size magic version devid rc ra rb (snd (probe size magic version devid)) = true.
Proof.
  intros Hm Hv Hd. rewrite (probe_cases _ _ _ _ Hm Hv Hd). unfold probe_conform_b, probe_accepts.
  destruct (N.ltb_spec size REGISTER_BLOCK) as [Hs|Hs]; [reflexivity|].
  assert (H4 : (S_MagicValue + 4 <=? size) = true /\ (S_DeviceID + 4 <=? size) = true
               /\ (S_Version + 4 <=? size) = true).
  { unfold REGISTER_BLOCK, S_MagicValue, S_DeviceID, S_Version in *. repeat split; apply N.leb_le; lia. }
  destruct H4 as (Ha & Hb & Hc).
  destruct (N.eqb_spec magic MAGIC) as [Em|Em]; cbn [negb].
  2:{ cbn [enc_probe_rc fst snd]. cbn -[N.add N.leb]. rewrite Ha. reflexivity. }
  destruct (memN devid known_ids) eqn:Ek; cbn [negb].
  2:{ cbn [enc_probe_rc fst snd]. cbn -[N.add N.leb]. rewrite Ha, Hb. reflexivity. }
  destruct (known_ids_nonzero _ Ek) as [_ Hnz]. apply N.eqb_neq in Hnz.
  assert (Hl : (REGISTER_BLOCK <=? size) = true) by (apply N.leb_le; exact Hs).
  destruct (N.eqb_spec version 1) as [E1|E1]; [|destruct (N.eqb_spec version 2) as [E2|E2]];
    cbn [enc_probe_rc fst snd version_num]; cbn -[N.add N.leb REGISTER_BLOCK];
    rewrite ?Ha, ?Hb, ?Hc, ?Hl, ?Ek, ?Hnz; subst; try rewrite N.eqb_refl; reflexivity.
Qed.

(* ---------- SomeTransport::Mmio delegates every method unchanged ---------- *)
Theorem some_transport_delegates m v dt o ans : some_exec m v dt o ans = exec m v dt o ans.
Proof. reflexivity. Qed.

(* ---------- a whole session of the model satisfies the session monitor ---------- *)
Lemma table_ok_app v a b : table_ok v (a ++ b) = table_ok v a && table_ok v b.
Proof. unfold table_ok. apply forallb_app. Qed.

Lemma gps_read g off val t : gps_run g (R off val :: t) = gps_run g t.
Proof. reflexivity. Qed.

Definition session_op_ok (v : version) (x : opans) : Prop :=
  args_in_range (fst x) /\ keeps_gps (fst x) = true /\ ~ (v = Legacy /\ fst x = OReadConfigGeneration).

Theorem session_conforms m v dt magic devid s ans0 r (ops : list opans) :
  s < two64 ->
  fst (exec m v dt (OBeginInit s) ans0) = Ok r ->
  Forall (session_op_ok v) ops ->
  session_conform_b v
    ([R S_MagicValue magic; R S_DeviceID devid; R S_Version (version_num v)]
     ++ (snd (exec m v dt (OBeginInit s) ans0)
         ++ concat (map (fun x => snd (exec m v dt (fst x) (snd x))) ops))
     ++ snd (exec m v dt ODrop [])) = true.
Proof.
  intros Hs Hb Hops. unfold session_conform_b.
  assert (Htab : table_ok v (concat (map (fun x => snd (exec m v dt (fst x) (snd x))) ops)) = true).
  { induction Hops as [|[o a] t (Hr & _ & Hx) _ IH]; [reflexivity|].
    cbn [map concat fst snd]. rewrite table_ok_app, IH, andb_true_r.
    pose proof (ops_conform m v dt o a Hr Hx) as H. rewrite conforms_unfold in H.
    apply conform_parts in H. tauto. }
  assert (Hbt : table_ok v (snd (exec m v dt (OBeginInit s) ans0)) = true).
  { assert (Hx : ~ (v = Legacy /\ OBeginInit s = OReadConfigGeneration)) by (intros [_ E]; discriminate E).
    pose proof (ops_conform m v dt (OBeginInit s) ans0 Hs Hx) as H. rewrite conforms_unfold in H.
    apply conform_parts in H. tauto. }
  apply andb_true_intro; split; [apply andb_true_intro; split|].
  - rewrite !table_ok_app, Hbt, Htab. destruct v; reflexivity.
  - destruct v; [|reflexivity].
    cbn [app]. rewrite !gps_read, gps_run_app.
    assert (Hk : forallb (fun x => keeps_gps (fst x)) ops = true).
    { clear Htab. induction Hops as [|x t (_ & Hk & _) _ IH]; [reflexivity|]. cbn [forallb]. rewrite Hk, IH. reflexivity. }
    rewrite (legacy_page_size_before_pfn m dt s ans0 r ops Hb Hk). reflexivity.
  - unfold ends_with_reset. rewrite !app_assoc. cbn [exec snd]. rewrite rev_unit. reflexivity.
Qed.

(* ---------- non-vacuity ---------- *)
Example legacy_queue_set_nonvacuous :
  legacy_layout_ok 8 0x10000 (0x10000 + 128) (0x10000 + 4096)
  /\ exec Debug Legacy 2 (OQueueSet 1 8 0x10000 (0x10000 + 128) (0x10000 + 4096)) [] =
       (Ok 0, [W 0x30 1; W 0x38 8; W 0x3c 4096; W 0x40 16]).
Proof. repeat split; reflexivity. Qed.

Example begin_init_nonvacuous :
  exists r, fst (exec Debug Legacy 2 (OBeginInit 0x130000000) [0x30000000; 0]) = Ok r
            /\ keeps_gps (OQueueSet 0 8 0x10000 (0x10000 + 128) (0x10000 + 4096)) = true.
Proof. eexists. split; reflexivity. Qed.

Example probe_nonvacuous :
  fst (probe 0x100 MAGIC 1 2) = POk Legacy 2 /\ fst (probe 0x200 MAGIC 2 5) = POk Modern 13
  /\ fst (probe 0xff MAGIC 2 5) = PErr ME_MmioRegionTooSmall 0.
Proof. repeat split; reflexivity. Qed.
