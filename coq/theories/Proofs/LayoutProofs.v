From VD Require Import Base.Words Model.Layout.
From Coq Require Import ZArith Lia ZifyBool ZifyN.
Ltac Zify.zify_post_hook ::= Z.div_mod_to_equations.

(* the sixteen supported queue sizes: 2^0 .. 2^15 *)
Definition sizes : list N :=
  [1;2;4;8;16;32;64;128;256;512;1024;2048;4096;8192;16384;32768].

Lemma sizes_pow2 n : In n sizes <-> exists k, k <= 15 /\ n = 2 ^ k.
Proof.
  split.
  - unfold sizes; intros H.
    repeat (destruct H as [<-|H];
      [ first [exists 0; split; [lia|reflexivity] | exists 1; split; [lia|reflexivity]
              | exists 2; split; [lia|reflexivity] | exists 3; split; [lia|reflexivity]
              | exists 4; split; [lia|reflexivity] | exists 5; split; [lia|reflexivity]
              | exists 6; split; [lia|reflexivity] | exists 7; split; [lia|reflexivity]
              | exists 8; split; [lia|reflexivity] | exists 9; split; [lia|reflexivity]
              | exists 10; split; [lia|reflexivity] | exists 11; split; [lia|reflexivity]
              | exists 12; split; [lia|reflexivity] | exists 13; split; [lia|reflexivity]
              | exists 14; split; [lia|reflexivity] | exists 15; split; [lia|reflexivity]] |]).
    destruct H.
  - intros [k [Hk ->]].
    assert (Hc : k = 0 \/ k = 1 \/ k = 2 \/ k = 3 \/ k = 4 \/ k = 5 \/ k = 6 \/ k = 7 \/ k = 8
                 \/ k = 9 \/ k = 10 \/ k = 11 \/ k = 12 \/ k = 13 \/ k = 14 \/ k = 15) by lia.
    repeat (destruct Hc as [->|Hc]; [vm_compute; tauto|]). subst; vm_compute; tauto.
Qed.

Lemma align_up_eq x : align_up x = PAGE * (x / PAGE + 1).
Proof.
  unfold align_up, PAGE.
  change 4095 with (N.ones 12).
  rewrite N.ldiff_ones_r, N.shiftr_div_pow2, N.shiftl_mul_pow2.
  change (2 ^ 12) with 4096. lia.
Qed.

Lemma ALIGN_eq x : ALIGN x = PAGE * ((x + 4095) / PAGE).
Proof. unfold ALIGN. lia. Qed.

(* the code's align_up is "next boundary strictly above": it equals the specification's
   ALIGN exactly on the arguments that are not already page multiples *)
Lemma align_up_exact x : x mod PAGE <> 0 -> align_up x = ALIGN x.
Proof. rewrite align_up_eq, ALIGN_eq. unfold PAGE. lia. Qed.

Lemma align_up_overshoots x : x mod PAGE = 0 -> align_up x = ALIGN x + PAGE.
Proof. rewrite align_up_eq, ALIGN_eq. unfold PAGE. lia. Qed.

Lemma sizes_not_page_multiple n :
  In n sizes ->
  (desc_size n + avail_size n) mod PAGE <> 0 /\ used_size n mod PAGE <> 0.
Proof.
  unfold sizes; intros H.
  repeat (destruct H as [<-|H]; [vm_compute; split; discriminate|]). destruct H.
Qed.

Lemma align_up_is_ALIGN_on_queue_sizes n :
  In n sizes ->
  align_up (desc_size n + avail_size n) = ALIGN (desc_size n + avail_size n)
  /\ align_up (used_size n) = ALIGN (used_size n).
Proof.
  intros H. destruct (sizes_not_page_multiple n H) as [H1 H2].
  split; apply align_up_exact; assumption.
Qed.

Lemma pages_spec x : pages x * PAGE >= x /\ (pages x = 0 \/ (pages x - 1) * PAGE < x).
Proof. unfold pages, PAGE. lia. Qed.

(* ---------- refusal ---------- *)
Lemma new_in_use legacy n idx maxsz a1 a2 :
  queue_new legacy n idx true maxsz a1 a2 = (Err EAlreadyUsed, []).
Proof. reflexivity. Qed.

Lemma new_too_big legacy n idx maxsz a1 a2 :
  maxsz < n -> queue_new legacy n idx false maxsz a1 a2 = (Err EInvalidParam, []).
Proof. intros H. unfold queue_new. destruct (N.ltb_spec maxsz n); [reflexivity|lia]. Qed.

(* ---------- allocation failure: everything allocated is returned, nothing registered ---------- *)
Definition allocs (l : list ev) : list (N * N) :=
  flat_map (fun e => match e with EvAlloc p _ a => if N.eqb a 0 then [] else [(a, p)] | _ => [] end) l.
Definition deallocs (l : list ev) : list (N * N) :=
  flat_map (fun e => match e with EvDealloc a p => [(a, p)] | _ => [] end) l.
Definition queue_sets (l : list ev) : list ev :=
  filter (fun e => match e with EvQueueSet _ _ _ _ _ => true | _ => false end) l.

Lemma new_dma_failure legacy n idx maxsz a1 a2 e evs :
  queue_new legacy n idx false maxsz a1 a2 = (Err e, evs) -> n <= maxsz ->
  e = EDmaError /\ (a1 = 0 \/ a2 = 0) /\ allocs evs = deallocs evs /\ queue_sets evs = [].
Proof.
  unfold queue_new. intros H Hm.
  destruct (N.ltb_spec maxsz n); [lia|].
  unfold allocate in H.
  destruct legacy.
  - destruct (N.eqb_spec a1 0); inversion H; subst; cbn; auto.
  - destruct (N.eqb_spec a1 0).
    + inversion H; subst; cbn; auto.
    + destruct (N.eqb_spec a2 0); inversion H; subst; cbn.
      destruct (N.eqb_spec a1 0); [contradiction|]. cbn. auto.
Qed.

Lemma new_no_panic legacy n idx in_use maxsz a1 a2 :
  fst (queue_new legacy n idx in_use maxsz a1 a2) <> Panic
  /\ fst (queue_new legacy n idx in_use maxsz a1 a2) <> UB.
Proof.
  unfold queue_new, allocate.
  destruct in_use; [split; discriminate|].
  destruct (N.ltb maxsz n); [split; discriminate|].
  destruct legacy; destruct (N.eqb a1 0); try (split; discriminate);
  destruct (N.eqb a2 0); split; discriminate.
Qed.

(* ---------- success: what is registered ---------- *)
Lemma new_ok_shape legacy n idx maxsz a1 a2 l evs :
  queue_new legacy n idx false maxsz a1 a2 = (Ok l, evs) ->
  n <= maxsz /\ a1 <> 0 /\ (legacy = false -> a2 <> 0) /\
  l_legacy l = legacy /\ l_a1 l = a1 /\
  evs = (if legacy then [EvAlloc (legacy_pages n) DIR_BOTH a1]
         else [EvAlloc (pages (desc_size n + avail_size n)) DIR_TO_DEV a1;
               EvAlloc (pages (used_size n)) DIR_FROM_DEV a2])
        ++ [EvQueueSet idx n (desc_paddr l) (driver_paddr l) (device_paddr l)] /\
  (if legacy then l_p1 l = legacy_pages n
   else l_p1 l = pages (desc_size n + avail_size n) /\ l_a2 l = a2 /\ l_p2 l = pages (used_size n)).
Proof.
  unfold queue_new. intros H.
  destruct (N.ltb_spec maxsz n); [discriminate|].
  unfold allocate in H. destruct legacy.
  - destruct (N.eqb_spec a1 0); [discriminate|]. inversion H; subst; cbn. repeat split; auto. discriminate.
  - destruct (N.eqb_spec a1 0); [discriminate|].
    destruct (N.eqb_spec a2 0); [discriminate|]. inversion H; subst; cbn. repeat split; auto.
Qed.

(* the registered areas, for each of the sixteen sizes, with symbolic page-aligned bases *)
Lemma regions_ok legacy n idx maxsz a1 a2 l evs :
  In n sizes ->
  a1 mod PAGE = 0 -> a2 mod PAGE = 0 ->
  (* Hal contract: distinct live allocations do not overlap *)
  (legacy = false ->
     a1 + pages (desc_size n + avail_size n) * PAGE <= a2 \/ a2 + pages (used_size n) * PAGE <= a1) ->
  queue_new legacy n idx false maxsz a1 a2 = (Ok l, evs) ->
  regions_ok_b legacy n (desc_paddr l) (driver_paddr l) (device_paddr l)
               (l_a1 l) (l_p1 l) (l_a2 l) (l_p2 l) = true.
Proof.
  intros Hn H1 H2 Hd H.
  unfold queue_new in H. destruct (N.ltb maxsz n); [discriminate|].
  unfold allocate in H. unfold PAGE in *.
  destruct legacy.
  - destruct (N.eqb a1 0); [discriminate|]. inversion H; subst l evs; clear H.
    unfold sizes in Hn.
    repeat (destruct Hn as [<-|Hn];
      [ unfold regions_ok_b, desc_paddr, driver_paddr, device_paddr, inside, disjoint; cbn [l_legacy l_a1 l_p1 l_a2 l_p2 l_avail_off l_used_off];
        vm_compute (legacy_pages _); vm_compute (desc_size _); vm_compute (avail_size _);
        vm_compute (used_size _); vm_compute (align_up _); vm_compute (ALIGN _); unfold PAGE; lia |]).
    destruct Hn.
  - destruct (N.eqb a1 0); [discriminate|]. destruct (N.eqb a2 0); [discriminate|].
    inversion H; subst l evs; clear H. specialize (Hd eq_refl).
    unfold sizes in Hn.
    repeat (destruct Hn as [<-|Hn];
      [ unfold regions_ok_b, desc_paddr, driver_paddr, device_paddr, inside, disjoint; cbn [l_legacy l_a1 l_p1 l_a2 l_p2 l_avail_off l_used_off];
        revert Hd;
        vm_compute (pages _); vm_compute (desc_size _); vm_compute (avail_size _);
        vm_compute (used_size _); unfold PAGE; lia |]).
    destruct Hn.
Qed.

(* legacy: one region whose page count is exactly ALIGN(desc+avail)+ALIGN(used), direction Both *)
Lemma legacy_total n :
  In n sizes ->
  legacy_pages n * PAGE = ALIGN (desc_size n + avail_size n) + ALIGN (used_size n).
Proof.
  unfold sizes; intros H.
  repeat (destruct H as [<-|H]; [vm_compute; reflexivity|]). destruct H.
Qed.

(* release: exactly the allocations, same (paddr, pages), in field order *)
Lemma drop_balanced legacy n idx maxsz a1 a2 l evs :
  queue_new legacy n idx false maxsz a1 a2 = (Ok l, evs) ->
  deallocs (queue_drop l) = allocs evs /\ deallocs evs = [] /\ allocs (queue_drop l) = [].
Proof.
  intros H. unfold queue_new in H. destruct (N.ltb maxsz n); [discriminate|].
  unfold allocate in H. destruct legacy.
  - destruct (N.eqb_spec a1 0); [discriminate|]. inversion H; subst; cbn.
    destruct (N.eqb_spec a1 0); [contradiction|]. auto.
  - destruct (N.eqb_spec a1 0); [discriminate|]. destruct (N.eqb_spec a2 0); [discriminate|].
    inversion H; subst; cbn.
    destruct (N.eqb_spec a1 0); [contradiction|]. destruct (N.eqb_spec a2 0); [contradiction|]. auto.
Qed.
