(* VirtIOInput configuration queries (Model/InputCfg.v) against VirtIO 1.2 5.8.4 / 5.8.5                *)
(* (Model/InputCfgSpec.v).                                                                            *)
(*  1. single-byte accesses of both transports                                                        *)
(*  2. the data loop, for every window and every answer stream                                        *)
(*  3. every query: accesses follow the protocol and stay inside the 136-byte structure, at most      *)
(*     min(size, 128) data bytes, result = what the specification says for what the device exposed    *)
(*     (for EVERY window, EVERY answer); closed forms on a window that holds the structure            *)
(*  4. the code before the repair (no bound on size in query_config_select) is refuted                *)
(*  5. multi-field reads: size and data are NOT read under one configuration generation - refuted     *)
(*     with a witness; what read_consistent around the same reads would give                          *)
(*  6. what the monitors mean                                                                         *)
From VD Require Import Base.Words Model.Config Model.ConfigSpec Model.Input Model.InputCfg Model.InputCfgSpec
  Proofs.ConfigProofs.
From Coq Require Import ZArith Lia ZifyBool ZifyN ZifyNat.
Ltac Zify.zify_post_hook ::= Z.div_mod_to_equations.

(* ===================== 1. single bytes ===================== *)
(* read_config_space::<u8> / write_config_space::<u8>: size 1, alignment 1 - the assertions cannot fire *)
Definition byte_verdict (tk : tkind) (w : window) (off : N) : verdict := access_verdict tk w 1 1 off.

Lemma byte_verdict_cases tk w off :
  byte_verdict tk w off =
  if match tk with TPci => negb (w_present w) | _ => false end then VMissing
  else if off + 1 <=? spec_window tk w then VAccess else VTooSmall.
Proof.
  unfold byte_verdict, access_verdict. rewrite N.mod_1_r. reflexivity.
Qed.

Lemma byte_verdict_not_panic tk w off : byte_verdict tk w off <> VPanic.
Proof.
  rewrite byte_verdict_cases. destruct (match tk with TPci => negb (w_present w) | _ => false end); [discriminate|].
  destruct (off + 1 <=? spec_window tk w); discriminate.
Qed.

(* a window that holds the byte at off holds every byte before it *)
Lemma byte_verdict_mono tk w off off' :
  off' <= off -> byte_verdict tk w off = VAccess -> byte_verdict tk w off' = VAccess.
Proof.
  rewrite !byte_verdict_cases. intros Hle.
  destruct (match tk with TPci => negb (w_present w) | _ => false end); [discriminate|].
  destruct (N.leb_spec (off + 1) (spec_window tk w)); [|discriminate].
  intros _. destruct (N.leb_spec (off' + 1) (spec_window tk w)); [reflexivity|lia].
Qed.

(* what a refusal looks like: the same for every offset at or beyond the first refused one *)
Definition verdict_err (v : verdict) : res :=
  match v with VMissing => Err EConfigSpaceMissing | VTooSmall => Err EConfigSpaceTooSmall | VPanic => Panic | VAccess => UB end.

Lemma pow256_0 : pow256 0 = 1.
Proof. reflexivity. Qed.

Lemma write_byte m tk w off v : win_ok tk w ->
  cfg_write m tk w 1 1 off v =
  match byte_verdict tk w off with
  | VAccess => (Ok 0, [mkCA 1 off 1 (v mod 256)])
  | VMissing => (Err EConfigSpaceMissing, [])
  | VTooSmall => (Err EConfigSpaceTooSmall, [])
  | VPanic => (Panic, [])
  end.
Proof.
  intros Hw. rewrite (cfg_write_cases m tk w 1 1 off v Hw). unfold byte_verdict.
  destruct (access_verdict tk w 1 1 off); try reflexivity.
  unfold chunks. cbn [N.eqb Pos.eqb orb wr_chunks map]. rewrite N.sub_diag, pow256_0, N.div_1_r, pow256_1. reflexivity.
Qed.

(* one `read_config_space::<u8>(off)?` inside a closure, against an answer stream *)
Lemma read_byte_ans m tk w off f ans : win_ok tk w ->
  run_ans (bindq (rd m tk w 1 1 off) f) ans =
  match byte_verdict tk w off with
  | VAccess =>
      let x := match ans with [] => 0 | h :: _ => h mod 256 end in
      let '(r, tr) := run_ans (f x) (tl ans) in (r, mkCA 0 off 1 x :: tr)
  | v => (verdict_err v, [])
  end.
Proof.
  intros Hw. unfold bindq, rd, read_cfg, read_cfg_gen, byte_verdict, access_verdict.
  rewrite N.mod_1_r. cbn [N.ltb N.compare Pos.compare Pos.compare_cont N.eqb negb orb].
  destruct (match tk with TPci => negb (w_present w) | _ => false end); [reflexivity|].
  rewrite (end_check_exact m tk w off 1 Hw).
  destruct (off + 1 <=? spec_window tk w); [|reflexivity].
  unfold chunks. cbn [N.eqb Pos.eqb orb rd_chunks run_ans]. rewrite pow256_1, N.sub_diag, pow256_0.
  set (x := match ans with [] => 0 | h :: _ => h mod 256 end).
  assert (Hx : 0 + x mod 256 * 1 = x).
  { subst x. destruct ans; [reflexivity|]. rewrite N.mod_mod by discriminate. lia. }
  rewrite Hx. cbv zeta. destruct (run_ans (f x) (tl ans)). reflexivity.
Qed.

(* ... and on one snapshot of configuration memory *)
Lemma read_byte_eval m tk w off f mem : win_ok tk w ->
  eval (bindq (rd m tk w 1 1 off) f) mem =
  match byte_verdict tk w off with
  | VAccess => eval (f (byte_at mem off)) mem
  | v => verdict_err v
  end.
Proof.
  intros Hw. unfold bindq, rd. unfold byte_verdict.
  destruct (access_verdict tk w 1 1 off) eqn:V.
  - exfalso. exact (byte_verdict_not_panic tk w off V).
  - rewrite eval_read_cfg_refused by (try exact Hw; rewrite V; discriminate). rewrite V. reflexivity.
  - rewrite eval_read_cfg_refused by (try exact Hw; rewrite V; discriminate). rewrite V. reflexivity.
  - rewrite eval_read_cfg_ok by (try exact Hw; try exact V; unfold MAX_T; lia).
    change (N.to_nat 1) with 1%nat. cbn [le_read]. rewrite N.mul_0_r, N.add_0_r. reflexivity.
Qed.

(* ===================== 2. the data loop ===================== *)
(* the bytes a device answering from `ans` gives to k successive single-byte reads (an exhausted stream answers 0) *)
Fixpoint ans_bytes (k : nat) (ans : list N) : list N :=
  match k with
  | O => []
  | S k' => (match ans with [] => 0 | h :: _ => h mod 256 end) :: ans_bytes k' (tl ans)
  end.

Lemma ans_bytes_length k : forall ans, length (ans_bytes k ans) = k.
Proof. induction k as [|k IH]; intros ans; cbn [ans_bytes length]; [reflexivity|]. now rewrite IH. Qed.

Lemma ans_bytes_lt k : forall ans, Forall (fun b => b < 256) (ans_bytes k ans).
Proof.
  induction k as [|k IH]; intros ans; cbn [ans_bytes]; constructor; [|apply IH].
  destruct ans; [reflexivity|]. apply N.mod_lt. discriminate.
Qed.

(* For EVERY window and EVERY answer stream: the loop reads u[i], u[i+1], ... one byte each, in order, each inside
   the window, never more than n of them; it ends either after n reads with the bytes the device answered, or at the
   first byte the window does not hold, with the transport's error and without touching that byte. *)
Lemma bytes_run m tk w (fin : list N -> res) : win_ok tk w ->
  forall n i acc ans r tr,
  run_ans (p_ic_bytes m tk w n i acc fin) ans = (r, tr) ->
  ics_data_from i tr = true
  /\ (length tr <= n)%nat
  /\ map c_val tr = ans_bytes (length tr) ans
  /\ Forall (fun e => byte_verdict tk w (c_off e) = VAccess) tr
  /\ ((length tr = n /\ r = fin (rev acc ++ map c_val tr))
      \/ ((length tr < n)%nat
          /\ byte_verdict tk w (IC_OFF_DATA + i + N.of_nat (length tr)) <> VAccess
          /\ r = verdict_err (byte_verdict tk w (IC_OFF_DATA + i + N.of_nat (length tr))))).
Proof.
  intros Hw. induction n as [|n IH]; intros i acc ans r tr H; cbn [p_ic_bytes] in H.
  - cbn [run_ans] in H. injection H as <- <-. cbn [ics_data_from length map ans_bytes].
    split; [reflexivity|]. split; [lia|]. split; [reflexivity|]. split; [constructor|].
    left. rewrite app_nil_r. split; reflexivity.
  - rewrite (read_byte_ans m tk w _ _ ans Hw) in H.
    destruct (byte_verdict tk w (IC_OFF_DATA + i)) eqn:V.
    + exfalso. exact (byte_verdict_not_panic _ _ _ V).
    + injection H as <- <-. cbn [ics_data_from length map ans_bytes].
      split; [reflexivity|]. split; [lia|]. split; [reflexivity|]. split; [constructor|].
      right. cbn [N.of_nat]. rewrite N.add_0_r, V. split; [lia|]. split; [discriminate|reflexivity].
    + injection H as <- <-. cbn [ics_data_from length map ans_bytes].
      split; [reflexivity|]. split; [lia|]. split; [reflexivity|]. split; [constructor|].
      right. cbn [N.of_nat]. rewrite N.add_0_r, V. split; [lia|]. split; [discriminate|reflexivity].
    + cbv zeta in H.
      set (x := match ans with [] => 0 | h :: _ => h mod 256 end) in *.
      destruct (run_ans (p_ic_bytes m tk w n (i + 1) (x :: acc) fin) (tl ans)) as [r2 tr2] eqn:E2.
      injection H as <- <-.
      destruct (IH _ _ _ _ _ E2) as (D & L & A & F & C).
      cbn [ics_data_from length map ans_bytes c_val]. fold x.
      split. { unfold ics_is. cbn [c_tag c_off c_width]. unfold ICS_OFF_U, IC_OFF_DATA in *. rewrite !N.eqb_refl. exact D. }
      split; [lia|]. split; [now rewrite A|]. split; [constructor; [exact V|exact F]|].
      destruct C as [[C1 C2]|(C1 & C2 & C3)].
      * left. split; [lia|]. rewrite C2. cbn [rev]. rewrite <- app_assoc. reflexivity.
      * right. replace (IC_OFF_DATA + i + N.of_nat (S (length tr2))) with (IC_OFF_DATA + (i + 1) + N.of_nat (length tr2)) by lia.
        split; [lia|]. split; assumption.
Qed.

(* on one snapshot: the bytes [8 + i, 8 + i + n) of the image, provided the window holds them *)
Lemma bytes_eval m tk w (fin : list N -> res) mem : win_ok tk w ->
  forall n i acc,
  (n = O \/ byte_verdict tk w (IC_OFF_DATA + i + N.of_nat n - 1) = VAccess) ->
  eval (p_ic_bytes m tk w n i acc fin) mem = fin (rev acc ++ map (byte_at mem) (seqN (IC_OFF_DATA + i) n)).
Proof.
  intros Hw. induction n as [|n IH]; intros i acc Hv; cbn [p_ic_bytes].
  - cbn [eval seqN map]. now rewrite app_nil_r.
  - destruct Hv as [Hv|Hv]; [discriminate|].
    rewrite (read_byte_eval m tk w _ _ mem Hw).
    rewrite (byte_verdict_mono tk w (IC_OFF_DATA + i + N.of_nat (S n) - 1) (IC_OFF_DATA + i) ltac:(lia) Hv).
    rewrite IH.
    + cbn [seqN map rev]. rewrite <- app_assoc. cbn [app].
      replace (IC_OFF_DATA + (i + 1)) with (IC_OFF_DATA + i + 1) by lia. reflexivity.
    + destruct n; [left; reflexivity|right].
      replace (IC_OFF_DATA + (i + 1) + N.of_nat (S n) - 1) with (IC_OFF_DATA + i + N.of_nat (S (S n)) - 1) by lia. exact Hv.
Qed.

(* ===================== 3. the queries ===================== *)
Definition is_terr (r : res) : Prop := r = Err EConfigSpaceTooSmall \/ r = Err EConfigSpaceMissing.

Lemma verdict_err_terr tk w off : byte_verdict tk w off <> VAccess -> is_terr (verdict_err (byte_verdict tk w off)).
Proof.
  intros H. pose proof (byte_verdict_not_panic tk w off) as P.
  destruct (byte_verdict tk w off); try contradiction; [right|left]; reflexivity.
Qed.

Lemma w8_mod x : w8 x mod 256 = w8 x.
Proof. unfold w8. apply N.mod_mod. discriminate. Qed.

(* the two writes, for every window *)
Lemma writes_run m tk w sel sub : win_ok tk w ->
  ic_writes m tk w sel sub =
  match byte_verdict tk w IC_OFF_SELECT with
  | VAccess =>
      match byte_verdict tk w IC_OFF_SUBSEL with
      | VAccess => (Ok tt, [mkCA 1 IC_OFF_SELECT 1 (w8 sel); mkCA 1 IC_OFF_SUBSEL 1 (w8 sub)])
      | VMissing => (Err EConfigSpaceMissing, [mkCA 1 IC_OFF_SELECT 1 (w8 sel)])
      | VTooSmall => (Err EConfigSpaceTooSmall, [mkCA 1 IC_OFF_SELECT 1 (w8 sel)])
      | VPanic => (Panic, [mkCA 1 IC_OFF_SELECT 1 (w8 sel)])
      end
  | VMissing => (Err EConfigSpaceMissing, [])
  | VTooSmall => (Err EConfigSpaceTooSmall, [])
  | VPanic => (Panic, [])
  end.
Proof.
  intros Hw. unfold ic_writes. rewrite !(write_byte m tk w _ _ Hw), !w8_mod.
  destruct (byte_verdict tk w IC_OFF_SELECT); try reflexivity.
  destruct (byte_verdict tk w IC_OFF_SUBSEL); reflexivity.
Qed.

(* the reads of query_config_select (repaired), for EVERY window and EVERY answer stream *)
Lemma select_run m tk w out_len ans r tr : win_ok tk w ->
  run_ans (p_ic_select true m tk w out_len) ans = (r, tr) ->
  (byte_verdict tk w IC_OFF_SIZE <> VAccess /\ tr = [] /\ is_terr r)
  \/ exists data,
       let sz := match ans with [] => 0 | h :: _ => h mod 256 end in
       tr = mkCA 0 IC_OFF_SIZE 1 sz :: data
       /\ byte_verdict tk w IC_OFF_SIZE = VAccess
       /\ ics_data_from 0 data = true
       /\ map c_val data = ans_bytes (length data) (tl ans)
       /\ Forall (fun e => byte_verdict tk w (c_off e) = VAccess) data
       /\ (IN_CFG_DATA_MAX < sz -> data = [] /\ r = Err EIoError)
       /\ (sz <= IN_CFG_DATA_MAX ->
             (lenN data = N.min sz out_len /\ r = Ok (sz :: map c_val data))
             \/ (lenN data < N.min sz out_len /\ is_terr r /\ byte_verdict tk w (IC_OFF_DATA + lenN data) <> VAccess)).
Proof.
  intros Hw H. unfold p_ic_select in H. rewrite (read_byte_ans m tk w _ _ ans Hw) in H.
  destruct (byte_verdict tk w IC_OFF_SIZE) eqn:V.
  - exfalso. exact (byte_verdict_not_panic _ _ _ V).
  - left. injection H as <- <-. split; [discriminate|]. split; [reflexivity|]. right. reflexivity.
  - left. injection H as <- <-. split; [discriminate|]. split; [reflexivity|]. left. reflexivity.
  - right. cbv zeta in H. set (sz := match ans with [] => 0 | h :: _ => h mod 256 end) in *.
    cbn [andb] in H.
    destruct (N.ltb_spec IN_CFG_DATA_MAX sz) as [Hb|Hb].
    + cbn [run_ans] in H. injection H as <- <-. exists []. cbv zeta. cbn [length map ans_bytes ics_data_from].
      repeat split; try constructor; try reflexivity; lia.
    + destruct (run_ans (p_ic_bytes m tk w (N.to_nat (N.min sz out_len)) 0 [] (fun l => Ok (sz :: l))) (tl ans)) as [r2 tr2] eqn:E2.
      injection H as <- <-.
      destruct (bytes_run m tk w _ Hw _ _ _ _ _ _ E2) as (D & L & A & F & C).
      exists tr2. cbv zeta. split; [reflexivity|]. split; [reflexivity|]. split; [exact D|]. split; [exact A|].
      split; [exact F|]. split; [intros; lia|]. intros _.
      destruct C as [[C1 C2]|(C1 & C2 & C3)].
      * left. split; [unfold lenN; lia|]. rewrite C2. reflexivity.
      * right. split; [unfold lenN; lia|]. rewrite N.add_0_r in C2, C3. split; [rewrite C3; apply verdict_err_terr; exact C2|exact C2].
Qed.

(* the reads of query_config_select_alloc, likewise *)
Lemma alloc_run m tk w fin ans r tr : win_ok tk w ->
  run_ans (p_ic_alloc m tk w fin) ans = (r, tr) ->
  (byte_verdict tk w IC_OFF_SIZE <> VAccess /\ tr = [] /\ is_terr r)
  \/ exists data,
       let sz := match ans with [] => 0 | h :: _ => h mod 256 end in
       tr = mkCA 0 IC_OFF_SIZE 1 sz :: data
       /\ byte_verdict tk w IC_OFF_SIZE = VAccess
       /\ ics_data_from 0 data = true
       /\ map c_val data = ans_bytes (length data) (tl ans)
       /\ Forall (fun e => byte_verdict tk w (c_off e) = VAccess) data
       /\ (IN_CFG_DATA_MAX < sz -> data = [] /\ r = Err EIoError)
       /\ (sz <= IN_CFG_DATA_MAX ->
             (lenN data = sz /\ r = fin (map c_val data))
             \/ (lenN data < sz /\ is_terr r /\ byte_verdict tk w (IC_OFF_DATA + lenN data) <> VAccess)).
Proof.
  intros Hw H. unfold p_ic_alloc in H. rewrite (read_byte_ans m tk w _ _ ans Hw) in H.
  destruct (byte_verdict tk w IC_OFF_SIZE) eqn:V.
  - exfalso. exact (byte_verdict_not_panic _ _ _ V).
  - left. injection H as <- <-. split; [discriminate|]. split; [reflexivity|]. right. reflexivity.
  - left. injection H as <- <-. split; [discriminate|]. split; [reflexivity|]. left. reflexivity.
  - right. cbv zeta in H. set (sz := match ans with [] => 0 | h :: _ => h mod 256 end) in *.
    destruct (N.ltb_spec IN_CFG_DATA_MAX sz) as [Hb|Hb].
    + cbn [run_ans] in H. injection H as <- <-. exists []. cbv zeta. cbn [length map ans_bytes ics_data_from].
      repeat split; try constructor; try reflexivity; lia.
    + destruct (run_ans (p_ic_bytes m tk w (N.to_nat sz) 0 [] fin) (tl ans)) as [r2 tr2] eqn:E2.
      injection H as <- <-.
      destruct (bytes_run m tk w _ Hw _ _ _ _ _ _ E2) as (D & L & A & F & C).
      exists tr2. cbv zeta. split; [reflexivity|]. split; [reflexivity|]. split; [exact D|]. split; [exact A|].
      split; [exact F|]. split; [intros; lia|]. intros _.
      destruct C as [[C1 C2]|(C1 & C2 & C3)].
      * left. split; [unfold lenN; lia|]. rewrite C2. reflexivity.
      * right. split; [unfold lenN; lia|]. rewrite N.add_0_r in C2, C3. split; [rewrite C3; apply verdict_err_terr; exact C2|exact C2].
Qed.

(* which query of the specification each driver function is *)
Definition ic_spec_of (q : icq) : icsq :=
  match q with
  | ICSelect _ n => QRaw n
  | ICName | ICSerial => QString
  | ICPropBits | ICEvBits => QBitmap
  | ICIds => QDevids
  | ICAbsInfo => QAbsinfo
  end.

Lemma ics_list_eqb_refl l : ics_list_eqb l l = true.
Proof. induction l as [|x l IH]; cbn [ics_list_eqb]; [reflexivity|]. now rewrite N.eqb_refl, IH. Qed.

Lemma ics_list_eqb_eq : forall a b, ics_list_eqb a b = true -> a = b.
Proof.
  induction a as [|x a IH]; destruct b as [|y b]; cbn [ics_list_eqb]; intros H; try discriminate; [reflexivity|].
  apply andb_true_iff in H as [H1 H2]. apply N.eqb_eq in H1. subst y. f_equal. apply IH. exact H2.
Qed.

Lemma ics_res_eqb_eq a b : ics_res_eqb a b = true -> a = b.
Proof.
  destruct a, b; cbn [ics_res_eqb]; intros H; try discriminate.
  - f_equal. now apply ics_list_eqb_eq.
  - apply N.eqb_eq in H. now subst.
Qed.

Lemma ic_le_ics_le l : ic_le l = ics_le l.
Proof. induction l as [|x l IH]; cbn [ic_le ics_le]; [reflexivity|]. now rewrite IH. Qed.
Lemma ic_field_ics_fld u off n : ic_field u off n = ics_fld u off n.
Proof. unfold ic_field, ics_fld. apply ic_le_ics_le. Qed.
Lemma ic_devids_spec u : ic_devids_of_bytes u = spec_devids u.
Proof. unfold ic_devids_of_bytes, spec_devids. now rewrite !ic_field_ics_fld. Qed.
Lemma ic_absinfo_spec u : ic_absinfo_of_bytes u = spec_absinfo u.
Proof. unfold ic_absinfo_of_bytes, spec_absinfo. now rewrite !ic_field_ics_fld. Qed.

(* single-byte reads of u[i..] stay inside the structure as long as there are no more than 128 - i of them *)
Lemma data_inside : forall data i,
  ics_data_from i data = true -> i + lenN data <= ICS_U_LEN ->
  forallb (fun e => (c_off e + c_width e <=? ICS_LEN) && (1 <=? c_width e)) data = true.
Proof.
  induction data as [|e t IH]; intros i D L; [reflexivity|].
  cbn [ics_data_from] in D. apply andb_true_iff in D as [D1 D2]. unfold ics_is in D1.
  unfold lenN in L. cbn [length] in L.
  cbn [forallb]. rewrite (IH (i + 1) D2) by (unfold lenN; lia).
  unfold ICS_OFF_U, ICS_LEN, ICS_U_LEN in *. rewrite andb_true_r. lia.
Qed.

Lemma forallb_lt256 l : Forall (fun b => b < 256) (map c_val l) -> forallb (fun e => c_val e <? 256) l = true.
Proof.
  induction l as [|e t IH]; intros H; [reflexivity|]. cbn [map] in H. inversion H; subst.
  cbn [forallb]. rewrite IH by assumption. lia.
Qed.

Lemma trace_ok sel sub sz data :
  sz < 256 -> lenN data <= N.min sz ICS_U_LEN -> ics_data_from 0 data = true ->
  Forall (fun b => b < 256) (map c_val data) ->
  let tr := mkCA 1 IC_OFF_SELECT 1 sel :: mkCA 1 IC_OFF_SUBSEL 1 sub :: mkCA 0 IC_OFF_SIZE 1 sz :: data in
  ics_protocol_b sel sub tr = true /\ ics_inside_b tr = true.
Proof.
  intros Hs Hl Hd Hv. cbv zeta. split.
  - cbn [ics_protocol_b]. unfold ics_is. cbn [c_tag c_off c_width c_val].
    unfold IC_OFF_SELECT, IC_OFF_SUBSEL, IC_OFF_SIZE, ICS_OFF_SELECT, ICS_OFF_SUBSEL, ICS_OFF_SIZE.
    rewrite !N.eqb_refl, Hd, (forallb_lt256 _ Hv). cbn [andb]. lia.
  - unfold ics_inside_b. cbn [forallb c_off c_width].
    rewrite (data_inside data 0 Hd) by (unfold ICS_U_LEN in *; lia). reflexivity.
Qed.

Lemma sz_lt256 (ans : list N) : match ans with [] => 0 | h :: _ => h mod 256 end < 256.
Proof. destruct ans; [reflexivity|]. apply N.mod_lt. discriminate. Qed.

Lemma is_terr_result q r tr : is_terr r -> ics_result_b q r tr = true.
Proof. intros [-> | ->]; reflexivity. Qed.

Lemma is_terr_struct len dec r : is_terr r -> is_terr (ic_struct len dec r).
Proof. intros [-> | ->]; [left|right]; reflexivity. Qed.

Lemma firstn_all_len {A} (l : list A) n : length l = n -> firstn n l = l.
Proof. intros <-. apply firstn_all. Qed.

(* ---- the value returned against what the device exposed, query by query ---- *)
Lemma result_oversize q w1 w2 sz :
  IN_CFG_DATA_MAX < sz -> ics_result_b q (Err EIoError) [w1; w2; mkCA 0 IC_OFF_SIZE 1 sz] = true.
Proof.
  intros H. unfold ics_result_b. cbn [ics_transport_error EIoError EConfigSpaceTooSmall EConfigSpaceMissing N.eqb Pos.eqb orb c_val map].
  unfold spec_query_result. unfold IN_CFG_DATA_MAX, ICS_U_LEN in *.
  replace (128 <? sz) with true by lia. reflexivity.
Qed.

Lemma result_raw out_len sz data w1 w2 :
  sz <= IN_CFG_DATA_MAX -> lenN data = N.min sz out_len ->
  ics_result_b (QRaw out_len) (Ok (sz :: map c_val data)) (w1 :: w2 :: mkCA 0 IC_OFF_SIZE 1 sz :: data) = true.
Proof.
  intros Hs Hl. unfold ics_result_b. cbn [c_val]. unfold spec_query_result, ics_need.
  unfold IN_CFG_DATA_MAX, ICS_U_LEN in *. replace (128 <? sz) with false by lia.
  rewrite firstn_all_len by (rewrite map_length; unfold lenN in Hl; lia).
  cbn [ics_res_eqb]. rewrite ics_list_eqb_refl. cbn [andb]. lia.
Qed.

Lemma result_string sz data w1 w2 :
  sz <= IN_CFG_DATA_MAX -> lenN data = sz ->
  ics_result_b QString (ic_string (map c_val data)) (w1 :: w2 :: mkCA 0 IC_OFF_SIZE 1 sz :: data) = true.
Proof.
  intros Hs Hl. unfold ics_result_b, ic_string. cbn [c_val]. unfold spec_query_result, ics_need.
  unfold IN_CFG_DATA_MAX, ICS_U_LEN in *. replace (128 <? sz) with false by lia.
  rewrite firstn_all_len by (rewrite map_length; unfold lenN in Hl; lia). cbv zeta.
  destruct (utf8_valid (length (map c_val data)) (map c_val data)).
  - cbn [ics_transport_error ics_res_eqb]. rewrite ics_list_eqb_refl. cbn [andb]. lia.
  - reflexivity.
Qed.

Lemma result_bitmap sz data w1 w2 :
  sz <= IN_CFG_DATA_MAX -> lenN data = sz ->
  ics_result_b QBitmap (Ok (map c_val data)) (w1 :: w2 :: mkCA 0 IC_OFF_SIZE 1 sz :: data) = true.
Proof.
  intros Hs Hl. unfold ics_result_b. cbn [c_val]. unfold spec_query_result, ics_need.
  unfold IN_CFG_DATA_MAX, ICS_U_LEN in *. replace (128 <? sz) with false by lia.
  rewrite firstn_all_len by (rewrite map_length; unfold lenN in Hl; lia).
  cbn [ics_res_eqb]. rewrite ics_list_eqb_refl. cbn [andb]. lia.
Qed.

Lemma result_struct q len dec sdec sz data w1 w2 :
  (q = QDevids /\ len = ICS_DEVIDS_LEN /\ sdec = spec_devids) \/ (q = QAbsinfo /\ len = ICS_ABSINFO_LEN /\ sdec = spec_absinfo) ->
  (forall u, dec u = sdec u) ->
  sz <= IN_CFG_DATA_MAX -> lenN data = N.min sz len ->
  ics_result_b q (ic_struct len dec (Ok (sz :: map c_val data))) (w1 :: w2 :: mkCA 0 IC_OFF_SIZE 1 sz :: data) = true.
Proof.
  intros Hq Hdec Hs Hl. unfold ics_result_b, ic_struct. cbn [c_val].
  assert (Hwant : spec_query_result q sz (map c_val data) = if sz =? len then Ok (sdec (map c_val data)) else Err EIoError).
  { unfold spec_query_result. unfold IN_CFG_DATA_MAX, ICS_U_LEN in *. replace (128 <? sz) with false by lia.
    destruct Hq as [(-> & -> & ->)|(-> & -> & ->)]; reflexivity. }
  assert (Hneed : ics_need q sz = N.min sz len).
  { unfold ics_need. unfold IN_CFG_DATA_MAX, ICS_U_LEN in *. replace (128 <? sz) with false by lia.
    destruct Hq as [(-> & -> & _)|(-> & -> & _)]; reflexivity. }
  rewrite Hwant, Hneed.
  destruct (N.eqb_spec sz len) as [E|E].
  - replace (N.to_nat len - length (map c_val data))%nat with O by (rewrite map_length; unfold lenN in Hl; lia).
    cbn [repeat]. rewrite app_nil_r, Hdec. cbn [ics_transport_error ics_res_eqb]. rewrite ics_list_eqb_refl. cbn [andb]. lia.
  - reflexivity.
Qed.

(* THE CONFORMANCE THEOREM. For every query, every transport and window (of any length, with or without the PCI
   capability), both profiles, EVERY answer stream of the device:
   (1) the accesses follow VirtIO 5.8.5 on the layout of 5.8.4: select and subsel are written (with the caller's
       values) before anything is read, then size, then bytes u[0], u[1], ... one at a time, never more than
       min(size, 128) of them;
   (2) every access lies inside the 136-byte structure;
   (3) every access lies inside the transport's window (C13: a refused access is not performed);
   (4) the value returned is the specification's for what the device exposed: size and the data bytes answered -
       strings are the bytes up to size (IoError unless UTF-8), bitmaps the bytes up to size, ids / abs_info the
       little-endian fields at their positions (IoError unless size is the structure's), a size above 128 is
       IoError; the only other results are the transport's two errors; never a panic. *)
Theorem ic_query_conform m tk w q subsel ans : win_ok tk w ->
  let r := fst (ic_query m tk w q subsel ans) in
  let tr := snd (ic_query m tk w q subsel ans) in
  ics_protocol_b (w8 (ic_select_of q)) (w8 (ic_subsel_of q subsel)) tr = true
  /\ ics_inside_b tr = true
  /\ Forall (fun e => byte_verdict tk w (c_off e) = VAccess) tr
  /\ ics_result_b (ic_spec_of q) r tr = true.
Proof.
  intros Hw. cbv zeta. unfold ic_query, ic_query_gen. rewrite (writes_run m tk w _ _ Hw).
  set (sel := w8 (ic_select_of q)). set (sub := w8 (ic_subsel_of q subsel)).
  destruct (byte_verdict tk w IC_OFF_SELECT) eqn:V0.
  - exfalso. exact (byte_verdict_not_panic _ _ _ V0).
  - cbn [fst snd ic_fail]. repeat split; try constructor.
  - cbn [fst snd ic_fail]. repeat split; try constructor.
  - destruct (byte_verdict tk w IC_OFF_SUBSEL) eqn:V1.
    + exfalso. exact (byte_verdict_not_panic _ _ _ V1).
    + cbn [fst snd ic_fail]. split; [cbn [ics_protocol_b]; unfold ics_is; cbn [c_tag c_off c_width c_val]; now rewrite !N.eqb_refl|].
      split; [reflexivity|]. split; [constructor; [exact V0|constructor]|reflexivity].
    + cbn [fst snd ic_fail]. split; [cbn [ics_protocol_b]; unfold ics_is; cbn [c_tag c_off c_width c_val]; now rewrite !N.eqb_refl|].
      split; [reflexivity|]. split; [constructor; [exact V0|constructor]|reflexivity].
    + destruct (run_ans (ic_reads true m tk w q) ans) as [r0 t2] eqn:E. cbn [fst snd app].
      set (w1 := mkCA 1 IC_OFF_SELECT 1 sel). set (w2 := mkCA 1 IC_OFF_SUBSEL 1 sub).
      (* the two shapes of reads *)
      assert (Hcases :
        (t2 = [] /\ is_terr r0) \/
        exists sz data, t2 = mkCA 0 IC_OFF_SIZE 1 sz :: data /\ sz < 256 /\ byte_verdict tk w IC_OFF_SIZE = VAccess
          /\ ics_data_from 0 data = true /\ Forall (fun b => b < 256) (map c_val data)
          /\ Forall (fun e => byte_verdict tk w (c_off e) = VAccess) data
          /\ lenN data <= N.min sz ICS_U_LEN
          /\ ics_result_b (ic_spec_of q) (ic_finish q r0) (w1 :: w2 :: mkCA 0 IC_OFF_SIZE 1 sz :: data) = true).
      { destruct q as [s out_len| | | | | | ]; cbn [ic_reads] in E.
        - (* query_config_select *)
          destruct (select_run m tk w _ ans r0 t2 Hw E) as [(_ & -> & T)|(data & S)]; [left; auto|right].
          cbv zeta in S. destruct S as (-> & VS & D & A & F & Big & Small).
          eexists _, data. split; [reflexivity|]. split; [apply sz_lt256|]. split; [exact VS|]. split; [exact D|].
          split; [rewrite A; apply ans_bytes_lt|]. split; [exact F|].
          pose proof (sz_lt256 ans) as Hlt. set (sz := match ans with [] => 0 | h :: _ => h mod 256 end) in *.
          cbn [ic_spec_of ic_finish]. unfold IN_CFG_DATA_MAX, ICS_U_LEN in *.
          destruct (N.lt_ge_cases 128 sz) as [Hb|Hb].
          + destruct (Big Hb) as [-> ->]. split; [unfold lenN; cbn; lia|]. now apply result_oversize.
          + destruct (Small Hb) as [[L ->]|(L & T & _)]; (split; [lia|]); [now apply result_raw|now apply is_terr_result].
        - (* name *)
          destruct (alloc_run m tk w _ ans r0 t2 Hw E) as [(_ & -> & T)|(data & S)]; [left; auto|right].
          cbv zeta in S. destruct S as (-> & VS & D & A & F & Big & Small).
          eexists _, data. split; [reflexivity|]. split; [apply sz_lt256|]. split; [exact VS|]. split; [exact D|].
          split; [rewrite A; apply ans_bytes_lt|]. split; [exact F|].
          pose proof (sz_lt256 ans) as Hlt. set (sz := match ans with [] => 0 | h :: _ => h mod 256 end) in *.
          cbn [ic_spec_of ic_finish]. unfold IN_CFG_DATA_MAX, ICS_U_LEN in *.
          destruct (N.lt_ge_cases 128 sz) as [Hb|Hb].
          + destruct (Big Hb) as [-> ->]. split; [unfold lenN; cbn; lia|]. now apply result_oversize.
          + destruct (Small Hb) as [[L ->]|(L & T & _)]; (split; [lia|]); [now apply result_string|now apply is_terr_result].
        - (* serial_number *)
          destruct (alloc_run m tk w _ ans r0 t2 Hw E) as [(_ & -> & T)|(data & S)]; [left; auto|right].
          cbv zeta in S. destruct S as (-> & VS & D & A & F & Big & Small).
          eexists _, data. split; [reflexivity|]. split; [apply sz_lt256|]. split; [exact VS|]. split; [exact D|].
          split; [rewrite A; apply ans_bytes_lt|]. split; [exact F|].
          pose proof (sz_lt256 ans) as Hlt. set (sz := match ans with [] => 0 | h :: _ => h mod 256 end) in *.
          cbn [ic_spec_of ic_finish]. unfold IN_CFG_DATA_MAX, ICS_U_LEN in *.
          destruct (N.lt_ge_cases 128 sz) as [Hb|Hb].
          + destruct (Big Hb) as [-> ->]. split; [unfold lenN; cbn; lia|]. now apply result_oversize.
          + destruct (Small Hb) as [[L ->]|(L & T & _)]; (split; [lia|]); [now apply result_string|now apply is_terr_result].
        - (* ids *)
          destruct (select_run m tk w _ ans r0 t2 Hw E) as [(_ & -> & T)|(data & S)]; [left; auto|right].
          cbv zeta in S. destruct S as (-> & VS & D & A & F & Big & Small).
          eexists _, data. split; [reflexivity|]. split; [apply sz_lt256|]. split; [exact VS|]. split; [exact D|].
          split; [rewrite A; apply ans_bytes_lt|]. split; [exact F|].
          pose proof (sz_lt256 ans) as Hlt. set (sz := match ans with [] => 0 | h :: _ => h mod 256 end) in *.
          cbn [ic_spec_of ic_finish]. unfold IN_CFG_DATA_MAX, ICS_U_LEN in *.
          destruct (N.lt_ge_cases 128 sz) as [Hb|Hb].
          + destruct (Big Hb) as [-> ->]. split; [unfold lenN; cbn; lia|]. now apply result_oversize.
          + destruct (Small Hb) as [[L ->]|(L & T & _)]; (split; [lia|]).
            * apply (result_struct QDevids IC_DEVIDS_SIZE ic_devids_of_bytes spec_devids); auto using ic_devids_spec.
            * apply is_terr_result. now apply is_terr_struct.
        - (* prop_bits *)
          destruct (alloc_run m tk w _ ans r0 t2 Hw E) as [(_ & -> & T)|(data & S)]; [left; auto|right].
          cbv zeta in S. destruct S as (-> & VS & D & A & F & Big & Small).
          eexists _, data. split; [reflexivity|]. split; [apply sz_lt256|]. split; [exact VS|]. split; [exact D|].
          split; [rewrite A; apply ans_bytes_lt|]. split; [exact F|].
          pose proof (sz_lt256 ans) as Hlt. set (sz := match ans with [] => 0 | h :: _ => h mod 256 end) in *.
          cbn [ic_spec_of ic_finish]. unfold IN_CFG_DATA_MAX, ICS_U_LEN in *.
          destruct (N.lt_ge_cases 128 sz) as [Hb|Hb].
          + destruct (Big Hb) as [-> ->]. split; [unfold lenN; cbn; lia|]. now apply result_oversize.
          + destruct (Small Hb) as [[L ->]|(L & T & _)]; (split; [lia|]); [now apply result_bitmap|now apply is_terr_result].
        - (* ev_bits *)
          destruct (alloc_run m tk w _ ans r0 t2 Hw E) as [(_ & -> & T)|(data & S)]; [left; auto|right].
          cbv zeta in S. destruct S as (-> & VS & D & A & F & Big & Small).
          eexists _, data. split; [reflexivity|]. split; [apply sz_lt256|]. split; [exact VS|]. split; [exact D|].
          split; [rewrite A; apply ans_bytes_lt|]. split; [exact F|].
          pose proof (sz_lt256 ans) as Hlt. set (sz := match ans with [] => 0 | h :: _ => h mod 256 end) in *.
          cbn [ic_spec_of ic_finish]. unfold IN_CFG_DATA_MAX, ICS_U_LEN in *.
          destruct (N.lt_ge_cases 128 sz) as [Hb|Hb].
          + destruct (Big Hb) as [-> ->]. split; [unfold lenN; cbn; lia|]. now apply result_oversize.
          + destruct (Small Hb) as [[L ->]|(L & T & _)]; (split; [lia|]); [now apply result_bitmap|now apply is_terr_result].
        - (* abs_info *)
          destruct (select_run m tk w _ ans r0 t2 Hw E) as [(_ & -> & T)|(data & S)]; [left; auto|right].
          cbv zeta in S. destruct S as (-> & VS & D & A & F & Big & Small).
          eexists _, data. split; [reflexivity|]. split; [apply sz_lt256|]. split; [exact VS|]. split; [exact D|].
          split; [rewrite A; apply ans_bytes_lt|]. split; [exact F|].
          pose proof (sz_lt256 ans) as Hlt. set (sz := match ans with [] => 0 | h :: _ => h mod 256 end) in *.
          cbn [ic_spec_of ic_finish]. unfold IN_CFG_DATA_MAX, ICS_U_LEN in *.
          destruct (N.lt_ge_cases 128 sz) as [Hb|Hb].
          + destruct (Big Hb) as [-> ->]. split; [unfold lenN; cbn; lia|]. now apply result_oversize.
          + destruct (Small Hb) as [[L ->]|(L & T & _)]; (split; [lia|]).
            * apply (result_struct QAbsinfo IC_ABSINFO_SIZE ic_absinfo_of_bytes spec_absinfo); auto using ic_absinfo_spec.
            * apply is_terr_result. now apply is_terr_struct. }
      destruct Hcases as [[-> T]|(sz & data & -> & Hs & VS & D & Vl & F & L & R)].
      * cbn [app]. split; [cbn [ics_protocol_b]; unfold ics_is, w1, w2; cbn [c_tag c_off c_width c_val]; now rewrite !N.eqb_refl|].
        split; [reflexivity|]. split; [repeat constructor; assumption|].
        apply is_terr_result. destruct q; cbn [ic_finish]; try exact T; now apply is_terr_struct.
      * cbn [app]. destruct (trace_ok sel sub sz data Hs L D Vl) as [P I]. cbv zeta in P, I.
        split; [exact P|]. split; [exact I|]. split; [|exact R].
        constructor; [exact V0|]. constructor; [exact V1|]. constructor; [exact VS|exact F].
Qed.

(* ---- on a window that holds the whole structure nothing is refused ---- *)
Definition full_window (tk : tkind) (w : window) : Prop :=
  (tk = TPci -> w_present w = true) /\ ICS_LEN <= spec_window tk w.

Lemma full_window_access tk w off : full_window tk w -> off + 1 <= ICS_LEN -> byte_verdict tk w off = VAccess.
Proof.
  intros [Hp Hl] Ho. rewrite byte_verdict_cases.
  replace (match tk with TPci => negb (w_present w) | _ => false end) with false
    by (destruct tk; try reflexivity; now rewrite (Hp eq_refl)).
  destruct (N.leb_spec (off + 1) (spec_window tk w)); [reflexivity|lia].
Qed.

Lemma not_terr_struct len dec r : ~ is_terr r -> ~ is_terr (ic_struct len dec r).
Proof.
  intros H. destruct r as [[|s l]|e| |]; cbn [ic_struct]; try (intros [X|X]; discriminate X).
  - destruct (s =? len); intros [X|X]; discriminate X.
  - exact H.
Qed.

Lemma reads_full_window m tk w q ans : win_ok tk w -> full_window tk w ->
  ~ is_terr (ic_finish q (fst (run_ans (ic_reads true m tk w q) ans))).
Proof.
  intros Hw Hf.
  assert (HS : forall n r tr, run_ans (p_ic_select true m tk w n) ans = (r, tr) -> ~ is_terr r).
  { intros n r tr E. destruct (select_run m tk w n ans r tr Hw E) as [(V & _)|(data & S)].
    - exfalso. apply V. apply full_window_access; [exact Hf|unfold IC_OFF_SIZE, ICS_LEN; lia].
    - cbv zeta in S. destruct S as (_ & _ & _ & _ & _ & Big & Small).
      set (sz := match ans with [] => 0 | h :: _ => h mod 256 end) in *.
      destruct (N.lt_ge_cases IN_CFG_DATA_MAX sz) as [Hb|Hb].
      + destruct (Big Hb) as [_ ->]. intros [X|X]; discriminate X.
      + destruct (Small Hb) as [[_ ->]|(L & _ & V)]; [intros [X|X]; discriminate X|].
        exfalso. apply V. apply full_window_access; [exact Hf|]. unfold IC_OFF_DATA, ICS_LEN, IN_CFG_DATA_MAX in *. lia. }
  assert (HA : forall fin r tr, (forall l, ~ is_terr (fin l)) -> run_ans (p_ic_alloc m tk w fin) ans = (r, tr) -> ~ is_terr r).
  { intros fin r tr Hfin E. destruct (alloc_run m tk w fin ans r tr Hw E) as [(V & _)|(data & S)].
    - exfalso. apply V. apply full_window_access; [exact Hf|unfold IC_OFF_SIZE, ICS_LEN; lia].
    - cbv zeta in S. destruct S as (_ & _ & _ & _ & _ & Big & Small).
      set (sz := match ans with [] => 0 | h :: _ => h mod 256 end) in *.
      destruct (N.lt_ge_cases IN_CFG_DATA_MAX sz) as [Hb|Hb].
      + destruct (Big Hb) as [_ ->]. intros [X|X]; discriminate X.
      + destruct (Small Hb) as [[_ ->]|(L & _ & V)]; [apply Hfin|].
        exfalso. apply V. apply full_window_access; [exact Hf|]. unfold IC_OFF_DATA, ICS_LEN, IN_CFG_DATA_MAX in *. lia. }
  assert (Hstr : forall l, ~ is_terr (ic_string l)).
  { intros l. unfold ic_string. destruct (utf8_valid _ _); intros [X|X]; discriminate X. }
  assert (Hok : forall l : list N, ~ is_terr (Ok l)) by (intros l [X|X]; discriminate X).
  destruct q; cbn [ic_reads ic_finish];
    match goal with |- ~ is_terr (ic_struct _ _ _) => apply not_terr_struct | _ => idtac end;
    match goal with
    | |- ~ is_terr (fst (run_ans (p_ic_select _ _ _ _ ?n) _)) =>
        destruct (run_ans (p_ic_select true m tk w n) ans) as [r tr] eqn:E; exact (HS _ _ _ E)
    | |- ~ is_terr (fst (run_ans (p_ic_alloc _ _ _ ?f) _)) =>
        destruct (run_ans (p_ic_alloc m tk w f) ans) as [r tr] eqn:E; eapply HA; [|exact E]; assumption
    end.
Qed.

(* ===================== 6. what the monitors mean on ANY observation ===================== *)
Ltac bools H :=
  repeat match type of H with
         | _ && _ = true => let H1 := fresh "Hb" in apply andb_true_iff in H as [H H1]
         end.

Lemma ics_is_eq e tag off width : ics_is e tag off width = true -> c_tag e = tag /\ c_off e = off /\ c_width e = width.
Proof. unfold ics_is. lia. Qed.

Lemma data_from_touched : forall data i, ics_data_from i data = true ->
  touched data = seqN (ICS_OFF_U + i) (length data) /\ Forall (fun e => c_tag e = 0 /\ c_width e = 1) data.
Proof.
  induction data as [|e t IH]; intros i H; [split; [reflexivity|constructor]|].
  cbn [ics_data_from] in H. apply andb_true_iff in H as [H1 H2]. apply ics_is_eq in H1 as (T & O & W).
  destruct (IH _ H2) as [IT IF]. split; [|constructor; auto].
  unfold touched in *. cbn [flat_map length seqN]. rewrite O, W. change (N.to_nat 1) with 1%nat. cbn [seqN app].
  f_equal. rewrite IT. f_equal. lia.
Qed.

(* an access list that passes monitor 1: it is a prefix of
     write select := sel; write subsel := sub; read size; read u[0]; read u[1]; ...
   (so nothing is read before both writes, with the caller's values), every access lies inside the 136-byte
   structure at a field of 5.8.4, and at most min(size, 128) bytes of u are looked at - bytes 8 .. 8+k-1, in order *)
Theorem ics_protocol_sound sel sub tr : ics_protocol_b sel sub tr = true ->
  ics_inside_b tr = true
  /\ (forall e, In e tr -> c_tag e = 0 -> exists rest, tr = mkCA 1 ICS_OFF_SELECT 1 sel :: mkCA 1 ICS_OFF_SUBSEL 1 sub :: rest)
  /\ (forall w1 w2 rs data, tr = w1 :: w2 :: rs :: data ->
        c_tag rs = 0 /\ c_off rs = ICS_OFF_SIZE /\ c_width rs = 1 /\ c_val rs < 256
        /\ lenN data <= N.min (c_val rs) ICS_U_LEN
        /\ touched data = seqN ICS_OFF_U (length data)
        /\ Forall (fun e => c_tag e = 0 /\ c_width e = 1 /\ c_val e < 256) data).
Proof.
  intros H. destruct tr as [|w1 [|w2 [|rs data]]]; cbn [ics_protocol_b] in H.
  - split; [reflexivity|]. split; [intros e []|discriminate].
  - apply andb_true_iff in H as [H _]. apply andb_true_iff in H as [H Hv1].
    apply ics_is_eq in H as (T & O & W). apply N.eqb_eq in Hv1.
    split; [unfold ics_inside_b; cbn [forallb]; unfold ICS_OFF_SELECT, ICS_LEN in *; lia|].
    split; [|discriminate]. intros e [<-|[]] Te. rewrite T in Te. discriminate.
  - apply andb_true_iff in H as [H H2]. apply andb_true_iff in H as [H Hv1].
    apply andb_true_iff in H2 as [H2 _]. apply andb_true_iff in H2 as [H2 Hv2].
    apply ics_is_eq in H as (T & O & W). apply N.eqb_eq in Hv1.
    apply ics_is_eq in H2 as (T2 & O2 & W2). apply N.eqb_eq in Hv2.
    split; [unfold ics_inside_b; cbn [forallb]; unfold ICS_OFF_SELECT, ICS_OFF_SUBSEL, ICS_LEN in *; lia|].
    split; [|discriminate]. intros e [<-|[<-|[]]] Te; [rewrite T in Te|rewrite T2 in Te]; discriminate.
  - apply andb_true_iff in H as [H H2]. apply andb_true_iff in H as [H Hv1].
    apply andb_true_iff in H2 as [H2 H3]. apply andb_true_iff in H2 as [H2 Hv2].
    apply andb_true_iff in H3 as [H3 Hfa]. apply andb_true_iff in H3 as [H3 Hfrom].
    apply andb_true_iff in H3 as [H3 Hlen]. apply andb_true_iff in H3 as [H3 Hlt].
    apply ics_is_eq in H as (T & O & W). apply N.eqb_eq in Hv1.
    apply ics_is_eq in H2 as (T2 & O2 & W2). apply N.eqb_eq in Hv2.
    apply ics_is_eq in H3 as (T3 & O3 & W3).
    assert (Hl : lenN data <= N.min (c_val rs) ICS_U_LEN) by lia.
    destruct (data_from_touched data 0 Hfrom) as [DT DF]. rewrite N.add_0_r in DT.
    split.
    { unfold ics_inside_b. cbn [forallb]. fold (ics_inside_b data).
      unfold ics_inside_b. rewrite (data_inside data 0 Hfrom) by lia.
      unfold ICS_OFF_SELECT, ICS_OFF_SUBSEL, ICS_OFF_SIZE, ICS_LEN in *. lia. }
    split.
    { intros e _ _. exists (rs :: data). destruct w1 as [t1 o1 d1 v1], w2 as [t2 o2 d2 v2]. cbn [c_tag c_off c_width c_val] in *. subst. reflexivity. }
    intros ? ? ? ? [= <- <- <- <-]. repeat split; try assumption; try lia.
    clear - DF Hfa. induction data as [|e t IH]; [constructor|].
    cbn [forallb] in Hfa. apply andb_true_iff in Hfa as [A B]. inversion DF as [|? ? [X Y] Z]; subst.
    constructor; [repeat split; try assumption; lia|now apply IH].
Qed.

(* a (result, access list) pair that passes monitor 2: no panic; either the transport refused an access (C13), or
   the size and the bytes of u the device answered determine the result as the specification says - and a value is
   only handed out after exactly the bytes it consists of were read *)
Theorem ics_result_sound q r tr : ics_result_b q r tr = true ->
  r <> Panic /\ r <> UB
  /\ ((exists e, r = Err e /\ (e = EConfigSpaceTooSmall \/ e = EConfigSpaceMissing))
      \/ exists w1 w2 rs data, tr = w1 :: w2 :: rs :: data
           /\ r = spec_query_result q (c_val rs) (map c_val data)
           /\ (forall v, r = Ok v -> lenN data = ics_need q (c_val rs))).
Proof.
  unfold ics_result_b. intros H. destruct r as [v|e| |]; try discriminate; (split; [discriminate|]); (split; [discriminate|]).
  - right. destruct tr as [|w1 [|w2 [|rs data]]]; try discriminate. cbv zeta in H.
    apply andb_true_iff in H as [H1 H2]. apply ics_res_eqb_eq in H1.
    exists w1, w2, rs, data. split; [reflexivity|]. split; [exact H1|].
    intros v' _. rewrite <- H1 in H2. lia.
  - destruct (ics_transport_error e) eqn:Te.
    + left. exists e. split; [reflexivity|]. unfold ics_transport_error in Te. lia.
    + right. destruct tr as [|w1 [|w2 [|rs data]]]; try discriminate. cbv zeta in H.
      apply andb_true_iff in H as [H1 H2]. apply ics_res_eqb_eq in H1.
      exists w1, w2, rs, data. split; [reflexivity|]. split; [exact H1|]. discriminate.
Qed.

(* Corollary, on the model: on a window that holds the structure EVERY query returns exactly what the specification
   says for what the device exposed (no transport error is possible), and what the device exposed is what it answered *)
Theorem ic_query_full_window m tk w q subsel ans : win_ok tk w -> full_window tk w ->
  let r := fst (ic_query m tk w q subsel ans) in
  let tr := snd (ic_query m tk w q subsel ans) in
  exists data,
    let sz := match ans with [] => 0 | h :: _ => h mod 256 end in
    tr = mkCA 1 ICS_OFF_SELECT 1 (w8 (ic_select_of q)) :: mkCA 1 ICS_OFF_SUBSEL 1 (w8 (ic_subsel_of q subsel))
         :: mkCA 0 ICS_OFF_SIZE 1 sz :: data
    /\ r = spec_query_result (ic_spec_of q) sz (map c_val data)
    /\ lenN data <= N.min sz ICS_U_LEN
    /\ (forall v, r = Ok v -> lenN data = ics_need (ic_spec_of q) sz).
Proof.
  intros Hw Hf. cbv zeta.
  destruct (ic_query_conform m tk w q subsel ans Hw) as (P & _ & _ & R). cbv zeta in P, R.
  pose proof (reads_full_window m tk w q ans Hw Hf) as NT.
  unfold ic_query, ic_query_gen in *. rewrite (writes_run m tk w _ _ Hw) in *.
  rewrite (full_window_access tk w IC_OFF_SELECT Hf ltac:(unfold IC_OFF_SELECT, ICS_LEN; lia)) in *.
  rewrite (full_window_access tk w IC_OFF_SUBSEL Hf ltac:(unfold IC_OFF_SUBSEL, ICS_LEN; lia)) in *.
  destruct (run_ans (ic_reads true m tk w q) ans) as [r0 t2] eqn:E. cbn [fst snd app] in *.
  destruct (ics_result_sound _ _ _ R) as (_ & _ & [(e & He & Hterr)|(w1 & w2 & rs & data & Ht & Hr & Hc)]).
  { exfalso. apply NT. rewrite He. destruct Hterr as [-> | ->]; [left|right]; reflexivity. }
  injection Ht as <- <- Ht2. subst t2.
  (* the size read carries the first answer *)
  assert (Hrs : rs = mkCA 0 IC_OFF_SIZE 1 (match ans with [] => 0 | h :: _ => h mod 256 end)).
  { destruct q; cbn [ic_reads] in E;
      first [ destruct (select_run m tk w _ ans r0 _ Hw E) as [(_ & X & _)|(d & S)]
            | destruct (alloc_run m tk w _ ans r0 _ Hw E) as [(_ & X & _)|(d & S)] ];
      try discriminate X; cbv zeta in S; destruct S as (S1 & _); injection S1 as -> _; reflexivity. }
  subst rs. cbn [c_val] in *. exists data. cbv zeta. split; [reflexivity|]. split; [exact Hr|]. split; [|exact Hc].
  destruct (ics_protocol_sound _ _ _ P) as (_ & _ & P3).
  destruct (P3 _ _ _ _ eq_refl) as (_ & _ & _ & _ & L & _). exact L.
Qed.

(* ===================== 4. the code before the repair ===================== *)
(* query_config_select without the bound on `size`: a device announcing size 255 makes it read u[0..255) when the
   caller's slice is long enough - 127 single-byte reads at offsets 136 .. 262, beyond the structure of 5.8.4 (the
   transport only knows its own window, here 4096 bytes: C13 lets them through) - and hand these bytes out as data. *)
Definition ic_wit_window : window := mkWin true 4096 0x1100.
Definition ic_wit_answers : list N := 255 :: map (fun i => i mod 251) (seqN 0 255).

Theorem ic_select_prefix_refuted :
  let r := fst (ic_query_prefix Debug TModern ic_wit_window (ICSelect IC_ID_NAME 255) 0 ic_wit_answers) in
  let tr := snd (ic_query_prefix Debug TModern ic_wit_window (ICSelect IC_ID_NAME 255) 0 ic_wit_answers) in
  win_ok TModern ic_wit_window /\ full_window TModern ic_wit_window
  /\ ics_inside_b tr = false
  /\ ics_protocol_b IC_ID_NAME 0 tr = false
  /\ ics_result_b (QRaw 255) r tr = false
  /\ length tr = 258%nat
  /\ existsb (fun e => (c_tag e =? 0) && (c_off e =? 262)) tr = true
  /\ (exists l, r = Ok (255 :: l) /\ length l = 255%nat)
  (* ... while the repaired code refuses the size without reading any data byte *)
  /\ ic_query Debug TModern ic_wit_window (ICSelect IC_ID_NAME 255) 0 ic_wit_answers
     = (Err EIoError, [mkCA 1 0 1 1; mkCA 1 1 1 0; mkCA 0 2 1 255]).
Proof.
  cbv zeta. split; [vm_compute; reflexivity|]. split; [split; [discriminate|vm_compute; discriminate]|].
  split; [vm_compute; reflexivity|]. split; [vm_compute; reflexivity|]. split; [vm_compute; reflexivity|].
  split; [vm_compute; reflexivity|]. split; [vm_compute; reflexivity|].
  split; [eexists; split; [vm_compute; reflexivity|reflexivity]|]. vm_compute. reflexivity.
Qed.

(* what was true before the repair: as long as the device announces at most 128 bytes the old code IS the repaired one *)
Lemma select_prefix_agrees m tk w n ans : win_ok tk w ->
  match ans with [] => 0 | h :: _ => h mod 256 end <= IN_CFG_DATA_MAX ->
  run_ans (p_ic_select false m tk w n) ans = run_ans (p_ic_select true m tk w n) ans.
Proof.
  intros Hw Hs. unfold p_ic_select. rewrite !(read_byte_ans m tk w _ _ ans Hw).
  destruct (byte_verdict tk w IC_OFF_SIZE); try reflexivity. cbv zeta. cbn [andb].
  destruct (N.ltb_spec IN_CFG_DATA_MAX (match ans with [] => 0 | h :: _ => h mod 256 end)); [lia|reflexivity].
Qed.

Theorem ic_query_prefix_partial m tk w q subsel ans : win_ok tk w ->
  match ans with [] => 0 | h :: _ => h mod 256 end <= IN_CFG_DATA_MAX ->
  ic_query_prefix m tk w q subsel ans = ic_query m tk w q subsel ans.
Proof.
  intros Hw Hs. unfold ic_query_prefix, ic_query, ic_query_gen.
  destruct (ic_writes m tk w (ic_select_of q) (ic_subsel_of q subsel)) as [o t1].
  destruct o; try reflexivity.
  destruct q; cbn [ic_reads]; try reflexivity; now rewrite (select_prefix_agrees m tk w _ ans Hw Hs).
Qed.

(* ===================== 5. size and data are several reads: tearing ===================== *)
(* The size read and the data reads are NOT made under one configuration generation (no read_consistent, unlike the
   five users of C13). A device that replaces its configuration - bumping the generation, as VirtIO 2.5.3 demands -
   between two of these reads makes name() return bytes that NO image it ever exposed contains:
   image A announces the name "ab", image B the name "cd"; B is installed immediately before the read of u[1];
   name() returns "ad". *)
Definition ic_img (a b : N) : list N := [0; 0; 2; 0; 0; 0; 0; 0; a; b] ++ repeat 0 126.
Definition ic_torn_window : window := mkWin true 136 0x1100.

Theorem ic_untorn_refuted :
  let p := ic_reads true Debug TModern ic_torn_window ICName in
  let d := mkDev (ic_img 97 98) 7 in
  let sc := [[]; []; [ic_img 99 100]] in
  exists d' sc' tr,
    ic_query_dev true Debug TModern ic_torn_window ICName 0 d sc = (Ok [97; 100], d', sc', tr)
    /\ d_gen d' = 8                                           (* the device did bump the generation *)
    /\ eval p (ic_img 97 98) = Ok [97; 98] /\ eval p (ic_img 99 100) = Ok [99; 100]
    /\ forallb (fun snap => negb (res_eqb (Ok [97; 100]) (eval p snap))) (history d sc) = true
    (* no generation read at all *)
    /\ Forall (fun e => c_tag e <> 2) tr.
Proof.
  cbv zeta. eexists _, _, _. split; [vm_compute; reflexivity|]. split; [reflexivity|].
  split; [vm_compute; reflexivity|]. split; [vm_compute; reflexivity|]. split; [vm_compute; reflexivity|].
  repeat constructor; discriminate.
Qed.

(* What the proposed repair (corpus/proposals/input_cfg_untorn_fix.diff: the same reads inside
   Transport::read_consistent) would give: an instance of the untorn-read theorem of C13 - for every query, every
   device state and EVERY schedule of updates on a transport with a generation counter, under the no-wrap hypothesis,
   the value is the reads evaluated on ONE image the device exposed. *)
Theorem ic_consistent_untorn m tk w q : tk <> TLegacy ->
  forall fuel d sc r d' sc' tr,
  d_gen d < gen_mod tk ->
  Forall (fun n => n < gen_mod tk) (attempt_updates fuel tk (ic_reads true m tk w q) d sc) ->
  read_consistent fuel tk (ic_reads true m tk w q) d sc = Some (r, d', sc', tr) ->
  is_panic r = false ->
  In (d_cfg d') (history d sc) /\ ic_finish q r = ic_finish q (eval (ic_reads true m tk w q) (d_cfg d')).
Proof.
  intros Hl fuel d sc r d' sc' tr Hd Hall H Hnp.
  destruct (read_consistent_untorn tk _ Hl fuel d sc r d' sc' tr Hd Hall H Hnp) as [Hin ->]. split; [exact Hin|reflexivity].
Qed.

(* ... on the witness above the loop notices the change, retries, and returns the name of image B *)
Example ic_consistent_on_witness :
  let d := mkDev (ic_img 97 98) 7 in
  let sc := [[]; []; []; [ic_img 99 100]] in
  exists d' sc' tr,
    ic_query_consistent 3 Debug TModern ic_torn_window ICName 0 d sc = Some (Ok [99; 100], d', sc', tr)
    /\ d_cfg d' = ic_img 99 100.
Proof. cbv zeta. eexists _, _, _. split; vm_compute; reflexivity. Qed.

(* ===================== non-vacuity ===================== *)
(* a 256-byte modern MMIO window; the device answers size and then the union *)
Definition ic_ex_window : window := mkWin true 256 0x1100.

Example ic_query_nonvacuous :
  win_ok TModern ic_ex_window /\ full_window TModern ic_ex_window
  (* name(): size 3, "abc" *)
  /\ ic_query Debug TModern ic_ex_window ICName 9 [3; 97; 98; 99; 77]
     = (Ok [97; 98; 99], [mkCA 1 0 1 1; mkCA 1 1 1 0; mkCA 0 2 1 3; mkCA 0 8 1 97; mkCA 0 9 1 98; mkCA 0 10 1 99])
  (* name(): not UTF-8 *)
  /\ fst (ic_query Debug TModern ic_ex_window ICName 0 [2; 0xc0; 0x80]) = Err EIoError
  (* ids(): bustype 0x4242, vendor 0x1234, product 0x0067, version 0x4321 *)
  /\ fst (ic_query Release TModern ic_ex_window ICIds 0 [8; 0x42; 0x42; 0x34; 0x12; 0x67; 0x00; 0x21; 0x43]) = Ok [0x4242; 0x1234; 0x67; 0x4321]
  (* ids(): the device announces 7 bytes: refused after reading them *)
  /\ ic_query Release TModern ic_ex_window ICIds 0 [7; 1; 2; 3; 4; 5; 6; 7; 8]
     = (Err EIoError, [mkCA 1 0 1 3; mkCA 1 1 1 0; mkCA 0 2 1 7; mkCA 0 8 1 1; mkCA 0 9 1 2; mkCA 0 10 1 3; mkCA 0 11 1 4;
                       mkCA 0 12 1 5; mkCA 0 13 1 6; mkCA 0 14 1 7])
  (* abs_info(axis 5): min 12, max 1234, fuzz 4, flat 10, res 2 *)
  /\ fst (ic_query Debug TPci (mkWin true 34 0x2000) ICAbsInfo 5
            [20; 12; 0; 0; 0; 0xd2; 0x04; 0; 0; 4; 0; 0; 0; 10; 0; 0; 0; 2; 0; 0; 0]) = Ok [12; 1234; 4; 10; 2]
  /\ nth 1 (snd (ic_query Debug TPci (mkWin true 34 0x2000) ICAbsInfo 5 [20])) (mkCA 9 9 9 9) = mkCA 1 1 1 5
  (* ev_bits(3): size 0 = not supported: an empty bitmap, no data read *)
  /\ ic_query Debug TModern ic_ex_window ICEvBits 3 [0; 1; 2] = (Ok [], [mkCA 1 0 1 17; mkCA 1 1 1 3; mkCA 0 2 1 0])
  (* size 128 is accepted, 129 is not *)
  /\ (exists l, fst (ic_query Debug TModern ic_ex_window ICPropBits 0 (128 :: repeat 7 200)) = Ok l /\ length l = 128%nat)
  /\ ic_query Debug TModern ic_ex_window ICPropBits 0 (129 :: repeat 7 200) = (Err EIoError, [mkCA 1 0 1 16; mkCA 1 1 1 0; mkCA 0 2 1 129])
  (* a window that ends inside the union: the transport refuses the first byte it does not hold, nothing beyond is touched *)
  /\ ic_query Debug TModern (mkWin true 10 0x1100) ICName 0 [3; 97; 98; 99]
     = (Err EConfigSpaceTooSmall, [mkCA 1 0 1 1; mkCA 1 1 1 0; mkCA 0 2 1 3; mkCA 0 8 1 97; mkCA 0 9 1 98])
  (* PCI without the device-configuration capability *)
  /\ ic_query Debug TPci (mkWin false 0 0) ICName 0 [3] = (Err EConfigSpaceMissing, []).
Proof.
  split; [vm_compute; reflexivity|]. split; [split; [discriminate|vm_compute; discriminate]|].
  repeat (split; [vm_compute; reflexivity|]).
  split; [eexists; split; [vm_compute; reflexivity|reflexivity]|].
  repeat (split; [vm_compute; reflexivity|]). vm_compute. reflexivity.
Qed.

(* ===================== C07: whatever the device answers ===================== *)
Lemma spec_result_length q sz u v : spec_query_result q sz u = Ok v -> (length v <= 129)%nat.
Proof.
  unfold spec_query_result. destruct (N.ltb_spec ICS_U_LEN sz) as [H|H]; [discriminate|].
  unfold ICS_U_LEN in H.
  destruct q as [out_len| | | | ].
  - intros [= <-]. cbn [length]. rewrite firstn_length. lia.
  - cbv zeta. destruct (utf8_valid _ _); [|discriminate]. intros [= <-]. rewrite firstn_length. lia.
  - intros [= <-]. rewrite firstn_length. lia.
  - destruct (sz =? ICS_DEVIDS_LEN); [|discriminate]. intros [= <-]. cbn. lia.
  - destruct (sz =? ICS_ABSINFO_LEN); [|discriminate]. intros [= <-]. cbn. lia.
Qed.

(* For EVERY answer stream (the size byte and every data byte are the device's), every window, both profiles: a query
   ends in a value or an error - IoError or one of the transport's two - never a panic; it makes at most 131 accesses
   (two writes, the size, 128 data bytes), each inside the structure AND inside the transport's window; a value handed
   out never has more than 128 data bytes (raw query: the size byte and at most 128 bytes). *)
Theorem ic_query_total m tk w q subsel ans : win_ok tk w ->
  let r := fst (ic_query m tk w q subsel ans) in
  let tr := snd (ic_query m tk w q subsel ans) in
  r <> Panic /\ r <> UB
  /\ (forall e, r = Err e -> e = EIoError \/ e = EConfigSpaceTooSmall \/ e = EConfigSpaceMissing)
  /\ (forall v, r = Ok v -> (length v <= 129)%nat)
  /\ (length tr <= 131)%nat
  /\ Forall (fun e => c_off e + c_width e <= ICS_LEN /\ byte_verdict tk w (c_off e) = VAccess) tr.
Proof.
  intros Hw. cbv zeta.
  destruct (ic_query_conform m tk w q subsel ans Hw) as (P & I & F & R). cbv zeta in P, I, F, R.
  set (r := fst (ic_query m tk w q subsel ans)) in *. set (tr := snd (ic_query m tk w q subsel ans)) in *.
  destruct (ics_result_sound _ _ _ R) as (NP & NU & C).
  split; [exact NP|]. split; [exact NU|].
  destruct (ics_protocol_sound _ _ _ P) as (_ & _ & P3).
  split; [|split; [|split]].
  - intros e He. destruct C as [(e' & He' & [-> | ->])|(w1 & w2 & rs & data & Ht & Hr & _)].
    + rewrite He in He'. injection He' as ->. auto.
    + rewrite He in He'. injection He' as ->. auto.
    + rewrite He in Hr. left. unfold spec_query_result in Hr.
      destruct (ICS_U_LEN <? c_val rs); [now injection Hr|].
      destruct (ic_spec_of q); try discriminate Hr.
      * cbv zeta in Hr. destruct (utf8_valid _ _); [discriminate|now injection Hr].
      * destruct (c_val rs =? ICS_DEVIDS_LEN); [discriminate|now injection Hr].
      * destruct (c_val rs =? ICS_ABSINFO_LEN); [discriminate|now injection Hr].
  - intros v Hv. destruct C as [(e' & He' & _)|(w1 & w2 & rs & data & Ht & Hr & _)].
    + rewrite Hv in He'. discriminate.
    + rewrite Hv in Hr. symmetry in Hr. eapply spec_result_length. exact Hr.
  - destruct tr as [|w1 [|w2 [|rs data]]]; cbn [length]; try lia.
    destruct (P3 _ _ _ _ eq_refl) as (_ & _ & _ & _ & L & _). unfold lenN, ICS_U_LEN in L. lia.
  - unfold ics_inside_b in I. rewrite forallb_forall in I. rewrite Forall_forall in *.
    intros e He. split; [|apply F; exact He]. specialize (I e He). lia.
Qed.
