(* What the connection-manager monitors of Extract/ConnMgrIO.v (kinds 1851..1862, 1871..1882, 1890..1898; property C18) MEAN,
   and that they hold of the implementation model Model/ConnMgr.v.

   The monitors are evaluated by the runner on what the harness (harness/src/scen/c18.rs) observed of the REAL
   VsockConnectionManager.  Here each of them is tied to the statement it stands for:
     A. meaning: a TRUE verdict ([1]) on ANY input list says, in plain terms, what is written in the theorem
        (mon185x_meaning, mon187x_meaning, mon1890_meaning: "the observed answer IS the encoding of what the abstract
        specification Model/ConnMgrSpec.v answers, and the specification is advanced by exactly that step", together with
        the injectivity of the encoding, enc_result_inj: equal encodings = equal results and equal packets on the wire;
        mon_frame_meaning .. mon_shut_remembered_meaning: the clause of the property as equalities between the numbers of
        the line; these are stated as EQUIVALENCES (1894: as an implication), so they also say that the monitor demands nothing else);
     B. holds of the model: on the encoding of what the implementation model (cm_step / cm_step_tx) does, the verdict is
        true (mon185x_holds_of_model .. from the refinement theorems step_refines / step_tx_refines of
        Proofs/ConnMgrProofs.v; the stateless ones from the clause theorems of that file);
     C. audit: Examples at the end exhibit the input lists on which a monitor, taken alone, accepts something the clause
        it is documented to check forbids, or demands something the property text does not state. *)
From VD Require Import Base.Words Base.ListUpd Model.Queue Model.Owning Model.ConnMgr Model.ConnMgrSpec
  Proofs.ConnMgrProofs Extract.ConnMgrIO.
From Coq Require Import ZArith Lia ZifyBool ZifyN.
Ltac Zify.zify_post_hook ::= Z.div_mod_to_equations.

(* ------------------------------------------------------------------------------------------------ *)
(* small helpers                                                                                     *)
Lemma cmm_b2n_one b : [b2n b] = [1] -> b = true.
Proof. destruct b; [reflexivity|discriminate]. Qed.
Lemma cmm_b2n_1 b : b2n b = 1 -> b = true.
Proof. destruct b; [reflexivity|discriminate]. Qed.
Lemma cmm_b2n_one_iff b : [b2n b] = [1] <-> b = true.
Proof. split; [apply cmm_b2n_one|now intros ->]. Qed.

(* the list comparison of the stateful monitors is plain equality *)
Lemma cm_list_eqb_eq a b : cm_list_eqb a b = true <-> a = b.
Proof.
  revert b. induction a as [|x a IH]; intros [|y b]; cbn [cm_list_eqb].
  - split; reflexivity.
  - split; discriminate.
  - split; discriminate.
  - rewrite andb_true_iff, N.eqb_eq, IH. split; [intros [-> ->]; reflexivity|intros E; injection E; auto].
Qed.

(* cutting a line after its first k numbers *)
Lemma cm_split_at_spec k l : cm_split_at k l = (firstn k l, skipn k l).
Proof.
  revert l. induction k as [|k IH]; intros [|x t]; cbn [cm_split_at firstn skipn]; try reflexivity. now rewrite IH.
Qed.

Lemma app_inv_len {A} (l l' a b : list A) : length l = length l' -> l ++ a = l' ++ b -> l = l' /\ a = b.
Proof.
  revert l'. induction l as [|x l IH]; intros [|y l'] Hl H; cbn [length app] in *; try discriminate Hl; [auto|].
  injection H as -> H. injection Hl as Hl. destruct (IH l' Hl H) as [-> ->]. auto.
Qed.

(* ------------------------------------------------------------------------------------------------ *)
(* the decoder of operation lines (kinds 1801..1812), as a table                                     *)
Lemma dec_op_table k ins o : dec_op k ins = Some o ->
  (k = 1801 /\ exists p, ins = [p] /\ o = OpListen p)
  \/ (k = 1802 /\ exists p, ins = [p] /\ o = OpUnlisten p)
  \/ (k = 1803 /\ exists c p l, ins = [c; p; l] /\ o = OpConnect (mkAddr c p) l)
  \/ (k = 1804 /\ exists c p l data, ins = c :: p :: l :: data /\ o = OpSend (mkAddr c p) l data)
  \/ (k = 1805 /\ exists c p l n, ins = [c; p; l; n] /\ o = OpRecv (mkAddr c p) l n)
  \/ (k = 1806 /\ exists c p l, ins = [c; p; l] /\ o = OpAvail (mkAddr c p) l)
  \/ (k = 1807 /\ exists c p l, ins = [c; p; l] /\ o = OpEstablished (mkAddr c p) l)
  \/ (k = 1808 /\ exists c p l, ins = [c; p; l] /\ o = OpUpdateCredit (mkAddr c p) l)
  \/ (k = 1809 /\ exists c p l, ins = [c; p; l] /\ o = OpShutdown (mkAddr c p) l)
  \/ (k = 1810 /\ exists c p l, ins = [c; p; l] /\ o = OpForceClose (mkAddr c p) l)
  \/ (k = 1811 /\ exists p, ins = [p] /\ o = OpPortUsed p)
  \/ (k = 1812 /\ exists has ulen bytes, ins = has :: ulen :: bytes
                   /\ o = OpPoll (if has =? 0 then None else Some (ulen, bytes))).
Proof.
  unfold dec_op. intros H.
  repeat match type of H with
         | (if ?a =? ?c then _ else _) = _ => destruct (N.eqb_spec a c) as [E|_]
         end; try discriminate H;
  (destruct ins as [|x1 [|x2 [|x3 [|x4 [|x5 r]]]]]; try discriminate H; injection H as <-);
  repeat (first [ (left; split; [exact E|]; repeat eexists; fail) | right ]);
  (split; [exact E|]; repeat eexists).
Qed.

(* ------------------------------------------------------------------------------------------------ *)
(* THE ENCODING IS INJECTIVE: "the observed list equals enc_result r tx" determines the returned value r (unit, number,
   bytes, event or nothing, error code, panic) and, packet by packet, the bytes put on the tx queue.                *)
Lemma enc_etype_app_inj t t' a b : enc_etype t ++ a = enc_etype t' ++ b -> t = t' /\ a = b.
Proof.
  destruct t as [| |[|]|len| |], t' as [| |[|]|len'| |]; cbn [enc_etype app]; intros H; try discriminate H;
    injection H; intros; subst; auto.
Qed.

Lemma enc_res_app_inj r r' a b : enc_res r ++ a = enc_res r' ++ b -> r = r' /\ a = b.
Proof.
  destruct r as [[|n|l|[ev|]]|e| |], r' as [[|n'|l'|[ev'|]]|e'| |]; cbn [enc_res app]; intros H; try discriminate H;
    try (injection H; intros; subst; auto; fail).
  - (* bytes: the count fixes where the bytes end *)
    injection H as Hl H. apply Nat2N.inj in Hl. destruct (app_inv_len _ _ _ _ Hl H) as [-> ->]. auto.
  - (* an event *)
    destruct ev as [[sc sp] [dc dp] ba fc t], ev' as [[sc' sp'] [dc' dp'] ba' fc' t'].
    cbn [ev_src ev_dst a_cid a_port ev_buf_alloc ev_fwd_cnt ev_type] in H.
    injection H as -> -> -> -> -> -> H. destruct (enc_etype_app_inj _ _ _ _ H) as [-> ->]. auto.
Qed.

Lemma enc_res_inj r r' : enc_res r = enc_res r' -> r = r'.
Proof. intros H. apply (enc_res_app_inj r r' [] []). now rewrite !app_nil_r. Qed.

Lemma concat_len_inj {A} (f : A -> list N) tx tx' :
  concat (map (fun p => lenN (f p) :: f p) tx) = concat (map (fun p => lenN (f p) :: f p) tx') -> map f tx = map f tx'.
Proof.
  revert tx'. induction tx as [|p tx IH]; intros [|p' tx'] H; cbn [map concat app] in *; try discriminate H; [reflexivity|].
  injection H as Hl H. apply Nat2N.inj in Hl. destruct (app_inv_len _ _ _ _ Hl H) as [-> H']. now rewrite (IH _ H').
Qed.

Lemma enc_tx_inj tx tx' : enc_tx tx = enc_tx tx' -> map encode_pkt tx = map encode_pkt tx'.
Proof. unfold enc_tx. intros H. injection H as _ H. now apply concat_len_inj. Qed.

Theorem enc_result_inj r tx r' tx' :
  enc_result r tx = enc_result r' tx' -> r = r' /\ map encode_pkt tx = map encode_pkt tx'.
Proof.
  unfold enc_result. intros H. destruct (enc_res_app_inj _ _ _ _ H) as [-> H']. split; [reflexivity|now apply enc_tx_inj].
Qed.

(* ... and the bytes of a packet determine the packet, for headers whose fields fit their widths (every header the driver
   builds from 64-bit cids, 32-bit ports and counters does) *)
Lemma encode_hdr_length h : length (encode_hdr h) = 44%nat.
Proof. unfold encode_hdr. rewrite !app_length, !le_enc_length. reflexivity. Qed.

Lemma encode_pkt_inj p p' : hdr_in_range (fst p) -> hdr_in_range (fst p') -> encode_pkt p = encode_pkt p' -> p = p'.
Proof.
  destruct p as [h b], p' as [h' b']. cbn [fst]. unfold encode_pkt. cbn [fst snd]. intros Hr Hr' H.
  assert (E : h = h').
  { rewrite <- (decode_encode_hdr h b Hr), <- (decode_encode_hdr h' b' Hr'). now rewrite H. }
  subst h'. apply app_inv_head in H. now subst.
Qed.

Lemma cmm_cons_inj {A} (a b : A) l l' : a :: l = b :: l' -> a = b /\ l = l'.
Proof. intros H. injection H; auto. Qed.

Theorem enc_result_inj_pkts r tx r' tx' :
  Forall (fun p => hdr_in_range (fst p)) tx -> Forall (fun p => hdr_in_range (fst p)) tx' ->
  enc_result r tx = enc_result r' tx' -> r = r' /\ tx = tx'.
Proof.
  intros F F' H. destruct (enc_result_inj _ _ _ _ H) as [-> Hm]. split; [reflexivity|]. clear H.
  revert tx' F' Hm. induction F as [|p tx Hp F IH]; intros [|p' tx'] F' Hm; cbn [map] in Hm; try discriminate Hm; [reflexivity|].
  inversion F' as [|? ? Hp' F'']; subst. apply cmm_cons_inj in Hm. destruct Hm as [Hp0 Hm]. rewrite (encode_pkt_inj _ _ Hp Hp' Hp0), (IH _ F'' Hm).
  reflexivity.
Qed.

(* ================================================================================================ *)
(* A. MEANING OF THE STATELESS MONITORS (kinds 1891..1898)                                          *)
(* ================================================================================================ *)
(* The numbers [present; established; available] of a key are what the harness reads through the PUBLIC API before and
   after the operation (is_connection_established / recv_buffer_available_bytes: present = 0 when both say NotConnected,
   1 when both answer; 9 9 9 when they disagree or panic).  class / code are the first two numbers of the encoded
   result: class 0 = Ok, 1 = Err with code = the error, 2 = panic.  ntx = the number of chains the tx device received
   during the call, tx_op = the operation field of the first of them (0 when there is none).                         *)

(* the error codes the monitors name *)
Lemma E_codes : E_ConnectionExists = 101 /\ E_NotConnected = 102 /\ E_PeerSocketShutdown = 103.
Proof. repeat split. Qed.

Ltac split_ifs :=
  repeat match goal with
         | |- context [if ?c then _ else _] => let E := fresh "E" in destruct c eqn:E
         end.

(* ---- kind 1891, the frame condition -------------------------------------------------------------- *)
(* one row per key of the scenario's universe: the key, its probe before the operation, its probe after *)
Definition frow : Type := (key * (N * N * N) * (N * N * N))%type.
Fixpoint flat_rows (rows : list frow) : list N :=
  match rows with
  | [] => []
  | ((c, p, lp), (p0, e0, a0), (p1, e1, a1)) :: t => c :: p :: lp :: p0 :: e0 :: a0 :: p1 :: e1 :: a1 :: flat_rows t
  end.

Lemma flat_rows_length rows : length (flat_rows rows) = (9 * length rows)%nat.
Proof. induction rows as [|[[[[c p] lp] [[p0 e0] a0]] [[p1 e1] a1]] t IH]; cbn [flat_rows length]; lia. Qed.

Definition row_rule (has : bool) (k : key) (r : frow) : Prop :=
  match r with (k0, before, after) => (has = true /\ k0 = k) \/ before = after end.

Lemma frame_ok_sound has k : forall fuel l, frame_ok fuel has k l = true ->
  exists rows, l = flat_rows rows /\ forall r, In r rows -> row_rule has k r.
Proof.
  induction fuel as [|f IH]; intros l H.
  - destruct l; [|discriminate H]. exists []. split; [reflexivity|]. intros r [].
  - destruct l as [|c [|p [|lp [|p0 [|e0 [|a0 [|p1 [|e1 [|a1 rest]]]]]]]]]; try discriminate H.
    + exists []. split; [reflexivity|]. intros r [].
    + cbn [frame_ok] in H. apply andb_prop in H. destruct H as [H1 H2]. destruct (IH _ H2) as (rows & -> & Hr).
      exists (((c, p, lp), (p0, e0, a0), (p1, e1, a1)) :: rows). split; [reflexivity|].
      intros r [<-|Hi]; [|now apply Hr]. cbn [row_rule].
      apply orb_prop in H1. destruct H1 as [H1|H1].
      * left. apply andb_prop in H1. destruct H1 as [-> H1]. split; [reflexivity|].
        symmetry. now destruct (key_eqb_spec k (c, p, lp)).
      * right. assert (p0 = p1 /\ e0 = e1 /\ a0 = a1) as (-> & -> & ->) by lia. reflexivity.
Qed.

Lemma frame_ok_complete has k : forall rows fuel, (length rows <= fuel)%nat ->
  (forall r, In r rows -> row_rule has k r) -> frame_ok fuel has k (flat_rows rows) = true.
Proof.
  induction rows as [|[[[[c p] lp] [[p0 e0] a0]] [[p1 e1] a1]] t IH]; intros fuel Hf Hr.
  - destruct fuel; reflexivity.
  - destruct fuel as [|f]; [cbn [length] in Hf; lia|]. cbn [flat_rows frame_ok].
    rewrite IH; [|cbn [length] in Hf; lia|intros r Hi; apply Hr; now right].
    rewrite andb_true_r. destruct (Hr _ (or_introl eq_refl)) as [[-> E]|E]; cbn [row_rule] in *.
    + rewrite <- E, key_eqb_refl. reflexivity.
    + injection E as -> -> ->. rewrite !N.eqb_refl. apply orb_true_r.
Qed.

(* kind 1891: [has_key; cid; port; lp; (cid port lp  present established available  present' established' available')*]
   (has_key = 1 and the key the operation or packet names, or 0 0 0 0 when it names none; then one row per key of the
   universe).  A true verdict: the line consists of whole rows, and every row whose key is not the named one has the same
   probe before and after: NO OTHER CONNECTION IS AFFECTED - nothing appears, disappears, becomes established, gains or
   loses a buffered byte.  (Equivalence: the monitor asks for nothing else.) *)
Theorem mon_frame_meaning ins : mon_frame ins = true <->
  exists has c p lp rows, ins = has :: c :: p :: lp :: flat_rows rows
    /\ forall k0 before after, In (k0, before, after) rows -> (has <> 0 /\ k0 = (c, p, lp)) \/ before = after.
Proof.
  unfold mon_frame. split.
  - intros H. destruct ins as [|has [|c [|p [|lp rest]]]]; try discriminate H.
    destruct (frame_ok_sound _ _ _ _ H) as (rows & -> & Hr). exists has, c, p, lp, rows. split; [reflexivity|].
    intros k0 b a Hi. destruct (Hr _ Hi) as [[Hh ->]|E]; [left|now right]. split; [|reflexivity].
    unfold n2b in Hh. lia.
  - intros (has & c & p & lp & rows & -> & Hr). apply frame_ok_complete.
    + rewrite flat_rows_length. lia.
    + intros [[k0 b] a] Hi. cbn [row_rule]. destruct (Hr _ _ _ Hi) as [[Hh ->]|E]; [left|now right].
      split; [|reflexivity]. unfold n2b. lia.
Qed.

(* ---- kind 1892 ----------------------------------------------------------------------------------- *)
(* [kind of the operation (1803 connect, 1804 send, 1805 recv, 1806 recv_buffer_available_bytes, 1807
    is_connection_established, 1808 update_credit, 1809 shutdown, 1810 force_close); the key was present before; class;
    code; ntx; the key is present after].  Written only when no transmission failed.
   A true verdict says exactly:
    - a DUPLICATE connect fails with ConnectionExists, sends nothing, and the connection is still there;
    - a connect on a key that was not there (present <> 1) returns Ok, sends one packet, and the connection is there;
    - send .. force_close on an UNKNOWN connection fail with NotConnected, send nothing and create nothing;
    - on a known one (present <> 0) they do not fail with NotConnected. *)
Theorem mon_known_meaning kind present class code ntx present' :
  mon_known [kind; present; class; code; ntx; present'] = true <->
  (kind = 1803
   /\ (present = 1 -> class = 1 /\ code = E_ConnectionExists /\ ntx = 0 /\ present' = 1)
   /\ (present <> 1 -> class = 0 /\ ntx = 1 /\ present' = 1))
  \/ (1804 <= kind <= 1810
      /\ (present = 0 -> class = 1 /\ code = E_NotConnected /\ ntx = 0 /\ present' = 0)
      /\ (present <> 0 -> ~ (class = 1 /\ code = E_NotConnected))).
Proof.
  unfold mon_known. change E_ConnectionExists with 101. change E_NotConnected with 102. split_ifs; lia.
Qed.

Lemma mon_known_arity ins : mon_known ins = true -> length ins = 6%nat.
Proof. unfold mon_known. do 7 (destruct ins as [|? ins]; try discriminate); reflexivity. Qed.

(* ---- kind 1893 ----------------------------------------------------------------------------------- *)
(* [receive buffers the device holds (available, not yet used); completions the driver has not polled yet; queue size]:
   no receive buffer is lost - every one of the `size` buffers is either with the device or waiting to be polled *)
Theorem mon_stock_meaning held pending size : mon_stock [held; pending; size] = true <-> held + pending = size.
Proof. unfold mon_stock. lia. Qed.

Lemma mon_stock_arity ins : mon_stock ins = true -> length ins = 3%nat.
Proof. unfold mon_stock. do 4 (destruct ins as [|? ins]; try discriminate); reflexivity. Qed.

(* ---- kind 1894 ----------------------------------------------------------------------------------- *)
(* The packet rules on one observed poll that consumed a completed receive buffer (written only when no transmission
   failed).
     framing_ok : the used length is within the buffer size, at least a header, and header + length field fit in it
     for_us     : the destination cid of the header is the guest's
     op, len    : operation and length field of the header
     present, avail   : the probe of the key (source cid, source port, destination port) BEFORE the poll
     body_len   : the number of payload bytes (the length field, when the framing is sound)
     class, has_event : poll returned Ok (0) / Err (1) / panicked (2); it returned Some(event)
     ntx, tx_op : packets put on the tx queue by the poll, operation of the first
     present', avail', est' : the probe of the key AFTER the poll                                                  *)
Definition packet_rule
  (framing_ok for_us op len present avail body_len class has_event ntx tx_op present' avail' est' : N) : Prop :=
  let unchanged := present' = present /\ avail' = avail in
  let well_formed := 1 <= op <= 7 /\ (op = 5 \/ len = 0) in
  (* a buffer that holds no complete packet, an operation outside 1..7, data on an operation that carries none:
     an error, nothing sent, the connection the header names neither created, removed nor fed *)
  ((framing_ok = 0 \/ ~ well_formed) -> class = 1 /\ ntx = 0 /\ unchanged)
  /\ (framing_ok <> 0 -> well_formed ->
      (* for another guest: ignored *)
      (for_us = 0 -> class = 0 /\ has_event = 0 /\ ntx = 0 /\ unchanged)
      /\ (for_us <> 0 ->
          (* NO SUCH CONNECTION *)
          (present = 0 ->
             (* a request is accepted and reported (RESPONSE sent; the connection exists, established, empty), or reset
                and not reported (RST sent, no connection) *)
             (op = 1 ->
                class = 0
                /\ ((has_event = 1 /\ ntx = 1 /\ tx_op = VOP_RESPONSE /\ present' = 1 /\ est' = 1 /\ avail' = 0)
                    \/ (has_event = 0 /\ ntx = 1 /\ tx_op = VOP_RST /\ present' = 0)))
             (* anything else creates no state, delivers nothing, is not answered and not reported *)
             /\ (op <> 1 -> class = 0 /\ has_event = 0 /\ ntx = 0 /\ present' = 0))
          (* A KNOWN CONNECTION *)
          /\ (present <> 0 ->
              (* data: appended and reported, or refused as a whole; never answered; the connection stays *)
              (op = 5 ->
                 ntx = 0 /\ present' = 1
                 /\ ((class = 0 /\ has_event = 1 /\ avail' = avail + body_len) \/ (class = 1 /\ avail' = avail)))
              (* reset (3) / shutdown (4) from the peer: reported; an empty connection is closed at once (a shutdown
                 answered with a RST), one with buffered data stays with its data *)
              /\ (op = 3 \/ op = 4 ->
                    class = 0 /\ has_event = 1
                    /\ (avail = 0 -> present' = 0 /\ (op = 4 -> ntx = 1 /\ tx_op = VOP_RST) /\ (op = 3 -> ntx = 0))
                    /\ (avail <> 0 -> present' = 1 /\ avail' = avail /\ ntx = 0))
              (* a request for a connection that exists: accepted again (buffer kept) or reset and removed *)
              /\ (op = 1 ->
                    class = 0
                    /\ ((has_event = 1 /\ ntx = 1 /\ tx_op = VOP_RESPONSE /\ present' = 1 /\ est' = 1 /\ avail' = avail)
                        \/ (has_event = 0 /\ ntx = 1 /\ tx_op = VOP_RST /\ present' = 0)))
              (* a credit request is answered with a credit update and not reported *)
              /\ (op = 7 -> class = 0 /\ has_event = 0 /\ ntx = 1 /\ tx_op = VOP_CREDIT_UPDATE /\ unchanged)
              (* response (2) / credit update (6): reported, not answered; a response establishes *)
              /\ (op = 2 \/ op = 6 -> class = 0 /\ has_event = 1 /\ ntx = 0 /\ unchanged /\ (op = 2 -> est' = 1))))).

(* a true verdict of monitor 1894 states packet_rule on the fourteen numbers of the line (soundness; unlike the other
   stateless kinds the converse is not proved here - the audit examples at the end of the file probe it instead) *)
Ltac kill_if0 :=
  match goal with
  | |- context [if ?c then _ else _] =>
      first [replace c with false by lia | replace c with true by lia]; cbv iota
  end.
Ltac brk :=
  repeat match goal with
         | |- _ /\ _ => split
         | |- _ -> _ => intro; try (exfalso; lia)
         end.
Ltac leaf := repeat kill_if0; intros H; brk; lia.

Theorem mon_packet_meaning framing_ok for_us op len present avail body_len class has_event ntx tx_op present' avail' est' :
  mon_packet [framing_ok; for_us; op; len; present; avail; body_len; class; has_event; ntx; tx_op; present'; avail'; est'] = true
  -> packet_rule framing_ok for_us op len present avail body_len class has_event ntx tx_op present' avail' est'.
Proof.
  unfold mon_packet, packet_rule, n2b, VOP_RESPONSE, VOP_RST, VOP_CREDIT_UPDATE. cbv zeta.
  destruct (N.eq_dec framing_ok 0) as [F|F]; [leaf|].
  destruct (N.le_gt_cases 1 op) as [W1|W1]; [|leaf].
  destruct (N.le_gt_cases op 7) as [W2|W2]; [|leaf].
  assert (W : op = 5 \/ (op <> 5 /\ len = 0) \/ (op <> 5 /\ len <> 0)) by lia.
  destruct W as [W|[[W3 W4]|[W3 W4]]]; [| |leaf].
  all: (destruct (N.eq_dec for_us 0) as [U|U]; [leaf|]).
  all: assert (O : op = 1 \/ op = 2 \/ op = 3 \/ op = 4 \/ op = 5 \/ op = 6 \/ op = 7) by lia.
  all: destruct (N.eq_dec present 0) as [P|P].
  all: destruct (N.eq_dec avail 0) as [A|A]; destruct O as [O|[O|[O|[O|[O|[O|O]]]]]]; subst op; try lia; leaf.
Qed.

Lemma mon_packet_arity ins : mon_packet ins = true -> length ins = 14%nat.
Proof. unfold mon_packet. do 15 (destruct ins as [|? ins]; try discriminate); reflexivity. Qed.

(* ---- kind 1895 ----------------------------------------------------------------------------------- *)
(* one recv (written only when no transmission failed):
   [present; available bytes before; length of the caller's buffer; class; bytes returned; ntx; tx_op; present'; available'].
   A true verdict: on an unknown connection an error, nothing sent, nothing created; on a known one recv returns Ok with
   exactly min(n, available) bytes; if the connection is still there afterwards the remaining bytes are still buffered and
   nothing was sent; if it is gone, the buffer had been drained completely and exactly one packet, a RST, was sent. *)
Theorem mon_recv_meaning present avail n class nbytes ntx tx_op present' avail' :
  mon_recv [present; avail; n; class; nbytes; ntx; tx_op; present'; avail'] = true <->
  (present = 0 -> class = 1 /\ ntx = 0 /\ present' = 0)
  /\ (present <> 0 ->
      class = 0 /\ nbytes = N.min n avail
      /\ (present' = 1 -> avail' = avail - nbytes /\ ntx = 0)
      /\ (present' <> 1 -> nbytes = avail /\ ntx = 1 /\ tx_op = VOP_RST)).
Proof. unfold mon_recv, VOP_RST. split_ifs; lia. Qed.

Lemma mon_recv_arity ins : mon_recv ins = true -> length ins = 9%nat.
Proof. unfold mon_recv. do 10 (destruct ins as [|? ins]; try discriminate); reflexivity. Qed.

(* ---- kind 1896 ----------------------------------------------------------------------------------- *)
(* [kind of the operation (1803..1812); s; e; present; established; available; class; code; present'; established';
    available']: (s, e) is the fate of the operation's transmission (s = 0 none failed, 1 `add` failed with e, 2 `pop_used`
   failed with e).  A true verdict: WHEN a transmission failed and the operation returned exactly that error, the connection
   it names is, through the public queries, as it was. *)
Theorem mon_txfail_meaning kind s e present est avail class code present' est' avail' :
  mon_txfail [kind; s; e; present; est; avail; class; code; present'; est'; avail'] = true <->
  1803 <= kind <= 1812
  /\ (s <> 0 -> class = 1 -> code = e -> present' = present /\ est' = est /\ avail' = avail).
Proof. unfold mon_txfail. split_ifs; lia. Qed.

Lemma mon_txfail_arity ins : mon_txfail ins = true -> length ins = 11%nat.
Proof. unfold mon_txfail. do 12 (destruct ins as [|? ins]; try discriminate); reflexivity. Qed.

(* ---- kind 1897 ----------------------------------------------------------------------------------- *)
(* [credit the peer granted; class and code of a send; the error e its transmission met (0: none); length of the same send
    tried again on a healthy device; its class]: a send that failed in the tx queue consumed no credit - the retry within
   the credit is accepted *)
Theorem mon_send_credit_meaning credit class code e len class' :
  mon_send_credit [credit; class; code; e; len; class'] = true <->
  (class = 1 -> code = e -> len <= credit -> class' = 0).
Proof. unfold mon_send_credit. split_ifs; lia. Qed.

Lemma mon_send_credit_arity ins : mon_send_credit ins = true -> length ins = 6%nat.
Proof. unfold mon_send_credit. do 7 (destruct ins as [|? ins]; try discriminate); reflexivity. Qed.

(* ---- kind 1898 ----------------------------------------------------------------------------------- *)
(* [class and code of the poll that consumed the peer's SHUTDOWN; the error e the RST met (0: none); class and code of a
    send afterwards]: when the poll returned the tx queue's error the shutdown is not forgotten - send is refused with
   PeerSocketShutdown *)
Theorem mon_shut_remembered_meaning class code e sclass scode :
  mon_shut_remembered [class; code; e; sclass; scode] = true <->
  (class = 1 -> code = e -> sclass = 1 /\ scode = E_PeerSocketShutdown).
Proof. unfold mon_shut_remembered. change E_PeerSocketShutdown with 103. split_ifs; lia. Qed.

Lemma mon_shut_remembered_arity ins : mon_shut_remembered ins = true -> length ins = 5%nat.
Proof. unfold mon_shut_remembered. do 6 (destruct ins as [|? ins]; try discriminate); reflexivity. Qed.

(* the stateless kinds are these functions, in every state of the runner, and leave the state alone *)
Lemma connmgr_step_stateless st ins :
  connmgr_step st 1891 ins = (st, [b2n (mon_frame ins)]) /\ connmgr_step st 1892 ins = (st, [b2n (mon_known ins)])
  /\ connmgr_step st 1893 ins = (st, [b2n (mon_stock ins)]) /\ connmgr_step st 1894 ins = (st, [b2n (mon_packet ins)])
  /\ connmgr_step st 1895 ins = (st, [b2n (mon_recv ins)]) /\ connmgr_step st 1896 ins = (st, [b2n (mon_txfail ins)])
  /\ connmgr_step st 1897 ins = (st, [b2n (mon_send_credit ins)])
  /\ connmgr_step st 1898 ins = (st, [b2n (mon_shut_remembered ins)]).
Proof. repeat split. Qed.

(* ================================================================================================ *)
(* A. MEANING OF THE STATEFUL MONITORS (kinds 1851..1862, 1871..1882, 1890)                         *)
(* ================================================================================================ *)
(* The runner's state for this topic is a pair of an implementation-model state io_m (advanced by the lines 1801..1812 /
   1821..1832) and a state io_s of the abstract specification Model/ConnMgrSpec.v (a map from (peer cid, peer port,
   local port) to entries, no vector, no index), advanced by the MONITOR lines only.                                 *)
Ltac kill_if :=
  match goal with
  | |- context [if ?c then _ else _] =>
      first [replace c with false by lia | replace c with true by lia]; cbv iota
  end.

Lemma connmgr_step_185x io k ins : 1851 <= k <= 1862 ->
  connmgr_step (Some io) k ins =
    match ins with
    | n :: rest =>
        let '(opins, observed) := cm_split_at (cm_cnt n rest) rest in
        match dec_op (k - 50) opins with
        | Some o =>
            let '(s', r, tx) := sp_step (io_md io) (io_s io) o in
            (Some (mkIo (io_md io) (io_m io) s'), [b2n (cm_list_eqb (enc_result r tx) observed)])
        | None => (Some io, cm_bad)
        end
    | _ => (Some io, cm_bad)
    end.
Proof. intros Hk. unfold connmgr_step. repeat kill_if. reflexivity. Qed.

Lemma connmgr_step_187x io k ins : 1871 <= k <= 1882 ->
  connmgr_step (Some io) k ins =
    match ins with
    | n :: rest =>
        let '(allins, observed) := cm_split_at (cm_cnt n rest) rest in
        match allins with
        | s1 :: e1 :: s2 :: e2 :: opins =>
            match dec_op (k - 70) opins with
            | Some o =>
                let '(s', r, tx) := sp_step_tx (io_md io) (io_s io) o (dec_txin s1 e1 s2 e2) in
                (Some (mkIo (io_md io) (io_m io) s'), [b2n (cm_list_eqb (enc_result r tx) observed)])
            | None => (Some io, cm_bad)
            end
        | _ => (Some io, cm_bad)
        end
    | _ => (Some io, cm_bad)
    end.
Proof. intros Hk. unfold connmgr_step. repeat kill_if. reflexivity. Qed.

Lemma connmgr_step_180x io k ins : 1801 <= k <= 1812 ->
  connmgr_step (Some io) k ins =
    match dec_op k ins with
    | Some o => let '(m', r, tx) := cm_step (io_md io) (io_m io) o in (Some (mkIo (io_md io) m' (io_s io)), enc_result r tx)
    | None => (Some io, cm_bad)
    end.
Proof. intros Hk. unfold connmgr_step. repeat kill_if. reflexivity. Qed.

Lemma connmgr_step_182x io k ins : 1821 <= k <= 1832 ->
  connmgr_step (Some io) k ins =
    match ins with
    | s1 :: e1 :: s2 :: e2 :: opins =>
        match dec_op (k - 20) opins with
        | Some o =>
            let '(m', r, tx) := cm_step_tx (io_md io) (io_m io) o (dec_txin s1 e1 s2 e2) in
            (Some (mkIo (io_md io) m' (io_s io)), enc_result r tx)
        | None => (Some io, cm_bad)
        end
    | _ => (Some io, cm_bad)
    end.
Proof. intros Hk. unfold connmgr_step. repeat kill_if. reflexivity. Qed.

Lemma not_bad (st st' : option cmio) : (st, cm_bad) = (st', [1]) -> False.
Proof. unfold cm_bad. intros H. injection H as _ H. discriminate H. Qed.

Lemma enc_result_nonempty r tx : 1 <= lenN (enc_result r tx).
Proof.
  unfold enc_result, enc_tx. rewrite lenN_app, lenN_cons. lia.
Qed.

Lemma cm_cut n rest opins observed :
  cm_split_at (cm_cnt n rest) rest = (opins, observed) ->
  rest = opins ++ observed /\ lenN opins = N.min n (lenN opins + lenN observed).
Proof.
  rewrite cm_split_at_spec. intros H. injection H as <- <-. split; [now rewrite firstn_skipn|].
  rewrite <- lenN_app, firstn_skipn. unfold lenN, cm_cnt. rewrite firstn_length. unfold lenN. lia.
Qed.

Lemma cm_split_at_app a b : cm_split_at (length a) (a ++ b) = (a, b).
Proof. induction a as [|x a IH]; cbn [length app cm_split_at]; [now destruct b|now rewrite IH]. Qed.

Lemma cm_cnt_len (a b : list N) : cm_cnt (lenN a) (a ++ b) = length a.
Proof. unfold cm_cnt. rewrite lenN_app, N.min_l by lia. unfold lenN. apply Nat2N.id. Qed.

(* kinds 1851 .. 1862 (= 1801 .. 1812 + 50): [n; the n inputs of the operation; everything observed of the call: the encoded
   result, the number of packets the tx device received, and per packet its length and bytes].
   A TRUE VERDICT says: the line is such a line (the count n is exact), the inputs decode to an operation o (dec_op_table),
   and what was OBSERVED of the implementation is exactly the encoding of what the abstract specification sp_step answers
   to o in its current state - same returned value, same packets on the wire byte for byte (enc_result_inj) - and the
   specification state is advanced by that very step (the implementation-model state is not touched).
   sp_step is the specification itself (Model/ConnMgrSpec.v, written from the protocol rules); unfolding it here would
   repeat that file. *)
Theorem mon185x_meaning io k ins st' :
  1851 <= k <= 1862 -> connmgr_step (Some io) k ins = (st', [1]) ->
  exists n opins observed o s' r tx,
    ins = n :: opins ++ observed /\ lenN opins = n
    /\ dec_op (k - 50) opins = Some o
    /\ sp_step (io_md io) (io_s io) o = (s', r, tx)
    /\ observed = enc_result r tx
    /\ st' = Some (mkIo (io_md io) (io_m io) s').
Proof.
  intros Hk H. rewrite (connmgr_step_185x io k ins Hk) in H.
  destruct ins as [|n rest]; [now apply not_bad in H|].
  destruct (cm_split_at (cm_cnt n rest) rest) as [opins observed] eqn:Ec.
  destruct (dec_op (k - 50) opins) as [o|] eqn:Ed; [|now apply not_bad in H].
  destruct (sp_step (io_md io) (io_s io) o) as [[s' r] tx] eqn:Es.
  injection H as <- Hb. apply cmm_b2n_1, cm_list_eqb_eq in Hb. subst observed.
  destruct (cm_cut _ _ _ _ Ec) as [-> Hl].
  exists n, opins, (enc_result r tx), o, s', r, tx. repeat split; auto.
  pose proof (enc_result_nonempty r tx). lia.
Qed.

(* the outcome of a transmission as the lines encode it: s = 0 Ok, 1 `add` failed with e, anything else `pop_used` failed *)
Lemma dec_txres_table s e :
  (s = 0 -> dec_txres s e = TxOk) /\ (s = 1 -> dec_txres s e = TxAddFail e)
  /\ (s <> 0 -> s <> 1 -> dec_txres s e = TxPopFail e).
Proof.
  unfold dec_txres. repeat split; intros; subst; try reflexivity.
  destruct (N.eqb_spec s 0); [contradiction|]. destruct (N.eqb_spec s 1); [contradiction|]. reflexivity.
Qed.

(* kinds 1871 .. 1882 (= 1821 .. 1832 + 50): [n; s1; e1; s2; e2; the inputs of the operation; the observed outs], n = 4 + the
   number of inputs; (s1, e1) / (s2, e2) = the fate the tx device's books predict for a header-only packet / one with a
   payload.  A true verdict: what was observed (result; the packets the DEVICE saw) is the encoding of what the
   specification under failure sp_step_tx answers (the effect of the step withheld, the tx queue's error passed on, a
   packet whose `add` failed not seen), and the specification is advanced by that step. *)
Theorem mon187x_meaning io k ins st' :
  1871 <= k <= 1882 -> connmgr_step (Some io) k ins = (st', [1]) ->
  exists n s1 e1 s2 e2 opins observed o s' r tx,
    ins = n :: s1 :: e1 :: s2 :: e2 :: opins ++ observed /\ 4 + lenN opins = n
    /\ dec_op (k - 70) opins = Some o
    /\ sp_step_tx (io_md io) (io_s io) o (dec_txin s1 e1 s2 e2) = (s', r, tx)
    /\ observed = enc_result r tx
    /\ st' = Some (mkIo (io_md io) (io_m io) s').
Proof.
  intros Hk H. rewrite (connmgr_step_187x io k ins Hk) in H.
  destruct ins as [|n rest]; [now apply not_bad in H|].
  destruct (cm_split_at (cm_cnt n rest) rest) as [allins observed] eqn:Ec.
  destruct allins as [|s1 [|e1 [|s2 [|e2 opins]]]]; try (now apply not_bad in H).
  destruct (dec_op (k - 70) opins) as [o|] eqn:Ed; [|now apply not_bad in H].
  destruct (sp_step_tx (io_md io) (io_s io) o (dec_txin s1 e1 s2 e2)) as [[s' r] tx] eqn:Es.
  injection H as <- Hb. apply cmm_b2n_1, cm_list_eqb_eq in Hb. subst observed.
  destruct (cm_cut _ _ _ _ Ec) as [-> Hl].
  exists n, s1, e1, s2, e2, opins, (enc_result r tx), o, s', r, tx. repeat split; auto.
  pose proof (enc_result_nonempty r tx). rewrite !lenN_cons in Hl. lia.
Qed.

(* what a line of the documented layout evaluates to: the verdict is the comparison and nothing else *)
Lemma mon185x_line io k opins observed o :
  1851 <= k <= 1862 -> dec_op (k - 50) opins = Some o ->
  connmgr_step (Some io) k (lenN opins :: opins ++ observed)
  = let '(s', r, tx) := sp_step (io_md io) (io_s io) o in
    (Some (mkIo (io_md io) (io_m io) s'), [b2n (cm_list_eqb (enc_result r tx) observed)]).
Proof.
  intros Hk Hd. rewrite (connmgr_step_185x io k _ Hk). rewrite cm_cnt_len, cm_split_at_app, Hd. reflexivity.
Qed.

Lemma mon187x_line io k s1 e1 s2 e2 opins observed o :
  1871 <= k <= 1882 -> dec_op (k - 70) opins = Some o ->
  connmgr_step (Some io) k (4 + lenN opins :: s1 :: e1 :: s2 :: e2 :: opins ++ observed)
  = let '(s', r, tx) := sp_step_tx (io_md io) (io_s io) o (dec_txin s1 e1 s2 e2) in
    (Some (mkIo (io_md io) (io_m io) s'), [b2n (cm_list_eqb (enc_result r tx) observed)]).
Proof.
  intros Hk Hd. rewrite (connmgr_step_187x io k _ Hk).
  change (s1 :: e1 :: s2 :: e2 :: opins ++ observed) with ((s1 :: e1 :: s2 :: e2 :: opins) ++ observed).
  replace (4 + lenN opins) with (lenN (s1 :: e1 :: s2 :: e2 :: opins)) by (rewrite !lenN_cons; lia).
  rewrite cm_cnt_len, cm_split_at_app, Hd. reflexivity.
Qed.

(* ---- kind 1890: the probe of the public API against the specification's table ---- *)
Fixpoint flat_keys (ks : list key) : list N :=
  match ks with [] => [] | (c, p, lp) :: t => c :: p :: lp :: flat_keys t end.

Lemma flat_keys_length ks : length (flat_keys ks) = (3 * length ks)%nat.
Proof. induction ks as [|[[c p] lp] t IH]; cbn [flat_keys length]; lia. Qed.

Lemma dec_keys_inv : forall fuel l, (length l <= fuel)%nat ->
  exists junk, l = flat_keys (dec_keys fuel l) ++ junk /\ (length junk < 3)%nat.
Proof.
  induction fuel as [|f IH]; intros l Hl.
  - destruct l; [|cbn [length] in Hl; lia]. exists []. split; [reflexivity|cbn; lia].
  - destruct l as [|c [|p [|lp rest]]]; cbn [dec_keys].
    + exists []. split; [reflexivity|cbn; lia].
    + exists [c]. split; [reflexivity|cbn; lia].
    + exists [c; p]. split; [reflexivity|cbn; lia].
    + destruct (IH rest) as (junk & E & Hj); [cbn [length] in Hl; lia|]. exists junk. split; [|exact Hj].
      cbn [flat_keys app]. now rewrite <- E.
Qed.

Lemma dec_keys_flat ks : forall fuel, (length ks <= fuel)%nat -> dec_keys fuel (flat_keys ks) = ks.
Proof.
  induction ks as [|[[c p] lp] t IH]; intros fuel Hf.
  - destruct fuel; reflexivity.
  - destruct fuel as [|f]; [cbn [length] in Hf; lia|]. cbn [flat_keys dec_keys]. rewrite IH; [reflexivity|cbn [length] in Hf; lia].
Qed.

(* what the three numbers of a probe say about the entry they encode *)
Lemma enc_probe_meaning o p e a : enc_probe o = [p; e; a] <->
  (o = None /\ p = 0 /\ e = 0 /\ a = 0) \/ (exists en, o = Some en /\ p = 1 /\ e = b2n (se_est en) /\ a = lenN (se_buf en)).
Proof.
  destruct o as [en|]; cbn [enc_probe]; split.
  - intros H. injection H as <- <- <-. right. eauto.
  - intros [[H _]|(en' & H & -> & -> & ->)]; [discriminate H|]. now injection H as <-.
  - intros H. injection H as <- <- <-. left. auto.
  - intros [(_ & -> & -> & ->)|(en' & H & _)]; [reflexivity|discriminate H].
Qed.

Lemma connmgr_step_1890 io ins :
  connmgr_step (Some io) 1890 ins =
    match ins with
    | n :: rest =>
        let '(kl, observed) := cm_split_at (cm_cnt (3 * n) rest) rest in
        (Some io, [b2n (cm_list_eqb (concat (map (fun key => enc_probe (slookup key (sp_tab (io_s io))))
                                                 (dec_keys (length kl) kl))) observed)])
    | _ => (Some io, cm_bad)
    end.
Proof. reflexivity. Qed.

(* kind 1890: [number of keys; the keys (cid port lp)*; per key what the public API says: present established available].
   A true verdict: the runner's state is unchanged, and the observed numbers are, key by key, present / established /
   available-bytes of the entry the SPECIFICATION's table holds for that key (0 0 0 for none; enc_probe_meaning):
   the connection table of the implementation, as far as the public API shows it, is the specification's.
   Either the count is exact, or it exceeds what the line holds and then nothing at all was compared. *)
Theorem mon1890_meaning io ins st' :
  connmgr_step (Some io) 1890 ins = (st', [1]) ->
  st' = Some io
  /\ exists n ks junk observed,
       ins = n :: flat_keys ks ++ junk ++ observed
       /\ observed = concat (map (fun key => enc_probe (slookup key (sp_tab (io_s io)))) ks)
       /\ ((lenN ks = n /\ junk = []) \/ (ks = [] /\ observed = [] /\ lenN junk < 3 /\ lenN junk < 3 * n)).
Proof.
  rewrite connmgr_step_1890. intros H. destruct ins as [|n rest]; [now apply not_bad in H|].
  destruct (cm_split_at (cm_cnt (3 * n) rest) rest) as [kl observed] eqn:Ec.
  injection H as <- Hb. split; [reflexivity|]. apply cmm_b2n_1, cm_list_eqb_eq in Hb.
  destruct (cm_cut _ _ _ _ Ec) as [-> Hl].
  destruct (dec_keys_inv (length kl) kl (le_n _)) as (junk & E & Hj).
  set (ks := dec_keys (length kl) kl) in *.
  exists n, ks, junk, observed. split; [now rewrite app_assoc, <- E|]. split; [now rewrite Hb|].
  assert (Lk : lenN kl = 3 * lenN ks + lenN junk).
  { rewrite E at 1. rewrite lenN_app. unfold lenN. rewrite flat_keys_length. lia. }
  destruct (N.le_gt_cases (3 * n) (lenN kl + lenN observed)) as [Hle|Hgt].
  - left. assert (lenN junk < 3) by (unfold lenN; lia). assert (lenN junk = 0) by lia.
    split; [lia|]. destruct junk; [reflexivity|]. rewrite lenN_cons in *. lia.
  - right. assert (Ho : lenN observed = 0) by lia.
    assert (observed = []) as Ho' by (destruct observed; [reflexivity|rewrite lenN_cons in Ho; lia]).
    assert (Hks : ks = []).
    { destruct ks as [|k0 t]; [reflexivity|]. exfalso. rewrite Ho' in Hb. cbn [map concat] in Hb.
      destruct (slookup k0 (sp_tab (io_s io))); discriminate Hb. }
    split; [exact Hks|]. split; [exact Ho'|]. rewrite Hks in Lk. cbn in Lk. unfold lenN in *. lia.
Qed.

(* a well-formed probe line evaluates to the comparison *)
Lemma mon1890_line io ks observed :
  connmgr_step (Some io) 1890 (lenN ks :: flat_keys ks ++ observed)
  = (Some io, [b2n (cm_list_eqb (concat (map (fun key => enc_probe (slookup key (sp_tab (io_s io)))) ks)) observed)]).
Proof.
  rewrite connmgr_step_1890.
  replace (3 * lenN ks) with (lenN (flat_keys ks)) by (unfold lenN; rewrite flat_keys_length; lia).
  rewrite cm_cnt_len, cm_split_at_app, dec_keys_flat; [reflexivity|]. rewrite flat_keys_length. lia.
Qed.

(* ================================================================================================ *)
(* B. THE MONITORS HOLD OF THE IMPLEMENTATION MODEL                                                 *)
(* ================================================================================================ *)
Lemma cm_list_eqb_refl a : cm_list_eqb a a = true.
Proof. now apply cm_list_eqb_eq. Qed.

(* The harness writes, per operation, the lock-step line k (1801..1812: the implementation model io_m is advanced and predicts
   `outs`) and then the monitor line k + 50 carrying what was observed.  When the implementation behaves like its model
   (observed = outs), in every state in which the model state has unique keys and stands for the specification state
   (KeysUnique, R: the invariant of step_refines, true after line 1800 by R_init), the monitor line gives [1] and the
   invariant holds again: kinds 1851..1862 never raise a false alarm on model-conforming code.
   Relies on ConnMgrProofs.step_refines (C18_refines). *)
Theorem mon185x_holds_of_model io k opins o :
  1801 <= k <= 1812 -> dec_op k opins = Some o ->
  KeysUnique (io_m io) -> R (io_m io) (io_s io) ->
  exists io1 outs io2,
    connmgr_step (Some io) k opins = (Some io1, outs)
    /\ connmgr_step (Some io1) (k + 50) (lenN opins :: opins ++ outs) = (Some io2, [1])
    /\ io_md io2 = io_md io /\ KeysUnique (io_m io2) /\ R (io_m io2) (io_s io2).
Proof.
  intros Hk Hd HK HR. rewrite (connmgr_step_180x io k opins Hk), Hd.
  pose proof (step_refines (io_md io) (io_m io) (io_s io) o HK HR) as Hs.
  destruct (cm_step (io_md io) (io_m io) o) as [[m' r] tx] eqn:Em.
  destruct (sp_step (io_md io) (io_s io) o) as [[s' r'] tx'] eqn:Es.
  cbn [sim] in Hs. destruct Hs as (<- & <- & HR' & HK').
  exists (mkIo (io_md io) m' (io_s io)), (enc_result r tx), (mkIo (io_md io) m' s').
  split; [reflexivity|]. split; [|cbn [io_md io_m io_s]; auto].
  rewrite (mon185x_line _ (k + 50) opins (enc_result r tx) o) by (try lia; replace (k + 50 - 50) with k by lia; exact Hd).
  cbn [io_md io_m io_s]. rewrite Es, cm_list_eqb_refl. reflexivity.
Qed.

(* the same under transmissions that fail (lines k + 20 and k + 70 with the predicted fate [s1 e1 s2 e2]), as far as
   ConnMgrProofs.step_tx_refines goes: unless the transmission fails at one of the four recorded open points
   (tx_open_point: the code as it stands deviates there, Theorems *_refuted of ConnMgrProofs.v, and the monitor then
   rightly says 0 on the model's own behaviour - step_tx_refines_everywhere_refuted) *)
Theorem mon187x_holds_of_model io k s1 e1 s2 e2 opins o :
  1801 <= k <= 1812 -> dec_op k opins = Some o ->
  KeysUnique (io_m io) -> R (io_m io) (io_s io) ->
  tx_fails_at (io_md io) (io_s io) o (dec_txin s1 e1 s2 e2) && tx_open_point (io_md io) (io_s io) o = false ->
  exists io1 outs io2,
    connmgr_step (Some io) (k + 20) (s1 :: e1 :: s2 :: e2 :: opins) = (Some io1, outs)
    /\ connmgr_step (Some io1) (k + 70) (4 + lenN opins :: s1 :: e1 :: s2 :: e2 :: opins ++ outs) = (Some io2, [1])
    /\ io_md io2 = io_md io /\ KeysUnique (io_m io2) /\ R (io_m io2) (io_s io2).
Proof.
  intros Hk Hd HK HR Hop. rewrite (connmgr_step_182x io (k + 20)) by lia.
  replace (k + 20 - 20) with k by lia. rewrite Hd.
  pose proof (step_tx_refines (io_md io) (io_m io) (io_s io) o (dec_txin s1 e1 s2 e2) HK HR Hop) as Hs.
  destruct (cm_step_tx (io_md io) (io_m io) o (dec_txin s1 e1 s2 e2)) as [[m' r] tx] eqn:Em.
  destruct (sp_step_tx (io_md io) (io_s io) o (dec_txin s1 e1 s2 e2)) as [[s' r'] tx'] eqn:Es.
  cbn [sim] in Hs. destruct Hs as (<- & <- & HR' & HK').
  exists (mkIo (io_md io) m' (io_s io)), (enc_result r tx), (mkIo (io_md io) m' s').
  split; [reflexivity|]. split; [|cbn [io_md io_m io_s]; auto].
  rewrite (mon187x_line _ (k + 70) s1 e1 s2 e2 opins (enc_result r tx) o) by (try lia; replace (k + 70 - 70) with k by lia; exact Hd).
  cbn [io_md io_m io_s]. rewrite Es, cm_list_eqb_refl. reflexivity.
Qed.

(* the invariant holds after line 1800, and the stateless / probe lines leave the runner's state alone *)
Lemma connmgr_step_1800 st md cid cap rxsz :
  exists io, connmgr_step st 1800 [md; cid; cap; rxsz] = (Some io, []) /\ KeysUnique (io_m io) /\ R (io_m io) (io_s io).
Proof.
  eexists. split; [reflexivity|]. cbn [io_m io_s]. split; [apply KeysUnique_new|apply R_init].
Qed.

(* kind 1890: the implementation model's view of a key (first match in the vector) is the specification's entry *)
Lemma cm_entry_clookup k l : cm_entry k l = clookup k l.
Proof. induction l as [|c t IH]; cbn [cm_entry clookup]; [reflexivity|]. now rewrite IH. Qed.

Theorem mon1890_holds_of_model io ks :
  R (io_m io) (io_s io) ->
  exists outs,
    connmgr_step (Some io) 1840 (flat_keys ks) = (Some io, outs)
    /\ connmgr_step (Some io) 1890 (lenN ks :: flat_keys ks ++ outs) = (Some io, [1]).
Proof.
  intros HR. eexists. split; [reflexivity|]. rewrite mon1890_line.
  rewrite dec_keys_flat by (rewrite flat_keys_length; lia).
  replace (map (fun key => enc_probe (cm_entry key (m_conns (io_m io)))) ks)
    with (map (fun key => enc_probe (slookup key (sp_tab (io_s io)))) ks).
  - now rewrite cm_list_eqb_refl.
  - apply map_ext. intros key. now rewrite cm_entry_clookup, (R_tab _ _ HR).
Qed.

(* ---- the stateless kinds on the model ---- *)
(* what the harness reads of a key through the public API, on the model: enc_probe (entry m k) = [present; est; avail] *)
Definition p_present (o : option sentry) : N := match o with None => 0 | Some _ => 1 end.
Definition p_est (o : option sentry) : N := match o with None => 0 | Some e => b2n (se_est e) end.
Definition p_avail (o : option sentry) : N := match o with None => 0 | Some e => lenN (se_buf e) end.
Lemma enc_probe_parts o : enc_probe o = [p_present o; p_est o; p_avail o].
Proof. destruct o; reflexivity. Qed.

(* class and code of a result as the harness takes them from the encoded result (res[0], res[1]) *)
Definition res_class (r : outcome rval) : N := nth 0 (enc_res r) 0.
Definition res_code (r : outcome rval) : N := nth 1 (enc_res r) 0.
Definition tx_op_of (tx : list pkt) : N := match tx with [] => 0 | p :: _ => vh_op (fst p) end.

(* kind 1891 holds of every step of the model (from ConnMgrProofs.isolation, C18_isolation): the rows of ANY list of keys *)
Definition frame_rows (m m' : cm) (ks : list key) : list frow :=
  map (fun k => (k, (p_present (entry m k), p_est (entry m k), p_avail (entry m k)),
                    (p_present (entry m' k), p_est (entry m' k), p_avail (entry m' k)))) ks.
Definition frame_line (ok : option key) (m m' : cm) (ks : list key) : list N :=
  match ok with
  | Some (c, p, lp) => 1 :: c :: p :: lp :: flat_rows (frame_rows m m' ks)
  | None => 0 :: 0 :: 0 :: 0 :: flat_rows (frame_rows m m' ks)
  end.

Theorem mon_frame_holds_of_model md m o m' r tx ks :
  KeysUnique m -> cm_step md m o = (m', r, tx) ->
  mon_frame (frame_line (op_key (m_cid m) o) m m' ks) = true.
Proof.
  intros HK H. pose proof (isolation md m o m' r tx HK H) as Hi.
  apply mon_frame_meaning. unfold frame_line. destruct (op_key (m_cid m) o) as [[[c p] lp]|].
  - exists 1, c, p, lp, (frame_rows m m' ks). split; [reflexivity|]. intros k0 b a Hin.
    unfold frame_rows in Hin. apply in_map_iff in Hin. destruct Hin as (k & E & _). injection E as <- <- <-.
    destruct (key_eqb_spec k (c, p, lp)) as [->|Hne]; [left; split; [discriminate|reflexivity]|right].
    rewrite (Hi k) by congruence. reflexivity.
  - exists 0, 0, 0, 0, (frame_rows m m' ks). split; [reflexivity|]. intros k0 b a Hin.
    unfold frame_rows in Hin. apply in_map_iff in Hin. destruct Hin as (k & E & _). injection E as <- <- <-.
    right. rewrite (Hi k) by discriminate. reflexivity.
Qed.

(* kind 1892 holds of connect and of the operations on an UNKNOWN connection (connect_exists, connect_fresh,
   missing_not_connected of ConnMgrProofs.v).  PARTIAL: for send .. force_close on a KNOWN connection the clause "does not
   fail with NotConnected" is not derived here (it needs a case analysis of sp_send .. sp_force_close under with_entry; it
   follows from mon185x_holds_of_model's premise step_refines in the same way). *)
Theorem mon_known_holds_of_model_partial md m o k kind m' r tx :
  KeysUnique m -> cm_step md m o = (m', r, tx) ->
  (exists peer lp, o = OpConnect peer lp /\ k = mk_key peer lp /\ kind = 1803)
  \/ (names_connection o = true /\ op_key (m_cid m) o = Some k /\ entry m k = None /\ 1804 <= kind <= 1810) ->
  mon_known [kind; p_present (entry m k); res_class r; res_code r; lenN tx; p_present (entry m' k)] = true.
Proof.
  intros HK H [(peer & lp & -> & -> & ->)|(Hn & Hk & He & Hkind)]; apply mon_known_meaning.
  - left. split; [reflexivity|]. destruct (entry m (mk_key peer lp)) as [e|] eqn:E.
    + destruct (connect_exists md m peer lp e m' r tx HK E H) as (-> & -> & ->). rewrite E.
      split; [intros _; repeat split|intros C; now elim C].
    + destruct (connect_fresh md m peer lp m' r tx HK E H) as (-> & -> & E'). rewrite E'.
      split; [intros C; discriminate C|intros _; repeat split].
  - right. split; [exact Hkind|]. destruct (missing_not_connected md m o k m' r tx Hn Hk He H) as (-> & -> & ->). rewrite He.
    split; [intros _; repeat split|intros C; now elim C].
Qed.

(* kind 1895 holds of every recv of the model (recv_spec, missing_not_connected of ConnMgrProofs.v) *)
Lemma lenN_firstn_cnt {A} n (l : list A) : lenN (firstn (cntN n l) l) = N.min n (lenN l).
Proof. unfold lenN, cntN. rewrite firstn_length. unfold lenN. lia. Qed.
Lemma lenN_skipn_cnt {A} n (l : list A) : lenN (skipn (cntN n l) l) = lenN l - N.min n (lenN l).
Proof. unfold lenN, cntN. rewrite skipn_length. unfold lenN. lia. Qed.

Definition res_nbytes (r : outcome rval) : N := match r with Ok (VBytes l) => lenN l | _ => 0 end.

Theorem mon_recv_holds_of_model md m peer lp n m' r tx :
  KeysUnique m -> cm_step md m (OpRecv peer lp n) = (m', r, tx) ->
  mon_recv [p_present (entry m (mk_key peer lp)); p_avail (entry m (mk_key peer lp)); n; res_class r; res_nbytes r;
            lenN tx; tx_op_of tx; p_present (entry m' (mk_key peer lp)); p_avail (entry m' (mk_key peer lp))] = true.
Proof.
  intros HK H. apply mon_recv_meaning. destruct (entry m (mk_key peer lp)) as [e|] eqn:E.
  - split; [intros C; discriminate C|intros _].
    destruct (recv_spec md m peer lp n e _ m' r tx HK E eq_refl H) as (-> & Hc).
    cbn [res_class res_nbytes enc_res nth p_avail p_present]. rewrite lenN_firstn_cnt.
    split; [reflexivity|]. split; [reflexivity|].
    destruct (se_shut e && (lenN (skipn (cntN n (se_buf e)) (se_buf e)) =? 0)) eqn:Eb.
    + destruct Hc as (-> & ->). rewrite lenN_skipn_cnt in Eb. cbn [p_present p_avail lenN length tx_op_of fst packet_for].
      split; [intros C; discriminate C|intros _]. split; [lia|]. split; reflexivity.
    + destruct Hc as (-> & ->). cbn [p_present p_avail se_buf lenN length]. rewrite lenN_skipn_cnt.
      split; [intros _; split; [lia|reflexivity]|intros C; now elim C].
  - assert (Hk : op_key (m_cid m) (OpRecv peer lp n) = Some (mk_key peer lp)) by reflexivity.
    destruct (missing_not_connected md m (OpRecv peer lp n) (mk_key peer lp) m' r tx eq_refl Hk E H) as (-> & -> & ->). rewrite E.
    split; [intros _; repeat split|intros C; now elim C].
Qed.

(* ================================================================================================ *)
(* C. AUDIT: what single monitors accept / reject, as concrete lines                                *)
(* ================================================================================================ *)
(* 1894 does not know whether the destination port is LISTENED ON: taken alone it accepts a request that is reset although
   the port is listening, and one that is accepted although nobody listens (both lines are accepted whatever the listening
   set).  The clause "requests to a listening port are accepted ... requests to other ports are reset" is decided by 1862
   (the specification consults its listening set), not by 1894. *)
Example mon_packet_ignores_listening :
  mon_packet [1; 1; 1; 0;  0; 0; 0;  0; 0; 1; 3;  0; 0; 0] = true      (* reset, not reported *)
  /\ mon_packet [1; 1; 1; 0;  0; 0; 0;  0; 1; 1; 2;  1; 0; 1] = true.  (* accepted, reported  *)
Proof. split; reflexivity. Qed.

(* 1894 asks for more than the property text in places where the text is silent: a duplicate request must be answered
   (RESPONSE or RST), a credit request must be answered with a credit update, a packet for another guest must give Ok(None)
   rather than an error.  First line: a duplicate request silently ignored; second: a credit request not answered. *)
Example mon_packet_rejects_silent_duplicate_request :
  mon_packet [1; 1; 1; 0;  1; 0; 0;  0; 0; 0; 0;  1; 0; 1] = false
  /\ mon_packet [1; 1; 7; 0;  1; 0; 0;  0; 0; 0; 0;  1; 0; 1] = false.
Proof. split; reflexivity. Qed.

(* 1894 has no `established before` input: on the key a packet names, "unchanged" compares presence and available bytes only
   (a credit update that cleared the established flag passes; 1891 does not look at the named key either; 1890 does) *)
Example mon_packet_unchanged_ignores_established :
  mon_packet [1; 1; 6; 0;  1; 4; 0;  0; 1; 0; 0;  1; 4; 0] = true.
Proof. reflexivity. Qed.

(* 1895 does not know whether the PEER HAS SHUT DOWN: a connection that was never shut down and disappears when drained
   (with a RST) is accepted, and so is a shut-down connection that survives being drained.  "closed with a reset once
   drained" after a peer shutdown is decided by 1855, not by 1895. *)
Example mon_recv_ignores_shutdown_state :
  mon_recv [1; 3; 8; 0; 3; 1; 3; 0; 0] = true /\ mon_recv [1; 3; 8; 0; 3; 0; 0; 1; 0] = true.
Proof. split; reflexivity. Qed.

(* 1892: a probe that disagrees with itself (present = 9) counts as "not present" for connect and as "present" for the
   other operations *)
Example mon_known_probe_nine : mon_known [1803; 9; 0; 0; 1; 1] = true /\ mon_known [1805; 9; 1; 103; 0; 9] = true.
Proof. split; reflexivity. Qed.

(* 1896 is vacuous when the operation whose transmission failed does not return exactly the tx queue's error: a failed
   transmission swallowed (class 0) with the connection gone is accepted by 1896 alone (1871..1882 reject it) *)
Example mon_txfail_vacuous_when_error_swallowed : mon_txfail [1810; 2; 3; 1; 1; 5; 0; 0; 0; 0; 0] = true.
Proof. reflexivity. Qed.

(* 1890: a count larger than the line makes the comparison empty *)
Example mon1890_count_too_large io : connmgr_step (Some io) 1890 [7; 1; 2] = (Some io, [1]).
Proof. reflexivity. Qed.
