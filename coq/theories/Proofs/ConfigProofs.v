(* C13: theorems about configuration-space access (Model/Config.v) against the demands of        *)
(* Model/ConfigSpec.v.                                                                          *)
(*  1. the length test: the repaired one decides `off + s <= window` in N for every offset;      *)
(*     the one before the repair is refuted in both profiles (F6)                                *)
(*  2. safe-mmio's splitting covers exactly [off, off + s), naturally aligned                    *)
(*  3. read_config_space / write_config_space satisfy the monitor predicates for all inputs;     *)
(*     what the predicates mean (Ok iff inside; bytes touched; nothing touched on refusal)       *)
(*  4. device, schedule, read_consistent: untorn for every closure and every schedule under the  *)
(*     stated no-wrap hypothesis; termination; the hypothesis is necessary (PCI, 256 updates);    *)
(*     legacy MMIO has no counter and is refuted                                                 *)
(*  5. the five users                                                                            *)
From VD Require Import Base.Words Model.Config Model.ConfigSpec.
From Coq Require Import ZArith Lia ZifyBool ZifyN ZifyNat.
Ltac Zify.zify_post_hook ::= Z.div_mod_to_equations.

(* ===================== 1. the length test ===================== *)
(* what the constructors guarantee about the stored length: MMIO mmio_size - 0x100 is a usize;
   PCI `length as usize / size_of::<u32>()` with length : u32 *)
Definition win_ok (tk : tkind) (w : window) : Prop :=
  match tk with TPci => w_len w < 2 ^ 30 | _ => w_len w < two64 end.

Lemma spec_window_lt tk w : win_ok tk w -> spec_window tk w < two64.
Proof. unfold win_ok, spec_window, two64. change (2 ^ 30) with 1073741824. destruct tk; lia. Qed.

Lemma window_bytes_ok m tk w : win_ok tk w -> window_bytes m tk w = Ok (spec_window tk w).
Proof.
  unfold win_ok, window_bytes, spec_window, mul_usize, two64. change (2 ^ 30) with 1073741824.
  destruct tk; intros H; try reflexivity.
  replace (w_len w * 4 <? 18446744073709551616) with true by lia. f_equal. lia.
Qed.

(* the repaired test decides containment in N, in both profiles, for EVERY offset and size *)
Theorem end_check_exact m tk w off s :
  win_ok tk w -> end_check m tk w off s = Ok (off + s <=? spec_window tk w).
Proof.
  intros H. unfold end_check. rewrite (window_bytes_ok m tk w H).
  pose proof (spec_window_lt tk w H) as L. unfold checked_add_usize.
  destruct (off + s <? two64) eqn:E; [reflexivity|]. f_equal. lia.
Qed.

(* the test before the repair agrees with it as long as off + s does not reach 2^64 ... *)
Theorem end_check_prefix_partial m tk w off s :
  win_ok tk w -> off + s < two64 ->
  end_check_prefix m tk w off s = Ok (off + s <=? spec_window tk w).
Proof.
  intros H L. unfold end_check_prefix. rewrite (window_bytes_ok m tk w H). unfold add_usize.
  replace (off + s <? two64) with true by lia. f_equal. lia.
Qed.

(* ... and is wrong beyond: a u32 at usize::MAX - 3 of a 256-byte window panics in the debug
   profile and is ACCEPTED in release *)
Theorem end_check_prefix_refuted :
  exists tk w off s, win_ok tk w /\ off < two64 /\ s <= 8 /\
    (off + s <=? spec_window tk w) = false /\
    end_check_prefix Debug tk w off s = Panic /\
    end_check_prefix Release tk w off s = Ok true.
Proof.
  exists TModern, (mkWin true 256 0x1000), (two64 - 4), 4.
  repeat split; vm_compute; try reflexivity; try discriminate.
Qed.

(* ===================== 2. splitting ===================== *)
Lemma width_ok_cases w : width_ok w = true <-> w = 1 \/ w = 2 \/ w = 4 \/ w = 8.
Proof. unfold width_ok. lia. Qed.

Lemma chunk_width_spec addr n : 0 < n ->
  let w := chunk_width addr n in width_ok w = true /\ w <= n /\ addr mod w = 0.
Proof.
  intros Hn. unfold chunk_width.
  destruct ((8 <=? n) && (addr mod 8 =? 0)) eqn:E8; [cbn; split; [reflexivity|lia]|].
  destruct ((4 <=? n) && (addr mod 4 =? 0)) eqn:E4; [cbn; split; [reflexivity|lia]|].
  destruct ((2 <=? n) && (addr mod 2 =? 0)) eqn:E2; [cbn; split; [reflexivity|lia]|].
  cbn. split; [reflexivity|]. split; [lia|]. apply N.mod_1_r.
Qed.

(* (offset, width) pairs start at pos, follow each other, legal widths; where they end *)
Fixpoint chunks_end (pos : N) (cs : list (N * N)) : option N :=
  match cs with
  | [] => Some pos
  | (rel, w) :: t => if (rel =? pos) && width_ok w then chunks_end (pos + w) t else None
  end.

Lemma slice_chunks_end : forall fuel addr rel n,
  n <= N.of_nat fuel -> chunks_end rel (slice_chunks fuel addr rel n) = Some (rel + n).
Proof.
  induction fuel as [|k IH]; intros addr rel n H.
  - cbn [slice_chunks chunks_end]. f_equal. lia.
  - cbn [slice_chunks]. destruct (n =? 0) eqn:E0.
    + cbn [chunks_end]. f_equal. lia.
    + destruct (chunk_width_spec addr n ltac:(lia)) as (Hw & Hle & _).
      cbn [chunks_end]. rewrite N.eqb_refl, Hw. cbn [andb].
      pose proof (proj1 (width_ok_cases _) Hw) as Hc.
      rewrite IH by lia. f_equal. lia.
Qed.

Lemma chunks_end_all addr rel s : s <= MAX_T -> chunks_end rel (chunks addr rel s) = Some (rel + s).
Proof.
  intros H. unfold chunks.
  destruct ((s =? 1) || (s =? 2) || (s =? 4) || (s =? 8)) eqn:E.
  - cbn [chunks_end]. rewrite N.eqb_refl. unfold width_ok. rewrite E. reflexivity.
  - apply slice_chunks_end. lia.
Qed.

(* every split access is aligned for its width at its actual address A + offset *)
Lemma slice_chunks_aligned A : forall fuel rel n,
  Forall (fun c => (A + fst c) mod snd c = 0) (slice_chunks fuel (A + rel) rel n).
Proof.
  induction fuel as [|k IH]; intros rel n; cbn [slice_chunks]; [constructor|].
  destruct (n =? 0) eqn:E0; [constructor|].
  destruct (chunk_width_spec (A + rel) n ltac:(lia)) as (_ & _ & Hal).
  constructor; [exact Hal|].
  replace (A + rel + chunk_width (A + rel) n) with (A + (rel + chunk_width (A + rel) n)) by lia.
  apply IH.
Qed.

(* ===================== 3. single accesses ===================== *)
Lemma pow256_pos k : 0 < pow256 k.
Proof. unfold pow256. apply N.neq_0_lt_0, N.pow_nonzero. discriminate. Qed.

(* the accesses a split read makes against an answer list *)
Fixpoint ans_trace (cs : list (N * N)) (ans : list N) : list cacc :=
  match cs with
  | [] => []
  | (rel, w) :: t =>
      mkCA 0 rel w (match ans with [] => 0 | h :: _ => h mod pow256 w end) :: ans_trace t (tl ans)
  end.

Lemma skipn_S_tl {A} n (l : list A) : skipn (S n) l = skipn n (tl l).
Proof. destruct l; cbn [skipn tl]; [symmetry; apply skipn_nil|reflexivity]. Qed.

Lemma run_ans_rd_chunks : forall cs off acc k ans,
  run_ans (rd_chunks cs off acc k) ans =
  (let '(r, tr) := run_ans (k (acc + assemble off (ans_trace cs ans))) (skipn (length cs) ans) in
   (r, ans_trace cs ans ++ tr)).
Proof.
  induction cs as [|[rel w] t IH]; intros off acc k ans.
  - cbn [rd_chunks ans_trace assemble length skipn app]. rewrite N.add_0_r.
    destruct (run_ans (k acc) ans); reflexivity.
  - cbn [rd_chunks run_ans ans_trace assemble length c_val c_off].
    set (x := match ans with [] => 0 | h :: _ => h mod pow256 w end).
    assert (Hx : x mod pow256 w = x).
    { pose proof (pow256_pos w). subst x. destruct ans; [apply N.mod_0_l; lia|apply N.mod_mod; lia]. }
    rewrite IH, Hx, skipn_S_tl.
    replace (acc + x * pow256 (rel - off) + assemble off (ans_trace t (tl ans)))
      with (acc + (x * pow256 (rel - off) + assemble off (ans_trace t (tl ans)))) by lia.
    destruct (run_ans _ _). reflexivity.
Qed.

Lemma ans_trace_cover : forall cs pos ans, cover_from 0 pos (ans_trace cs ans) = chunks_end pos cs.
Proof.
  induction cs as [|[rel w] t IH]; intros pos ans; cbn [ans_trace cover_from chunks_end c_tag c_off c_width]; [reflexivity|].
  rewrite N.eqb_refl. cbn [andb]. destruct ((rel =? pos) && width_ok w); [apply IH|reflexivity].
Qed.

Lemma ans_trace_range : forall cs ans, vals_in_range (ans_trace cs ans) = true.
Proof.
  induction cs as [|[rel w] t IH]; intros ans; cbn [ans_trace vals_in_range forallb c_val c_width]; [reflexivity|].
  fold (vals_in_range (ans_trace t (tl ans))). rewrite IH, andb_true_r.
  pose proof (pow256_pos w). destruct ans; [lia|]. apply N.ltb_lt, N.mod_lt. lia.
Qed.

Lemma ans_trace_aligned base : forall cs ans,
  Forall (fun c => (base + fst c) mod snd c = 0) cs -> nat_aligned base (ans_trace cs ans) = true.
Proof.
  induction cs as [|[rel w] t IH]; intros ans H; cbn [ans_trace nat_aligned forallb c_off c_width]; [reflexivity|].
  inversion H as [|? ? H1 H2]; subst. cbn [fst snd] in H1.
  fold (nat_aligned base (ans_trace t (tl ans))). rewrite (IH _ H2), andb_true_r. lia.
Qed.

Lemma ans_trace_tags : forall cs ans, Forall (fun e => c_tag e = 0) (ans_trace cs ans).
Proof. induction cs as [|[rel w] t IH]; intros ans; cbn [ans_trace]; constructor; [reflexivity|apply IH]. Qed.

Definition oc_class (o : outcome N) : N := match o with Ok _ => 0 | Err _ => 1 | Panic => 2 | UB => 3 end.
Definition oc_val (o : outcome N) : N := match o with Ok v => v | Err e => e | _ => 0 end.

(* read_config_space is the specification's verdict, for every input and in both profiles *)
Theorem cfg_read_cases m tk w s a off ans :
  win_ok tk w ->
  cfg_read m tk w s a off ans =
  match access_verdict tk w s a off with
  | VPanic => (Panic, [])
  | VMissing => (Err EConfigSpaceMissing, [])
  | VTooSmall => (Err EConfigSpaceTooSmall, [])
  | VAccess => let tr := ans_trace (chunks (w64 (w_base w + off)) off s) ans in (Ok (assemble off tr), tr)
  end.
Proof.
  intros H. unfold cfg_read, cfg_read_gen, read_cfg_gen, access_verdict.
  destruct (4 <? a); [reflexivity|]. cbn [orb].
  destruct (off mod a =? 0); [|reflexivity]. cbn [negb].
  destruct (match tk with TPci => negb (w_present w) | _ => false end); [reflexivity|].
  rewrite (end_check_exact m tk w off s H).
  destruct (off + s <=? spec_window tk w); [|reflexivity].
  rewrite run_ans_rd_chunks. cbn [single run_ans res_single]. rewrite app_nil_r, N.add_0_l. reflexivity.
Qed.

Lemma w64_id x : x < two64 -> w64 x = x.
Proof. unfold w64, two64. intros H. apply N.mod_small. exact H. Qed.

Lemma chunks_aligned base off s a :
  a <= 4 -> off mod a = 0 -> base mod 4 = 0 -> alignment_demanded s a = true ->
  Forall (fun c => (base + fst c) mod snd c = 0) (chunks (base + off) off s).
Proof.
  intros Ha Hoff Hb Hd. unfold chunks. unfold alignment_demanded, width_ok in Hd.
  destruct ((s =? 1) || (s =? 2) || (s =? 4) || (s =? 8)) eqn:E.
  - constructor; [|constructor]. cbn [fst snd].
    assert (a = s) by lia. subst a.
    assert (s = 1 \/ s = 2 \/ s = 4) as [->|[->| ->]] by lia; lia.
  - apply slice_chunks_aligned.
Qed.

Theorem cfg_read_conform m tk w s a off ans :
  s <= MAX_T -> win_ok tk w -> w_base w mod 4 = 0 -> w_base w + spec_window tk w < two64 ->
  bounds_read_b tk w s a off (oc_class (fst (cfg_read m tk w s a off ans)))
    (oc_val (fst (cfg_read m tk w s a off ans))) (snd (cfg_read m tk w s a off ans)) = true.
Proof.
  intros Hs Hw Hb Hsp. rewrite (cfg_read_cases m tk w s a off ans Hw). unfold bounds_read_b.
  destruct (access_verdict tk w s a off) eqn:V; try reflexivity.
  cbn [fst snd oc_class oc_val]. rewrite N.eqb_refl.
  unfold exact_cover_b. rewrite ans_trace_cover, (chunks_end_all _ off s Hs), !N.eqb_refl, ans_trace_range.
  cbn [andb].
  destruct (alignment_demanded s a) eqn:D; [|reflexivity]. cbn [negb orb].
  unfold access_verdict in V.
  destruct ((4 <? a) || negb (off mod a =? 0)) eqn:E1; [discriminate|].
  destruct (match tk with TPci => negb (w_present w) | _ => false end); [discriminate|].
  destruct (off + s <=? spec_window tk w) eqn:E2; [|discriminate].
  rewrite w64_id by lia.
  apply ans_trace_aligned, (chunks_aligned (w_base w) off s a); try assumption; lia.
Qed.

(* what a true monitor means *)
Lemma seqN_app a n m : seqN a (n + m) = seqN a n ++ seqN (a + N.of_nat n) m.
Proof.
  revert a. induction n as [|n IH]; intros a; cbn [Nat.add seqN app].
  - f_equal. lia.
  - f_equal. rewrite IH. f_equal. f_equal. lia.
Qed.

Lemma cover_touched tag : forall tr pos e,
  cover_from tag pos tr = Some e ->
  pos <= e /\ touched tr = seqN pos (N.to_nat (e - pos)) /\ Forall (fun x => c_tag x = tag) tr.
Proof.
  induction tr as [|x t IH]; intros pos e H; cbn [cover_from] in H.
  - injection H as <-. split; [lia|]. rewrite N.sub_diag. split; [reflexivity|constructor].
  - destruct ((c_tag x =? tag) && (c_off x =? pos) && width_ok (c_width x)) eqn:E; [|discriminate].
    destruct (IH _ _ H) as (Hle & Ht & Hf).
    assert (c_tag x = tag /\ c_off x = pos) as [Etag Eoff] by lia.
    split; [lia|]. split; [|constructor; assumption].
    unfold touched in *. cbn [flat_map]. rewrite Ht, Eoff.
    replace (N.to_nat (e - pos)) with (N.to_nat (c_width x) + N.to_nat (e - (pos + c_width x)))%nat by lia.
    rewrite seqN_app. f_equal. f_equal. lia.
Qed.

Lemma exact_cover_touched tag off s tr :
  exact_cover_b tag off s tr = true ->
  touched tr = seqN off (N.to_nat s) /\ Forall (fun x => c_tag x = tag) tr.
Proof.
  unfold exact_cover_b. destruct (cover_from tag off tr) as [e|] eqn:E; [|discriminate].
  intros H. destruct (cover_touched tag tr off e E) as (Hle & Ht & Hf).
  split; [|exact Hf]. rewrite Ht. f_equal. lia.
Qed.

Lemma isnil_nil {A} (l : list A) : isnil l = true -> l = [].
Proof. destruct l; [reflexivity|discriminate]. Qed.

Ltac bools H :=
  repeat match type of H with
         | _ && _ = true => let H1 := fresh "Hb" in apply andb_true_iff in H as [H H1]; try (apply N.eqb_eq in H1)
         end; try (apply N.eqb_eq in H).

(* whatever is OBSERVED and passes the monitor: success only inside the window, exactly those
   bytes touched; refusal with the documented error and nothing touched *)
Theorem bounds_read_b_sound tk w s a off rc rv tr :
  bounds_read_b tk w s a off rc rv tr = true ->
  (rc = 0 -> a <= 4 /\ off mod a = 0 /\ off + s <= spec_window tk w /\
             (tk = TPci -> w_present w = true) /\
             touched tr = seqN off (N.to_nat s) /\ Forall (fun x => c_tag x = 0) tr /\
             rv = assemble off tr) /\
  (rc <> 0 -> tr = [] /\
              ((rc = 2 /\ (4 < a \/ off mod a <> 0)) \/
               (rc = 1 /\ rv = EConfigSpaceMissing /\ tk = TPci /\ w_present w = false) \/
               (rc = 1 /\ rv = EConfigSpaceTooSmall /\ spec_window tk w < off + s))).
Proof.
  unfold bounds_read_b, access_verdict.
  destruct ((4 <? a) || negb (off mod a =? 0)) eqn:E1.
  { intros H. apply andb_true_iff in H as [H1 H2]. apply N.eqb_eq in H1.
    split; [lia|]. intros _. split; [apply isnil_nil; exact H2|]. left. split; [exact H1|].
    apply orb_true_iff in E1 as [E1|E1]; [left; lia|right].
    apply negb_true_iff, N.eqb_neq in E1. exact E1. }
  assert (Ha : a <= 4 /\ off mod a = 0).
  { apply orb_false_iff in E1 as [E1a E1b]. apply negb_false_iff, N.eqb_eq in E1b. split; [lia|exact E1b]. }
  destruct Ha as [Ha1 Ha2]. clear E1.
  destruct (match tk with TPci => negb (w_present w) | _ => false end) eqn:E2.
  { intros H. bools H. split; [lia|]. intros _. split; [apply isnil_nil; assumption|]. right. left.
    destruct tk; try discriminate. destruct (w_present w); [discriminate|]. repeat split; assumption. }
  destruct (off + s <=? spec_window tk w) eqn:E3.
  - intros H. bools H. split; [|lia]. intros _.
    match goal with Hc : exact_cover_b 0 off s tr = true |- _ =>
      destruct (exact_cover_touched 0 off s tr Hc) as (Ht & Hf) end.
    repeat split; try lia; try assumption.
    intros ->. destruct (w_present w); [reflexivity|discriminate].
  - intros H. bools H. split; [lia|]. intros _. split; [apply isnil_nil; assumption|]. right. right.
    repeat split; try assumption. lia.
Qed.

(* the same on the model, as propositions *)
Theorem cfg_read_bounds m tk w s a off ans :
  s <= MAX_T -> win_ok tk w ->
  let r := cfg_read m tk w s a off ans in
  ((exists v, fst r = Ok v) <->
     a <= 4 /\ off mod a = 0 /\ (tk = TPci -> w_present w = true) /\ off + s <= spec_window tk w) /\
  (forall v, fst r = Ok v ->
     touched (snd r) = seqN off (N.to_nat s) /\ Forall (fun x => c_tag x = 0) (snd r) /\ v = assemble off (snd r)) /\
  ((forall v, fst r <> Ok v) ->
     snd r = [] /\ (fst r = Panic \/ fst r = Err EConfigSpaceMissing \/ fst r = Err EConfigSpaceTooSmall)).
Proof.
  intros Hs Hw r. subst r. rewrite (cfg_read_cases m tk w s a off ans Hw).
  unfold access_verdict.
  destruct ((4 <? a) || negb (off mod a =? 0)) eqn:E1.
  { cbn [fst snd]. split; [split; [intros [v Hv]; discriminate|lia]|]. split; [discriminate|auto]. }
  destruct (match tk with TPci => negb (w_present w) | _ => false end) eqn:E2.
  { cbn [fst snd]. split.
    - split; [intros [v Hv]; discriminate|]. intros (_ & _ & Hp & _).
      destruct tk; try discriminate. rewrite (Hp eq_refl) in E2. discriminate.
    - split; [discriminate|auto]. }
  destruct (off + s <=? spec_window tk w) eqn:E3; cbn [fst snd].
  - split.
    + split; [intros _|eauto]. repeat split; try lia.
      intros ->. destruct (w_present w); [reflexivity|discriminate].
    + split.
      * intros v Hv. injection Hv as <-.
        assert (Hc : exact_cover_b 0 off s (ans_trace (chunks (w64 (w_base w + off)) off s) ans) = true).
        { unfold exact_cover_b. rewrite ans_trace_cover, (chunks_end_all _ off s Hs). apply N.eqb_refl. }
        destruct (exact_cover_touched 0 off s _ Hc) as (Ht & Hf). auto.
      * intros H. exfalso. eapply H. reflexivity.
  - split; [split; [intros [v Hv]; discriminate|lia]|]. split; [discriminate|auto].
Qed.

(* ---------- write_config_space ---------- *)
Lemma wr_chunks_cover : forall cs off v pos, cover_from 1 pos (wr_chunks cs off v) = chunks_end pos cs.
Proof.
  induction cs as [|[rel w] t IH]; intros off v pos; cbn [wr_chunks map cover_from chunks_end c_tag c_off c_width]; [reflexivity|].
  rewrite N.eqb_refl. cbn [andb]. destruct ((rel =? pos) && width_ok w); [apply IH|reflexivity].
Qed.

Lemma wr_chunks_vals : forall cs off v, vals_of_value off v (wr_chunks cs off v) = true.
Proof.
  induction cs as [|[rel w] t IH]; intros off v; cbn [wr_chunks map vals_of_value forallb c_val c_off c_width]; [reflexivity|].
  rewrite N.eqb_refl. apply IH.
Qed.

Lemma wr_chunks_aligned base : forall cs off v,
  Forall (fun c => (base + fst c) mod snd c = 0) cs -> nat_aligned base (wr_chunks cs off v) = true.
Proof.
  induction cs as [|[rel w] t IH]; intros off v H; cbn [wr_chunks map nat_aligned forallb c_off c_width]; [reflexivity|].
  inversion H as [|? ? H1 H2]; subst. cbn [fst snd] in H1.
  pose proof (IH off v H2) as IH'. unfold nat_aligned, wr_chunks in IH'. rewrite IH', andb_true_r. lia.
Qed.

Theorem cfg_write_cases m tk w s a off v :
  win_ok tk w ->
  cfg_write m tk w s a off v =
  match access_verdict tk w s a off with
  | VPanic => (Panic, [])
  | VMissing => (Err EConfigSpaceMissing, [])
  | VTooSmall => (Err EConfigSpaceTooSmall, [])
  | VAccess => (Ok 0, wr_chunks (chunks (w64 (w_base w + off)) off s) off v)
  end.
Proof.
  intros H. unfold cfg_write, cfg_write_gen, access_verdict.
  destruct (4 <? a); [reflexivity|]. cbn [orb].
  destruct (off mod a =? 0); [|reflexivity]. cbn [negb].
  destruct (match tk with TPci => negb (w_present w) | _ => false end); [reflexivity|].
  rewrite (end_check_exact m tk w off s H).
  destruct (off + s <=? spec_window tk w); reflexivity.
Qed.

Theorem cfg_write_conform m tk w s a off v :
  s <= MAX_T -> win_ok tk w -> w_base w mod 4 = 0 -> w_base w + spec_window tk w < two64 ->
  bounds_write_b tk w s a off v (oc_class (fst (cfg_write m tk w s a off v)))
    (oc_val (fst (cfg_write m tk w s a off v))) (snd (cfg_write m tk w s a off v)) = true.
Proof.
  intros Hs Hw Hb Hsp. rewrite (cfg_write_cases m tk w s a off v Hw). unfold bounds_write_b.
  destruct (access_verdict tk w s a off) eqn:V; try reflexivity.
  cbn [fst snd oc_class oc_val]. rewrite N.eqb_refl.
  unfold exact_cover_b. rewrite wr_chunks_cover, (chunks_end_all _ off s Hs), !N.eqb_refl, wr_chunks_vals.
  cbn [andb].
  destruct (alignment_demanded s a) eqn:D; [|reflexivity]. cbn [negb orb].
  unfold access_verdict in V.
  destruct ((4 <? a) || negb (off mod a =? 0)) eqn:E1; [discriminate|].
  destruct (match tk with TPci => negb (w_present w) | _ => false end); [discriminate|].
  destruct (off + s <=? spec_window tk w) eqn:E2; [|discriminate].
  rewrite w64_id by lia.
  apply wr_chunks_aligned, (chunks_aligned (w_base w) off s a); try assumption; lia.
Qed.

Theorem bounds_write_b_sound tk w s a off v rc rv tr :
  bounds_write_b tk w s a off v rc rv tr = true ->
  (rc = 0 -> a <= 4 /\ off mod a = 0 /\ off + s <= spec_window tk w /\
             (tk = TPci -> w_present w = true) /\
             touched tr = seqN off (N.to_nat s) /\ Forall (fun x => c_tag x = 1) tr) /\
  (rc <> 0 -> tr = [] /\
              ((rc = 2 /\ (4 < a \/ off mod a <> 0)) \/
               (rc = 1 /\ rv = EConfigSpaceMissing /\ tk = TPci /\ w_present w = false) \/
               (rc = 1 /\ rv = EConfigSpaceTooSmall /\ spec_window tk w < off + s))).
Proof.
  unfold bounds_write_b, access_verdict.
  destruct ((4 <? a) || negb (off mod a =? 0)) eqn:E1.
  { intros H. apply andb_true_iff in H as [H1 H2]. apply N.eqb_eq in H1.
    split; [lia|]. intros _. split; [apply isnil_nil; exact H2|]. left. split; [exact H1|].
    apply orb_true_iff in E1 as [E1|E1]; [left; lia|right].
    apply negb_true_iff, N.eqb_neq in E1. exact E1. }
  assert (Ha : a <= 4 /\ off mod a = 0).
  { apply orb_false_iff in E1 as [E1a E1b]. apply negb_false_iff, N.eqb_eq in E1b. split; [lia|exact E1b]. }
  destruct Ha as [Ha1 Ha2]. clear E1.
  destruct (match tk with TPci => negb (w_present w) | _ => false end) eqn:E2.
  { intros H. bools H. split; [lia|]. intros _. split; [apply isnil_nil; assumption|]. right. left.
    destruct tk; try discriminate. destruct (w_present w); [discriminate|]. repeat split; assumption. }
  destruct (off + s <=? spec_window tk w) eqn:E3.
  - intros H. bools H. split; [|lia]. intros _.
    match goal with Hc : exact_cover_b 1 off s tr = true |- _ =>
      destruct (exact_cover_touched 1 off s tr Hc) as (Ht & Hf) end.
    repeat split; try lia; try assumption.
    intros ->. destruct (w_present w); [reflexivity|discriminate].
  - intros H. bools H. split; [lia|]. intros _. split; [apply isnil_nil; assumption|]. right. right.
    repeat split; try assumption. lia.
Qed.

(* the PCI transport's window 4 * (length / 4) never exceeds the capability's length, so an
   accepted access lies inside what the device declared *)
Lemma pci_window_within_capability w cap_length off s :
  w_len w = cap_length / 4 -> off + s <= spec_window TPci w -> off + s <= cap_length.
Proof. unfold spec_window. intros H. rewrite H. lia. Qed.

(* ---------- before the repair ---------- *)
Lemma read_cfg_gen_ext (c1 c2 : check_fn) m tk w s a off k :
  c1 m tk w off s = c2 m tk w off s -> read_cfg_gen c1 m tk w s a off k = read_cfg_gen c2 m tk w s a off k.
Proof. intros H. unfold read_cfg_gen. rewrite H. reflexivity. Qed.

(* away from the wrap the old code behaves like the repaired one ... *)
Theorem cfg_read_prefix_partial m tk w s a off ans :
  win_ok tk w -> off + s < two64 -> cfg_read_prefix m tk w s a off ans = cfg_read m tk w s a off ans.
Proof.
  intros Hw H. unfold cfg_read_prefix, cfg_read, cfg_read_gen.
  rewrite (read_cfg_gen_ext end_check_prefix end_check); [reflexivity|].
  rewrite end_check_exact, end_check_prefix_partial by assumption. reflexivity.
Qed.

Theorem cfg_write_prefix_partial m tk w s a off v :
  win_ok tk w -> off + s < two64 -> cfg_write_prefix m tk w s a off v = cfg_write m tk w s a off v.
Proof.
  intros Hw H. unfold cfg_write_prefix, cfg_write, cfg_write_gen.
  rewrite end_check_exact, end_check_prefix_partial by assumption. reflexivity.
Qed.

(* ... but F6: read_config_space::<u32>(usize::MAX - 3) on a 256-byte window. The specification
   says 'too small' and no access. Debug: a panic. Release: Ok, after a 4-byte read 4 bytes BELOW
   the window (for MMIO that is the ConfigGeneration register of the header). *)
Theorem cfg_read_prefix_refuted :
  exists tk w s a off ans,
    win_ok tk w /\ w_base w mod 4 = 0 /\ w_base w + spec_window tk w < two64 /\ off < two64 /\
    access_verdict tk w s a off = VTooSmall /\
    cfg_read_prefix Debug tk w s a off ans = (Panic, []) /\
    (exists v e, cfg_read_prefix Release tk w s a off ans = (Ok v, [e]) /\ spec_window tk w <= c_off e) /\
    bounds_read_b tk w s a off 2 0 [] = false /\
    (forall v e, cfg_read_prefix Release tk w s a off ans = (Ok v, [e]) -> bounds_read_b tk w s a off 0 v [e] = false).
Proof.
  exists TModern, (mkWin true 256 0x1100), 4, 4, (two64 - 4), [7].
  split; [vm_compute; reflexivity|]. split; [vm_compute; reflexivity|].
  split; [vm_compute; reflexivity|]. split; [vm_compute; reflexivity|].
  split; [vm_compute; reflexivity|]. split; [vm_compute; reflexivity|].
  split; [eexists _, _; split; [vm_compute; reflexivity|vm_compute; discriminate]|].
  split; [vm_compute; reflexivity|].
  intros v e H. vm_compute in H. injection H as <- <-. vm_compute. reflexivity.
Qed.

Theorem cfg_write_prefix_refuted :
  exists tk w s a off v,
    win_ok tk w /\ off < two64 /\ access_verdict tk w s a off = VTooSmall /\
    cfg_write_prefix Debug tk w s a off v = (Panic, []) /\
    (exists e, cfg_write_prefix Release tk w s a off v = (Ok 0, [e]) /\ spec_window tk w <= c_off e).
Proof.
  exists TPci, (mkWin true 2 0x2000), 2, 2, (two64 - 2), 0xabcd.
  split; [vm_compute; reflexivity|]. split; [vm_compute; reflexivity|].
  split; [vm_compute; reflexivity|]. split; [vm_compute; reflexivity|].
  eexists; split; [vm_compute; reflexivity|vm_compute; discriminate].
Qed.

(* non-vacuity of the hypotheses of cfg_read_conform / cfg_write_conform, with a 6-byte MAC
   read as 4 + 2 and an access ending exactly at the end of the window *)
Example cfg_read_conform_nonvacuous :
  let w := mkWin true 8 0x1100 in
  6 <= MAX_T /\ win_ok TModern w /\ w_base w mod 4 = 0 /\ w_base w + spec_window TModern w < two64 /\
  cfg_read Debug TModern w 6 1 0 [0x44332211; 0x6655] =
    (Ok 0x665544332211, [mkCA 0 0 4 0x44332211; mkCA 0 4 2 0x6655]) /\
  cfg_read Release TModern w 6 1 2 [0x2211; 0x66554433] =
    (Ok 0x665544332211, [mkCA 0 2 2 0x2211; mkCA 0 4 4 0x66554433]) /\
  cfg_read Debug TModern w 6 1 3 [] = (Err EConfigSpaceTooSmall, []) /\
  cfg_read Debug TPci (mkWin false 0 0) 4 4 0 [] = (Err EConfigSpaceMissing, []) /\
  cfg_read Release TModern w 4 4 (two64 - 4) [] = (Err EConfigSpaceTooSmall, []).
Proof. repeat split; vm_compute; try reflexivity; try discriminate. Qed.

(* ===================== 4. multi-field reads ===================== *)
Lemma gen_mod_pos tk : 0 < gen_mod tk.
Proof. unfold gen_mod. apply N.neq_0_lt_0, N.pow_nonzero. discriminate. Qed.

(* every configuration image the device exposes from now on *)
Definition history (d : dev) (sc : sched) : list (list N) := d_cfg d :: concat sc.
Definition total_updates (sc : sched) : N := lenN (concat sc).

Lemma lenN_app {A} (a b : list A) : lenN (a ++ b) = lenN a + lenN b.
Proof. unfold lenN. rewrite app_length. lia. Qed.

Lemma apply_updates_spec tk : forall us d,
  d_gen d < gen_mod tk ->
  let d' := apply_updates tk d us in
  d_gen d' = (d_gen d + lenN us) mod gen_mod tk /\ d_gen d' < gen_mod tk /\
  In (d_cfg d') (d_cfg d :: us) /\ (us = [] -> d' = d).
Proof.
  pose proof (gen_mod_pos tk) as Hp.
  induction us as [|u t IH]; intros d Hd; cbn [apply_updates fold_left].
  - unfold lenN. cbn [length N.of_nat]. rewrite N.add_0_r, N.mod_small by exact Hd.
    repeat split; [exact Hd|left; reflexivity].
  - assert (Hb : d_gen (bump tk d u) < gen_mod tk) by (cbn [bump d_gen]; apply N.mod_lt; lia).
    destruct (IH (bump tk d u) Hb) as (Hg & Hlt & Hin & _). fold (apply_updates tk (bump tk d u) t) in *.
    split; [|split; [exact Hlt|split; [|discriminate]]].
    + rewrite Hg. cbn [bump d_gen]. rewrite N.add_mod_idemp_l by lia.
      f_equal. unfold lenN. cbn [length]. lia.
    + cbn [bump d_cfg] in Hin. destruct Hin as [Hin|Hin]; [right; left; exact Hin|right; right; exact Hin].
Qed.

Lemma next_slot_concat sc us sc' : next_slot sc = (us, sc') -> concat sc = us ++ concat sc'.
Proof. destruct sc as [|h t]; cbn [next_slot]; intros H; injection H as <- <-; reflexivity. Qed.

(* one step of the device before a register read *)
Lemma slot_step tk d sc us sc' :
  d_gen d < gen_mod tk -> next_slot sc = (us, sc') ->
  let d' := apply_updates tk d us in
  d_gen d' = (d_gen d + lenN us) mod gen_mod tk /\ d_gen d' < gen_mod tk /\
  incl (history d' sc') (history d sc) /\
  total_updates sc = lenN us + total_updates sc' /\
  (lenN us = 0 -> d' = d).
Proof.
  intros Hd Hn. destruct (apply_updates_spec tk us d Hd) as (Hg & Hlt & Hin & Hnil).
  pose proof (next_slot_concat sc us sc' Hn) as Hc.
  cbn zeta. repeat split; try assumption.
  - unfold history. rewrite Hc. intros x [Hx|Hx].
    + subst x. destruct Hin as [Hin|Hin]; [left; exact Hin|right; apply in_or_app; left; exact Hin].
    + right. apply in_or_app. right. exact Hx.
  - unfold total_updates. rewrite Hc. apply lenN_app.
  - intros H0. apply Hnil. destruct us; [reflexivity|]. unfold lenN in H0. cbn [length] in H0. lia.
Qed.

(* running a closure against the device *)
Lemma run_dev_spec tk : forall p d sc r d' sc' tr n,
  d_gen d < gen_mod tk ->
  run_dev tk p d sc = (r, d', sc', tr, n) ->
  d_gen d' = (d_gen d + n) mod gen_mod tk /\ d_gen d' < gen_mod tk /\
  incl (history d' sc') (history d sc) /\
  total_updates sc = n + total_updates sc' /\
  (n = 0 -> d' = d /\ r = eval p (d_cfg d)).
Proof.
  pose proof (gen_mod_pos tk) as Hp.
  induction p as [r0|off w k IH]; intros d sc r d' sc' tr n Hd H; cbn [run_dev] in H.
  - injection H as <- <- <- <- <-. rewrite N.add_0_r, N.mod_small by exact Hd.
    repeat split; try assumption; try reflexivity. apply incl_refl.
  - destruct (next_slot sc) as [us sc1] eqn:En.
    destruct (slot_step tk d sc us sc1 Hd En) as (Hg1 & Hlt1 & Hi1 & Ht1 & Hq1).
    set (d1 := apply_updates tk d us) in *.
    destruct (run_dev tk (k (mem_read (d_cfg d1) off w)) d1 sc1) as [[[[r2 d2] sc2] tr2] n2] eqn:E2.
    injection H as <- <- <- <- <-.
    destruct (IH _ _ _ _ _ _ _ _ Hlt1 E2) as (Hg2 & Hlt2 & Hi2 & Ht2 & Hq2).
    split; [|split; [exact Hlt2|split; [|split]]].
    + rewrite Hg2, Hg1, N.add_mod_idemp_l by lia. f_equal. lia.
    + eapply incl_tran; eassumption.
    + lia.
    + intros H0. assert (Hu : lenN us = 0) by lia. assert (Hn2 : n2 = 0) by lia.
      destruct (Hq2 Hn2) as [Hd2 Hr2]. rewrite (Hq1 Hu) in *. cbn [eval]. split; assumption.
Qed.

Lemma read_gen_spec tk d sc g d' sc' tr n :
  tk <> TLegacy -> d_gen d < gen_mod tk ->
  read_gen tk d sc = (g, d', sc', tr, n) ->
  g = d_gen d' /\ d_gen d' = (d_gen d + n) mod gen_mod tk /\ d_gen d' < gen_mod tk /\
  incl (history d' sc') (history d sc) /\
  total_updates sc = n + total_updates sc' /\
  (n = 0 -> d' = d).
Proof.
  intros Hl Hd H. unfold read_gen in H.
  destruct (next_slot sc) as [us sc1] eqn:En.
  destruct (slot_step tk d sc us sc1 Hd En) as (Hg1 & Hlt1 & Hi1 & Ht1 & Hq1).
  destruct tk; [contradiction| |]; injection H as <- <- <- <- <-; repeat split; assumption.
Qed.

(* a generation that reads the same before and after fewer than 2^w updates saw none *)
Lemma same_generation_no_update M g k : 0 < M -> g < M -> k < M -> (g + k) mod M = g -> k = 0.
Proof.
  intros HM Hg Hk H. destruct (N.lt_ge_cases (g + k) M) as [L|L].
  - rewrite N.mod_small in H by exact L. lia.
  - replace (g + k) with ((g + k - M) + 1 * M) in H by lia.
    rewrite N.mod_add, N.mod_small in H by lia. lia.
Qed.

(* THE UNTORN-READ THEOREM. For every closure p (any tree of register reads, data-dependent or
   not), every device state, EVERY schedule of configuration updates placed between the
   individual register reads, on a transport with a generation counter: if every update bumps
   the counter (the device model) and fewer than 2^w updates fall inside each attempt the loop
   makes (w = 32 MMIO, w = 8 PCI), then a value returned by read_consistent is the closure
   evaluated on ONE configuration image the device exposed, and that image is still the one
   exposed when read_consistent returns. *)
Theorem read_consistent_untorn tk p : tk <> TLegacy ->
  forall fuel d sc r d' sc' tr,
  d_gen d < gen_mod tk ->
  Forall (fun n => n < gen_mod tk) (attempt_updates fuel tk p d sc) ->
  read_consistent fuel tk p d sc = Some (r, d', sc', tr) ->
  is_panic r = false ->
  In (d_cfg d') (history d sc) /\ r = eval p (d_cfg d').
Proof.
  intros Hl. pose proof (gen_mod_pos tk) as Hp.
  induction fuel as [|f IH]; intros d sc r d' sc' tr Hd Hall H Hnp; cbn [read_consistent] in H; [discriminate|].
  cbn [attempt_updates] in Hall.
  destruct (read_gen tk d sc) as [[[[g1 d1] sc1] t1] n1] eqn:E1.
  destruct (read_gen_spec tk d sc g1 d1 sc1 t1 n1 Hl Hd E1) as (Hg1 & _ & Hlt1 & Hi1 & _ & _).
  destruct (run_dev tk p d1 sc1) as [[[[r2 d2] sc2] t2] n2] eqn:E2.
  destruct (run_dev_spec tk p d1 sc1 r2 d2 sc2 t2 n2 Hlt1 E2) as (Hg2 & Hlt2 & Hi2 & _ & Hq2).
  destruct (is_panic r2) eqn:Ep.
  { injection H as <- <- <- <-. rewrite Ep in Hnp. discriminate. }
  destruct (read_gen tk d2 sc2) as [[[[g2 d3] sc3] t3] n3] eqn:E3.
  destruct (read_gen_spec tk d2 sc2 g2 d3 sc3 t3 n3 Hl Hlt2 E3) as (Hg3 & Hg3' & Hlt3 & Hi3 & _ & Hq3).
  destruct (g1 =? g2) eqn:Eg.
  - injection H as <- <- <- <-.
    inversion Hall as [|? ? Hn _]; subst.
    assert (Hk : n2 + n3 = 0).
    { apply (same_generation_no_update (gen_mod tk) (d_gen d1)); try assumption.
      rewrite N.add_assoc. rewrite <- N.add_mod_idemp_l by lia. rewrite <- Hg2, <- Hg3'.
      apply N.eqb_eq in Eg. congruence. }
    assert (n2 = 0) by lia. assert (n3 = 0) by lia.
    destruct (Hq2 ltac:(assumption)) as [Hd2 Hr2]. rewrite (Hq3 ltac:(assumption)), Hd2.
    split; [|exact Hr2]. apply Hi1. left. reflexivity.
  - inversion Hall as [|? ? _ Hrest]; subst.
    destruct (read_consistent f tk p d3 sc3) as [[[[r' d4] sc4] t4]|] eqn:E4; [|discriminate].
    injection H as <- <- <- <-.
    destruct (IH d3 sc3 r' d4 sc4 t4 Hlt3 Hrest E4 Hnp) as [Hin Hr].
    split; [|exact Hr]. apply Hi1, Hi2, Hi3. exact Hin.
Qed.

(* the loop ends: each failed attempt consumes at least one scheduled update *)
Theorem read_consistent_terminates tk p : forall fuel d sc,
  d_gen d < gen_mod tk -> total_updates sc < N.of_nat fuel ->
  read_consistent fuel tk p d sc <> None.
Proof.
  pose proof (gen_mod_pos tk) as Hp.
  induction fuel as [|f IH]; intros d sc Hd Hf; [lia|]. cbn [read_consistent].
  destruct (read_gen tk d sc) as [[[[g1 d1] sc1] t1] n1] eqn:E1.
  destruct (run_dev tk p d1 sc1) as [[[[r2 d2] sc2] t2] n2] eqn:E2.
  destruct (is_panic r2); [discriminate|].
  destruct (read_gen tk d2 sc2) as [[[[g2 d3] sc3] t3] n3] eqn:E3.
  destruct (g1 =? g2) eqn:Eg; [discriminate|].
  destruct tk.
  - (* legacy: both "generations" are the constant 0 *)
    cbn [read_gen] in E1, E3. injection E1 as <- _ _ _ _. injection E3 as <- _ _ _ _. discriminate.
  - destruct (read_gen_spec TModern d sc g1 d1 sc1 t1 n1 ltac:(discriminate) Hd E1) as (Hg1 & _ & Hlt1 & _ & Ht1 & _).
    destruct (run_dev_spec TModern p d1 sc1 r2 d2 sc2 t2 n2 Hlt1 E2) as (Hg2 & Hlt2 & _ & Ht2 & _).
    destruct (read_gen_spec TModern d2 sc2 g2 d3 sc3 t3 n3 ltac:(discriminate) Hlt2 E3) as (Hg3 & Hg3' & Hlt3 & _ & Ht3 & _).
    assert (n2 + n3 <> 0).
    { intros H0. assert (n2 = 0) by lia. assert (n3 = 0) by lia. subst n2 n3.
      rewrite N.add_0_r, N.mod_small in Hg2, Hg3' by assumption. apply N.eqb_neq in Eg. congruence. }
    specialize (IH d3 sc3 Hlt3 ltac:(lia)).
    destruct (read_consistent f TModern p d3 sc3) as [[[[? ?] ?] ?]|]; [discriminate|contradiction].
  - destruct (read_gen_spec TPci d sc g1 d1 sc1 t1 n1 ltac:(discriminate) Hd E1) as (Hg1 & _ & Hlt1 & _ & Ht1 & _).
    destruct (run_dev_spec TPci p d1 sc1 r2 d2 sc2 t2 n2 Hlt1 E2) as (Hg2 & Hlt2 & _ & Ht2 & _).
    destruct (read_gen_spec TPci d2 sc2 g2 d3 sc3 t3 n3 ltac:(discriminate) Hlt2 E3) as (Hg3 & Hg3' & Hlt3 & _ & Ht3 & _).
    assert (n2 + n3 <> 0).
    { intros H0. assert (n2 = 0) by lia. assert (n3 = 0) by lia. subst n2 n3.
      rewrite N.add_0_r, N.mod_small in Hg2, Hg3' by assumption. apply N.eqb_neq in Eg. congruence. }
    specialize (IH d3 sc3 Hlt3 ltac:(lia)).
    destruct (read_consistent f TPci p d3 sc3) as [[[[? ?] ?] ?]|]; [discriminate|contradiction].
Qed.

(* a device that makes no change: one attempt, the value of the current image, nothing altered *)
Lemma run_dev_quiet tk : forall p d, exists tr, run_dev tk p d [] = (eval p (d_cfg d), d, [], tr, 0).
Proof.
  induction p as [r0|off w k IH]; intros d; cbn [run_dev next_slot apply_updates fold_left].
  - eexists. reflexivity.
  - destruct (IH (mem_read (d_cfg d) off w) d) as [tr Htr]. rewrite Htr.
    eexists. cbn [eval]. reflexivity.
Qed.

Theorem read_consistent_quiet tk p f d :
  exists tr, read_consistent (S f) tk p d [] = Some (eval p (d_cfg d), d, [], tr).
Proof.
  destruct (run_dev_quiet tk p d) as [t2 H2]. cbn [read_consistent].
  destruct tk; cbn [read_gen next_slot apply_updates fold_left]; rewrite H2;
    destruct (is_panic (eval p (d_cfg d))) eqn:Ep;
    cbn [read_gen next_slot apply_updates fold_left]; try rewrite N.eqb_refl; eexists; reflexivity.
Qed.

(* ---------- the hypotheses are satisfiable, and necessary ---------- *)
Definition img (x : N) : list N := [x; 0; 0; 0; x; 0; 0; 0].

(* a modern MMIO device changes its configuration between the two halves of the first attempt:
   the loop notices, retries, and returns the value of the new image *)
Example read_consistent_untorn_nonvacuous :
  let w := mkWin true 8 0x1100 in
  let p := p_lo_hi Debug TModern w in
  let d := mkDev (img 1) 0xffffffff in
  let sc := [[]; []; [img 2]] in
  d_gen d < gen_mod TModern /\
  Forall (fun n => n < gen_mod TModern) (attempt_updates 3 TModern p d sc) /\
  attempt_updates 3 TModern p d sc = [1; 0] /\
  exists tr, read_consistent 3 TModern p d sc = Some (Ok [0x200000002], mkDev (img 2) 0, [], tr) /\
             eval p (img 2) = Ok [0x200000002] /\ eval p (img 1) = Ok [0x100000001].
Proof.
  cbv zeta. split; [vm_compute; reflexivity|]. split; [|split; [vm_compute; reflexivity|]].
  - replace (attempt_updates _ _ _ _ _) with [1; 0] by (vm_compute; reflexivity).
    repeat constructor.
  - eexists. split; [vm_compute; reflexivity|]. split; vm_compute; reflexivity.
Qed.

(* The no-wrap hypothesis cannot be dropped. PCI (8-bit counter): 256 updates between the read of
   the low word and the read of the high word bring the counter back to its value; the loop
   accepts a value that NO image the device ever exposed yields. *)
Definition wrap_sched : sched := [[]; []; map (fun i => img (i mod 251 + 2)) (seqN 1 256)].

Theorem untorn_wrap_refuted :
  let w := mkWin true 2 0x2000 in
  let p := p_lo_hi Release TPci w in
  let d := mkDev (img 1) 5 in
  exists r d' sc' tr,
    read_consistent 2 TPci p d wrap_sched = Some (r, d', sc', tr) /\ is_panic r = false /\
    attempt_updates 2 TPci p d wrap_sched = [256] /\
    forallb (fun snap => negb (res_eqb r (eval p snap))) (history d wrap_sched) = true.
Proof.
  cbv zeta. eexists _, _, _, _. split; [vm_compute; reflexivity|].
  split; [reflexivity|]. split; vm_compute; reflexivity.
Qed.

(* Legacy MMIO: read_config_generation is the constant 0 (the legacy register layout has no
   ConfigGeneration), so read_consistent cannot notice anything: ONE update between the two reads
   gives a torn value. VirtIO 1.2, 2.5.4 records this weakness of the legacy interface; no
   driver-side loop can close it for every schedule. *)
Theorem untorn_legacy_refuted :
  let w := mkWin true 8 0x1100 in
  let p := p_lo_hi Debug TLegacy w in
  let d := mkDev (img 1) 0 in
  let sc := [[]; [img 2]] in
  exists r d' sc' tr,
    read_consistent 1 TLegacy p d sc = Some (r, d', sc', tr) /\ is_panic r = false /\
    attempt_updates 1 TLegacy p d sc = [1] /\
    Forall (fun e => c_tag e <> 2) tr /\
    forallb (fun snap => negb (res_eqb r (eval p snap))) (history d sc) = true.
Proof.
  cbv zeta. eexists _, _, _, _. split; [vm_compute; reflexivity|].
  split; [reflexivity|]. split; [vm_compute; reflexivity|].
  split; [repeat constructor; discriminate|vm_compute; reflexivity].
Qed.

(* ===================== 5. what the closures compute on one image ===================== *)
Lemma pow256_add a b : pow256 (a + b) = pow256 a * pow256 b.
Proof. unfold pow256. rewrite N.mul_add_distr_l. apply N.pow_add_r. Qed.

Lemma pow256_1 : pow256 1 = 256.
Proof. reflexivity. Qed.

Lemma byte_at_lt mem i : byte_at mem i < 256.
Proof. unfold byte_at. destruct (i <? lenN mem); [apply N.mod_lt|]; lia. Qed.

Lemma le_read_lt mem : forall n off, le_read mem off n < pow256 (N.of_nat n).
Proof.
  induction n as [|n IH]; intros off; cbn [le_read].
  - apply pow256_pos.
  - rewrite Nnat.Nat2N.inj_succ, <- N.add_1_l, pow256_add, pow256_1.
    pose proof (byte_at_lt mem off). pose proof (IH (off + 1)). lia.
Qed.

Lemma le_read_split mem : forall n k off,
  le_read mem off (n + k) = le_read mem off n + pow256 (N.of_nat n) * le_read mem (off + N.of_nat n) k.
Proof.
  induction n as [|n IH]; intros k off; cbn [Nat.add le_read].
  - rewrite N.add_0_r. change (pow256 (N.of_nat 0)) with 1. lia.
  - rewrite IH, Nnat.Nat2N.inj_succ, <- N.add_1_l, pow256_add, pow256_1.
    replace (off + 1 + N.of_nat n) with (off + (1 + N.of_nat n)) by lia. lia.
Qed.

(* reading a contiguous cover chunk by chunk assembles the little-endian value of the whole *)
Lemma eval_rd_chunks mem : forall cs pos e off acc k,
  chunks_end pos cs = Some e -> off <= pos ->
  acc = le_read mem off (N.to_nat (pos - off)) ->
  eval (rd_chunks cs off acc k) mem = eval (k (le_read mem off (N.to_nat (e - off)))) mem.
Proof.
  induction cs as [|[rel w] t IH]; intros pos e off acc k H Hle Hacc; cbn [chunks_end] in H.
  - injection H as <-. cbn [rd_chunks]. rewrite Hacc. reflexivity.
  - destruct ((rel =? pos) && width_ok w) eqn:E; [|discriminate].
    apply andb_true_iff in E as [E1 Hw]. apply N.eqb_eq in E1. subst rel.
    apply width_ok_cases in Hw.
    cbn [rd_chunks eval]. apply (IH (pos + w) e off); [exact H|lia|].
    unfold mem_read. replace (N.min w 8) with w by lia.
    pose proof (le_read_lt mem (N.to_nat w) pos) as Hlt. rewrite Nnat.N2Nat.id in Hlt.
    rewrite N.mod_small by exact Hlt.
    replace (N.to_nat (pos + w - off)) with (N.to_nat (pos - off) + N.to_nat w)%nat by lia.
    rewrite le_read_split, Nnat.N2Nat.id, Hacc.
    replace (off + (pos - off)) with pos by lia. lia.
Qed.

(* inside a closure, an access the specification allows yields the bytes [off, off + s) of the
   image as one little-endian number, however safe-mmio splits it ... *)
Theorem eval_read_cfg_ok m tk w s a off k mem :
  s <= MAX_T -> win_ok tk w -> access_verdict tk w s a off = VAccess ->
  eval (read_cfg m tk w s a off k) mem = eval (k (Ok (le_read mem off (N.to_nat s)))) mem.
Proof.
  intros Hs Hw V. unfold access_verdict in V. unfold read_cfg, read_cfg_gen.
  destruct (4 <? a); [discriminate|]. cbn [orb] in V.
  destruct (off mod a =? 0); [|discriminate]. cbn [negb] in *.
  destruct (match tk with TPci => negb (w_present w) | _ => false end); [discriminate|].
  rewrite (end_check_exact m tk w off s Hw).
  destruct (off + s <=? spec_window tk w); [|discriminate].
  rewrite (eval_rd_chunks mem _ off (off + s) off 0 _ (chunks_end_all _ off s Hs) (N.le_refl _)).
  - replace (off + s - off) with s by lia. reflexivity.
  - rewrite N.sub_diag. reflexivity.
Qed.

(* ... and a refused one yields the specification's refusal *)
Theorem eval_read_cfg_refused m tk w s a off k mem :
  win_ok tk w -> access_verdict tk w s a off <> VAccess ->
  eval (read_cfg m tk w s a off k) mem =
  eval (k (match access_verdict tk w s a off with
           | VPanic => Panic | VMissing => Err EConfigSpaceMissing | _ => Err EConfigSpaceTooSmall end)) mem.
Proof.
  intros Hw V. unfold access_verdict in *. unfold read_cfg, read_cfg_gen.
  destruct (4 <? a); [reflexivity|]. cbn [orb] in *.
  destruct (off mod a =? 0); [|reflexivity]. cbn [negb] in *.
  destruct (match tk with TPci => negb (w_present w) | _ => false end); [reflexivity|].
  rewrite (end_check_exact m tk w off s Hw).
  destruct (off + s <=? spec_window tk w); [contradiction|reflexivity].
Qed.

Lemma verdict_access tk w s a off :
  a <= 4 -> off mod a = 0 -> (tk = TPci -> w_present w = true) -> off + s <= spec_window tk w ->
  access_verdict tk w s a off = VAccess.
Proof.
  intros Ha Hm Hp Hs. unfold access_verdict.
  replace (4 <? a) with false by lia. rewrite Hm. cbn [N.eqb negb orb].
  replace (off + s <=? spec_window tk w) with true by lia.
  destruct tk; try reflexivity. rewrite (Hp eq_refl). reflexivity.
Qed.

Lemma lor_low_high lo hi n : lo < 2 ^ n -> N.lor lo (N.shiftl hi n) = lo + hi * 2 ^ n.
Proof.
  intros H. rewrite N.shiftl_mul_pow2.
  assert (E : N.land lo (hi * 2 ^ n) = 0).
  { apply N.bits_inj_0. intros i. rewrite N.land_spec.
    destruct (N.lt_ge_cases i n) as [Hi|Hi].
    - rewrite N.mul_pow2_bits_low by exact Hi. apply andb_false_r.
    - destruct (N.eq_dec lo 0) as [->|Hz]; [rewrite N.bits_0; reflexivity|].
      rewrite N.bits_above_log2; [reflexivity|].
      apply N.lt_le_trans with n; [|exact Hi]. apply N.log2_lt_pow2; lia. }
  rewrite N.add_nocarry_lxor by exact E. symmetry. apply N.lxor_lor. exact E.
Qed.

(* blk capacity / vsock guest CID: the 64-bit little-endian number at bytes 0..7 of ONE image *)
Theorem eval_lo_hi m tk w mem :
  win_ok tk w -> (tk = TPci -> w_present w = true) -> 8 <= spec_window tk w ->
  eval (p_lo_hi m tk w) mem = Ok [le_read mem 0 8].
Proof.
  intros Hw Hp H8. unfold p_lo_hi, bindq, rd.
  rewrite eval_read_cfg_ok; [|unfold MAX_T; lia|exact Hw|apply verdict_access; try assumption; try reflexivity; lia].
  rewrite eval_read_cfg_ok; [|unfold MAX_T; lia|exact Hw|apply verdict_access; try assumption; try reflexivity; lia].
  cbn [eval]. do 2 f_equal.
  pose proof (le_read_lt mem 4 0) as Hlt. change (pow256 (N.of_nat 4)) with (2 ^ 32) in Hlt.
  change (N.to_nat 4) with 4%nat. rewrite (lor_low_high _ _ 32 Hlt).
  change 8%nat with (4 + 4)%nat. rewrite le_read_split.
  change (pow256 (N.of_nat 4)) with (2 ^ 32). change (0 + N.of_nat 4) with 4. lia.
Qed.

(* console size: the two 16-bit numbers at bytes 0..1 and 2..3 of ONE image *)
Theorem eval_console_size m tk w mem :
  win_ok tk w -> (tk = TPci -> w_present w = true) -> 4 <= spec_window tk w ->
  eval (p_console_size m tk w) mem = Ok [le_read mem 0 2; le_read mem 2 2].
Proof.
  intros Hw Hp H4. unfold p_console_size, bindq, rd.
  rewrite eval_read_cfg_ok; [|unfold MAX_T; lia|exact Hw|apply verdict_access; try assumption; try reflexivity; lia].
  rewrite eval_read_cfg_ok; [|unfold MAX_T; lia|exact Hw|apply verdict_access; try assumption; try reflexivity; lia].
  reflexivity.
Qed.

(* MAC address: the six bytes 0..5 of ONE image, whatever the 4+2 / 2+4 / ... split *)
Theorem eval_net_mac m tk w mem :
  win_ok tk w -> (tk = TPci -> w_present w = true) -> 6 <= spec_window tk w ->
  eval (p_net_mac m tk w) mem = Ok [le_read mem 0 6].
Proof.
  intros Hw Hp H6. unfold p_net_mac, bindq, rd.
  rewrite eval_read_cfg_ok; [|unfold MAX_T; lia|exact Hw|apply verdict_access; try assumption; try reflexivity; lia].
  reflexivity.
Qed.

(* 9p mount tag: tag_len = the 16-bit number at bytes 0..1 of ONE image, then that many bytes of
   the SAME image from byte 2 on, accepted iff they are well-formed UTF-8 *)
Lemma eval_tag_bytes m tk w mem :
  win_ok tk w -> (tk = TPci -> w_present w = true) ->
  forall n idx acc, 2 + idx + N.of_nat n <= spec_window tk w ->
  eval (p_tag_bytes m tk w n idx acc) mem =
  (let bytes := rev acc ++ map (byte_at mem) (seqN (2 + idx) n) in
   if utf8_valid (length bytes) bytes then Ok bytes else Err EIoError).
Proof.
  intros Hw Hp. induction n as [|n IH]; intros idx acc H; cbn [p_tag_bytes].
  - cbn [seqN map eval]. rewrite app_nil_r, rev_length. reflexivity.
  - unfold bindq, rd.
    rewrite eval_read_cfg_ok;
      [|unfold MAX_T; lia|exact Hw|apply verdict_access; try assumption; try apply N.mod_1_r; lia].
    rewrite IH by lia. cbn [seqN map rev]. rewrite <- app_assoc. cbn [app].
    change (N.to_nat 1) with 1%nat. cbn [le_read].
    replace (byte_at mem (2 + idx) + 256 * 0) with (byte_at mem (2 + idx)) by lia.
    replace (2 + (idx + 1)) with (2 + idx + 1) by lia. reflexivity.
Qed.

Theorem eval_9p_tag m tk w mem :
  win_ok tk w -> (tk = TPci -> w_present w = true) ->
  2 + le_read mem 0 2 <= spec_window tk w ->
  eval (p_9p_tag m tk w) mem =
  (let len := le_read mem 0 2 in
   if len =? 0 then Err EInvalidParam
   else let bytes := map (byte_at mem) (seqN 2 (N.to_nat len)) in
        if utf8_valid (length bytes) bytes then Ok bytes else Err EIoError).
Proof.
  intros Hw Hp H. unfold p_9p_tag, bindq at 1, rd at 1.
  rewrite eval_read_cfg_ok; [|unfold MAX_T; lia|exact Hw|apply verdict_access; try assumption; try reflexivity; lia].
  change (N.to_nat 2) with 2%nat. cbv zeta.
  destruct (le_read mem 0 2 =? 0) eqn:E0; [reflexivity|].
  pose proof (le_read_lt mem 2 0) as Hlt. change (pow256 (N.of_nat 2)) with 65536 in Hlt.
  replace (N.min (le_read mem 0 2) 65535) with (le_read mem 0 2) by lia.
  rewrite (eval_tag_bytes m tk w mem Hw Hp) by lia. reflexivity.
Qed.

(* the five users: whatever read_consistent returns to them was computed from ONE exposed image *)
Theorem users_untorn m tk w : tk <> TLegacy ->
  forall p, In p [p_lo_hi m tk w; p_console_size m tk w; p_net_mac m tk w; p_9p_tag m tk w] ->
  forall fuel d sc r d' sc' tr,
  d_gen d < gen_mod tk ->
  Forall (fun n => n < gen_mod tk) (attempt_updates fuel tk p d sc) ->
  read_consistent fuel tk p d sc = Some (r, d', sc', tr) ->
  is_panic r = false ->
  In (d_cfg d') (history d sc) /\ r = eval p (d_cfg d').
Proof. intros Hl p _. apply read_consistent_untorn. exact Hl. Qed.

(* ---------- what the snapshot monitors mean ---------- *)
Lemma list_eqb_eq : forall a b, list_eqb a b = true -> a = b.
Proof.
  induction a as [|x a IH]; destruct b as [|y b]; cbn [list_eqb]; intros H; try discriminate; [reflexivity|].
  apply andb_true_iff in H as [H1 H2]. apply N.eqb_eq in H1. subst y. f_equal. apply IH. exact H2.
Qed.

Lemma res_eqb_eq a b : res_eqb a b = true -> a = b.
Proof.
  destruct a, b; cbn [res_eqb]; intros H; try discriminate; try reflexivity.
  - f_equal. apply list_eqb_eq. exact H.
  - apply N.eqb_eq in H. subst. reflexivity.
Qed.

(* a true untorn monitor on OBSERVED events: the last two generation reads returned the same
   number, the device exposed one and the same image i from the first of them to the second, and
   the value returned is the closure on image i *)
Theorem untorn_b_sound tk p snaps r evs :
  tk <> TLegacy -> is_panic r = false -> untorn_b tk p snaps r evs = true ->
  exists tail g2 body g1 before i,
    rev evs = tail ++ g2 :: body ++ g1 :: before /\
    c_tag (fst g1) = 2 /\ c_tag (fst g2) = 2 /\ c_val (fst g1) = c_val (fst g2) /\
    Forall (fun e => c_tag (fst e) <> 2) (tail ++ body) /\
    Forall (fun e => snd e = i) (g2 :: body ++ [g1]) /\
    i < lenN snaps /\ r = eval p (nth (N.to_nat i) snaps []).
Proof.
  assert (Hsplit : forall l a g b, split_at_gen l = Some (a, g, b) ->
            l = a ++ g :: b /\ c_tag (fst g) = 2 /\ Forall (fun e => c_tag (fst e) <> 2) a).
  { induction l as [|e t IH]; intros a g b H; cbn [split_at_gen] in H; [discriminate|].
    destruct (c_tag (fst e) =? 2) eqn:E.
    - injection H as <- <- <-. apply N.eqb_eq in E. repeat split; [exact E|constructor].
    - destruct (split_at_gen t) as [[[a' g'] b']|] eqn:Et; [|discriminate].
      injection H as <- <- <-. destruct (IH _ _ _ eq_refl) as (H1 & H2 & H3).
      subst t. repeat split; [exact H2|]. constructor; [apply N.eqb_neq; exact E|exact H3]. }
  intros Hl Hp H. unfold untorn_b in H. rewrite Hp in H.
  destruct tk; [contradiction| |];
    (destruct (split_at_gen (rev evs)) as [[[tail g2] bf]|] eqn:E1; [|discriminate];
     destruct (split_at_gen bf) as [[[body g1] before]|] eqn:E2; [|discriminate];
     destruct (Hsplit _ _ _ _ E1) as (L1 & T2 & F1);
     destruct (Hsplit _ _ _ _ E2) as (L2 & T1 & F2);
     apply andb_true_iff in H as [H Hres]; apply andb_true_iff in H as [H Hlt];
     apply andb_true_iff in H as [H Hbody]; apply andb_true_iff in H as [Hval Hix];
     apply N.eqb_eq in Hval; apply N.eqb_eq in Hix; apply N.ltb_lt in Hlt;
     exists tail, g2, body, g1, before, (snd g1);
     split; [rewrite L1, L2; reflexivity|];
     split; [exact T1|]; split; [exact T2|]; split; [exact Hval|];
     split; [apply Forall_app; split; assumption|];
     split; [constructor; [symmetry; exact Hix|apply Forall_app; split;
              [apply Forall_forall; intros e He; apply N.eqb_eq; exact (proj1 (forallb_forall _ _) Hbody e He)
              |repeat constructor]]|];
     split; [exact Hlt|];
     apply res_eqb_eq in Hres; rewrite Hres; do 2 f_equal; lia).
Qed.

Theorem some_snapshot_b_sound p snaps r :
  is_panic r = false -> some_snapshot_b p snaps r = true -> exists s, In s snaps /\ r = eval p s.
Proof.
  intros Hp H. unfold some_snapshot_b in H. rewrite Hp in H. cbn [orb] in H.
  apply existsb_exists in H as (s & Hin & Hs). exists s. split; [exact Hin|apply res_eqb_eq; exact Hs].
Qed.
