(* Consequences of the queue invariant used by the property files C01-C04, C07, C19. *)
From VD Require Import Base.Words Base.ListUpd Model.Queue Proofs.QueueInv Proofs.QueueReach.
From Coq Require Import ZArith Lia Permutation.

Definition elems (bufs : list (ubuf * bool)) : list (N * N * bool) :=
  map (fun bw => (b_addr (fst bw), b_len (fst bw), snd bw)) bufs.

(* ---------------- what the device reaches from a chain head ---------------- *)
Lemma walk_table_dchain : forall idxs bufs dt fuel,
  dchain dt idxs bufs -> (length idxs <= fuel)%nat ->
  walk_table dt (hd 0 idxs) fuel = Some (elems bufs).
Proof.
  induction idxs as [|i rest IH]; intros bufs dt fuel Hc Hf; [simpl in Hc; contradiction|].
  destruct fuel as [|fuel]; [simpl in Hf; lia|].
  destruct rest as [|j rest].
  - destruct bufs as [|[b w] [|? ?]]; simpl in Hc; try contradiction. destruct Hc as [nx Hd].
    cbn [walk_table hd]. rewrite Hd. cbn [d_flags d_addr d_len d_next bufdesc].
    rewrite (flag_ind_buf false w), (flag_write_buf false w).
    change (has_flag ((if false then F_NEXT else 0) + wflag w) F_NEXT) with (has_flag (0 + wflag w) F_NEXT).
    rewrite flag_next_last. reflexivity.
  - destruct bufs as [|[b w] bufs]; simpl in Hc; try contradiction. destruct Hc as [Hd Hc].
    cbn [walk_table hd]. rewrite Hd. cbn [d_flags d_addr d_len d_next bufdesc].
    rewrite (flag_ind_buf true w), (flag_write_buf true w).
    change (has_flag ((if true then F_NEXT else 0) + wflag w) F_NEXT) with (has_flag (F_NEXT + wflag w) F_NEXT).
    rewrite flag_next_more.
    change j with (hd 0 (j :: rest)).
    rewrite (IH bufs dt fuel Hc) by (simpl in *; lia). reflexivity.
Qed.

Lemma nthN_app_mid {A} (pre : list A) x rest : nthN_error (pre ++ x :: rest) (lenN pre) = Some x.
Proof.
  unfold nthN_error, lenN. rewrite Nat2N.id.
  induction pre as [|p pre IH]; [reflexivity|exact IH].
Qed.

Lemma flag_w_next w : has_flag (wflag w) F_NEXT = false.
Proof. destruct w; reflexivity. Qed.
Lemma flag_w_ind w : has_flag (wflag w) F_INDIRECT = false.
Proof. destruct w; reflexivity. Qed.
Lemma flag_w_write w : has_flag (wflag w) F_WRITE = w.
Proof. destruct w; reflexivity. Qed.

Lemma walk_ind_table : forall bufs pre, bufs <> [] ->
  walk_table (pre ++ ind_table bufs (lenN pre)) (lenN pre) (length bufs) = Some (elems bufs).
Proof.
  induction bufs as [|[b w] bufs IH]; intros pre Hne; [congruence|].
  destruct bufs as [|bw bufs].
  - cbn [ind_table length walk_table]. rewrite nthN_app_mid. cbn [d_flags d_addr d_len].
    rewrite flag_w_ind, flag_w_next, flag_w_write. reflexivity.
  - change (ind_table ((b, w) :: bw :: bufs) (lenN pre))
      with (mkDesc (b_addr b) (b_len b) (F_NEXT + wflag w) (lenN pre + 1) :: ind_table (bw :: bufs) (lenN pre + 1)).
    change (length ((b, w) :: bw :: bufs)) with (S (length (bw :: bufs))).
    remember (length (bw :: bufs)) as fuel eqn:Ef.
    cbn [walk_table]. rewrite nthN_app_mid. cbn [d_flags d_addr d_len d_next].
    rewrite (flag_ind_buf true w), (flag_write_buf true w), flag_next_more. subst fuel.
    set (e := mkDesc (b_addr b) (b_len b) (F_NEXT + wflag w) (lenN pre + 1)).
    assert (E : lenN pre + 1 = lenN (pre ++ [e])) by (rewrite lenN_app, lenN_cons, lenN_nil; lia).
    rewrite E.
    replace (pre ++ e :: ind_table (bw :: bufs) (lenN (pre ++ [e])))
      with ((pre ++ [e]) ++ ind_table (bw :: bufs) (lenN (pre ++ [e]))) by (now rewrite <- app_assoc).
    rewrite IH by discriminate. reflexivity.
Qed.

(* a memory view is consistent with the outstanding chains if every table is readable where it was shared *)
Definition mem_has_tables (mem : N -> option (list desc)) (chains : list chain) : Prop :=
  forall c ta tbl, In c chains -> c_tbl c = Some (ta, tbl) -> mem ta = Some tbl.

Lemma walk_chain_ok sh dt ind c mem fuel :
  chain_ok sh dt ind c -> (forall ta tbl, c_tbl c = Some (ta, tbl) -> mem ta = Some tbl) ->
  (length (c_idxs c) <= fuel)%nat ->
  walk dt mem (c_head c) fuel = Some (elems (c_bufs c)).
Proof.
  unfold chain_ok. intros Hc Hm Hf. destruct (c_tbl c) as [[ta tbl]|] eqn:Et.
  - destruct Hc as (Hi & Ht & Hn & [nx Hs] & Hd & Hind).
    unfold walk. rewrite Hd, Hs. cbn [d_flags d_addr d_len].
    change (has_flag F_INDIRECT F_INDIRECT) with true. cbn iota.
    change (has_flag F_INDIRECT F_NEXT) with false. change (has_flag F_INDIRECT F_WRITE) with false. cbn [orb].
    rewrite (Hm ta tbl eq_refl).
    assert (El : lenN tbl = lenN (c_bufs c)) by (subst tbl; unfold lenN; now rewrite ind_table_length).
    rewrite El, N.eqb_refl.
    destruct (N.eqb_spec (lenN (c_bufs c)) 0) as [E0|_]; [unfold lenN in E0; lia|]. cbn [andb negb].
    subst tbl. rewrite ind_table_length.
    apply (walk_ind_table (c_bufs c) []). intro E; rewrite E in Hn; simpl in Hn; lia.
  - destruct Hc as (Hd & Hh & Hcells).
    assert (Hdt : dchain dt (c_idxs c) (c_bufs c)).
    { eapply dchain_ext; [|exact Hd]. intros i Hi. now destruct (Hcells i Hi). }
    destruct (dchain_length _ _ _ Hd) as [_ Hne].
    unfold walk.
    assert (Hhd : exists d, nthN_error dt (c_head c) = Some d /\ has_flag (d_flags d) F_INDIRECT = false).
    { rewrite Hh. destruct (c_idxs c) as [|i [|j l]]; [congruence| |].
      - destruct (c_bufs c) as [|[b w] [|? ?]]; simpl in Hdt; try contradiction. destruct Hdt as [nx Hx].
        eexists; split; [exact Hx|]. apply (flag_ind_buf false).
      - destruct (c_bufs c) as [|[b w] ?]; simpl in Hdt; try contradiction. destruct Hdt as [Hx _].
        eexists; split; [exact Hx|]. apply (flag_ind_buf true). }
    destruct Hhd as (d & Hd0 & Hf0). rewrite Hd0, Hf0. rewrite Hh.
    now apply walk_table_dchain.
Qed.

Lemma readable_first_tag ins outs : readable_first (elems (tag_bufs ins outs)) = true.
Proof.
  unfold tag_bufs, elems. rewrite map_app, !map_map. cbn [fst snd].
  induction ins as [|b ins IH]; cbn [map app readable_first]; [|exact IH].
  destruct outs as [|o outs]; [reflexivity|]. cbn [map readable_first].
  apply forallb_forall. intros x Hx. apply in_map_iff in Hx. destruct Hx as [y [<- _]]. reflexivity.
Qed.

(* every outstanding chain, at any time, is what the device reaches from its head *)
Theorem all_chains_walk s chains h mem :
  Reach s chains h -> mem_has_tables mem chains ->
  Forall (fun c => walk (q_dtable s) mem (c_head c) (N.to_nat (q_size s)) = Some (elems (c_bufs c))) chains.
Proof.
  intros HR Hm. destruct (Reach_Inv _ _ _ HR) as [HI _].
  destruct HI as (fl & Hnd & Hlen & Hrange & Hnu & Hseg & Hch & _).
  rewrite Forall_forall in Hch |- *. intros c Hc.
  eapply walk_chain_ok; [apply Hch; exact Hc|intros ta tbl E; eapply Hm; eauto|].
  (* the chain's cells are distinct cells of the table, so there are at most size of them *)
  assert (Hsub : lenN (c_idxs c) <= q_size s).
  { rewrite <- Hlen, lenN_app.
    assert (lenN (c_idxs c) <= lenN (all_idxs chains)); [|lia].
    apply in_split in Hc. destruct Hc as (pre & post & ->). rewrite all_idxs_mid, !lenN_app. lia. }
  unfold lenN in Hsub. lia.
Qed.

Theorem chains_disjoint s chains h :
  Reach s chains h ->
  NoDup (all_idxs chains) /\ (forall i, In i (all_idxs chains) -> i < q_size s)
  /\ q_num_used s = lenN (all_idxs chains) /\ q_num_used s <= q_size s.
Proof.
  intros HR. destruct (Reach_Inv _ _ _ HR) as [HI _].
  destruct HI as (fl & Hnd & Hlen & Hrange & Hnu & _).
  split; [eapply NoDup_app_remove_l; eauto|].
  split; [intros i Hi; apply Hrange; apply in_or_app; now right|].
  split; [exact Hnu|]. rewrite Hnu, <- Hlen, lenN_app. lia.
Qed.

(* ---------------- C01: a successful submission ---------------- *)
Theorem add_publishes s chains h ins outs taddr head s' evs mem :
  Reach s chains h -> bufs_ok (tag_bufs ins outs) ->
  add s ins outs taddr = (Ok head, s', evs) ->
  let c := new_chain s ins outs taddr in
  (forall ta tbl, c_tbl c = Some (ta, tbl) -> mem ta = Some tbl) ->
  head = q_free_head s /\ c_head c = head /\ c_bufs c = tag_bufs ins outs
  /\ walk (q_dtable s') mem head (N.to_nat (q_size s')) = Some (elems (tag_bufs ins outs))
  /\ readable_first (elems (tag_bufs ins outs)) = true
  /\ q_aring s' = updN (q_aring s) (q_avail_idx s mod q_size s) head
  /\ q_avail_idx s' = w16 (q_avail_idx s + 1) /\ q_aidx s' = q_avail_idx s'
  /\ (c_tbl c <> None <-> (q_indirect s = true /\ (1 < length (tag_bufs ins outs))%nat))
  /\ (forall j, ~ In j (c_idxs c) -> nthN_error (q_dtable s') j = nthN_error (q_dtable s) j)
  /\ (forall j, In j (c_idxs c) -> ~ In j (all_idxs chains))
  /\ Reach s' (chains ++ [c]) (h ++ evs).
Proof.
  intros HR Hok Hadd c Hmem.
  destruct (Reach_Inv _ _ _ HR) as [HI _].
  assert (HR' := R_add _ _ _ _ _ _ _ _ _ HR Hok Hadd). cbn iota in HR'. fold c in HR'.
  destruct (add_cases s chains ins outs taddr HI Hok) as [[_ E]|[(_ & _ & E)|(Hne & Hcap & _)]];
    try (rewrite E in Hadd; discriminate).
  destruct (add_ok s chains ins outs taddr HI Hne Hok Hcap)
    as (s1 & evs1 & c1 & Hrun & Hinv & Hch & Hcb & Htbl & Hai & Hring & Hlu & Hsz & Hind & Hev & Haf & Hue & Hnu & Hdt
        & evs0 & Hevs & Hshape & Hc1 & _).
  rewrite Hrun in Hadd. inversion Hadd; subst head s1 evs1. clear Hadd.
  fold c in Hc1. subst c1.
  assert (Hwalk : Forall (fun c0 => walk (q_dtable s') mem (c_head c0) (N.to_nat (q_size s')) = Some (elems (c_bufs c0)))
                         [c]).
  { destruct (Reach_Inv _ _ _ HR') as [HI' _].
    destruct HI' as (fl & Hnd & Hlen & Hrange & _ & _ & Hchs & _).
    apply Forall_app in Hchs. destruct Hchs as [_ Hcc]. inversion Hcc as [|? ? Hc0 _]; subst.
    constructor; [|constructor].
    eapply walk_chain_ok; [exact Hc0|exact Hmem|].
    assert (Hsub : lenN (c_idxs c) <= q_size s').
    { rewrite <- Hlen, all_idxs_snoc, !lenN_app. lia. }
    unfold lenN in Hsub. lia. }
  inversion Hwalk as [|? ? Hw _]; subst. rewrite Hch, Hcb in Hw.
  split; [reflexivity|]. split; [exact Hch|]. split; [exact Hcb|]. split; [exact Hw|].
  split; [apply readable_first_tag|]. split; [exact Hring|]. split; [exact Hai|].
  split. { destruct (Reach_Inv _ _ _ HR') as [(fl & _ & _ & _ & _ & _ & _ & _ & _ & _ & _ & _ & Ha & _) _]. exact Ha. }
  split; [exact Htbl|]. split; [exact Hdt|].
  split.
  { intros j Hj Hin. destruct (Reach_Inv _ _ _ HR') as [(fl & Hnd & _) _].
    rewrite all_idxs_snoc in Hnd. apply NoDup_app_remove_l in Hnd.
    eapply NoDup_app_disj; eauto. }
  exact HR'.
Qed.

(* ---------------- C03: refusals and completions ---------------- *)
Theorem add_refusals s chains h ins outs taddr :
  Reach s chains h -> bufs_ok (tag_bufs ins outs) ->
  (tag_bufs ins outs = [] -> add s ins outs taddr = (Err EInvalidParam, s, []))
  /\ (tag_bufs ins outs <> [] -> capacity_ok s (lenN (tag_bufs ins outs)) = false ->
      add s ins outs taddr = (Err EQueueFull, s, []))
  /\ (tag_bufs ins outs <> [] -> capacity_ok s (lenN (tag_bufs ins outs)) = true ->
      exists s' evs, add s ins outs taddr = (Ok (q_free_head s), s', evs)).
Proof.
  intros HR Hok. destruct (Reach_Inv _ _ _ HR) as [HI _].
  destruct (add_cases s chains ins outs taddr HI Hok) as [[E1 E]|[(N1 & C1 & E)|(N1 & C1 & s1 & e1 & E & _)]].
  - split; [auto|]. split; intros; congruence.
  - split; [intros; congruence|]. split; [auto|]. intros; congruence.
  - split; [intros; congruence|]. split; [intros; congruence|]. intros _ _. eauto.
Qed.

(* an add during which the heap refuses the indirect table (C01 / C03 / C07: a fault at a particular point): for ANY state,
   a panic out of a queue that is exactly as it was, with no effect at all (nothing shared, nothing stored); the allocation is
   attempted exactly on the indirect path; with memory available, or when no table is wanted, add_af IS add *)
Theorem add_alloc_failure s ins outs taddr :
  (add_wants_table s ins outs = true -> add_af s ins outs taddr false = (Panic, s, []))
  /\ (add_wants_table s ins outs = false -> add_af s ins outs taddr false = add s ins outs taddr)
  /\ add_af s ins outs taddr true = add s ins outs taddr
  /\ (add_wants_table s ins outs = true <->
      (tag_bufs ins outs <> [] /\ capacity_ok s (lenN (tag_bufs ins outs)) = true
       /\ q_indirect s = true /\ (1 < length (tag_bufs ins outs))%nat)).
Proof.
  unfold add_af. split; [intros ->; reflexivity|]. split; [intros ->; reflexivity|]. split; [reflexivity|].
  unfold add_wants_table, lenN.
  destruct (tag_bufs ins outs) as [|b l] eqn:E; cbn [length].
  - split; [cbn; discriminate | intros (H & _); congruence].
  - replace (N.of_nat (S (length l)) =? 0) with false by (symmetry; apply N.eqb_neq; lia). cbn [negb andb].
    split.
    + intros H. apply andb_prop in H as [H H3]. apply andb_prop in H as [H1 H2]. apply N.ltb_lt in H3.
      repeat split; try assumption; try congruence. lia.
    + intros (_ & H2 & H3 & H4). rewrite H2, H3. cbn [andb]. apply N.ltb_lt. lia.
Qed.

Theorem pop_refines s pre c post h ins outs u_idx u_id u_len :
  Reach s (pre ++ c :: post) h -> keys (tag_bufs ins outs) = keys (c_bufs c) ->
  (* nothing ready *)
  (q_last_used s = w16 u_idx ->
     pop_used s (c_head c) ins outs u_idx u_id u_len = (Err ENotReady, s, [])
     /\ can_pop s u_idx = false /\ peek_used s u_idx u_id = None)
  (* the device completed a different chain first *)
  /\ (q_last_used s <> w16 u_idx -> w16 u_id <> c_head c ->
     pop_used s (c_head c) ins outs u_idx u_id u_len = (Err EWrongToken, s, [])
     /\ peek_used s u_idx u_id = Some (w16 u_id))
  (* this chain is next in the used ring *)
  /\ (q_last_used s <> w16 u_idx -> w16 u_id = c_head c ->
     exists s' evs,
       pop_used s (c_head c) ins outs u_idx u_id u_len = (Ok (w32 u_len), s', evs)
       /\ Reach s' (pre ++ post) (h ++ evs)
       /\ q_last_used s' = w16 (q_last_used s + 1)
       /\ q_free_head s' = c_head c
       /\ q_num_used s' = q_num_used s - lenN (c_idxs c)
       /\ q_avail_idx s' = q_avail_idx s /\ q_aidx s' = q_aidx s /\ q_aring s' = q_aring s
       /\ q_aflags s' = q_aflags s
       /\ q_size s' = q_size s /\ q_indirect s' = q_indirect s /\ q_event_idx s' = q_event_idx s
       /\ q_uevent s' = (if q_event_idx s then w16 (q_last_used s + 1) else q_uevent s)
       /\ (forall j, ~ In j (c_idxs c) -> nthN_error (q_dtable s') j = nthN_error (q_dtable s) j)
       /\ evs = pop_evs c (tag_bufs ins outs) (q_free_head s)
                 ++ (if q_event_idx s then [QStoreUsedEvent (w16 (q_last_used s + 1))] else [])).
Proof.
  intros HR Hkeys. destruct (Reach_Inv _ _ _ HR) as [HI Hcok].
  split; [|split].
  - intros E. split; [now apply pop_not_ready|].
    unfold peek_used, can_pop. rewrite E, N.eqb_refl. split; reflexivity.
  - intros E1 E2. split; [now apply pop_wrong_token|].
    unfold peek_used, can_pop. destruct (N.eqb_spec (q_last_used s) (w16 u_idx)); [contradiction|]. reflexivity.
  - intros E1 E2.
    assert (Hc : bufs_ok (c_bufs c)).
    { unfold chains_ok in Hcok. rewrite Forall_forall in Hcok. apply Hcok. apply in_or_app. right. now left. }
    destruct (pop_ok s pre c post ins outs u_idx u_id u_len HI E1 E2 (keys_length _ _ Hkeys)
                (keys_lens_nz _ _ Hkeys Hc))
      as (s1 & E & HI1 & A1 & A2 & A3 & A4 & A5 & A6 & A7 & A8 & A9 & A10 & A11 & A12 & A13).
    exists s1. eexists. split; [exact E|].
    pose proof (R_pop _ _ _ _ _ _ _ _ _ _ _ _ _ HR Hkeys E) as HR'. cbn iota in HR'.
    split; [exact HR'|]. split; [exact A1|]. split; [exact A2|]. split; [exact A3|]. split; [exact A5|].
    split; [exact A6|]. split; [exact A7|]. split; [exact A8|]. split; [exact A9|]. split; [exact A10|].
    split; [exact A11|]. split; [exact A12|]. split; [exact A13|]. reflexivity.
Qed.

Theorem counts_exact s chains h :
  Reach s chains h ->
  q_num_used s = lenN (all_idxs chains) /\ q_num_used s <= q_size s
  /\ available_desc s = (if q_indirect s then (if q_num_used s =? q_size s then 0 else q_size s)
                         else q_size s - lenN (all_idxs chains)).
Proof.
  intros HR. destruct (chains_disjoint _ _ _ HR) as (_ & _ & Hnu & Hle).
  split; [exact Hnu|]. split; [exact Hle|]. unfold available_desc. rewrite Hnu. reflexivity.
Qed.

(* ---------------- C19: LIFO token ---------------- *)
Theorem lifo_token s pre c post h ins outs u_idx u_id u_len s' evs (b : ubuf) (w : bool) taddr :
  Reach s (pre ++ c :: post) h -> keys (tag_bufs ins outs) = keys (c_bufs c) ->
  pop_used s (c_head c) ins outs u_idx u_id u_len = (Ok (w32 u_len), s', evs) ->
  b_len b <> 0 -> b_len b < two32 ->
  exists s'' evs',
    add s' (if w then [] else [b]) (if w then [b] else []) taddr = (Ok (c_head c), s'', evs').
Proof.
  intros HR Hkeys Hpop Hb0 Hb32.
  destruct (pop_refines s pre c post h ins outs u_idx u_id u_len HR Hkeys) as (P1 & P2 & P3).
  destruct (N.eq_dec (q_last_used s) (w16 u_idx)) as [E1|E1].
  { destruct (P1 E1) as [E _]. rewrite E in Hpop. discriminate. }
  destruct (N.eq_dec (w16 u_id) (c_head c)) as [E2|E2].
  2:{ destruct (P2 E1 E2) as [E _]. rewrite E in Hpop. discriminate. }
  destruct (P3 E1 E2) as (s1 & evs1 & E & HR1 & _ & Hfh & Hnu & _ & _ & _ & _ & Hsz & _).
  rewrite E in Hpop. inversion Hpop; subst s1 evs1.
  destruct (chains_disjoint _ _ _ HR) as (_ & _ & Hnu0 & Hle0).
  destruct (chains_disjoint _ _ _ HR1) as (_ & _ & Hnu1 & Hle1).
  assert (Hpos : 1 <= lenN (c_idxs c)).
  { destruct (Reach_Inv _ _ _ HR) as [(fl & _ & _ & _ & _ & _ & Hch & _) _].
    rewrite Forall_forall in Hch. assert (Hc := Hch c ltac:(apply in_or_app; right; now left)).
    apply chain_head_in in Hc. destruct (c_idxs c); [contradiction|]. rewrite lenN_cons. lia. }
  assert (Hin : lenN (c_idxs c) <= q_num_used s).
  { rewrite Hnu0, all_idxs_mid, !lenN_app. lia. }
  set (ins' := if w then [] else [b]). set (outs' := if w then [b] else []).
  assert (Hok : bufs_ok (tag_bufs ins' outs')).
  { unfold ins', outs', tag_bufs. destruct w; simpl; (constructor; [split; assumption|constructor]). }
  assert (Hlen1 : lenN (tag_bufs ins' outs') = 1) by (unfold ins', outs'; destruct w; reflexivity).
  destruct (add_refusals s' _ _ ins' outs' taddr HR1 Hok) as (_ & _ & A3).
  assert (Hne : tag_bufs ins' outs' <> []) by (unfold ins', outs'; destruct w; discriminate).
  assert (Hcap : capacity_ok s' (lenN (tag_bufs ins' outs')) = true).
  { rewrite Hlen1. unfold capacity_ok.
    destruct (N.ltb_spec (q_size s') (q_num_used s' + 1)); [lia|].
    destruct (N.ltb_spec (q_size s') 1); [lia|]. now rewrite andb_false_r. }
  destruct (A3 Hne Hcap) as (s2 & e2 & E').
  exists s2, e2. rewrite <- Hfh. exact E'.
Qed.

(* ---------------- C04: the share / unshare ledger ---------------- *)
Lemma keys_cons_inv x a y b : keys (x :: a) = keys (y :: b) ->
  b_id (fst x) = b_id (fst y) /\ b_len (fst x) = b_len (fst y) /\ snd x = snd y /\ keys a = keys b.
Proof. unfold keys. cbn [map]. intros H. injection H as E1 E2 E3 E4. auto. Qed.

Lemma ledger_recycle_evs : forall idxs cb bufs orig,
  keys bufs = keys cb -> length idxs = length cb ->
  unshares_of (recycle_evs idxs cb bufs orig) = buf_shares cb /\ shares_of (recycle_evs idxs cb bufs orig) = [].
Proof.
  induction idxs as [|i l IH]; intros [|y cb] [|x bufs] orig Hk Hl; simpl in Hl; try lia;
    try (unfold keys in Hk; simpl in Hk; discriminate); [split; reflexivity|].
  destruct (keys_cons_inv _ _ _ _ Hk) as (E1 & E2 & E3 & Hk').
  destruct (IH cb bufs orig Hk' ltac:(lia)) as [A B].
  cbn [recycle_evs unshares_of shares_of flat_map app buf_shares map].
  fold (unshares_of (recycle_evs l cb bufs orig)). fold (shares_of (recycle_evs l cb bufs orig)).
  rewrite A, B, E1, E2, E3. split; reflexivity.
Qed.

Lemma ledger_unshare_evs : forall cb bufs,
  keys bufs = keys cb ->
  unshares_of (unshare_evs cb bufs) = buf_shares cb /\ shares_of (unshare_evs cb bufs) = [].
Proof.
  induction cb as [|y cb IH]; intros [|x bufs] Hk; try (unfold keys in Hk; simpl in Hk; discriminate);
    [split; reflexivity|].
  destruct (keys_cons_inv _ _ _ _ Hk) as (E1 & E2 & E3 & Hk').
  destruct (IH bufs Hk') as [A B].
  cbn [unshare_evs unshares_of shares_of flat_map app buf_shares map].
  fold (unshares_of (unshare_evs cb bufs)). fold (shares_of (unshare_evs cb bufs)).
  rewrite A, B, E1, E2, E3. split; reflexivity.
Qed.

Lemma ledger_pop_evs s chains c bufs orig :
  Inv s chains -> In c chains -> keys bufs = keys (c_bufs c) ->
  Permutation (unshares_of (pop_evs c bufs orig)) (chain_shares c) /\ shares_of (pop_evs c bufs orig) = [].
Proof.
  intros (fl & _ & _ & _ & _ & _ & Hch & _) Hin Hk.
  rewrite Forall_forall in Hch. specialize (Hch c Hin). unfold chain_ok in Hch.
  unfold pop_evs, chain_shares. destruct (c_tbl c) as [[ta tbl]|].
  - destruct (ledger_unshare_evs (c_bufs c) bufs Hk) as [A B].
    cbn [unshares_of shares_of flat_map app].
    fold (unshares_of (unshare_evs (c_bufs c) bufs)). fold (shares_of (unshare_evs (c_bufs c) bufs)).
    rewrite A, B. split; [apply Permutation_cons_append|reflexivity].
  - destruct Hch as (Hd & _). destruct (dchain_length _ _ _ Hd) as [Hl _].
    destruct (ledger_recycle_evs (c_idxs c) (c_bufs c) bufs orig Hk Hl) as [A B].
    rewrite A, B, app_nil_r. split; [apply Permutation_refl|reflexivity].
Qed.

Definition live_shares (chains : list chain) : list shr := concat (map chain_shares chains).

Lemma live_shares_app a b : live_shares (a ++ b) = live_shares a ++ live_shares b.
Proof. unfold live_shares. now rewrite map_app, concat_app. Qed.

(* every share ever made is either still live (it belongs to an outstanding chain) or has been
   unshared exactly once with identical arguments: as multisets, shares = unshares + live *)
Theorem ledger_balanced s chains h :
  Reach s chains h ->
  Permutation (shares_of h) (unshares_of h ++ live_shares chains).
Proof.
  induction 1 as [k ind ev v Hk Hv
                 | s chains h ins outs taddr o s' evs HR IH Hok Hadd
                 | s pre c post h ins outs u_idx u_id u_len o s' evs HR IH Hkeys Hpop
                 | s chains h en HR IH].
  - apply Permutation_refl.
  - destruct (Reach_Inv _ _ _ HR) as [HI _].
    destruct (add_cases s chains ins outs taddr HI Hok) as [[_ E]|[(_ & _ & E)|(Hne & Hcap & _)]].
    + rewrite E in Hadd. inversion Hadd; subst. now rewrite app_nil_r.
    + rewrite E in Hadd. inversion Hadd; subst. now rewrite app_nil_r.
    + destruct (add_ok s chains ins outs taddr HI Hne Hok Hcap)
        as (s1 & evs1 & c1 & Hrun & _ & _ & _ & _ & _ & _ & _ & _ & _ & _ & _ & _ & _ & _ & evs0 & Hevs & _ & Hc1 & Hsh & Hun).
      rewrite Hrun in Hadd. inversion Hadd; subst o s1 evs1. subst evs.
      rewrite !shares_of_app, !unshares_of_app, live_shares_app, Hsh, Hun. subst c1.
      cbn [shares_of unshares_of flat_map app]. rewrite !app_nil_r.
      unfold live_shares at 2. cbn [map concat]. rewrite app_nil_r.
      rewrite app_assoc. apply Permutation_app_tail. exact IH.
  - destruct (Reach_Inv _ _ _ HR) as [HI Hcok].
    destruct (pop_refines s pre c post h ins outs u_idx u_id u_len HR Hkeys) as (P1 & P2 & P3).
    destruct (N.eq_dec (q_last_used s) (w16 u_idx)) as [E1|E1].
    { destruct (P1 E1) as [E _]. rewrite E in Hpop. inversion Hpop; subst. now rewrite app_nil_r. }
    destruct (N.eq_dec (w16 u_id) (c_head c)) as [E2|E2].
    2:{ destruct (P2 E1 E2) as [E _]. rewrite E in Hpop. inversion Hpop; subst. now rewrite app_nil_r. }
    destruct (P3 E1 E2) as (s1 & evs1 & E & _ & _ & _ & _ & _ & _ & _ & _ & _ & _ & _ & _ & _ & Hevs).
    rewrite E in Hpop. inversion Hpop; subst o s1 evs1. subst evs.
    destruct (ledger_pop_evs s (pre ++ c :: post) c (tag_bufs ins outs) (q_free_head s) HI
                ltac:(apply in_or_app; right; now left) Hkeys) as [A B].
    rewrite !shares_of_app, !unshares_of_app, B.
    assert (Z1 : shares_of (if q_event_idx s then [QStoreUsedEvent (w16 (q_last_used s + 1))] else []) = [])
      by (destruct (q_event_idx s); reflexivity).
    assert (Z2 : unshares_of (if q_event_idx s then [QStoreUsedEvent (w16 (q_last_used s + 1))] else []) = [])
      by (destruct (q_event_idx s); reflexivity).
    rewrite Z1, Z2, !app_nil_r.
    rewrite live_shares_app in IH |- *. unfold live_shares at 2 in IH. cbn [map concat] in IH.
    fold (live_shares post) in IH.
    eapply perm_trans; [exact IH|].
    rewrite <- !app_assoc. apply Permutation_app_head.
    eapply perm_trans; [apply Permutation_app_swap_app|].
    apply Permutation_app; [apply Permutation_sym; exact A|apply Permutation_refl].
  - unfold set_dev_notify. destruct (q_event_idx s); cbn [snd]; [now rewrite app_nil_r|].
    rewrite shares_of_app, unshares_of_app. cbn. now rewrite !app_nil_r.
Qed.

(* ---------------- C02: order of the device-visible stores of a submission ---------------- *)
Theorem add_store_order s chains h ins outs taddr head s' evs :
  Reach s chains h -> bufs_ok (tag_bufs ins outs) ->
  add s ins outs taddr = (Ok head, s', evs) ->
  exists evs0,
    evs = evs0 ++ [QStoreRing (q_avail_idx s mod q_size s) head; QFence; QStoreIdx (w16 (q_avail_idx s + 1))]
    /\ (forall e, In e evs0 -> pre_publish_ev (c_idxs (new_chain s ins outs taddr)) e)
    /\ (forall j, In j (c_idxs (new_chain s ins outs taddr)) -> ~ In j (all_idxs chains)).
Proof.
  intros HR Hok Hadd. destruct (Reach_Inv _ _ _ HR) as [HI _].
  destruct (add_cases s chains ins outs taddr HI Hok) as [[_ E]|[(_ & _ & E)|(Hne & Hcap & _)]];
    try (rewrite E in Hadd; discriminate).
  destruct (add_ok s chains ins outs taddr HI Hne Hok Hcap)
    as (s1 & evs1 & c1 & Hrun & _ & _ & _ & _ & _ & _ & _ & _ & _ & _ & _ & _ & _ & _ & evs0 & Hevs & Hshape & Hc1 & _).
  assert (HR' := R_add _ _ _ _ _ _ _ _ _ HR Hok Hadd). cbn iota in HR'.
  rewrite Hrun in Hadd. inversion Hadd as [[Eh Es Ee]]. subst c1.
  exists evs0. split; [rewrite <- Ee; exact Hevs|]. split; [exact Hshape|].
  intros j Hj Hin. destruct (Reach_Inv _ _ _ HR') as [(fl & Hnd & _) _].
  rewrite all_idxs_snoc in Hnd. apply NoDup_app_remove_l in Hnd.
  eapply NoDup_app_disj; eauto.
Qed.

(* the available index changes only at the end of a successful add *)
Definition idx_stores (evs : list qev) : list N :=
  flat_map (fun e => match e with QStoreIdx v => [v] | _ => [] end) evs.

Lemma idx_stores_app a b : idx_stores (a ++ b) = idx_stores a ++ idx_stores b.
Proof. unfold idx_stores. now rewrite flat_map_app. Qed.

Lemma idx_stores_none evs : (forall e, In e evs -> match e with QStoreIdx _ => False | _ => True end) -> idx_stores evs = [].
Proof.
  induction evs as [|e evs IH]; intros H; [reflexivity|].
  cbn [idx_stores flat_map]. fold (idx_stores evs). rewrite IH by (intros x Hx; apply H; now right).
  specialize (H e ltac:(now left)). destruct e; try reflexivity. contradiction.
Qed.

Lemma recycle_evs_no_idx idxs cb bufs orig e : In e (recycle_evs idxs cb bufs orig) ->
  match e with QStoreIdx _ | QStoreRing _ _ | QStoreFlags _ => False | _ => True end.
Proof.
  revert cb bufs. induction idxs as [|i l IH]; intros [|y cb] [|x bufs] He; simpl in He; try contradiction.
  destruct He as [<-|[<-|He]]; [exact I|exact I|]. eapply IH; eauto.
Qed.

Lemma unshare_evs_no_idx cb bufs e : In e (unshare_evs cb bufs) ->
  match e with QStoreIdx _ | QStoreRing _ _ | QStoreFlags _ => False | _ => True end.
Proof.
  revert bufs. induction cb as [|y cb IH]; intros [|x bufs] He; simpl in He; try contradiction.
  destruct He as [<-|He]; [exact I|]. eapply IH; eauto.
Qed.

Theorem pop_stores_no_idx s pre c post h ins outs u_idx u_id u_len o s' evs :
  Reach s (pre ++ c :: post) h -> keys (tag_bufs ins outs) = keys (c_bufs c) ->
  pop_used s (c_head c) ins outs u_idx u_id u_len = (o, s', evs) ->
  idx_stores evs = [] /\ q_aidx s' = q_aidx s /\ q_aring s' = q_aring s.
Proof.
  intros HR Hkeys Hpop.
  destruct (pop_refines s pre c post h ins outs u_idx u_id u_len HR Hkeys) as (P1 & P2 & P3).
  destruct (N.eq_dec (q_last_used s) (w16 u_idx)) as [E1|E1].
  { destruct (P1 E1) as [E _]. rewrite E in Hpop. inversion Hpop; subst. auto. }
  destruct (N.eq_dec (w16 u_id) (c_head c)) as [E2|E2].
  2:{ destruct (P2 E1 E2) as [E _]. rewrite E in Hpop. inversion Hpop; subst. auto. }
  destruct (P3 E1 E2) as (s1 & evs1 & E & _ & _ & _ & _ & _ & A1 & A2 & _ & _ & _ & _ & _ & _ & Hevs).
  rewrite E in Hpop. inversion Hpop; subst o s1 evs1. split; [|split; assumption].
  subst evs. rewrite idx_stores_app.
  assert (Z : idx_stores (if q_event_idx s then [QStoreUsedEvent (w16 (q_last_used s + 1))] else []) = [])
    by (destruct (q_event_idx s); reflexivity).
  rewrite Z, app_nil_r. apply idx_stores_none. intros e He.
  unfold pop_evs in He. destruct (c_tbl c) as [[ta tbl]|].
  - destruct He as [<-|He]; [exact I|]. apply unshare_evs_no_idx in He. destruct e; auto.
  - apply recycle_evs_no_idx in He. destruct e; auto.
Qed.

