(* What the sound-driver monitors of Extract/SoundIO.v (kinds 2050 .. 2062, property C20, and kind 1982, property C19) MEAN,
   and that they hold of the model Model/Sound.v.

   The monitors are boolean functions over flat number lists; the runner evaluates them on what the harness
   (harness/src/scen/c20_snd.rs) observed of the implementation.  Here each of them is tied to the statement it stands for:
     A. meaning (mon_<name>_meaning, ..._decodes): a TRUE verdict on ANY input list implies the clause of the property, spelled
        out as facts about the decoded observation (the only definitions left in the conclusions are the specification's own
        reading of VirtIO 1.2 5.14 in Model/SoundSpec.v: the request decoder spec_decode_ctl - unfolded field by field in
        spec_decode_ctl_fields -, streams_with_dir, spec_pcm_items / spec_pcm_item / spec_dec_pcm_info);
     B. holds of the model (mon<kind>_holds_of_model): the line the harness would write from the MODEL's own behaviour gets the
        verdict true, for every input / state / device behaviour the theorems of Proofs/SoundProofs.v quantify over; built on
        pcm_cmd_spec, set_params_spec, jack_remap_spec, query_roundtrip, set_up_spec, snd_first_query (2050, 2051, 2059, 2060),
        xfer_blocking, xfer_nb_spec, xfer_outstanding_bound (2052, 2053), xfer_ok_spec, xfer_ok_checks_status, xfer_ok_unknown
        (2054, 2060), get_spec, snd_get_of_answer (2055, 2062), snd_notif_stocked (2056, 1982), xfer_requires_params (2057),
        snd_config_counters (2058, 2061); for 1982 additionally poll_repost_observed below (the device-side observations of the
        re-post, from pop_refines / add_ok / add_publishes / ledger_pop_evs);
     C. witnesses (Example ... by vm_compute) of the places where a monitor accepts less or demands more than the property
        text says. *)
From VD Require Import Base.Words Base.ListUpd Model.Queue Model.Owning Model.Blk Model.BlkSpec Model.SoundSpec Model.Sound
  Proofs.QueueInv Proofs.QueueReach Proofs.QueueProps Proofs.BlkProofs Proofs.OwningProofs Proofs.SoundProofs
  Extract.QueueIO Extract.SoundIO.
From Coq Require Import ZArith Lia ZifyBool ZifyN.
Ltac Zify.zify_post_hook ::= Z.div_mod_to_equations.

(* ------------------------------------------------------------------------------------------------ *)
(* small helpers (restated locally so that this file needs no other *MonProofs file)                 *)
Lemma snd_b2n_one b : [b2n b] = [1] -> b = true.
Proof. destruct b; [reflexivity|discriminate]. Qed.
Lemma snd_b2n_one_rev b : b = true -> [b2n b] = [1].
Proof. now intros ->. Qed.

Lemma snd_cnt_exact k (l : list N) : k <= lenN l -> cnt k l = N.to_nat k.
Proof. unfold cnt. intros H. now rewrite N.min_l. Qed.
Lemma snd_cnt_len {A} (x : list A) (l : list N) : lenN x <= lenN l -> cnt (lenN x) l = length x.
Proof. intros H. rewrite snd_cnt_exact by exact H. unfold lenN. apply Nat2N.id. Qed.

(* the class / error code of an outcome as the harness writes them (res_class of c20_snd.rs) *)
Definition ocls {A} (o : outcome A) : N := match o with Ok _ => 0 | Err _ => 1 | Panic => 2 | UB => 3 end.
Definition ocode {A} (o : outcome A) : N := match o with Err e => e | _ => 0 end.

(* (length, writable flag) pairs as the harness writes them: two numbers per chain element *)
Fixpoint flatp (l : list (N * N)) : list N :=
  match l with [] => [] | (a, b) :: t => a :: b :: flatp t end.
Definition tagp (p : N * N) : N * bool := (fst p, n2b (snd p)).

Lemma lenN_flatp l : lenN (flatp l) = 2 * lenN l.
Proof. induction l as [|[a b] t IH]; [reflexivity|]. cbn [flatp]. rewrite !lenN_cons, IH. lia. Qed.

Lemma take_parts_flatp raw r : take_parts (length raw) (flatp raw ++ r) = (map tagp raw, r).
Proof.
  induction raw as [|[a b] t IH]; cbn [length flatp app take_parts map]; [now destruct r|]. now rewrite IH.
Qed.

Lemma take_parts_inv : forall k l ps r, take_parts k l = (ps, r) ->
  exists raw, l = flatp raw ++ r /\ ps = map tagp raw /\ (length raw <= k)%nat /\ (length raw = k \/ (length r <= 1)%nat).
Proof.
  induction k as [|k IH]; intros l ps r H.
  - cbn [take_parts] in H. assert (E : ([] : list (N * bool), l) = (ps, r)) by (destruct l; exact H).
    inversion E; subst. exists []. repeat split; auto.
  - destruct l as [|a [|b rest]]; cbn [take_parts] in H.
    + inversion H; subst. exists []. repeat split; cbn; auto; lia.
    + inversion H; subst. exists []. repeat split; cbn; auto; lia.
    + destruct (take_parts k rest) as [ps' r'] eqn:E. inversion H; subst.
      destruct (IH _ _ _ E) as (raw & E1 & E2 & E3 & E4). exists ((a, b) :: raw).
      cbn [flatp app length map tagp fst snd]. split; [now rewrite E1 at 1|]. split; [now rewrite E2|]. split; [lia|].
      destruct E4; [left; lia|now right].
Qed.

Lemma map_fst_tagp raw : map fst (map tagp raw) = map fst raw.
Proof. induction raw as [|[a b] t IH]; [reflexivity|]. cbn [map tagp fst]. now rewrite IH. Qed.
Lemma filter_tagp (f : bool -> bool) raw :
  filter (fun p : N * bool => f (snd p)) (map tagp raw) = map tagp (filter (fun p : N * N => f (n2b (snd p))) raw).
Proof.
  induction raw as [|[a b] t IH]; [reflexivity|]. cbn [map tagp filter fst snd].
  destruct (f (n2b b)); cbn [map tagp fst snd]; now rewrite IH.
Qed.

(* equality of number lists, as a boolean *)
Lemma list_eqb_eq a b : list_eqb a b = true <-> a = b.
Proof.
  unfold list_eqb. revert b. induction a as [|x a IH]; intros [|y b]; cbn [combine forallb length]; unfold lenN; cbn [length].
  - split; reflexivity.
  - split; [intros H; apply andb_prop in H; destruct H as [H _]; lia|discriminate].
  - split; [intros H; apply andb_prop in H; destruct H as [H _]; lia|discriminate].
  - cbn [fst snd]. specialize (IH b). unfold lenN in IH. split.
    + intros H. apply andb_prop in H. destruct H as [H1 H2]. apply andb_prop in H2. destruct H2 as [H2 H3].
      apply N.eqb_eq in H2. subst y. f_equal. apply IH. apply andb_true_intro. split; [lia|exact H3].
    + intros H. inversion H; subst. assert (E : b = b) by reflexivity. apply IH in E. apply andb_prop in E.
      destruct E as [E1 E2]. rewrite N.eqb_refl, E2. cbn [andb]. rewrite andb_true_r. lia.
Qed.

Lemma sndreq_eqb_eq a b : sndreq_eqb a b = true -> a = b.
Proof.
  destruct a, b; cbn [sndreq_eqb]; try discriminate; intros H;
    repeat (apply andb_prop in H; let X := fresh "X" in destruct H as [H X]; apply N.eqb_eq in X);
    apply N.eqb_eq in H; subst; reflexivity.
Qed.
Lemma sndreq_eqb_refl a : sndreq_eqb a a = true.
Proof. destruct a; cbn [sndreq_eqb]; rewrite ?N.eqb_refl; reflexivity. Qed.

Lemma decode_ctl_min req r : spec_decode_ctl req = Some r -> 4 <= lenN req.
Proof. unfold spec_decode_ctl. destruct (N.ltb_spec (lenN req) 4); [discriminate|]. intros _. assumption. Qed.

(* ================================================================================================ *)
(* A. MEANING                                                                                        *)

(* ------------------------------------------------------------------------------------------------ *)
(* kind 2050 (C20: "emits the command structures defined for that device with the caller's parameters in the specified field
   positions and byte order"): one control message as the reference device received it,
     [kind; a1 .. a7; n; (length, writable) * n; the device-readable bytes]
   kind / a1..a7 = what the caller asked for: 1 info query (request code, total number of items), 2 jack_remap (jack,
   association, sequence), 3 pcm_set_params (stream, buffer_bytes, period_bytes, features, channels, format, rate), 4 pcm
   prepare / release / start / stop (request code, stream); the pairs are the elements of the chain as the device walked it.
   The line the harness writes for the model's view is ctl_line below. *)
Definition ctl_line (kind a1 a2 a3 a4 a5 a6 a7 : N) (w1 l2 w2 : N) (req : list N) : list N :=
  kind :: a1 :: a2 :: a3 :: a4 :: a5 :: a6 :: a7 :: 2 :: lenN req :: w1 :: l2 :: w2 :: req.

(* the verdict on a line of that layout, spelled out *)
Lemma mon_ctl_line kind a1 a2 a3 a4 a5 a6 a7 w1 l2 w2 req :
  mon_ctl (ctl_line kind a1 a2 a3 a4 a5 a6 a7 w1 l2 w2 req) =
  match spec_decode_ctl req, expected_req kind a1 a2 a3 a4 a5 a6 a7 with
  | Some got, Some want =>
      sndreq_eqb got want && spec_ctl_shape [(lenN req, n2b w1); (l2, n2b w2)] (lenN req)
      && (match got with RqSetParams _ b p _ _ _ _ _ => spec_params_ok b p | _ => true end)
  | _, _ => false
  end.
Proof.
  unfold ctl_line, mon_ctl.
  change (lenN req :: w1 :: l2 :: w2 :: req) with (flatp [(lenN req, w1); (l2, w2)] ++ req).
  rewrite snd_cnt_exact by (rewrite lenN_app, lenN_flatp, !lenN_cons, lenN_nil; lia).
  change (N.to_nat 2) with (length [(lenN req, w1); (l2, w2)]). rewrite take_parts_flatp. reflexivity.
Qed.

(* MEANING of a true verdict of monitor 2050, for ANY input list: the list IS a line of the layout above with exactly two
   chain elements - a device-readable one holding the whole request, then a device-writable one of at least 4 bytes (room for
   the status header) - and the request bytes decode, with the decoder written from VirtIO 1.2 5.14.6 (spec_decode_ctl: le32
   code, then the le32 / u8 fields of the structure that belongs to the code, total length exactly that of the structure), to
   the caller's values: a query asks for items 0 .. total-1 with the item size of the specification; set_params carries
   padding 0 and parameters that satisfy the rule of 5.14.6.6.3 (period_bytes a non-zero divider of buffer_bytes). *)
Theorem mon_ctl_meaning ins : mon_ctl ins = true ->
  exists kind a1 a2 a3 a4 a5 a6 a7 w1 l2 w2 req,
    ins = kind :: a1 :: a2 :: a3 :: a4 :: a5 :: a6 :: a7 :: 2 :: lenN req :: w1 :: l2 :: w2 :: req
    /\ w1 = 0 /\ w2 <> 0 /\ 4 <= l2
    /\ ((kind = 1 /\ spec_decode_ctl req = Some (RqQuery a1 0 a2 (spec_item_size a1)))
        \/ (kind = 2 /\ spec_decode_ctl req = Some (RqJackRemap a1 a2 a3))
        \/ (kind = 3 /\ spec_decode_ctl req = Some (RqSetParams a1 a2 a3 a4 a5 a6 a7 0) /\ a3 <> 0 /\ a2 mod a3 = 0)
        \/ (kind = 4 /\ spec_decode_ctl req = Some (RqPcm a1 a2))).
Proof.
  intros H. unfold mon_ctl in H.
  destruct ins as [|kind [|a1 [|a2 [|a3 [|a4 [|a5 [|a6 [|a7 [|n rest]]]]]]]]]; try discriminate H.
  destruct (take_parts (cnt n rest) rest) as [parts req] eqn:E.
  destruct (spec_decode_ctl req) as [got|] eqn:D; [|discriminate H].
  destruct (expected_req kind a1 a2 a3 a4 a5 a6 a7) as [want|] eqn:X; [|discriminate H].
  apply andb_prop in H. destruct H as [H Hp]. apply andb_prop in H. destruct H as [Heq Hshape].
  apply sndreq_eqb_eq in Heq. subst got.
  destruct (take_parts_inv _ _ _ _ E) as (raw & E1 & E2 & E3 & E4).
  pose proof (decode_ctl_min _ _ D) as Hmin.
  (* exactly two elements, readable then writable *)
  unfold spec_ctl_shape in Hshape.
  destruct parts as [|[l1 [|]] [|[l2 [|]] [|? ?]]]; try discriminate Hshape.
  apply andb_prop in Hshape. destruct Hshape as [Hl1 Hl2]. apply N.eqb_eq in Hl1. apply N.leb_le in Hl2.
  destruct raw as [|[l1' w1] [|[l2' w2] [|? ?]]]; try discriminate E2.
  cbn [map tagp fst snd] in E2. inversion E2; subst l1' l2'. clear E2.
  assert (W1 : w1 = 0) by (unfold n2b in *; lia). assert (W2 : w2 <> 0) by (unfold n2b in *; lia).
  (* the count: anything but 2 would leave fewer than 4 request bytes *)
  assert (Hn : n = 2).
  { cbn [length] in E3, E4. destruct E4 as [E4|E4]; [|unfold lenN in Hmin; lia].
    unfold cnt in E4. assert (L : lenN rest = 4 + lenN req) by (rewrite E1, lenN_app, lenN_flatp, !lenN_cons, lenN_nil; lia). lia. }
  exists kind, a1, a2, a3, a4, a5, a6, a7, w1, l2, w2, req.
  split. { rewrite E1, Hn, Hl1. reflexivity. }
  split; [exact W1|]. split; [exact W2|]. split; [exact Hl2|].
  unfold expected_req in X.
  destruct (N.eqb_spec kind 1) as [K|_]; [left; inversion X; subst want; auto|].
  destruct (N.eqb_spec kind 2) as [K|_]; [right; left; inversion X; subst want; auto|].
  destruct (N.eqb_spec kind 3) as [K|_].
  { right; right; left. inversion X; subst want. unfold spec_params_ok in Hp. split; [exact K|]. split; [exact D|]. lia. }
  destruct (N.eqb_spec kind 4) as [K|_]; [right; right; right; inversion X; subst want; auto|discriminate X].
Qed.

(* the decoder spelled out for the four structures: which byte positions hold what (fld bs off n = the n-byte little-endian
   field at byte offset off) *)
Lemma spec_decode_ctl_fields req :
  (forall code start count size, spec_decode_ctl req = Some (RqQuery code start count size) ->
     lenN req = 16 /\ is_query_code code = true /\ fld req 0 4 = code /\ fld req 4 4 = start /\ fld req 8 4 = count /\ fld req 12 4 = size)
  /\ (forall j a q, spec_decode_ctl req = Some (RqJackRemap j a q) ->
     lenN req = 16 /\ fld req 0 4 = SND_R_JACK_REMAP /\ fld req 4 4 = j /\ fld req 8 4 = a /\ fld req 12 4 = q)
  /\ (forall s b p f c m r d, spec_decode_ctl req = Some (RqSetParams s b p f c m r d) ->
     lenN req = 24 /\ fld req 0 4 = SND_R_PCM_SET_PARAMS /\ fld req 4 4 = s /\ fld req 8 4 = b /\ fld req 12 4 = p /\ fld req 16 4 = f
     /\ fld req 20 1 = c /\ fld req 21 1 = m /\ fld req 22 1 = r /\ fld req 23 1 = d)
  /\ (forall code s, spec_decode_ctl req = Some (RqPcm code s) ->
     lenN req = 8 /\ is_pcm_cmd_code code = true /\ fld req 0 4 = code /\ fld req 4 4 = s).
Proof.
  unfold spec_decode_ctl.
  destruct (lenN req <? 4); [repeat split; discriminate|].
  destruct (is_query_code (fld req 0 4)) eqn:Q.
  { destruct (N.eqb_spec (lenN req) 16) as [L|L]; repeat split; try discriminate; try (inversion H; subst; auto; fail). }
  destruct (N.eqb_spec (fld req 0 4) SND_R_JACK_REMAP) as [J|J].
  { destruct (N.eqb_spec (lenN req) 16) as [L|L]; repeat split; try discriminate; try (inversion H; subst; auto; fail). }
  destruct (N.eqb_spec (fld req 0 4) SND_R_PCM_SET_PARAMS) as [S|S].
  { destruct (N.eqb_spec (lenN req) 24) as [L|L]; repeat split; try discriminate; try (inversion H; subst; auto; fail). }
  destruct (is_pcm_cmd_code (fld req 0 4)) eqn:P.
  { destruct (N.eqb_spec (lenN req) 8) as [L|L]; repeat split; try discriminate; try (inversion H; subst; auto; fail). }
  repeat split; discriminate.
Qed.

(* ------------------------------------------------------------------------------------------------ *)
(* kind 2051 (C20: "returns an error for any response that is not the expected success type"): the result of one control
   operation against the statuses the reference device answered during it,
     [the operation has a request of its own (1: set_params / prepare .. stop / jack_remap) or is answered from stored data
      (0: the six stream queries); outcome class (0 Ok, 1 Err, 2 panic); status the device answered to the operation's own
      request (0 = the device received none); status it answered to the PCM_INFO query made during the call by the lazy
      set_up (0 = none)].
   A true verdict: a PCM_INFO answer other than OK makes the call fail; otherwise an operation whose own request never
   reached the device did not return Ok; otherwise the result is Ok exactly for the status VIRTIO_SND_S_OK (0x8000) and an
   error for every other status value. *)
Theorem mon_ctl_result_meaning has_req class own pcmq :
  mon_ctl_result [has_req; class; own; pcmq] = true ->
  (pcmq <> 0 -> pcmq <> SND_S_OK -> class = 1)
  /\ (pcmq = 0 \/ pcmq = SND_S_OK ->
        (own = 0 -> has_req = 1 -> class <> 0)
        /\ (own = SND_S_OK -> class = 0)
        /\ (own <> 0 -> own <> SND_S_OK -> class = 1)).
Proof.
  unfold mon_ctl_result, snd_result_conforms, SND_S_OK. intros H.
  destruct (N.eqb_spec pcmq 0), (N.eqb_spec pcmq 32768), (N.eqb_spec own 0), (N.eqb_spec has_req 1), (N.eqb_spec own 32768),
    (N.eqb_spec class 0), (N.eqb_spec class 1); cbn [orb negb andb] in H; try discriminate H; repeat split; intros; lia.
Qed.

(* every accepted list has that shape *)
Lemma mon_ctl_result_decodes ins : mon_ctl_result ins = true -> exists has_req class own pcmq, ins = [has_req; class; own; pcmq].
Proof. unfold mon_ctl_result. destruct ins as [|a [|b [|c [|d [|? ?]]]]]; try discriminate. intros _. now exists a, b, c, d. Qed.

(* ------------------------------------------------------------------------------------------------ *)
(* kind 2052 (C20: "PCM playback delivers the caller's frames ... in chunks no larger than the configured period, each tagged
   with the stream id"; "set parameters before transfer"): one TX message as the reference device received it,
     [stream the caller named; period_bytes of the SET_PARAMS the device last accepted for the stream it decoded; the device
      has accepted parameters for it; the data part == the expected piece of the caller's frames (computed by the harness);
      n; (length, writable) * n; the first 4 device-readable bytes; number of device-readable bytes]. *)
Definition tx_line (sid period had data_ok : N) (raw : list (N * N)) (b0 b1 b2 b3 nread : N) : list N :=
  sid :: period :: had :: data_ok :: lenN raw :: flatp raw ++ [b0; b1; b2; b3; nread].

Lemma mon_tx_line sid period had data_ok raw b0 b1 b2 b3 nread :
  mon_tx (tx_line sid period had data_ok raw b0 b1 b2 b3 nread) =
  let wl := sumN (map fst (filter (fun p : N * N => n2b (snd p)) raw)) in
  let rl := sumN (map fst (filter (fun p : N * N => negb (n2b (snd p))) raw)) in
  if wl =? 8 then
    (b0 + 256 * (b1 + 256 * (b2 + 256 * b3)) =? sid) && (rl =? nread) && (5 <=? nread) && (nread - 4 <=? period)
    && (had =? 1) && (data_ok =? 1) && forallb (fun p : N * N => negb (fst p =? 0)) raw
  else false.
Proof.
  unfold tx_line, mon_tx.
  rewrite snd_cnt_len by (rewrite lenN_app, lenN_flatp; lia). rewrite take_parts_flatp.
  rewrite (filter_tagp (fun b => b)), (filter_tagp negb), !map_fst_tagp. cbv zeta.
  unfold spec_decode_tx. change (lenN [b0; b1; b2; b3]) with 4. change (4 <=? 4) with true. cbn [andb].
  destruct (sumN (map fst (filter (fun p : N * N => n2b (snd p)) raw)) =? 8); [|reflexivity].
  unfold fld. cbn [skipn firstn sle].
  replace (b0 + 256 * (b1 + 256 * (b2 + 256 * (b3 + 256 * 0)))) with (b0 + 256 * (b1 + 256 * (b2 + 256 * b3))) by lia.
  do 6 f_equal. induction raw as [|[a b] t IH]; [reflexivity|]. cbn [map tagp forallb fst snd]. now rewrite IH.
Qed.

(* MEANING of a true verdict of monitor 2052, for ANY input list: the list IS a line of the layout above (n = the number of
   element pairs present), no element is empty, the device-writable elements add up to the 8 bytes of virtio_snd_pcm_status,
   the device-readable elements add up to the readable bytes the device saw, those start with the caller's stream id as a
   little-endian le32 (virtio_snd_pcm_xfer), the data behind it is between 1 byte and one period long, the device had
   accepted parameters for the stream, and the harness found the data equal to the expected piece of the caller's frames. *)
Theorem mon_tx_meaning ins : mon_tx ins = true ->
  exists sid period raw b0 b1 b2 b3 nread,
    ins = sid :: period :: 1 :: 1 :: lenN raw :: flatp raw ++ [b0; b1; b2; b3; nread]
    /\ (forall len w, In (len, w) raw -> len <> 0)
    /\ sumN (map fst (filter (fun p : N * N => n2b (snd p)) raw)) = 8
    /\ sumN (map fst (filter (fun p : N * N => negb (n2b (snd p))) raw)) = nread
    /\ b0 + 256 * (b1 + 256 * (b2 + 256 * b3)) = sid
    /\ 5 <= nread /\ nread <= period + 4.
Proof.
  intros H. assert (H0 := H). unfold mon_tx in H.
  destruct ins as [|sid [|period [|had [|dok [|n rest]]]]]; try discriminate H.
  destruct (take_parts (cnt n rest) rest) as [parts tl] eqn:E.
  destruct tl as [|b0 [|b1 [|b2 [|b3 [|nread [|? ?]]]]]]; try discriminate H. clear H.
  destruct (take_parts_inv _ _ _ _ E) as (raw & E1 & E2 & E3 & E4).
  assert (Hn : n = lenN raw).
  { destruct E4 as [E4|E4]; [|cbn [length] in E4; lia].
    unfold cnt in E4. assert (L : lenN rest = 2 * lenN raw + 5) by (rewrite E1, lenN_app, lenN_flatp; reflexivity).
    unfold lenN in *. lia. }
  subst n. rewrite E1 in H0. change (mon_tx (tx_line sid period had dok raw b0 b1 b2 b3 nread) = true) in H0.
  rewrite mon_tx_line in H0. cbv zeta in H0.
  destruct (N.eqb_spec (sumN (map fst (filter (fun p : N * N => n2b (snd p)) raw))) 8) as [W|W]; [|discriminate H0].
  repeat (apply andb_prop in H0; let X := fresh "X" in destruct H0 as [H0 X]).
  apply N.eqb_eq in H0. apply N.eqb_eq in X4. apply N.leb_le in X3. apply N.leb_le in X2. apply N.eqb_eq in X1. apply N.eqb_eq in X0.
  subst had dok.
  exists sid, period, raw, b0, b1, b2, b3, nread. split; [now rewrite E1|]. split.
  { intros len w Hi. rewrite forallb_forall in X. specialize (X _ Hi). cbn [fst] in X. lia. }
  split; [exact W|]. split; [exact X4|]. split; [exact H0|]. split; [exact X3|lia].
Qed.

(* ------------------------------------------------------------------------------------------------ *)
(* kind 2053 (C20: "delivers the caller's frames exactly once, in order ... never exceeding queue capacity"): a whole blocking
   pcm_xfer against a device that completes in order,
     [outcome class; every status the device wrote was OK; the concatenation of the data parts the device received, in the
      order it received them, == the caller's frames (computed by the harness); messages received; most messages outstanding
      at any time; queue size; descriptors per message (3 direct, 1 indirect); messages outstanding after the call].
   A true verdict: the descriptors in use never exceeded the queue size; without a device error the call returned Ok, the
   device received exactly the caller's frames once and in order, and nothing is left outstanding; with a device error the
   call returned an error.  (`messages received` is carried for the evidence only.) *)
Theorem mon_xfer_meaning class all_ok concat_ok nmsg max_out qsize per remain :
  mon_xfer [class; all_ok; concat_ok; nmsg; max_out; qsize; per; remain] = true ->
  max_out * per <= qsize
  /\ (all_ok = 1 -> class = 0 /\ concat_ok = 1 /\ remain = 0)
  /\ (all_ok <> 1 -> class = 1).
Proof.
  unfold mon_xfer. intros H. apply andb_prop in H. destruct H as [H1 H2]. apply N.leb_le in H1. split; [exact H1|].
  destruct (N.eqb_spec all_ok 1) as [E|E].
  - apply andb_prop in H2. destruct H2 as [H2 H4]. apply andb_prop in H2. destruct H2 as [H2 H3].
    apply N.eqb_eq in H2. apply N.eqb_eq in H3. apply N.eqb_eq in H4. split; [auto|intros; contradiction].
  - apply N.eqb_eq in H2. split; [intros; contradiction|auto].
Qed.

Lemma mon_xfer_decodes ins : mon_xfer ins = true ->
  exists class all_ok concat_ok nmsg max_out qsize per remain, ins = [class; all_ok; concat_ok; nmsg; max_out; qsize; per; remain].
Proof.
  unfold mon_xfer. destruct ins as [|a [|b [|c [|d [|e [|f [|g [|h [|? ?]]]]]]]]]; try discriminate. intros _.
  now exists a, b, c, d, e, f, g, h.
Qed.

(* ------------------------------------------------------------------------------------------------ *)
(* kind 2054 (C20, token interface): pcm_xfer_ok for a token whose transfer the device completed,
     [status the device wrote for THIS token; outcome class; the other outstanding transfers are untouched; the live shares are
      exactly those of the transfers still outstanding]:
   Ok exactly for status OK, an error for every other status value, and the two harness-computed flags are set *)
Theorem mon_nb_result_meaning stw class others_ok shares_ok :
  mon_nb_result [stw; class; others_ok; shares_ok] = true ->
  (stw = SND_S_OK -> class = 0) /\ (stw <> SND_S_OK -> class = 1) /\ others_ok = 1 /\ shares_ok = 1.
Proof.
  unfold mon_nb_result, snd_result_conforms. intros H. apply andb_prop in H. destruct H as [H H3].
  apply andb_prop in H. destruct H as [H1 H2]. apply N.eqb_eq in H2. apply N.eqb_eq in H3.
  destruct (N.eqb_spec stw SND_S_OK); apply N.eqb_eq in H1; repeat split; intros; (assumption || contradiction).
Qed.

Lemma mon_nb_result_decodes ins : mon_nb_result ins = true -> exists stw class others_ok shares_ok, ins = [stw; class; others_ok; shares_ok].
Proof. unfold mon_nb_result. destruct ins as [|a [|b [|c [|d [|? ?]]]]]; try discriminate. intros _. now exists a, b, c, d. Qed.

(* ------------------------------------------------------------------------------------------------ *)
(* kind 2055 (C20: "returned values (... stream capabilities ...) equal what the device reported"): the values a stream query
   returned against the stream information the reference device is configured with,
     [which (0 output_streams, 1 input_streams, 2 rates, 3 formats, 4 channel range, anything else features); stream id;
      outcome class; n; the n returned values; m; then per reported stream: direction rates formats channels_min channels_max
      features] *)
Definition pcm_row (p : pcm_info) : list N := [p_direction p; p_rates p; p_formats p; p_chmin p; p_chmax p; p_features p].
Definition flat_pcm (l : list pcm_info) : list N := concat (map pcm_row l).
(* the monitor rebuilds the records without the hda_fn_nid field (never part of a query's answer) *)
Definition no_nid (p : pcm_info) : pcm_info :=
  mkPcm 0 (p_features p) (p_formats p) (p_rates p) (p_direction p) (p_chmin p) (p_chmax p).

Lemma lenN_flat_pcm l : lenN (flat_pcm l) = 6 * lenN l.
Proof. induction l as [|p t IH]; [reflexivity|]. unfold flat_pcm in *. cbn [map concat pcm_row app]. rewrite !lenN_cons, IH. lia. Qed.

Lemma take_pcm_flat infos tail : take_pcm (length infos) (flat_pcm infos ++ tail) = map no_nid infos.
Proof.
  induction infos as [|p t IH]; [cbn [length flat_pcm map concat app take_pcm]; now destruct tail|].
  unfold flat_pcm in *. cbn [length map concat pcm_row app take_pcm]. now rewrite IH.
Qed.

Lemma take_pcm_inv : forall k l, exists tail,
  l = flat_pcm (take_pcm k l) ++ tail /\ (length (take_pcm k l) <= k)%nat.
Proof.
  induction k as [|k IH]; intros l.
  - exists l. cbn [take_pcm]. destruct l; split; auto.
  - destruct l as [|d [|r [|f [|mn [|mx [|ft rest]]]]]]; cbn [take_pcm];
      try (eexists; split; [reflexivity|cbn [length]; lia]).
    destruct (IH rest) as (tail & E1 & E2). exists tail. unfold flat_pcm in *. cbn [map concat pcm_row app length].
    cbn [p_direction p_rates p_formats p_chmin p_chmax p_features]. split; [now rewrite E1 at 1|lia].
Qed.

(* the answer a per-stream query owes for the reported item p *)
Definition stream_field (which : N) (p : pcm_info) : list N :=
  if which =? 2 then [p_rates p] else if which =? 3 then [p_formats p]
  else if which =? 4 then [p_chmin p; p_chmax p] else [p_features p].

(* MEANING of a true verdict of monitor 2055, for ANY input list: the list is a line of the layout above (n = the number of
   values present; at most m rows, the complete ones that are present), and
   - output_streams / input_streams returned Ok with exactly the positions, in ascending order, of the reported streams whose
     direction is OUTPUT (0) / INPUT (1);
   - a per-stream query for a stream the device did not report returned an error;
   - a per-stream query for reported stream sid returned Ok with exactly the field(s) of the sid-th reported item. *)
Theorem mon_values_meaning ins : mon_values ins = true ->
  exists which sid class vals m infos tail,
    ins = which :: sid :: class :: lenN vals :: vals ++ m :: flat_pcm infos ++ tail
    /\ lenN infos <= m
    /\ (which = 0 -> class = 0 /\ vals = streams_with_dir infos SND_D_OUTPUT 0)
    /\ (which = 1 -> class = 0 /\ vals = streams_with_dir infos SND_D_INPUT 0)
    /\ (2 <= which -> lenN infos <= sid -> class = 1)
    /\ (2 <= which -> forall p, nth_error infos (N.to_nat sid) = Some p -> class = 0 /\ vals = stream_field which p).
Proof.
  intros H. unfold mon_values in H.
  destruct ins as [|which [|sid [|class [|n rest]]]]; try discriminate H.
  destruct (skipn (cnt n rest) rest) as [|m rest2] eqn:Es; [discriminate H|].
  set (vals := firstn (cnt n rest) rest) in *.
  assert (Er : rest = vals ++ m :: rest2) by (rewrite <- Es; symmetry; apply firstn_skipn).
  assert (Hn : n = lenN vals).
  { assert (L : (length vals = cnt n rest)%nat).
    { unfold vals. apply firstn_length_le. unfold cnt, lenN. lia. }
    assert (L2 : (length rest = length vals + S (length rest2))%nat) by (rewrite Er at 1; rewrite app_length; reflexivity).
    unfold cnt, lenN in *. lia. }
  set (infos := take_pcm (N.to_nat (N.min m 4096)) rest2) in *.
  destruct (take_pcm_inv (N.to_nat (N.min m 4096)) rest2) as (tail & T1 & T2). fold infos in T1, T2.
  exists which, sid, class, vals, m, infos, tail.
  split; [rewrite Er, Hn, T1 at 1; reflexivity|]. split; [unfold lenN; lia|].
  destruct (N.eqb_spec which 0) as [W0|W0].
  { apply andb_prop in H. destruct H as [H1 H2]. apply N.eqb_eq in H1. apply list_eqb_eq in H2.
    split; [auto|]. repeat split; intros; lia. }
  destruct (N.eqb_spec which 1) as [W1|W1].
  { apply andb_prop in H. destruct H as [H1 H2]. apply N.eqb_eq in H1. apply list_eqb_eq in H2.
    split; [intros; lia|]. split; [auto|]. split; intros; lia. }
  split; [intros; contradiction|]. split; [intros; contradiction|].
  rewrite nth_safe_eq in H. unfold nthN_error in H.
  destruct (nth_error infos (N.to_nat sid)) as [p|] eqn:En.
  - apply andb_prop in H. destruct H as [H1 H2]. apply N.eqb_eq in H1. apply list_eqb_eq in H2. split.
    + intros _ Hle. assert (X : nth_error infos (N.to_nat sid) = None) by (apply nth_error_None; unfold lenN in Hle; lia). congruence.
    + intros _ p' Ep. inversion Ep; subst p'. split; [exact H1|exact H2].
  - apply N.eqb_eq in H. split; [auto|]. intros _ p' Ep. discriminate Ep.
Qed.

(* ------------------------------------------------------------------------------------------------ *)
(* kind 2056 (C19 / C20, the older monitor of latest_notification, stated for recorded lengths up to the buffer size):
     [outcome class; an event was returned; type returned; data returned; an event was pending; code the device wrote; data the
      device wrote; length the device recorded; buffers posted afterwards + completions still pending]:
   the event queue is fully stocked (32) after every call; nothing pending or fewer / more than 8 bytes recorded: Ok(None); one
   of the four event codes of 5.14.6: exactly that event with the device's data; any other code: an error *)
Theorem mon_notif_meaning class has ty data pending code dev_data ulen posted :
  mon_notif [class; has; ty; data; pending; code; dev_data; ulen; posted] = true ->
  posted = 32
  /\ (pending = 0 -> class = 0 /\ has = 0)
  /\ (pending <> 0 -> ulen <> 8 -> class = 0 /\ has = 0)
  /\ (pending <> 0 -> ulen = 8 ->
        (code = SND_EVT_JACK_CONNECTED \/ code = SND_EVT_JACK_DISCONNECTED \/ code = SND_EVT_PCM_PERIOD_ELAPSED \/ code = SND_EVT_PCM_XRUN ->
           class = 0 /\ has = 1 /\ ty = code /\ data = dev_data)
        /\ (code <> SND_EVT_JACK_CONNECTED -> code <> SND_EVT_JACK_DISCONNECTED -> code <> SND_EVT_PCM_PERIOD_ELAPSED -> code <> SND_EVT_PCM_XRUN ->
           class = 1)).
Proof.
  unfold mon_notif, spec_event_known, SND_QUEUE_SIZE, SND_EVT_JACK_CONNECTED, SND_EVT_JACK_DISCONNECTED, SND_EVT_PCM_PERIOD_ELAPSED, SND_EVT_PCM_XRUN.
  intros H. apply andb_prop in H. destruct H as [Hp H]. apply N.eqb_eq in Hp. split; [exact Hp|].
  destruct (N.eqb_spec pending 0) as [P|P].
  { split; [intros _; lia|]. split; intros; contradiction. }
  split; [intros; contradiction|].
  destruct (N.eqb_spec ulen 8) as [U|U]; cbn [negb] in H.
  { split; [intros; contradiction|]. intros _ _.
    destruct ((code =? 4096) || (code =? 4097) || (code =? 4352) || (code =? 4353)) eqn:K; split; intros; lia. }
  split; [intros; lia|]. intros; contradiction.
Qed.

(* ------------------------------------------------------------------------------------------------ *)
(* kind 2057 (C20: "set parameters before transfer"): [the device has accepted parameters for the stream; outcome class; error
   code; TX messages the device received during the call]: a transfer for a stream without accepted parameters is refused
   with an error and nothing reaches the device (the error code is carried, not judged) *)
Theorem mon_state_rule_meaning had_params class code seen :
  mon_state_rule [had_params; class; code; seen] = true -> had_params = 0 -> class = 1 /\ seen = 0.
Proof. unfold mon_state_rule. intros H ->. cbn [N.eqb] in H. lia. Qed.

(* ------------------------------------------------------------------------------------------------ *)
(* kind 2058 (C20, values): [jacks, streams, chmaps the device has in its configuration space; jacks() streams() chmaps()] *)
Theorem mon_snd_config_meaning j s c gj gs gc :
  mon_snd_config [j; s; c; gj; gs; gc] = true -> gj = j /\ gs = s /\ gc = c.
Proof. unfold mon_snd_config. intros H. lia. Qed.

(* ------------------------------------------------------------------------------------------------ *)
(* kind 2059: [n; the request codes of the info queries of one call, in the order the device received them]: they are a
   prefix of JACK_INFO, PCM_INFO, CHMAP_INFO (the order of set_up), n is their number *)
Theorem mon_setup_order_meaning n codes :
  mon_setup_order (n :: codes) = true ->
  n = lenN codes
  /\ (codes = [] \/ codes = [SND_R_JACK_INFO] \/ codes = [SND_R_JACK_INFO; SND_R_PCM_INFO]
      \/ codes = [SND_R_JACK_INFO; SND_R_PCM_INFO; SND_R_CHMAP_INFO]).
Proof.
  unfold mon_setup_order. intros H. apply andb_prop in H. destruct H as [H1 H2]. apply N.eqb_eq in H2. apply list_eqb_eq in H1.
  split; [auto|]. subst n. rewrite snd_cnt_len in H1 by lia.
  destruct codes as [|a [|b [|c [|d r]]]]; cbn [length firstn] in H1; auto; discriminate H1.
Qed.

(* ------------------------------------------------------------------------------------------------ *)
(* kind 2060: [outcome class; the caller broke a documented precondition (stream id out of range, frames length <> period,
   unknown token)]: no operation ends in a panic unless the caller broke a documented precondition *)
Theorem mon_no_panic_meaning class excused : mon_no_panic [class; excused] = true -> class = 2 -> excused = 1.
Proof. unfold mon_no_panic. intros H ->. cbn [N.eqb Pos.eqb negb orb] in H. lia. Qed.

(* ------------------------------------------------------------------------------------------------ *)
(* kind 2061 (C20, values): [class of VirtIOSound::new; jacks(); streams(); chmaps()] ++ the configuration bytes:
   there are exactly 12 configuration bytes, new succeeded, and the counters are the three little-endian le32 fields of
   struct virtio_snd_config (5.14.4) *)
Theorem mon_snd_config_bytes_meaning ins : mon_snd_config_bytes ins = true ->
  exists gj gs gc b0 b1 b2 b3 b4 b5 b6 b7 b8 b9 b10 b11,
    ins = [0; gj; gs; gc; b0; b1; b2; b3; b4; b5; b6; b7; b8; b9; b10; b11]
    /\ gj = b0 + 256 * (b1 + 256 * (b2 + 256 * b3))
    /\ gs = b4 + 256 * (b5 + 256 * (b6 + 256 * b7))
    /\ gc = b8 + 256 * (b9 + 256 * (b10 + 256 * b11)).
Proof.
  unfold mon_snd_config_bytes. intros H.
  destruct ins as [|class [|gj [|gs [|gc cfg]]]]; try discriminate H.
  unfold spec_snd_config in H.
  repeat (apply andb_prop in H; let X := fresh "X" in destruct H as [H X]).
  apply N.eqb_eq in H. apply N.eqb_eq in X2. apply N.eqb_eq in X1. apply N.eqb_eq in X0. apply N.eqb_eq in X.
  assert (L : length cfg = 12%nat) by (unfold lenN in H; lia). clear H.
  destruct cfg as [|b0 [|b1 [|b2 [|b3 [|b4 [|b5 [|b6 [|b7 [|b8 [|b9 [|b10 [|b11 [|? ?]]]]]]]]]]]]]; try discriminate L.
  exists gj, gs, gc, b0, b1, b2, b3, b4, b5, b6, b7, b8, b9, b10, b11. subst class.
  unfold fld in *. cbn [skipn firstn sle] in *. split; [reflexivity|]. lia.
Qed.

(* ------------------------------------------------------------------------------------------------ *)
(* kind 2062 (C20, values): a stream query against the RAW answer of the device to PCM_INFO,
     [which; stream id; outcome class; error code; n; the n returned values; count = streams in configuration space; the answer
      bytes as the device wrote them (status header, then the items)].
   MEANING, for ANY input list, with the field table of struct virtio_snd_pcm_info (5.14.6.6.2; spec_pcm_item rsp i = the 32
   bytes of item i behind the 4-byte status, spec_dec_pcm_info = its fields, spec_pcm_items = items 0 .. count-1): the direction
   queries return the ascending positions of the items whose direction byte is OUTPUT / INPUT; a per-stream query returns the
   field(s) of item sid, and InvalidParam for a stream beyond the count (at most the 127 items a 4096-byte buffer holds) *)
Theorem mon_values_raw_meaning ins : mon_values_raw ins = true ->
  exists which sid class code vals count rsp,
    ins = which :: sid :: class :: code :: lenN vals :: vals ++ count :: rsp
    /\ let c := N.min count 127 in
       (which = 0 -> class = 0 /\ vals = streams_with_dir (spec_pcm_items rsp 0 (N.to_nat c)) SND_D_OUTPUT 0)
       /\ (which = 1 -> class = 0 /\ vals = streams_with_dir (spec_pcm_items rsp 0 (N.to_nat c)) SND_D_INPUT 0)
       /\ (2 <= which -> c <= sid -> class = 1 /\ code = EInvalidParam)
       /\ (2 <= which -> sid < c -> class = 0 /\ vals = stream_field which (spec_dec_pcm_info (spec_pcm_item rsp sid))).
Proof.
  intros H. unfold mon_values_raw in H.
  destruct ins as [|which [|sid [|class [|code [|n rest]]]]]; try discriminate H.
  destruct (skipn (cnt n rest) rest) as [|count rsp] eqn:Es; [discriminate H|].
  set (vals := firstn (cnt n rest) rest) in *.
  assert (Er : rest = vals ++ count :: rsp) by (rewrite <- Es; symmetry; apply firstn_skipn).
  assert (Hn : n = lenN vals).
  { assert (L : (length vals = cnt n rest)%nat).
    { unfold vals. apply firstn_length_le. unfold cnt, lenN. lia. }
    assert (L2 : (length rest = length vals + S (length rsp))%nat) by (rewrite Er at 1; rewrite app_length; reflexivity).
    unfold cnt, lenN in *. lia. }
  exists which, sid, class, code, vals, count, rsp. split; [rewrite Er, Hn at 1; reflexivity|]. cbv zeta.
  unfold spec_stream_query in H. rewrite N2Nat.id in H.
  destruct (N.eqb_spec which 0) as [W0|W0].
  { apply andb_prop in H. destruct H as [H1 H2]. apply N.eqb_eq in H1. apply list_eqb_eq in H2.
    split; [auto|]. repeat split; intros; lia. }
  destruct (N.eqb_spec which 1) as [W1|W1].
  { apply andb_prop in H. destruct H as [H1 H2]. apply N.eqb_eq in H1. apply list_eqb_eq in H2.
    split; [intros; lia|]. split; [auto|]. split; intros; lia. }
  split; [intros; contradiction|]. split; [intros; contradiction|].
  destruct (N.leb_spec (N.min count 127) sid) as [L|L].
  - apply andb_prop in H. destruct H as [H1 H2]. apply N.eqb_eq in H1. apply N.eqb_eq in H2. split; [auto|intros; lia].
  - apply andb_prop in H. destruct H as [H1 H2]. apply N.eqb_eq in H1. apply list_eqb_eq in H2. split; [intros; lia|auto].
Qed.

(* ------------------------------------------------------------------------------------------------ *)
(* kind 1982 (C19, the sound driver's event queue), one latest_notification as seen from the device's side:
     [a completion was pending at the driver's cursor; its id is below the queue size; outcome class; error code; an event was
      returned; by how much the available index advanced; the ring entry published last; the id of the completed buffer; length
      / writable / "is the 8-byte share of event buffer id" of the descriptor that ring entry names; notifications of queue 1;
      notifications of other queues; the specification wants a notification (event index / flag); shares; unshares; length the
      device recorded; type returned; data returned; the two le32 the device wrote at the start of the buffer].
   A true verdict states the clauses of C19 for this queue: nothing pending - Ok(None) and nothing touched; an id outside the
   queue - an error (WrongToken) and nothing touched; otherwise, WHATEVER length the device recorded and whatever the bytes
   are, the completed buffer was unshared once, shared once and posted again under the same token as one writable 8-byte
   descriptor, only queue 1 was notified, at most once, and at least when the specification requires it; the caller got the
   event the device wrote (its type and data, when the type is one of the four of 5.14.6 and exactly 8 bytes were recorded),
   nothing for fewer than 8 bytes, an error (IoError) for an unknown type or a length above the buffer size. *)
Theorem mon_snd_notif_meaning pending inrange class code has adelta head uid dlen dw disbuf n1 nother must shares unshares ulen ty data dcode ddata :
  mon_snd_notif [pending; inrange; class; code; has; adelta; head; uid; dlen; dw; disbuf; n1; nother; must; shares; unshares; ulen; ty; data; dcode; ddata] = true ->
  (pending = 0 -> class = 0 /\ has = 0 /\ adelta = 0 /\ n1 = 0 /\ nother = 0 /\ shares = 0 /\ unshares = 0)
  /\ (pending <> 0 -> inrange = 0 ->
        class = 1 /\ code = EWrongToken /\ adelta = 0 /\ n1 = 0 /\ nother = 0 /\ shares = 0 /\ unshares = 0)
  /\ (pending <> 0 -> inrange <> 0 ->
        (* posted again under the same token, one writable 8-byte descriptor on the live share of that event buffer *)
        adelta = 1 /\ head = uid /\ dlen = 8 /\ dw = 1 /\ disbuf = 1 /\ shares = 1 /\ unshares = 1
        (* notification of queue 1 only, at most once, and whenever required *)
        /\ nother = 0 /\ n1 <= 1 /\ (must = 1 -> n1 = 1)
        (* the result *)
        /\ (8 < ulen -> class = 1 /\ code = EIoError)
        /\ (ulen < 8 -> class = 0 /\ has = 0)
        /\ (ulen = 8 ->
              (dcode = SND_EVT_JACK_CONNECTED \/ dcode = SND_EVT_JACK_DISCONNECTED \/ dcode = SND_EVT_PCM_PERIOD_ELAPSED \/ dcode = SND_EVT_PCM_XRUN ->
                 class = 0 /\ has = 1 /\ ty = dcode /\ data = ddata)
              /\ (dcode <> SND_EVT_JACK_CONNECTED -> dcode <> SND_EVT_JACK_DISCONNECTED -> dcode <> SND_EVT_PCM_PERIOD_ELAPSED -> dcode <> SND_EVT_PCM_XRUN ->
                 class = 1 /\ code = EIoError))).
Proof.
  unfold mon_snd_notif, spec_event_known, EWrongToken, EIoError, SND_EVT_JACK_CONNECTED, SND_EVT_JACK_DISCONNECTED, SND_EVT_PCM_PERIOD_ELAPSED, SND_EVT_PCM_XRUN.
  intros H.
  destruct (N.eqb_spec pending 0) as [P|P].
  { split; [intros _; lia|]. split; intros; contradiction. }
  split; [intros; contradiction|].
  destruct (N.eqb_spec inrange 0) as [R|R].
  { split; [intros _ _; lia|]. intros; contradiction. }
  split; [intros; contradiction|]. intros _ _.
  repeat (apply andb_prop in H; let X := fresh "X" in destruct H as [H X]).
  apply N.eqb_eq in H. apply N.eqb_eq in X8. apply N.eqb_eq in X7. apply N.eqb_eq in X6. apply N.eqb_eq in X5. apply N.eqb_eq in X4.
  apply N.leb_le in X3. apply N.eqb_eq in X1. apply N.eqb_eq in X0.
  split; [exact H|]. split; [exact X8|]. split; [exact X7|]. split; [exact X6|]. split; [exact X5|]. split; [exact X1|]. split; [exact X0|].
  split; [exact X4|]. split; [exact X3|]. split; [intros M; subst must; cbn [N.eqb Pos.eqb implb] in X2; lia|].
  destruct (N.ltb_spec 8 ulen) as [U|U].
  { split; [intros _; lia|]. split; intros; lia. }
  split; [intros; lia|].
  destruct (N.eqb_spec ulen 8) as [U8|U8].
  { split; [intros; lia|]. intros _.
    destruct ((dcode =? 4096) || (dcode =? 4097) || (dcode =? 4352) || (dcode =? 4353)) eqn:K; split; intros; lia. }
  split; [intros _; lia|intros; contradiction].
Qed.

Lemma mon_snd_notif_decodes ins : mon_snd_notif ins = true -> length ins = 21%nat.
Proof.
  unfold mon_snd_notif.
  destruct ins as [|x1 [|x2 [|x3 [|x4 [|x5 [|x6 [|x7 [|x8 [|x9 [|x10 [|x11 [|x12 [|x13 [|x14 [|x15 [|x16 [|x17 [|x18 [|x19 [|x20 [|x21 [|? ?]]]]]]]]]]]]]]]]]]]]]];
    try discriminate. reflexivity.
Qed.

(* ------------------------------------------------------------------------------------------------ *)
(* the remaining fixed-length monitors accept only lists of their documented length (trailing numbers are refused) *)
Lemma mon_fixed_shapes_decode ins :
  (mon_notif ins = true -> length ins = 9%nat) /\ (mon_state_rule ins = true -> length ins = 4%nat)
  /\ (mon_snd_config ins = true -> length ins = 6%nat) /\ (mon_no_panic ins = true -> length ins = 2%nat)
  /\ (mon_setup_order ins = true -> exists n codes, ins = n :: codes).
Proof.
  split; [|split; [|split; [|split]]].
  - unfold mon_notif. destruct ins as [|x1 [|x2 [|x3 [|x4 [|x5 [|x6 [|x7 [|x8 [|x9 [|? ?]]]]]]]]]]; try discriminate. reflexivity.
  - unfold mon_state_rule. destruct ins as [|x1 [|x2 [|x3 [|x4 [|? ?]]]]]; try discriminate. reflexivity.
  - unfold mon_snd_config. destruct ins as [|x1 [|x2 [|x3 [|x4 [|x5 [|x6 [|? ?]]]]]]]; try discriminate. reflexivity.
  - unfold mon_no_panic. destruct ins as [|x1 [|x2 [|? ?]]]; try discriminate. reflexivity.
  - unfold mon_setup_order. destruct ins as [|n codes]; [discriminate|]. intros _. now exists n, codes.
Qed.

(* ------------------------------------------------------------------------------------------------ *)
(* the dispatchers: which kind runs which monitor *)
Lemma sound_monitor_kinds ins :
  sound_monitor 2050 ins = [b2n (mon_ctl ins)] /\ sound_monitor 2051 ins = [b2n (mon_ctl_result ins)]
  /\ sound_monitor 2052 ins = [b2n (mon_tx ins)] /\ sound_monitor 2053 ins = [b2n (mon_xfer ins)]
  /\ sound_monitor 2054 ins = [b2n (mon_nb_result ins)] /\ sound_monitor 2055 ins = [b2n (mon_values ins)]
  /\ sound_monitor 2056 ins = [b2n (mon_notif ins)] /\ sound_monitor 2057 ins = [b2n (mon_state_rule ins)]
  /\ sound_monitor 2058 ins = [b2n (mon_snd_config ins)] /\ sound_monitor 2059 ins = [b2n (mon_setup_order ins)]
  /\ sound_monitor 2060 ins = [b2n (mon_no_panic ins)] /\ sound_monitor 2061 ins = [b2n (mon_snd_config_bytes ins)]
  /\ sound_monitor 2062 ins = [b2n (mon_values_raw ins)] /\ sndevt_monitor 1982 ins = [b2n (mon_snd_notif ins)].
Proof. repeat split. Qed.

(* the verdict [1] of the runner is the verdict true of the function *)
Lemma sound_monitor_true k ins : sound_monitor k ins = [1] ->
  (k = 2050 /\ mon_ctl ins = true) \/ (k = 2051 /\ mon_ctl_result ins = true) \/ (k = 2052 /\ mon_tx ins = true)
  \/ (k = 2053 /\ mon_xfer ins = true) \/ (k = 2054 /\ mon_nb_result ins = true) \/ (k = 2055 /\ mon_values ins = true)
  \/ (k = 2056 /\ mon_notif ins = true) \/ (k = 2057 /\ mon_state_rule ins = true) \/ (k = 2058 /\ mon_snd_config ins = true)
  \/ (k = 2059 /\ mon_setup_order ins = true) \/ (k = 2060 /\ mon_no_panic ins = true)
  \/ (k = 2061 /\ mon_snd_config_bytes ins = true) \/ (k = 2062 /\ mon_values_raw ins = true).
Proof.
  unfold sound_monitor. intros H.
  repeat match type of H with
  | (if ?k =? ?c then _ else _) = _ =>
      destruct (N.eqb_spec k c) as [->|?]; [apply snd_b2n_one in H; tauto|]
  end.
  discriminate H.
Qed.

(* ================================================================================================ *)
(* B. THE MONITORS HOLD OF THE MODEL                                                                 *)

(* ------------------------------------------------------------------------------------------------ *)
(* kind 2050.  What the device obtains from a control request of the model is [Some (req, RECV_SIZE)] (ctl_request_wire): the
   chain of ctl_request's add has the two elements (lenN req, readable) and (RECV_SIZE = 4096, writable), so the harness line is
   ctl_line kind a1 .. a7 0 RECV_SIZE 1 req. *)
Lemma mon_ctl_of_decode kind a1 a2 a3 a4 a5 a6 a7 req want :
  spec_decode_ctl req = Some want -> expected_req kind a1 a2 a3 a4 a5 a6 a7 = Some want ->
  match want with RqSetParams _ b p _ _ _ _ _ => spec_params_ok b p = true | _ => True end ->
  mon_ctl (ctl_line kind a1 a2 a3 a4 a5 a6 a7 0 RECV_SIZE 1 req) = true.
Proof.
  intros D X P. rewrite mon_ctl_line, D, X, sndreq_eqb_refl. unfold spec_ctl_shape, RECV_SIZE. cbn [n2b N.eqb negb Pos.eqb].
  rewrite N.eqb_refl. cbn [andb N.leb N.compare Pos.compare Pos.compare_cont].
  destruct want; try reflexivity. exact P.
Qed.

(* pcm_prepare / release / start / stop *)
Theorem mon2050_holds_pcm_cmd s code sid e :
  s_set_up s = true -> ctl_idle s -> is_pcm_cmd_code code = true -> sid < two32 -> env_done s e ->
  exists o s' evs rb,
    snd_pcm_cmd s code sid [e] = Some (o, s', evs, [Some (rb, RECV_SIZE)])
    /\ mon_ctl (ctl_line 4 code sid 0 0 0 0 0 0 RECV_SIZE 1 rb) = true.
Proof.
  intros Hsu Hi Hc Hs Hd. destruct (pcm_cmd_spec s code sid e Hsu Hi Hc Hs Hd) as (o & s' & evs & rb & Hr & Hdec & _).
  exists o, s', evs, rb. split; [exact Hr|]. eapply mon_ctl_of_decode; [exact Hdec|reflexivity|exact I].
Qed.

(* pcm_set_params with parameters the driver lets through *)
Theorem mon2050_holds_set_params s sid buffer period features channels format rate e :
  s_set_up s = true -> ctl_idle s ->
  sid < two32 -> buffer < two32 -> period < two32 -> features < two32 -> channels < 256 -> format < 256 -> rate < 256 ->
  env_done s e -> params_guard buffer period = false ->
  exists o s' evs rb,
    snd_pcm_set_params s sid buffer period features channels format rate [e] = Some (o, s', evs, [Some (rb, RECV_SIZE)])
    /\ mon_ctl (ctl_line 3 sid buffer period features channels format rate 0 RECV_SIZE 1 rb) = true.
Proof.
  intros Hsu Hi H1 H2 H3 H4 H5 H6 H7 Hd Hg.
  destruct (set_params_spec s sid buffer period features channels format rate e Hsu Hi H1 H2 H3 H4 H5 H6 H7 Hd) as [_ P].
  destruct (P Hg) as (o & s' & evs & rb & Hr & Hdec & Hok & _).
  exists o, s', evs, rb. split; [exact Hr|]. eapply mon_ctl_of_decode; [exact Hdec|reflexivity|exact Hok].
Qed.

(* jack_remap for a jack that supports it *)
Theorem mon2050_holds_jack_remap s jack association sequence e l j :
  s_set_up s = true -> ctl_idle s -> jack < two32 -> association < two32 -> sequence < two32 -> env_done s e ->
  jack < s_jacks s -> s_jack_infos s = Some l -> nth_safe l jack = Some j -> N.land (j_features j) SND_JACK_F_REMAP <> 0 ->
  exists o s' evs rb,
    snd_jack_remap s jack association sequence [e] = Some (o, s', evs, [Some (rb, RECV_SIZE)])
    /\ mon_ctl (ctl_line 2 jack association sequence 0 0 0 0 0 RECV_SIZE 1 rb) = true.
Proof.
  intros Hsu Hi H1 H2 H3 Hd Hj Hl Hn Hf.
  destruct (jack_remap_spec (Err EIoError) s jack association sequence e l j Hsu Hi H1 H2 H3 Hd Hj Hl Hn Hf)
    as (o & s' & evs & rb & Hr & Hdec & _).
  exists o, s', evs, rb. split; [exact Hr|]. eapply mon_ctl_of_decode; [exact Hdec|reflexivity|exact I].
Qed.

(* the three info queries of set_up (the views vj, vp, vc of set_up_spec): the harness passes (request code, the count in
   configuration space) as what the caller asked for *)
Theorem mon2050_holds_query code count :
  is_query_code code = true -> count < two32 ->
  mon_ctl (ctl_line 1 code count 0 0 0 0 0 0 RECV_SIZE 1 (enc_query code 0 count (spec_item_size code))) = true.
Proof.
  intros Hc Hn. eapply mon_ctl_of_decode; [|reflexivity|exact I].
  apply query_roundtrip; [exact Hc|reflexivity|exact Hn|].
  unfold spec_item_size, SND_JACK_INFO_SIZE, SND_PCM_INFO_SIZE, SND_CHMAP_INFO_SIZE, two32.
  destruct (code =? SND_R_JACK_INFO), (code =? SND_R_PCM_INFO), (code =? SND_R_CHMAP_INFO); reflexivity.
Qed.

Theorem mon2050_holds_set_up s :
  s_jacks s < two32 -> s_streams s < two32 -> s_chmaps s < two32 ->
  mon_ctl (ctl_line 1 SND_R_JACK_INFO (s_jacks s) 0 0 0 0 0 0 RECV_SIZE 1 (enc_query CC_RJackInfo 0 (s_jacks s) JACK_INFO_SZ)) = true
  /\ mon_ctl (ctl_line 1 SND_R_PCM_INFO (s_streams s) 0 0 0 0 0 0 RECV_SIZE 1 (enc_query CC_RPcmInfo 0 (s_streams s) PCM_INFO_SZ)) = true
  /\ mon_ctl (ctl_line 1 SND_R_CHMAP_INFO (s_chmaps s) 0 0 0 0 0 0 RECV_SIZE 1 (enc_query CC_RChmapInfo 0 (s_chmaps s) CHMAP_INFO_SZ)) = true.
Proof.
  intros Hj Hs Hc. split; [|split].
  - exact (mon2050_holds_query SND_R_JACK_INFO (s_jacks s) eq_refl Hj).
  - exact (mon2050_holds_query SND_R_PCM_INFO (s_streams s) eq_refl Hs).
  - exact (mon2050_holds_query SND_R_CHMAP_INFO (s_chmaps s) eq_refl Hc).
Qed.

(* all request kinds of the model, as one statement *)
Theorem mon2050_holds_of_model :
  (forall s code sid e, s_set_up s = true -> ctl_idle s -> is_pcm_cmd_code code = true -> sid < two32 -> env_done s e ->
     exists o s' evs rb, snd_pcm_cmd s code sid [e] = Some (o, s', evs, [Some (rb, RECV_SIZE)])
                         /\ mon_ctl (ctl_line 4 code sid 0 0 0 0 0 0 RECV_SIZE 1 rb) = true)
  /\ (forall s sid buffer period features channels format rate e, s_set_up s = true -> ctl_idle s ->
     sid < two32 -> buffer < two32 -> period < two32 -> features < two32 -> channels < 256 -> format < 256 -> rate < 256 ->
     env_done s e -> params_guard buffer period = false ->
     exists o s' evs rb,
       snd_pcm_set_params s sid buffer period features channels format rate [e] = Some (o, s', evs, [Some (rb, RECV_SIZE)])
       /\ mon_ctl (ctl_line 3 sid buffer period features channels format rate 0 RECV_SIZE 1 rb) = true)
  /\ (forall s jack association sequence e l j,
     s_set_up s = true -> ctl_idle s -> jack < two32 -> association < two32 -> sequence < two32 -> env_done s e ->
     jack < s_jacks s -> s_jack_infos s = Some l -> nth_safe l jack = Some j -> N.land (j_features j) SND_JACK_F_REMAP <> 0 ->
     exists o s' evs rb, snd_jack_remap s jack association sequence [e] = Some (o, s', evs, [Some (rb, RECV_SIZE)])
                         /\ mon_ctl (ctl_line 2 jack association sequence 0 0 0 0 0 RECV_SIZE 1 rb) = true)
  /\ (forall code count, is_query_code code = true -> count < two32 ->
     mon_ctl (ctl_line 1 code count 0 0 0 0 0 0 RECV_SIZE 1 (enc_query code 0 count (spec_item_size code))) = true).
Proof.
  split; [exact mon2050_holds_pcm_cmd|]. split; [exact mon2050_holds_set_params|].
  split; [exact mon2050_holds_jack_remap|exact mon2050_holds_query].
Qed.

(* ------------------------------------------------------------------------------------------------ *)
(* kind 2051: `own` is the status header of the response to the operation's own request, fld (ce_rsp e) 0 4 (a header of 0 is
   written as "none" by the harness: the verdict is the same) *)
Lemma conforms_ok_iff {A} (o : outcome A) st has_req :
  (ocls o = 0 <-> st = SND_S_OK) -> ocls o <= 1 -> mon_ctl_result [has_req; ocls o; st; 0] = true.
Proof.
  unfold mon_ctl_result, snd_result_conforms, SND_S_OK. intros H1 H2.
  cbn [N.eqb orb negb].
  destruct (N.eqb_spec st 0), (N.eqb_spec st 32768), (N.eqb_spec has_req 1), (N.eqb_spec (ocls o) 0), (N.eqb_spec (ocls o) 1);
    cbn [negb]; try reflexivity; lia.
Qed.

Theorem mon2051_holds_pcm_cmd s code sid e o s' evs vs :
  s_set_up s = true -> ctl_idle s -> is_pcm_cmd_code code = true -> sid < two32 -> env_done s e ->
  snd_pcm_cmd s code sid [e] = Some (o, s', evs, vs) ->
  mon_ctl_result [1; ocls o; fld (ce_rsp e) 0 4; 0] = true.
Proof.
  intros Hsu Hi Hc Hs Hd Hrun.
  destruct (pcm_cmd_spec s code sid e Hsu Hi Hc Hs Hd) as (o1 & s1 & evs1 & rb & Hr & _ & Hiff & Hor & _).
  rewrite Hr in Hrun. inversion Hrun; subst o1. apply conforms_ok_iff.
  - rewrite <- Hiff. destruct Hor as [->| ->]; cbn [ocls]; split; intros; (reflexivity || discriminate).
  - destruct Hor as [->| ->]; cbn [ocls]; lia.
Qed.

(* pcm_set_params: refused by the driver's own checks (nothing reaches the device), or sent; for a stream the driver has a
   parameter slot for (an accepted SET_PARAMS for a stream beyond the configured count panics: set_params_spec, and see the
   audit witness mon_ctl_result_rejects_excused_panic below) *)
Theorem mon2051_holds_set_params s sid buffer period features channels format rate e o s' evs vs :
  s_set_up s = true -> ctl_idle s ->
  sid < two32 -> buffer < two32 -> period < two32 -> features < two32 -> channels < 256 -> format < 256 -> rate < 256 ->
  env_done s e -> sid < lenN (s_params s) ->
  snd_pcm_set_params s sid buffer period features channels format rate [e] = Some (o, s', evs, vs) ->
  mon_ctl_result [1; ocls o; (if params_guard buffer period then 0 else fld (ce_rsp e) 0 4); 0] = true.
Proof.
  intros Hsu Hi H1 H2 H3 H4 H5 H6 H7 Hd Hslot Hrun.
  destruct (set_params_spec s sid buffer period features channels format rate e Hsu Hi H1 H2 H3 H4 H5 H6 H7 Hd) as [P0 P1].
  destruct (params_guard buffer period) eqn:G.
  - rewrite (P0 eq_refl) in Hrun. inversion Hrun; subst o. reflexivity.
  - destruct (P1 eq_refl) as (o1 & s1 & evs1 & rb & Hr & _ & _ & _ & _ & _ & _ & _ & _ & Hbad & Hgood).
    rewrite Hr in Hrun. inversion Hrun; subst o1. apply conforms_ok_iff.
    + destruct (N.eq_dec (fld (ce_rsp e) 0 4) SND_S_OK) as [E|E].
      * destruct (proj1 (Hgood E) Hslot) as [-> _]. cbn [ocls]. tauto.
      * destruct (Hbad E) as [-> _]. cbn [ocls]. split; [discriminate|contradiction].
    + destruct (N.eq_dec (fld (ce_rsp e) 0 4) SND_S_OK) as [E|E].
      * destruct (proj1 (Hgood E) Hslot) as [-> _]. cbn [ocls]. lia.
      * destruct (Hbad E) as [-> _]. cbn [ocls]. lia.
Qed.

Theorem mon2051_holds_jack_remap s jack association sequence e l j o s' evs vs :
  s_set_up s = true -> ctl_idle s -> jack < two32 -> association < two32 -> sequence < two32 -> env_done s e ->
  jack < s_jacks s -> s_jack_infos s = Some l -> nth_safe l jack = Some j -> N.land (j_features j) SND_JACK_F_REMAP <> 0 ->
  snd_jack_remap s jack association sequence [e] = Some (o, s', evs, vs) ->
  mon_ctl_result [1; ocls o; fld (ce_rsp e) 0 4; 0] = true.
Proof.
  intros Hsu Hi H1 H2 H3 Hd Hj Hl Hn Hf Hrun.
  destruct (jack_remap_spec (Err EIoError) s jack association sequence e l j Hsu Hi H1 H2 H3 Hd Hj Hl Hn Hf)
    as (o1 & s1 & evs1 & rb & Hr & _ & Hiff & Hor & _).
  unfold snd_jack_remap in Hrun. rewrite Hr in Hrun. inversion Hrun; subst o1. apply conforms_ok_iff.
  - rewrite <- Hiff. destruct Hor as [->| ->]; cbn [ocls]; split; intros; (reflexivity || discriminate).
  - destruct Hor as [->| ->]; cbn [ocls]; lia.
Qed.

(* the first stream query, which runs set_up: the PCM_INFO answer decides (snd_first_query); the query has no request of its
   own *)
Theorem mon2051_holds_first_query s e1 e2 e3 which sid o s' evs vs :
  ctl_idle s -> s_set_up s = false ->
  s_jacks s < two32 -> s_streams s < two32 -> s_chmaps s < two32 ->
  env_done s e1 -> env_done_at s 1 e2 -> env_done_at s 2 e3 ->
  is_fatal (qans parse_jack JACK_INFO_SZ (s_jacks s) (ce_rsp e1)) = false ->
  is_fatal (qans parse_chmap CHMAP_INFO_SZ (s_chmaps s) (ce_rsp e3)) = false ->
  4 + s_streams s * PCM_INFO_SZ <= RECV_SIZE ->
  snd_get s which sid [e1; e2; e3] = Some (o, s', evs, vs) ->
  mon_ctl_result [0; ocls o; 0; fld (ce_rsp e2) 0 4] = true.
Proof.
  intros Hi Hsu Hj Hs Hc D1 D2 D3 Fj Fc Hfit Hrun.
  destruct (snd_first_query s e1 e2 e3 which sid Hi Hsu Hj Hs Hc D1 D2 D3 Fj Fc Hfit) as [Pok Pbad].
  unfold mon_ctl_result.
  destruct (N.eq_dec (fld (ce_rsp e2) 0 4) SND_S_OK) as [E|E].
  - rewrite E. reflexivity.
  - destruct (Pbad E) as (s1 & evs1 & vs1 & Hr & _). rewrite Hr in Hrun. inversion Hrun; subst o. cbn [ocls].
    destruct (N.eqb_spec (fld (ce_rsp e2) 0 4) 0) as [Z|Z]; [reflexivity|].
    destruct (N.eqb_spec (fld (ce_rsp e2) 0 4) SND_S_OK); [contradiction|reflexivity].
Qed.

Theorem mon2051_holds_of_model :
  (forall s code sid e o s' evs vs,
     s_set_up s = true -> ctl_idle s -> is_pcm_cmd_code code = true -> sid < two32 -> env_done s e ->
     snd_pcm_cmd s code sid [e] = Some (o, s', evs, vs) -> mon_ctl_result [1; ocls o; fld (ce_rsp e) 0 4; 0] = true)
  /\ (forall s sid buffer period features channels format rate e o s' evs vs,
     s_set_up s = true -> ctl_idle s ->
     sid < two32 -> buffer < two32 -> period < two32 -> features < two32 -> channels < 256 -> format < 256 -> rate < 256 ->
     env_done s e -> sid < lenN (s_params s) ->
     snd_pcm_set_params s sid buffer period features channels format rate [e] = Some (o, s', evs, vs) ->
     mon_ctl_result [1; ocls o; (if params_guard buffer period then 0 else fld (ce_rsp e) 0 4); 0] = true)
  /\ (forall s jack association sequence e l j o s' evs vs,
     s_set_up s = true -> ctl_idle s -> jack < two32 -> association < two32 -> sequence < two32 -> env_done s e ->
     jack < s_jacks s -> s_jack_infos s = Some l -> nth_safe l jack = Some j -> N.land (j_features j) SND_JACK_F_REMAP <> 0 ->
     snd_jack_remap s jack association sequence [e] = Some (o, s', evs, vs) ->
     mon_ctl_result [1; ocls o; fld (ce_rsp e) 0 4; 0] = true)
  /\ (forall s e1 e2 e3 which sid o s' evs vs,
     ctl_idle s -> s_set_up s = false -> s_jacks s < two32 -> s_streams s < two32 -> s_chmaps s < two32 ->
     env_done s e1 -> env_done_at s 1 e2 -> env_done_at s 2 e3 ->
     is_fatal (qans parse_jack JACK_INFO_SZ (s_jacks s) (ce_rsp e1)) = false ->
     is_fatal (qans parse_chmap CHMAP_INFO_SZ (s_chmaps s) (ce_rsp e3)) = false ->
     4 + s_streams s * PCM_INFO_SZ <= RECV_SIZE ->
     snd_get s which sid [e1; e2; e3] = Some (o, s', evs, vs) ->
     mon_ctl_result [0; ocls o; 0; fld (ce_rsp e2) 0 4] = true).
Proof.
  split; [exact mon2051_holds_pcm_cmd|]. split; [exact mon2051_holds_set_params|].
  split; [exact mon2051_holds_jack_remap|exact mon2051_holds_first_query].
Qed.

(* ------------------------------------------------------------------------------------------------ *)
(* kind 2052.  The line for a TX message whose device-readable bytes are rb (the harness writes the first four of them, 0 for
   a missing one, and their number) *)
Definition tx_line_of (sid period : N) (raw : list (N * N)) (rb : list N) : list N :=
  tx_line sid period 1 1 raw (nth 0 rb 0) (nth 1 rb 0) (nth 2 rb 0) (nth 3 rb 0) (lenN rb).

Lemma le32_bytes_value sid : sid < two32 ->
  sid mod 256 + 256 * (sid / 256 mod 256 + 256 * (sid / 256 / 256 mod 256 + 256 * (sid / 256 / 256 / 256 mod 256))) = sid.
Proof. unfold two32. intros H. lia. Qed.

(* a message of the model: stream id header ++ piece c; raw = the chain elements: (4, readable) (lenN c, readable) (8, writable)
   for the three buffers of pcm_xfer (xfer_ins / xfer_outs), (4 + lenN c, readable) (8, writable) for the two of pcm_xfer_nb *)
Lemma mon_tx_of_piece sid period c raw :
  sid < two32 -> 1 <= lenN c <= period ->
  raw = [(4, 0); (lenN c, 0); (8, 1)] \/ raw = [(4 + lenN c, 0); (8, 1)] ->
  mon_tx (tx_line_of sid period raw (enc_xfer_hdr sid ++ c)) = true.
Proof.
  intros Hs Hc Hraw. unfold tx_line_of. rewrite mon_tx_line. cbv zeta.
  unfold enc_xfer_hdr. cbn [le_bytes app nth]. rewrite le32_bytes_value by exact Hs.
  assert (L : lenN (sid mod 256 :: sid / 256 mod 256 :: sid / 256 / 256 mod 256 :: sid / 256 / 256 / 256 mod 256 :: c) = 4 + lenN c).
  { rewrite !lenN_cons. lia. }
  rewrite L, N.eqb_refl.
  destruct Hraw as [-> | ->]; unfold n2b; cbn [filter map fst snd N.eqb Pos.eqb negb sumN forallb].
  - change (8 + 0 =? 8) with true. cbv iota. lia.
  - change (8 + 0 =? 8) with true. cbv iota. lia.
Qed.

(* the blocking pcm_xfer, under the hypotheses of xfer_blocking: EVERY message the device receives passes monitor 2052.
   The two flags of the line are 1: parameters had been accepted (snd_pcm_xfer only enters the loop for a slot that is set up, and
   the slot is set only after an OK answer: set_params_spec), and the data part IS the piece c of the caller's frames (the pieces
   of xfer_blocking concatenate to the frames, in order) *)
Theorem mon2052_holds_of_model sid period frames envs q0 h0 o q' evs vs :
  Reach q0 [] h0 -> q_size q0 = 32 -> sid < two32 -> 0 < period -> lenN frames < two32 ->
  envs_in_order sid envs (xst_init q0 period frames) ->
  xfer_loop sid envs (xst_init q0 period frames) = Some (o, q', evs, vs) ->
  forall v, In v vs ->
    exists c, v = Some (enc_xfer_hdr sid ++ c, 8)
              /\ mon_tx (tx_line_of sid period [(4, 0); (lenN c, 0); (8, 1)] (enc_xfer_hdr sid ++ c)) = true.
Proof.
  intros HR Hs Hsid Hp Hf Hord Hrun v Hv.
  destruct (xfer_blocking sid period frames envs q0 h0 o q' evs vs HR Hs Hsid Hp Hf Hord Hrun) as (_ & (pieces & [_ Hpc] & _ & Hvs) & _).
  rewrite Hvs in Hv. apply in_map_iff in Hv. destruct Hv as (c & <- & Hc).
  rewrite Forall_forall in Hpc. specialize (Hpc c Hc).
  exists c. split; [reflexivity|]. apply mon_tx_of_piece; [exact Hsid|exact Hpc|now left].
Qed.

(* pcm_xfer_nb, under the hypotheses of xfer_nb_spec: the one message it publishes passes monitor 2052 (period = the frames'
   length, asserted by the driver) *)
Theorem mon2052_holds_nb s chains sid frames bid rid es e p :
  s_set_up s = true -> nth_safe (s_params s) sid = Some p -> pp_setup p = true -> pp_period p = lenN frames ->
  frames <> [] -> NbInv s chains -> sid < two32 -> 4 + lenN frames < two32 -> capacity_ok (s_tx s) 2 = true ->
  exists tok s' evs,
    snd_pcm_xfer_nb s sid frames bid rid es e = Some (Ok tok, s', evs, [Some (enc_xfer_hdr sid ++ frames, 8)])
    /\ mon_tx (tx_line_of sid (pp_period p) [(4 + lenN frames, 0); (8, 1)] (enc_xfer_hdr sid ++ frames)) = true.
Proof.
  intros Hsu Hn Hset Hper Hne HI Hsid Hlen Hcap.
  destruct (xfer_nb_spec s chains sid frames bid rid es e p Hsu Hn Hset Hper Hne HI Hsid Hlen) as [_ P].
  destruct (P Hcap) as (s' & evs & cn & Hr & _).
  eexists; exists s', evs. split; [exact Hr|]. apply mon_tx_of_piece; [exact Hsid| |now right].
  destruct frames as [|x t]; [congruence|]. rewrite Hper, lenN_cons. lia.
Qed.

(* ------------------------------------------------------------------------------------------------ *)
(* kind 2053, under the hypotheses of xfer_blocking (in-order, error-free completions): the call returns Ok; the pieces the
   device decodes concatenate to the caller's frames (so the harness's comparison yields 1: hypothesis Hflag ties the flag to
   that fact); the queue is idle afterwards (0 outstanding); and at ANY point of the loop - any loop state x with outstanding
   chains `chains` satisfying the loop invariant XInv - the descriptors in use, (3 direct | 1 indirect) per outstanding
   message, are within the queue size 32 (xfer_outstanding_bound) *)
Theorem mon2053_holds_of_model sid period frames envs q0 h0 o q' evs vs x chains h concat_ok nmsg :
  Reach q0 [] h0 -> q_size q0 = 32 -> sid < two32 -> 0 < period -> lenN frames < two32 ->
  envs_in_order sid envs (xst_init q0 period frames) ->
  xfer_loop sid envs (xst_init q0 period frames) = Some (o, q', evs, vs) ->
  Reach (x_q x) chains h -> XInv x chains ->
  (forall pieces, map decode_view vs = map (fun c => Some (sid, c)) pieces -> concat pieces = frames -> concat_ok = 1) ->
  (exists h', Reach q' [] h')
  /\ mon_xfer [ocls o; 1; concat_ok; nmsg; lenN chains; q_size (x_q x); per_q (x_q x); 0] = true.
Proof.
  intros HR Hs Hsid Hp Hf Hord Hrun HRx HX Hflag.
  destruct (xfer_blocking sid period frames envs q0 h0 o q' evs vs HR Hs Hsid Hp Hf Hord Hrun)
    as (-> & (pieces & [Hcat _] & Hdec & _) & Hidle & _).
  split; [exact Hidle|].
  destruct (xfer_outstanding_bound x chains h HRx HX) as [_ Hb].
  rewrite (Hflag pieces Hdec Hcat). unfold mon_xfer. rewrite (xi_size _ _ HX). cbn [ocls N.eqb Pos.eqb andb].
  rewrite andb_true_r. apply N.leb_le. lia.
Qed.

(* ------------------------------------------------------------------------------------------------ *)
(* kind 2054, under the hypotheses of xfer_ok_spec: pcm_xfer_ok for the token of an outstanding chain c that the used ring
   presents next, for every status value st the device left in the status structure (the device's le32 = w32 st): the
   result is decided by that status alone (xfer_ok_checks_status), the other transfers stay recorded (NbInv for the rest:
   the flags the harness computes from that are hypotheses) *)
Theorem mon2054_holds_of_model s pre c post u_idx u_id u_len st others_ok shares_ok :
  NbInv s (pre ++ c :: post) -> q_last_used (s_tx s) <> w16 u_idx -> w16 u_id = c_head c ->
  exists o s' evs,
    snd_pcm_xfer_ok s (c_head c) u_idx u_id u_len st = (o, s', evs)
    /\ NbInv s' (pre ++ post)
    /\ ((NbInv s' (pre ++ post) -> others_ok = 1) -> (NbInv s' (pre ++ post) -> shares_ok = 1) ->
        mon_nb_result [w32 st; ocls o; others_ok; shares_ok] = true).
Proof.
  intros HI E1 E2. destruct (xfer_ok_spec true s pre c post u_idx u_id u_len st HI) as (_ & _ & P3).
  destruct (P3 E1 E2) as (s' & evs & Hr & HI' & _).
  exists (ok_result true st), s', evs. split; [exact Hr|]. split; [exact HI'|]. intros Ho Hsh.
  rewrite (Ho HI'), (Hsh HI'). unfold mon_nb_result, snd_result_conforms. cbn [N.eqb Pos.eqb andb]. rewrite !andb_true_r.
  destruct (xfer_ok_checks_status st) as [Hiff Herr].
  destruct (N.eqb_spec (w32 st) SND_S_OK) as [E|E].
  - rewrite (proj2 Hiff E). reflexivity.
  - rewrite (Herr E). reflexivity.
Qed.

(* ------------------------------------------------------------------------------------------------ *)
(* kind 2055.  The line the harness writes: the values returned, then the m = lenN infos streams the device reported *)
Definition values_line (which sid class : N) (vals : list N) (infos : list pcm_info) : list N :=
  which :: sid :: class :: lenN vals :: vals ++ lenN infos :: flat_pcm infos.

Lemma streams_no_nid infos dir : forall i, streams_with_dir (map no_nid infos) dir i = streams_with_dir infos dir i.
Proof. induction infos as [|p t IH]; intros i; [reflexivity|]. cbn [map streams_with_dir no_nid p_direction]. now rewrite IH. Qed.

Lemma mon_values_line which sid class vals infos :
  lenN infos <= 4096 ->
  mon_values (values_line which sid class vals infos) =
  if which =? 0 then (class =? 0) && list_eqb vals (streams_with_dir infos SND_D_OUTPUT 0)
  else if which =? 1 then (class =? 0) && list_eqb vals (streams_with_dir infos SND_D_INPUT 0)
  else match nth_error infos (N.to_nat sid) with
       | None => class =? 1
       | Some p => (class =? 0) && list_eqb vals (stream_field which p)
       end.
Proof.
  intros Hm. unfold values_line, mon_values.
  rewrite snd_cnt_len by (rewrite lenN_app; lia).
  rewrite firstn_app, Nat.sub_diag, firstn_all. cbn [firstn]. rewrite app_nil_r.
  rewrite skipn_app, Nat.sub_diag, skipn_all. cbn [skipn app].
  replace (N.to_nat (N.min (lenN infos) 4096)) with (length infos) by (unfold lenN in *; lia).
  rewrite <- (app_nil_r (flat_pcm infos)), take_pcm_flat, !streams_no_nid.
  destruct (which =? 0); [reflexivity|]. destruct (which =? 1); [reflexivity|].
  rewrite nth_safe_eq. unfold nthN_error. rewrite nth_error_map.
  destruct (nth_error infos (N.to_nat sid)) as [p|]; [|reflexivity]. cbn [option_map]. reflexivity.
Qed.

(* what snd_get answers once set_up has stored the stream information (the case analysis of get_spec, for every `which`) *)
Lemma snd_get_stored s infos es which sid :
  s_set_up s = true -> s_pcm_infos s = Some infos -> lenN infos < two32 ->
  snd_get s which sid es =
  Some ((if which =? 0 then Ok (streams_with_dir infos SND_D_OUTPUT 0)
         else if which =? 1 then Ok (streams_with_dir infos SND_D_INPUT 0)
         else match nth_error infos (N.to_nat sid) with
              | None => Err EInvalidParam
              | Some p => Ok (stream_field which p)
              end), s, [], []).
Proof.
  intros Hsu Hp Hl. destruct (get_spec s infos es Hsu Hp Hl) as (G0 & G1 & G2 & G3).
  destruct (N.eqb_spec which 0) as [->|W0].
  { unfold snd_get in *. rewrite with_set_up_done in * by exact Hsu. rewrite Hp in *. exact G0. }
  destruct (N.eqb_spec which 1) as [->|W1].
  { unfold snd_get in *. rewrite with_set_up_done in * by exact Hsu. rewrite Hp in *. exact G1. }
  destruct (nth_error infos (N.to_nat sid)) as [p|] eqn:En.
  - assert (Hn : nth_safe infos sid = Some p) by (rewrite nth_safe_eq; exact En).
    destruct (G2 sid p Hn) as (A2 & A3 & A4 & A5). unfold stream_field.
    destruct (N.eqb_spec which 2) as [->|W2]; [exact A2|]. destruct (N.eqb_spec which 3) as [->|W3]; [exact A3|].
    destruct (N.eqb_spec which 4) as [->|W4]; [exact A4|].
    (* any other selector is answered like 5 (features): the model's case split is total *)
    unfold snd_get in *. rewrite with_set_up_done in * by exact Hsu. rewrite Hp in *.
    replace (which =? 0) with false by lia. replace (which =? 1) with false by lia.
    change (5 =? 0) with false in A5. change (5 =? 1) with false in A5.
    destruct (w32 (lenN infos) <=? sid); [discriminate A5|]. rewrite Hn in *.
    replace (which =? 2) with false by lia. replace (which =? 3) with false by lia. replace (which =? 4) with false by lia.
    exact A5.
  - apply G3; [|lia]. apply nth_error_None in En. unfold lenN. lia.
Qed.

Theorem mon2055_holds_of_model s infos es which sid :
  s_set_up s = true -> s_pcm_infos s = Some infos -> lenN infos <= 4096 ->
  exists o, snd_get s which sid es = Some (o, s, [], [])
            /\ mon_values (values_line which sid (ocls o) (olist o) infos) = true.
Proof.
  intros Hsu Hp Hl. assert (Hl2 : lenN infos < two32) by (unfold two32; lia).
  eexists. split; [apply (snd_get_stored s infos es which sid Hsu Hp Hl2)|].
  rewrite mon_values_line by exact Hl.
  destruct (which =? 0); [cbn [ocls olist N.eqb andb]; now apply list_eqb_eq|].
  destruct (which =? 1); [cbn [ocls olist N.eqb andb]; now apply list_eqb_eq|].
  destruct (nth_error infos (N.to_nat sid)); [cbn [ocls olist N.eqb andb]; now apply list_eqb_eq|reflexivity].
Qed.

(* ------------------------------------------------------------------------------------------------ *)
(* kind 2062.  values_raw_line: the values returned, then count (streams in configuration space) and the raw answer *)
Definition values_raw_line (which sid class code : N) (vals : list N) (count : N) (rsp : list N) : list N :=
  which :: sid :: class :: code :: lenN vals :: vals ++ count :: rsp.

Lemma mon_values_raw_line which sid class code vals count rsp :
  mon_values_raw (values_raw_line which sid class code vals count rsp) =
  match spec_stream_query rsp (N.to_nat (N.min count 127)) which sid EInvalidParam with
  | Ok want => (class =? 0) && list_eqb vals want
  | Err e => (class =? 1) && (code =? e)
  | _ => false
  end.
Proof.
  unfold values_raw_line, mon_values_raw.
  rewrite snd_cnt_len by (rewrite lenN_app; lia).
  rewrite firstn_app, Nat.sub_diag, firstn_all. cbn [firstn]. rewrite app_nil_r.
  rewrite skipn_app, Nat.sub_diag, skipn_all. cbn [skipn app]. reflexivity.
Qed.

(* once set_up has stored the device's answer rsp to PCM_INFO for `count` streams (what snd_first_query establishes; count <= 127
   is what fits the 4096-byte receive buffer): every query passes monitor 2062, for EVERY content of the answer *)
Theorem mon2062_holds_of_model s rsp count es which sid :
  s_set_up s = true -> s_pcm_infos s = Some (spec_pcm_items rsp 0 (N.to_nat count)) -> count <= 127 ->
  exists o, snd_get s which sid es = Some (o, s, [], [])
            /\ mon_values_raw (values_raw_line which sid (ocls o) (ocode o) (olist o) count rsp) = true.
Proof.
  intros Hsu Hp Hc. eexists. split.
  - apply (snd_get_of_answer s rsp (N.to_nat count) es which sid Hsu Hp). rewrite N2Nat.id. unfold two32. lia.
  - rewrite mon_values_raw_line. replace (N.min count 127) with count by lia.
    destruct (spec_stream_query rsp (N.to_nat count) which sid EInvalidParam) as [l|e| |] eqn:Q; cbn [ocls ocode olist N.eqb andb].
    + now apply list_eqb_eq.
    + rewrite N.eqb_refl. reflexivity.
    + unfold spec_stream_query in Q. destruct (which =? 0), (which =? 1), (N.of_nat (N.to_nat count) <=? sid); discriminate Q.
    + unfold spec_stream_query in Q. destruct (which =? 0), (which =? 1), (N.of_nat (N.to_nat count) <=? sid); discriminate Q.
Qed.

(* ------------------------------------------------------------------------------------------------ *)
(* kind 2057: a transfer (blocking or token) for a stream whose parameter slot is not set up (xfer_requires_params): IoError, no
   view = nothing reached the device.  had_params (the DEVICE has accepted parameters) is 0 whenever the driver's slot is not set
   up, because the slot is only set after an OK answer (set_params_spec) *)
Theorem mon2057_holds_of_model s sid frames es xenvs bid rid e p :
  s_set_up s = true -> nth_safe (s_params s) sid = Some p -> pp_setup p = false ->
  exists o1 vs1 o2 vs2,
    snd_pcm_xfer s sid frames es xenvs = Some (o1, s, [], vs1)
    /\ snd_pcm_xfer_nb s sid frames bid rid es e = Some (o2, s, [], vs2)
    /\ mon_state_rule [0; ocls o1; ocode o1; lenN vs1] = true
    /\ mon_state_rule [0; ocls o2; ocode o2; lenN vs2] = true.
Proof.
  intros Hsu Hn Hp. destruct (xfer_requires_params s sid frames es xenvs bid rid e Hsu) as [P _].
  destruct (P p Hn Hp) as [A B]. exists (Err EIoError), [], (Err EIoError), []. repeat split; assumption.
Qed.

(* ------------------------------------------------------------------------------------------------ *)
(* kind 2058: the counters of the state VirtIOSound::new leaves are the configuration values (32-bit) *)
Theorem mon2058_holds_of_model feats j st c :
  j < two32 -> st < two32 -> c < two32 ->
  let s := snd_new feats j st c in mon_snd_config [j; st; c; s_jacks s; s_streams s; s_chmaps s] = true.
Proof.
  intros Hj Hs Hc. cbv zeta. unfold snd_new, mon_snd_config. cbn [s_jacks s_streams s_chmaps].
  unfold w32. rewrite !N.mod_small by (unfold two32 in *; assumption). rewrite !N.eqb_refl. reflexivity.
Qed.

(* ------------------------------------------------------------------------------------------------ *)
(* kind 2059, under the hypotheses of set_up_spec: the request codes the device decodes from the views of set_up, in order *)
Definition view_code (v : dview) : N := match v with Some (rb, _) => fld rb 0 4 | None => 0 end.

Theorem mon2059_holds_of_model s e1 e2 e3 :
  ctl_idle s -> s_jacks s < two32 -> s_streams s < two32 -> s_chmaps s < two32 ->
  env_done s e1 -> env_done_at s 1 e2 -> env_done_at s 2 e3 ->
  is_fatal (qans parse_jack JACK_INFO_SZ (s_jacks s) (ce_rsp e1)) = false ->
  is_fatal (qans parse_pcm PCM_INFO_SZ (s_streams s) (ce_rsp e2)) = false ->
  is_fatal (qans parse_chmap CHMAP_INFO_SZ (s_chmaps s) (ce_rsp e3)) = false ->
  exists o s' evs vs,
    snd_set_up s e1 e2 e3 = Some (o, s', evs, vs) /\ mon_setup_order (lenN vs :: map view_code vs) = true.
Proof.
  intros Hi Hj Hs Hc D1 D2 D3 Fj Fp Fc.
  destruct (set_up_spec s e1 e2 e3 Hi Hj Hs Hc D1 D2 D3 Fj Fp Fc) as (s' & evs & _ & _ & _ & Hcase).
  assert (C1 : forall n z, fld (enc_query CC_RJackInfo 0 n z) 0 4 = 1) by (intros; unfold enc_query; now rewrite fld_le_app).
  assert (C2 : forall n z, fld (enc_query CC_RPcmInfo 0 n z) 0 4 = 256) by (intros; unfold enc_query; now rewrite fld_le_app).
  assert (C3 : forall n z, fld (enc_query CC_RChmapInfo 0 n z) 0 4 = 512) by (intros; unfold enc_query; now rewrite fld_le_app).
  destruct (qans parse_pcm PCM_INFO_SZ (s_streams s) (ce_rsp e2)) as [pl|er| |];
    [destruct Hcase as (Hr & _)|destruct Hcase as (Hr & _)..];
    do 4 eexists; (split; [exact Hr|]); cbn [map view_code]; rewrite ?C1, ?C2, ?C3; reflexivity.
Qed.

(* ------------------------------------------------------------------------------------------------ *)
(* kind 2060: the model's operations end in a panic only where the caller broke a documented precondition:
   prepare .. stop and jack_remap never; pcm_set_params only for a stream id the driver has no slot for; pcm_xfer_ok never for an
   outstanding token, and for an unknown token (the documented assertion) the line carries excused = 1 *)
Theorem mon2060_holds_of_model :
  (forall s code sid e o s' evs vs excused,
     s_set_up s = true -> ctl_idle s -> is_pcm_cmd_code code = true -> sid < two32 -> env_done s e ->
     snd_pcm_cmd s code sid [e] = Some (o, s', evs, vs) -> mon_no_panic [ocls o; excused] = true)
  /\ (forall s sid buffer period features channels format rate e o s' evs vs,
     s_set_up s = true -> ctl_idle s ->
     sid < two32 -> buffer < two32 -> period < two32 -> features < two32 -> channels < 256 -> format < 256 -> rate < 256 ->
     env_done s e ->
     snd_pcm_set_params s sid buffer period features channels format rate [e] = Some (o, s', evs, vs) ->
     mon_no_panic [ocls o; b2n (lenN (s_params s) <=? sid)] = true)
  /\ (forall s pre c post u_idx u_id u_len st o s' evs excused,
     NbInv s (pre ++ c :: post) ->
     snd_pcm_xfer_ok s (c_head c) u_idx u_id u_len st = (o, s', evs) -> mon_no_panic [ocls o; excused] = true)
  /\ (forall s token u_idx u_id u_len st o s' evs,
     map_get (s_tok_buf s) token = None ->
     snd_pcm_xfer_ok s token u_idx u_id u_len st = (o, s', evs) -> mon_no_panic [ocls o; 1] = true).
Proof.
  split; [|split; [|split]].
  - intros s code sid e o s' evs vs excused Hsu Hi Hc Hs Hd Hrun.
    destruct (pcm_cmd_spec s code sid e Hsu Hi Hc Hs Hd) as (o1 & s1 & evs1 & rb & Hr & _ & _ & Hor & _).
    rewrite Hr in Hrun. inversion Hrun; subst o1. destruct Hor as [->| ->]; reflexivity.
  - intros s sid buffer period features channels format rate e o s' evs vs Hsu Hi H1 H2 H3 H4 H5 H6 H7 Hd Hrun.
    destruct (set_params_spec s sid buffer period features channels format rate e Hsu Hi H1 H2 H3 H4 H5 H6 H7 Hd) as [P0 P1].
    destruct (params_guard buffer period) eqn:G.
    + rewrite (P0 eq_refl) in Hrun. inversion Hrun; subst o. reflexivity.
    + destruct (P1 eq_refl) as (o1 & s1 & evs1 & rb & Hr & _ & _ & _ & _ & _ & _ & _ & _ & Hbad & Hgood).
      rewrite Hr in Hrun. inversion Hrun; subst o1.
      destruct (N.eq_dec (fld (ce_rsp e) 0 4) SND_S_OK) as [E|E]; [|destruct (Hbad E) as [-> _]; reflexivity].
      destruct (N.leb_spec (lenN (s_params s)) sid) as [L|L].
      * destruct (proj2 (Hgood E) L) as [-> _]. reflexivity.
      * destruct (proj1 (Hgood E) L) as [-> _]. reflexivity.
  - intros s pre c post u_idx u_id u_len st o s' evs excused HI Hrun.
    destruct (xfer_ok_spec true s pre c post u_idx u_id u_len st HI) as (P1 & P2 & P3).
    unfold snd_pcm_xfer_ok in Hrun.
    destruct (N.eq_dec (q_last_used (s_tx s)) (w16 u_idx)) as [E1|E1].
    { rewrite (P1 E1) in Hrun. inversion Hrun; subst o. reflexivity. }
    destruct (N.eq_dec (w16 u_id) (c_head c)) as [E2|E2].
    + destruct (P3 E1 E2) as (s1 & evs1 & Hr & _). rewrite Hr in Hrun. inversion Hrun; subst o.
      unfold ok_result. destruct (true && negb (w32 st =? CC_SOk)); reflexivity.
    + rewrite (P2 E1 E2) in Hrun. inversion Hrun; subst o. reflexivity.
  - intros s token u_idx u_id u_len st o s' evs Hm Hrun. unfold snd_pcm_xfer_ok in Hrun.
    rewrite (xfer_ok_unknown true s token u_idx u_id u_len st Hm) in Hrun. inversion Hrun; subst o. reflexivity.
Qed.

(* ------------------------------------------------------------------------------------------------ *)
(* kind 2061, from snd_config_counters: for every content of the 12 configuration bytes and every feature word, the counters of
   the state new() leaves pass the monitor *)
Theorem mon2061_holds_of_model feats cfg :
  Forall (fun b => b < 256) cfg -> lenN cfg = 12 ->
  let '(j, st, c) := spec_snd_config cfg in
  let s := snd_new feats j st c in
  mon_snd_config_bytes (0 :: s_jacks s :: s_streams s :: s_chmaps s :: cfg) = true.
Proof.
  intros Hb Hl. pose proof (snd_config_counters feats cfg Hb) as H.
  destruct (spec_snd_config cfg) as [[j st] c] eqn:E. destruct H as [_ H]. cbv zeta.
  unfold snd_counters, snd_new in H. cbn [s_jacks s_streams s_chmaps] in H. injection H as Hj Hs Hc.
  unfold mon_snd_config_bytes. rewrite E, Hl. unfold snd_new. cbn [s_jacks s_streams s_chmaps].
  rewrite Hj, Hs, Hc, !N.eqb_refl. reflexivity.
Qed.

(* ------------------------------------------------------------------------------------------------ *)
(* latest_notification: the result as the harness writes it *)
Definition nres_has (o : outcome (option (N * N))) : N := match o with Ok (Some _) => 1 | _ => 0 end.
Definition nres_ty (o : outcome (option (N * N))) : N := match o with Ok (Some (t, _)) => t | _ => 0 end.
Definition nres_data (o : outcome (option (N * N))) : N := match o with Ok (Some (_, d)) => d | _ => 0 end.

(* the specification's reading of a completed 8-byte event buffer wr of which the device recorded ulen <= 8 bytes as written *)
Lemma snd_notif_result_cases u_len wr :
  lenN wr = 8 -> w32 u_len <= 8 ->
  snd_notif_result u_len wr =
  if w32 u_len =? 8 then (if spec_event_known (fld wr 0 4) then Ok (Some (fld wr 0 4, fld wr 4 4)) else Err EIoError)
  else Ok None.
Proof.
  intros Hw Hu. unfold snd_notif_result, SND_EVENT_SIZE. destruct (N.ltb_spec 8 (w32 u_len)) as [X|_]; [lia|].
  unfold spec_notification, spec_decode_event.
  destruct (N.eqb_spec (w32 u_len) 8) as [E|E].
  - rewrite E. rewrite firstn_all2 by (unfold lenN in Hw; lia). rewrite Hw. reflexivity.
  - assert (L : lenN (firstn (N.to_nat (w32 u_len)) wr) = w32 u_len).
    { unfold lenN in *. rewrite firstn_length_le by lia. lia. }
    rewrite L. destruct (N.eqb_spec (w32 u_len) 8); [contradiction|reflexivity].
Qed.

(* kind 2056 holds of the model, under the hypotheses of snd_notif_stocked, for a completed buffer of 8 bytes and a recorded
   length up to 8 (the range the monitor is stated for; the harness does not write the line otherwise), when the device names one
   of the 32 buffers: `posted` = the chains outstanding afterwards (Stocked: exactly the queue size) *)
Theorem mon2056_holds_of_model q chains h v o q' evs :
  Reach q chains h -> Stocked q chains SND_EVENT_SIZE -> q_size q = 32 ->
  snd_latest_notification q v = (o, q', evs) ->
  lenN (nv_wr v) = 8 -> w32 (nv_len v) <= 8 -> w16 (nv_id v) < 32 ->
  exists chains' h',
    Reach q' chains' h' /\ Stocked q' chains' SND_EVENT_SIZE
    /\ mon_notif [ocls o; nres_has o; nres_ty o; nres_data o; b2n (negb (q_last_used q =? w16 (nv_idx v)));
                  fld (nv_wr v) 0 4; fld (nv_wr v) 4 4; w32 (nv_len v); lenN chains'] = true.
Proof.
  intros HR HS Hsz Hrun Hw Hu Hid.
  destruct (snd_notif_stocked q chains h v o q' evs HR HS Hrun) as (P1 & _ & P3).
  destruct (N.eqb_spec (q_last_used q) (w16 (nv_idx v))) as [E|E].
  - destruct (P1 E) as (-> & -> & ->). exists chains, h. split; [exact HR|]. split; [exact HS|].
    destruct HS as [_ HL]. rewrite HL, Hsz. reflexivity.
  - destruct (P3 E ltac:(lia)) as (-> & _ & Hsz' & chains' & h' & HR' & HS').
    exists chains', h'. split; [exact HR'|]. split; [exact HS'|].
    destruct HS' as [_ HL]. rewrite HL, Hsz', Hsz.
    rewrite (snd_notif_result_cases _ _ Hw Hu). unfold mon_notif, SND_QUEUE_SIZE. cbn [negb b2n N.eqb Pos.eqb andb].
    destruct (N.eqb_spec (w32 (nv_len v)) 8) as [U|U]; cbn [negb]; [|reflexivity].
    destruct (spec_event_known (fld (nv_wr v) 0 4)); cbn [ocls nres_has nres_ty nres_data N.eqb Pos.eqb andb]; [|reflexivity].
    rewrite !N.eqb_refl. reflexivity.
Qed.

(* the platform calls and notifications in an event list of the owning queue (used by kind 1982, section B' below) *)
Definition count_notify (evs : list oev) : N := lenN (filter (fun e => match e with ONotify => true | _ => false end) evs).
Definition count_shares (evs : list oev) : N :=
  lenN (filter (fun e => match e with OQ (QShare _ _ _ _) => true | OQ (QShareTable _ _ _) => true | _ => false end) evs).
Definition count_unshares (evs : list oev) : N :=
  lenN (filter (fun e => match e with OQ (QUnshare _ _ _ _) => true | OQ (QUnshareTable _ _ _) => true | _ => false end) evs).

(* ================================================================================================ *)
(* C. AUDIT WITNESSES: where a monitor accepts less, or demands more, than the property text          *)

(* --- accepts less (a violation of the clause would get the verdict true) --- *)

(* 2052: a device-WRITABLE element in front of the device-readable ones (forbidden by VirtIO 2.7.4.2, and not "a stream id
   followed by data, then the status") is accepted: only the sums of the two kinds of elements are looked at, not their order.
   sid 7, period 4, elements (8 bytes, writable) (8 bytes, readable), readable bytes start 7 0 0 0, 8 of them *)
Example mon_tx_accepts_writable_first : mon_tx [7; 4; 1; 1; 2; 8; 1; 8; 0; 7; 0; 0; 0; 8] = true.
Proof. vm_compute. reflexivity. Qed.

(* 2051: status 0 doubles as "the device received no such request", and the reference device can answer status 0 (pick_status).
   A stream query (no request of its own) that returned Ok although PCM_INFO was answered with status 0 - not the success type -
   is the accepted line [0; 0; 0; 0]; more generally the monitor says nothing at all about an operation without a request of
   its own when no PCM_INFO status other than 0 / OK was seen: every class passes *)
Example mon_ctl_result_query_vacuous class : mon_ctl_result [0; class; 0; 0] = true.
Proof. reflexivity. Qed.

(* 2055: rows beyond the declared count and an incomplete last row are ignored, and so is any difference between m and the rows
   present: which 0, one value (stream 0), m = 2 but a single row (direction OUTPUT), then three stray numbers *)
Example mon_values_accepts_short_table : mon_values [0; 0; 0; 1; 0; 2; 0; 11; 12; 1; 2; 13; 99; 98; 97] = true.
Proof. vm_compute. reflexivity. Qed.

(* 2053: the number of messages received (4th number) is parsed and never tested *)
Example mon_xfer_ignores_nmsg n : mon_xfer [0; 1; 1; n; 1; 32; 3; 0] = true.
Proof. reflexivity. Qed.

(* --- demands more (behaviour the property allows, or the model itself shows, gets the verdict false) --- *)

(* 2059: the property's "required order" list does not contain the order of the three info queries and VirtIO 5.14 does not
   prescribe one; a driver that asks PCM_INFO before JACK_INFO is rejected *)
Example mon_setup_order_rejects_other_order : mon_setup_order [2; 256; 1] = false.
Proof. vm_compute. reflexivity. Qed.

(* 2050: a request split over two device-readable descriptors (4 + 4 bytes of a PCM_START for stream 1) is legal framing
   (VirtIO 2.7.4.2: the device must not depend on it) and carries the same bytes, but only the shape "one readable element, one
   writable element" is accepted *)
Example mon_ctl_rejects_split_request :
  mon_ctl [4; 260; 1; 0; 0; 0; 0; 0; 3; 4; 0; 4; 0; 4096; 1; 4; 1; 0; 0; 1; 0; 0; 0] = false
  /\ mon_ctl [4; 260; 1; 0; 0; 0; 0; 0; 2; 8; 0; 4096; 1; 4; 1; 0; 0; 1; 0; 0; 0] = true.
Proof. split; vm_compute; reflexivity. Qed.

(* 2050: set_params with a non-zero padding byte: the caller's seven parameters are all in place (stream 0, buffer 8, period 4,
   features 0, channels 1, format 2, rate 3) and VirtIO 5.14.6.6.3 does not give the padding a value, but padding = 0 is demanded *)
Example mon_ctl_rejects_nonzero_padding :
  mon_ctl [3; 0; 8; 4; 0; 1; 2; 3; 2; 24; 0; 4096; 1; 1; 1; 0; 0; 0; 0; 0; 0; 8; 0; 0; 0; 4; 0; 0; 0; 0; 0; 0; 0; 1; 2; 3; 9] = false
  /\ mon_ctl [3; 0; 8; 4; 0; 1; 2; 3; 2; 24; 0; 4096; 1; 1; 1; 0; 0; 0; 0; 0; 0; 8; 0; 0; 0; 4; 0; 0; 0; 0; 0; 0; 0; 1; 2; 3; 0] = true.
Proof. split; vm_compute; reflexivity. Qed.

(* 2051 / 2057 against 2060: the model (and the code) panic on a stream id the driver has no slot for - pcm_set_params after an OK
   answer (set_params_spec, last clause), pcm_xfer / pcm_xfer_nb always (xfer_requires_params, second clause) - and monitor 2060
   excuses exactly that as a broken documented precondition; 2051 and 2057 written for the same call give false.  (The harness
   never gets there: its device refuses SET_PARAMS for an unreported stream and the transfers are only run for reported ones.) *)
Example mon_ctl_result_rejects_excused_panic :
  mon_ctl_result [1; 2; 32768; 0] = false /\ mon_state_rule [0; 2; 0; 0] = false /\ mon_no_panic [2; 1] = true.
Proof. repeat split. Qed.

(* 2056 as a function demands Ok(None) for a recorded length above 8, where the model (snd_notif_result) and monitor 1982
   demand an error; the harness does not write line 2056 in that case *)
Example mon_notif_rejects_oversize_error :
  mon_notif [1; 0; 0; 0; 1; 4096; 0; 9; 32] = false /\ snd_notif_result 9 [0; 16; 0; 0; 0; 0; 0; 0] = Err EIoError.
Proof. split; vm_compute; reflexivity. Qed.

(* 1982 insists on particular error codes where C19 only asks for "not delivered": WrongToken for an id outside the queue,
   IoError for an oversize length or an unknown event code.  Same observation, error code 5 instead of 3: rejected *)
Example mon_snd_notif_insists_on_error_code :
  mon_snd_notif [1; 0; 1; 3; 0; 0; 0; 40; 0; 0; 0; 0; 0; 0; 0; 0; 8; 0; 0; 0; 0] = true
  /\ mon_snd_notif [1; 0; 1; 5; 0; 0; 0; 40; 0; 0; 0; 0; 0; 0; 0; 0; 8; 0; 0; 0; 0] = false.
Proof. split; vm_compute; reflexivity. Qed.

(* the kinds 2063 .. 2066 are declared monitors (sound_is_monitor) but have no definition: a line of such a kind can never
   get the expected [1] *)
Example sound_monitor_undefined_kinds ins :
  sound_is_monitor 2063 = true /\ sound_monitor 2063 ins = [77777] /\ sound_monitor 2066 ins = [77777].
Proof. repeat split. Qed.

(* ================================================================================================ *)
(* B'. kind 1982 holds of the model, in full: what a device finds after latest_notification           *)
From Coq Require Import Permutation.

(* OwningQueue::poll consuming a completion (the third case of OwningProofs.poll_stocked), with what that theorem does not
   expose: the events are those of the pop (no share, one unshare), those of the re-add (one share: the same buffer, writable,
   at the address the platform answered; no unshare) and the notification iff should_notify; the available index advances by
   one and its ring slot holds the token; the descriptor the token names reads as ONE device-writable element of the buffer size
   at that address *)
Lemma poll_repost_observed s chains h bufsz u_idx u_id u_len addr ae uf hres o s' evs :
  Reach s chains h -> Stocked s chains bufsz -> bufsz <> 0 -> bufsz < two32 ->
  owning_poll s bufsz u_idx u_id u_len addr ae uf hres = (o, s', evs) ->
  q_last_used s <> w16 u_idx -> w16 u_id < q_size s ->
  exists evs1 evs2,
    evs = map OQ evs1 ++ map OQ evs2 ++ (if should_notify s' ae uf then [ONotify] else [])
    /\ shares_of evs1 = [] /\ length (unshares_of evs1) = 1%nat
    /\ shares_of evs2 = [ShBuf addr (w16 u_id) bufsz true] /\ unshares_of evs2 = []
    /\ q_aidx s = q_avail_idx s /\ q_avail_idx s < two16 /\ q_aidx s' = w16 (q_avail_idx s + 1)
    /\ q_aring s' = updN (q_aring s) (q_avail_idx s mod q_size s) (w16 u_id) /\ lenN (q_aring s) = q_size s
    /\ q_size s' = q_size s
    /\ walk (q_dtable s') (fun _ => None) (w16 u_id) (N.to_nat (q_size s')) = Some [(addr, bufsz, true)].
Proof.
  intros HR Hst Hb0 Hb32 Hrun E1 E2.
  unfold owning_poll, owning_pop, peek_used, can_pop in Hrun.
  destruct (N.eqb_spec (q_last_used s) (w16 u_idx)) as [X|_]; [contradiction|]. cbn [negb] in Hrun.
  destruct (N.leb_spec (q_size s) (w16 u_id)) as [X|_]; [lia|].
  destruct (stocked_has_chain s chains h bufsz (w16 u_id) HR Hst E2) as (pre & c & post & -> & Hhead).
  destruct Hst as [Hst Hlen].
  assert (Hc : stock_chain bufsz c).
  { rewrite Forall_forall in Hst. apply Hst. apply in_or_app. right. now left. }
  destruct Hc as (Hci & Hct & a & Hcb).
  assert (Hkeys : keys (tag_bufs [] [obuf (w16 u_id) bufsz 0]) = keys (c_bufs c)).
  { rewrite Hcb, Hhead. reflexivity. }
  destruct (Reach_Inv _ _ _ HR) as [HI _].
  assert (HI0 := HI). destruct HI0 as (fl0 & _ & _ & _ & _ & _ & _ & _ & _ & _ & _ & Hlring0 & Hai0 & Hav0 & _).
  destruct (pop_refines s pre c post h [] [obuf (w16 u_id) bufsz 0] u_idx u_id u_len HR Hkeys) as (_ & _ & P3).
  destruct (P3 E1 (eq_sym Hhead)) as (s1 & evs1 & Hpop & HR1 & Hlu & Hfh & Hnu & Hav1 & Hai1 & Hring1 & _ & Hsz & _ & _ & _ & _ & Hevs1).
  rewrite Hhead in Hpop. rewrite Hpop in Hrun.
  unfold owning_readd in Hrun. rewrite Hsz in Hrun.
  destruct (N.leb_spec (q_size s) (w16 u_id)) as [E4|_]; [lia|].
  destruct (lifo_token s pre c post h [] [obuf (w16 u_id) bufsz 0] u_idx u_id u_len s1 evs1
              (obuf (w16 u_id) bufsz addr) true 0 HR Hkeys
              ltac:(rewrite Hhead; exact Hpop) Hb0 Hb32) as (s2 & evs2 & Hadd).
  cbn iota in Hadd. rewrite Hhead in Hadd. rewrite Hadd in Hrun. rewrite N.eqb_refl in Hrun.
  assert (Hok : bufs_ok (tag_bufs [] [obuf (w16 u_id) bufsz addr])).
  { constructor; [split; assumption|constructor]. }
  destruct (Reach_Inv _ _ _ HR1) as [HI1 _].
  (* the walk and the ring, from add_publishes *)
  destruct (add_publishes s1 (pre ++ post) _ [] [obuf (w16 u_id) bufsz addr] 0 _ _ _ (fun _ => None) HR1 Hok Hadd)
    as (_ & _ & _ & Hwalk & _ & Hring2 & Hav2 & Hai2 & _).
  { intros ta tbl Et. exfalso.
    unfold new_chain in Et. cbn [tag_bufs map app] in Et. change (lenN [(obuf (w16 u_id) bufsz addr, true)]) with 1 in Et.
    change (1 <? 1) with false in Et. rewrite andb_false_r in Et. discriminate. }
  (* the events and the size, from add_ok *)
  destruct (add_cases s1 (pre ++ post) [] [obuf (w16 u_id) bufsz addr] 0 HI1 Hok)
    as [[_ E]|[(_ & _ & E)|(Hne & Hcap & _)]]; try (rewrite E in Hadd; discriminate).
  destruct (add_ok s1 (pre ++ post) [] [obuf (w16 u_id) bufsz addr] 0 HI1 Hne Hok Hcap)
    as (sx & ex & cx & Hr & _ & _ & Hcxb & Hcxt & _ & _ & _ & Hsz2 & _ & _ & _ & _ & _ & _ & evs0 & Hex & _ & _ & Hsh0 & Hun0).
  rewrite Hr in Hadd. injection Hadd as _ Es Ee. subst sx. rewrite Ee in Hex. clear Ee.
  assert (Hcxt' : c_tbl cx = None).
  { destruct (c_tbl cx) eqn:T; [|reflexivity]. exfalso.
    assert (X : Some p <> None) by discriminate. apply Hcxt in X. destruct X as [_ X]. cbn in X. lia. }
  assert (Hshares2 : shares_of evs2 = [ShBuf addr (w16 u_id) bufsz true] /\ unshares_of evs2 = []).
  { rewrite Hex, shares_of_app, unshares_of_app, Hsh0, Hun0. unfold chain_shares. rewrite Hcxb, Hcxt'. split; reflexivity. }
  assert (Hshares1 : shares_of evs1 = [] /\ length (unshares_of evs1) = 1%nat).
  { destruct (ledger_pop_evs s (pre ++ c :: post) c (tag_bufs [] [obuf (w16 u_id) bufsz 0]) (q_free_head s) HI
                ltac:(apply in_or_app; right; now left) Hkeys) as [Pu Ps].
    rewrite Hevs1, shares_of_app, unshares_of_app, Ps. split.
    - destruct (q_event_idx s); reflexivity.
    - rewrite app_length, (Permutation_length Pu). unfold chain_shares. rewrite Hcb, Hct.
      destruct (q_event_idx s); reflexivity. }
  set (result := if bufsz <? w32 u_len then Err EIoError else handler_result hres (w32 u_len) (w16 u_id)) in *.
  exists evs1, evs2.
  assert (Hfin : s' = s2 /\ evs = map OQ evs1 ++ map OQ evs2 ++ (if should_notify s2 ae uf then [ONotify] else [])).
  { destruct result; inversion Hrun; subst; split; reflexivity. }
  destruct Hfin as [-> ->].
  split; [reflexivity|]. split; [exact (proj1 Hshares1)|]. split; [exact (proj2 Hshares1)|].
  split; [exact (proj1 Hshares2)|]. split; [exact (proj2 Hshares2)|].
  split; [exact Hai0|]. split; [exact Hav0|]. split; [rewrite Hai2, Hav2, Hav1; reflexivity|].
  split; [rewrite Hring2, Hring1, Hav1, Hsz; reflexivity|]. split; [exact Hlring0|].
  split; [congruence|]. exact Hwalk.
Qed.

(* counting the platform calls in an event list of the owning queue *)
Lemma count_shares_OQ l : count_shares (map OQ l) = lenN (shares_of l).
Proof.
  unfold count_shares, shares_of, lenN. induction l as [|e t IH]; [reflexivity|].
  cbn [map filter flat_map]. destruct e; cbn [app length]; rewrite ?Nat2N.inj_succ; cbn [length]; rewrite ?Nat2N.inj_succ; lia.
Qed.
Lemma count_unshares_OQ l : count_unshares (map OQ l) = lenN (unshares_of l).
Proof.
  unfold count_unshares, unshares_of, lenN. induction l as [|e t IH]; [reflexivity|].
  cbn [map filter flat_map]. destruct e; cbn [app length]; rewrite ?Nat2N.inj_succ; cbn [length]; rewrite ?Nat2N.inj_succ; lia.
Qed.
Lemma count_notify_OQ l : count_notify (map OQ l) = 0.
Proof. unfold count_notify. induction l as [|e t IH]; [reflexivity|]. cbn [map filter]. exact IH. Qed.
Lemma count_shares_app a b : count_shares (a ++ b) = count_shares a + count_shares b.
Proof. unfold count_shares. rewrite filter_app, lenN_app. reflexivity. Qed.
Lemma count_unshares_app a b : count_unshares (a ++ b) = count_unshares a + count_unshares b.
Proof. unfold count_unshares. rewrite filter_app, lenN_app. reflexivity. Qed.
Lemma count_notify_app a b : count_notify (a ++ b) = count_notify a + count_notify b.
Proof. unfold count_notify. rewrite filter_app, lenN_app. reflexivity. Qed.

(* the line 1982 the harness would write from the MODEL: every observation is read from the successor state q' and the event list
   evs of snd_latest_notification -
     available index: q_aidx; the ring entry published last: slot (available index - 1) mod 32 of q_aring;
     the descriptor that entry names, as the device reads it: the chain walk from it (one element (address, length, writable));
     "is the share of that event buffer": the address is the one the platform answered for the re-posted buffer (nv_addr);
     notifications: the ONotify events (the event queue is the only queue this model notifies: none of another queue);
     must_notify: the specification's predicate should_notify on the published state and the device's suppression words;
     shares / unshares: the share / unshare events *)
Definition enc_snd_notif_line (q : qstate) (v : nview) (o : outcome (option (N * N))) (q' : qstate) (evs : list oev) : list N :=
  let head := nthN (q_aring q') (w16 (q_aidx q' + 65535) mod 32) 0 in
  let '(dlen, dw, disbuf) :=
    match walk (q_dtable q') (fun _ => None) head 32 with
    | Some [(a, l, w)] => (l, b2n w, b2n (a =? nv_addr v))
    | _ => (0, 0, 0)
    end in
  [b2n (negb (q_last_used q =? w16 (nv_idx v))); b2n (w16 (nv_id v) <? 32); ocls o; ocode o; nres_has o;
   w16 (q_aidx q' + 65536 - q_aidx q); head; w16 (nv_id v); dlen; dw; disbuf;
   count_notify evs; 0; b2n (should_notify q' (nv_ae v) (nv_uf v)); count_shares evs; count_unshares evs;
   nv_len v; nres_ty o; nres_data o; fld (nv_wr v) 0 4; fld (nv_wr v) 4 4].

(* kind 1982 holds of the model: in every reachable, fully stocked state of the event queue, for EVERY device behaviour (used
   index, used element with any id and any 32-bit recorded length, any content of the 8-byte buffer, any share answer, any
   suppression words) *)
Theorem mon1982_holds_of_model q chains h v o q' evs :
  Reach q chains h -> Stocked q chains SND_EVENT_SIZE -> q_size q = 32 ->
  snd_latest_notification q v = (o, q', evs) -> lenN (nv_wr v) = 8 -> nv_len v < two32 ->
  mon_snd_notif (enc_snd_notif_line q v o q' evs) = true.
Proof.
  intros HR HS Hsz Hrun Hw Hlen.
  destruct (snd_notif_stocked q chains h v o q' evs HR HS Hrun) as (P1 & P2 & P3).
  unfold enc_snd_notif_line.
  destruct (N.eqb_spec (q_last_used q) (w16 (nv_idx v))) as [E|E].
  { destruct (P1 E) as (-> & -> & ->).
    destruct (match walk (q_dtable q) (fun _ => None) (nthN (q_aring q) (w16 (q_aidx q + 65535) mod 32) 0) 32 with
              | Some [(a, l, w)] => (l, b2n w, b2n (a =? nv_addr v)) | _ => (0, 0, 0) end) as [[dlen dw] disbuf].
    unfold mon_snd_notif. cbn [negb b2n N.eqb ocls nres_has count_notify count_shares count_unshares filter lenN length N.of_nat andb].
    unfold w16. replace ((q_aidx q + 65536 - q_aidx q) mod 65536) with 0 by lia. reflexivity. }
  rewrite Hsz in P2, P3.
  destruct (N.ltb_spec (w16 (nv_id v)) 32) as [R|R].
  2:{ destruct (P2 E R) as (-> & -> & ->).
      destruct (match walk (q_dtable q) (fun _ => None) (nthN (q_aring q) (w16 (q_aidx q + 65535) mod 32) 0) 32 with
                | Some [(a, l, w)] => (l, b2n w, b2n (a =? nv_addr v)) | _ => (0, 0, 0) end) as [[dlen dw] disbuf].
      unfold mon_snd_notif.
      cbn [negb b2n N.eqb Pos.eqb ocls ocode nres_has count_notify count_shares count_unshares filter lenN length N.of_nat andb].
      unfold w16. replace ((q_aidx q + 65536 - q_aidx q) mod 65536) with 0 by lia. reflexivity. }
  destruct (P3 E R) as (Ho & _).
  (* the observations of the re-post *)
  assert (Hrun' := Hrun). rewrite snd_notif_as_poll in Hrun'. cbv zeta in Hrun'.
  destruct (owning_poll q SND_EVENT_SIZE (nv_idx v) (nv_id v) (nv_len v) (nv_addr v) (nv_ae v) (nv_uf v) (snd_hclass (nv_wr v) (nv_len v)))
    as [[op qp] ep] eqn:Ep. cbn [fst snd] in Hrun'. injection Hrun' as _ Hq' Hevs. subst qp ep.
  destruct (poll_repost_observed q chains h SND_EVENT_SIZE _ _ _ _ _ _ _ op q' evs HR HS ltac:(discriminate) ltac:(reflexivity) Ep E
              ltac:(rewrite Hsz; exact R))
    as (evs1 & evs2 & Hevs & S1 & U1 & S2 & U2 & Hai & Hav & Hai' & Hring & Hlr & Hsz' & Hwalk).
  rewrite Hsz in *. rewrite Hsz' in Hwalk. change (N.to_nat 32) with 32%nat in Hwalk.
  assert (Hslot : w16 (q_aidx q' + 65535) mod 32 = q_avail_idx q mod 32).
  { rewrite Hai'. unfold w16, two16 in *. lia. }
  rewrite Hslot, Hring, (nthN_updN_same _ _ _ 0) by (rewrite Hlr; lia). rewrite Hwalk.
  assert (Hd : w16 (q_aidx q' + 65536 - q_aidx q) = 1).
  { rewrite Hai', Hai. unfold w16, two16 in *. lia. }
  rewrite Hd.
  assert (Hcs : count_shares evs = 1).
  { rewrite Hevs, !count_shares_app, !count_shares_OQ, S1, S2. destruct (should_notify q' (nv_ae v) (nv_uf v)); reflexivity. }
  assert (Hcu : count_unshares evs = 1).
  { rewrite Hevs, !count_unshares_app, !count_unshares_OQ, U2. unfold lenN. rewrite U1.
    destruct (should_notify q' (nv_ae v) (nv_uf v)); reflexivity. }
  assert (Hcn : count_notify evs = b2n (should_notify q' (nv_ae v) (nv_uf v))).
  { rewrite Hevs, !count_notify_app, !count_notify_OQ. destruct (should_notify q' (nv_ae v) (nv_uf v)); reflexivity. }
  rewrite Hcs, Hcu, Hcn. unfold mon_snd_notif, SND_EVENT_SIZE.
  destruct (N.eqb_spec (q_last_used q) (w16 (nv_idx v))) as [|_]; [contradiction|].
  destruct (N.ltb_spec (w16 (nv_id v)) 32) as [_|]; [|lia].
  cbn [negb b2n N.eqb Pos.eqb]. rewrite !N.eqb_refl. cbn [andb N.eqb Pos.eqb].
  assert (Hn : (b2n (should_notify q' (nv_ae v) (nv_uf v)) <=? 1)
               && implb (b2n (should_notify q' (nv_ae v) (nv_uf v)) =? 1) (b2n (should_notify q' (nv_ae v) (nv_uf v)) =? 1) = true)
    by (destruct (should_notify q' (nv_ae v) (nv_uf v)); reflexivity).
  rewrite Hn. cbn [andb].
  (* the result *)
  assert (Hl : w32 (nv_len v) = nv_len v) by (unfold w32, two32 in *; now apply N.mod_small).
  subst o. destruct (N.ltb_spec 8 (nv_len v)) as [U|U].
  { unfold snd_notif_result, SND_EVENT_SIZE. rewrite Hl. destruct (N.ltb_spec 8 (nv_len v)); [reflexivity|lia]. }
  rewrite snd_notif_result_cases by (rewrite ?Hl; assumption). rewrite Hl.
  destruct (N.eqb_spec (nv_len v) 8) as [U8|U8]; [|reflexivity].
  destruct (spec_event_known (fld (nv_wr v) 0 4)); cbn [ocls ocode nres_has nres_ty nres_data N.eqb Pos.eqb andb]; [|reflexivity].
  rewrite !N.eqb_refl. reflexivity.
Qed.
