(* C05 at driver level: what the monitor "every time a driver operation has made buffers available on queue q,
   the transport saw notify(q) exactly when the specification says the device needs one" (kind 155 evaluated per
   notification-delimited round of a driver operation, kind 164 for blocking helpers) rests on.
   (a) batch composition: the specification predicate of an interval is the disjunction of the predicates of the
       rounds it is made of, for all 16-bit values and across the wrap; a driver that asks should_notify after every
       round and notifies exactly then passes the monitor on every notification-delimited round;
   (b) per-queue independence: the verdict for queue q depends on q's words and indices only; receive_begin /
       transmit_begin of the network driver model decide on the queue they posted to;
   (c) OwningQueue::poll notifies according to should_notify on EVERY path on which it re-queues the buffer:
       handler Ok(Some) / Ok(None) / Err and a used length above BUFFER_SIZE. *)
From VD Require Import Base.Words Base.ListUpd Model.Queue Model.Owning Model.Net
  Proofs.QueueInv Proofs.QueueReach Proofs.QueueProps Proofs.NotifyProofs Proofs.OwningProofs Extract.QueueMon.
From Coq Require Import ZArith Lia ZifyBool ZifyN List Bool.
Import ListNotations.
Ltac Zify.zify_post_hook ::= Z.div_mod_to_equations.

(* ------------------------------------------------------------------------------------------------ *)
(* the specification's requirement for the entries [old, new), and the check as the code performs it  *)
Definition spec_required (eidx : bool) (ev uf new old : N) : bool :=
  if eidx then need_event ev new old else (N.land uf 1 =? 0).

Definition code_check (eidx : bool) (ev uf avail : N) : bool :=
  if eidx then sub16 avail (add16 (w16 ev) 1) <? 32768 else (N.land uf 1 =? 0).

Lemma code_check_is_should_notify s ae uf :
  should_notify s ae uf = code_check (q_event_idx s) ae uf (q_avail_idx s).
Proof. reflexivity. Qed.

(* what a true verdict of monitor 155 means *)
Lemma mon_notify_meaning eidx new old ev uf obs size :
  mon_notify [b2n eidx; new; old; ev; uf; b2n obs; size] = true <->
  (if eidx then spec_required true ev uf new old = true -> obs = true
   else obs = spec_required false ev uf new old).
Proof.
  unfold mon_notify, spec_required. destruct eidx; cbn [b2n N.eqb Pos.eqb].
  - destruct (need_event ev new old), obs; cbn [b2n N.eqb Pos.eqb]; intuition congruence.
  - destruct (N.land uf 1 =? 0), obs; cbn [b2n N.eqb Pos.eqb]; intuition congruence.
Qed.

(* ------------------------------------------------------------------------------------------------ *)
(* (a) batch composition *)

(* the specification predicate says that the event index lies among the d entries published from index a on,
   modulo 2^16 *)
Lemma need_event_range ev a d : a < two16 -> ev < two16 -> d < two16 ->
  need_event ev (w16 (a + d)) a = true <-> ((a <= ev /\ ev < a + d) \/ (a <= ev + 65536 /\ ev + 65536 < a + d)).
Proof.
  unfold need_event, sub16, w16, two16. intros Ha He Hd. rewrite N.ltb_lt.
  rewrite (N.mod_small ev), (N.mod_small a), (N.mod_small 1) by lia.
  assert (Hn : (a + d) mod 65536 = a + d \/ ((a + d) mod 65536 + 65536 = a + d)) by lia.
  set (n := (a + d) mod 65536) in *. assert (Hn' : n < 65536) by (subst n; apply N.mod_lt; discriminate).
  clearbody n.
  destruct Hn as [Hn|Hn]; lia.
Qed.

(* two adjacent intervals [a, a+x) and [a+x, a+x+y) of 16-bit indices, together shorter than 2^16 *)
Lemma need_event_split ev a x y :
  a < two16 -> ev < two16 -> x + y < two16 ->
  need_event ev (w16 (w16 (a + x) + y)) a
  = need_event ev (w16 (a + x)) a || need_event ev (w16 (w16 (a + x) + y)) (w16 (a + x)).
Proof.
  intros Ha He Hxy.
  assert (Hb : w16 (a + x) < two16) by (unfold w16, two16; apply N.mod_lt; discriminate).
  assert (Hc : w16 (w16 (a + x) + y) = w16 (a + (x + y))).
  { unfold w16. rewrite N.add_mod_idemp_l by discriminate. f_equal. lia. }
  apply Bool.eq_true_iff_eq. rewrite Bool.orb_true_iff.
  rewrite (need_event_range ev (w16 (a + x)) y Hb He ltac:(lia)).
  rewrite Hc.
  rewrite (need_event_range ev a (x + y) Ha He Hxy), (need_event_range ev a x Ha He ltac:(lia)).
  assert (Hn : w16 (a + x) = a + x \/ w16 (a + x) + 65536 = a + x) by (unfold w16, two16 in *; lia).
  set (b := w16 (a + x)) in *. clearbody b. unfold two16 in *.
  destruct Hn as [Hn|Hn]; lia.
Qed.

Lemma need_event_empty ev a : a < two16 -> need_event ev a a = false.
Proof. unfold need_event, sub16, w16, two16. intros. apply N.ltb_ge. lia. Qed.

(* the index after a run of rounds that publish b1, b2, ... entries *)
Definition end_idx (a : N) (bs : list N) : N := fold_left (fun x b => w16 (x + b)) bs a.
Definition total (bs : list N) : N := fold_right N.add 0 bs.

Fixpoint rounds_spec (ev a : N) (bs : list N) : list bool :=
  match bs with
  | [] => []
  | b :: r => need_event ev (w16 (a + b)) a :: rounds_spec ev (w16 (a + b)) r
  end.

Fixpoint rounds_code (eidx : bool) (ev uf a : N) (bs : list N) : list bool :=
  match bs with
  | [] => []
  | b :: r => code_check eidx ev uf (w16 (a + b)) :: rounds_code eidx ev uf (w16 (a + b)) r
  end.

Lemma end_idx_total a bs : a < two16 -> end_idx a bs = w16 (a + total bs).
Proof.
  revert a. induction bs as [|b r IH]; intros a Ha.
  - unfold end_idx. cbn [fold_left total fold_right]. rewrite N.add_0_r.
    unfold w16, two16 in *. symmetry. apply N.mod_small. exact Ha.
  - unfold end_idx in *. cbn [fold_left total fold_right].
    rewrite IH by (unfold w16, two16; apply N.mod_lt; discriminate).
    unfold w16. rewrite N.add_mod_idemp_l by discriminate. f_equal. unfold total. lia.
Qed.

Lemma end_idx_lt a bs : a < two16 -> end_idx a bs < two16.
Proof.
  intros Ha. rewrite end_idx_total by exact Ha. unfold w16, two16. apply N.mod_lt. discriminate.
Qed.

(* "some round requires a notification" iff the whole interval does - every starting index, every event index,
   any number of rounds of any sizes, as long as fewer than 2^16 entries are published in all *)
Theorem batch_compose_spec ev a bs :
  a < two16 -> ev < two16 -> total bs < two16 ->
  existsb (fun b => b) (rounds_spec ev a bs) = need_event ev (end_idx a bs) a.
Proof.
  revert a. induction bs as [|b r IH]; intros a Ha He Ht.
  - cbn [rounds_spec existsb]. unfold end_idx. cbn [fold_left]. symmetry. now apply need_event_empty.
  - cbn [rounds_spec existsb]. cbn [total fold_right] in Ht. fold (total r) in Ht.
    assert (Ha1 : w16 (a + b) < two16) by (unfold w16, two16; apply N.mod_lt; discriminate).
    rewrite IH by (try assumption; lia).
    change (end_idx a (b :: r)) with (end_idx (w16 (a + b)) r).
    rewrite end_idx_total by exact Ha1.
    rewrite (need_event_split ev a b (total r)) by (try assumption; lia).
    reflexivity.
Qed.

(* per round, the code's check is implied by the specification's predicate (rounds of 1 .. 2^15 entries) *)
Lemma code_check_sound ev uf a b :
  a < two16 -> 1 <= b <= 32768 ->
  need_event (w16 ev) (w16 (a + b)) a = true -> code_check true ev uf (w16 (a + b)) = true.
Proof.
  intros Ha Hb Hn. unfold code_check.
  assert (Hw : w16 ev < two16) by (unfold w16, two16; apply N.mod_lt; discriminate).
  assert (Hn1 : w16 (a + b) < two16) by (unfold w16, two16; apply N.mod_lt; discriminate).
  pose proof (event_mode_sound (w16 (a + b)) a (w16 ev) Hn1 Ha Hw) as H.
  replace (w16 (w16 ev)) with (w16 ev) in H by (unfold w16; now rewrite N.mod_mod).
  apply H; [|exact Hn]. unfold sub16, w16, two16 in *. lia.
Qed.

(* a driver that asks should_notify after each of its rounds: if the specification requires a notification for
   the entries of the whole operation then some round's check says so; without event-idx every round's check is
   the device's flag *)
Theorem batch_compose_code_event ev uf a bs :
  a < two16 -> total bs < two16 -> Forall (fun b => 1 <= b <= 32768) bs ->
  need_event (w16 ev) (end_idx a bs) a = true ->
  existsb (fun b => b) (rounds_code true ev uf a bs) = true.
Proof.
  intros Ha Ht Hbs Hn.
  assert (Hw : w16 ev < two16) by (unfold w16, two16; apply N.mod_lt; discriminate).
  rewrite <- (batch_compose_spec (w16 ev) a bs Ha Hw Ht) in Hn.
  clear Ht. revert a Ha Hn. induction Hbs as [|b r Hb Hr IH]; intros a Ha Hn.
  - cbn [rounds_spec existsb] in Hn. discriminate.
  - cbn [rounds_spec existsb rounds_code] in *. apply Bool.orb_true_iff in Hn. apply Bool.orb_true_iff.
    destruct Hn as [Hn|Hn].
    + left. now apply code_check_sound.
    + right. apply IH; [unfold w16, two16; apply N.mod_lt; discriminate|exact Hn].
Qed.

Theorem batch_compose_code_flag ev uf a bs :
  Forall (fun o => o = (N.land uf 1 =? 0)) (rounds_code false ev uf a bs).
Proof.
  revert a. induction bs as [|b r IH]; intros a; cbn [rounds_code]; constructor; [reflexivity|apply IH].
Qed.

Lemma batch_compose_flag_some ev uf a b bs :
  existsb (fun o => o) (rounds_code false ev uf a (b :: bs)) = (N.land uf 1 =? 0).
Proof.
  pose proof (batch_compose_code_flag ev uf a (b :: bs)) as H. rewrite Forall_forall in H.
  destruct (N.land uf 1 =? 0) eqn:E.
  - cbn [rounds_code existsb]. unfold code_check at 1. rewrite E. reflexivity.
  - apply Bool.not_true_is_false. intros Hx. apply existsb_exists in Hx. destruct Hx as (o & Hin & Ho).
    specialize (H o Hin). congruence.
Qed.

(* ---- the rounds the harness forms: maximal runs of publications closed by a notification (or by the end of the
   operation).  A driver step is (entries published, notified after it). *)
Fixpoint groups (gold : N) (nonempty : bool) (a : N) (l : list (N * bool)) : list (N * N * bool) :=
  match l with
  | [] => if nonempty then [(gold, a, false)] else []
  | (b, n) :: r =>
      let a' := w16 (a + b) in
      if n then (gold, a', true) :: groups a' false a' r else groups gold true a' r
  end.

(* the driver follows the code: after publishing b entries it notifies iff should_notify says so *)
Fixpoint follows (eidx : bool) (ev uf a : N) (l : list (N * bool)) : Prop :=
  match l with
  | [] => True
  | (b, n) :: r => 1 <= b <= 32768 /\ n = code_check eidx ev uf (w16 (a + b)) /\ follows eidx ev uf (w16 (a + b)) r
  end.

Definition group_ok (eidx : bool) (ev uf size : N) (g : N * N * bool) : bool :=
  let '(old, new, obs) := g in mon_notify [b2n eidx; new; old; w16 ev; uf; b2n obs; size].

Lemma groups_ok_gen eidx ev uf size l : forall gold ne a,
  gold < two16 -> a < two16 ->
  sub16 a gold + total (map fst l) < two16 ->
  (eidx = true -> need_event (w16 ev) a gold = false) ->
  (eidx = false -> ne = true -> (N.land uf 1 =? 0) = false) ->
  (ne = false -> a = gold) ->
  follows eidx ev uf a l ->
  forallb (group_ok eidx ev uf size) (groups gold ne a l) = true.
Proof.
  assert (Hw : w16 ev < two16) by (unfold w16, two16; apply N.mod_lt; discriminate).
  induction l as [|[b n] r IH]; intros gold ne a Hg Ha Hd Hev Hfl Hne Hf.
  - cbn [groups]. destruct ne; [|reflexivity]. cbn [forallb group_ok]. rewrite Bool.andb_true_r.
    apply (proj2 (mon_notify_meaning eidx a gold (w16 ev) uf false size)).
    destruct eidx.
    + unfold spec_required. rewrite (Hev eq_refl). discriminate.
    + unfold spec_required. now rewrite (Hfl eq_refl eq_refl).
  - cbn [follows] in Hf. destruct Hf as (Hb & Hn & Hf).
    cbn [map fst total fold_right] in Hd. fold (total (map fst r)) in Hd.
    assert (Ha' : w16 (a + b) < two16) by (unfold w16, two16; apply N.mod_lt; discriminate).
    assert (Hstep : sub16 (w16 (a + b)) gold = sub16 a gold + b).
    { unfold sub16, w16, two16 in *. lia. }
    (* the predicate of [gold, a') is the predicate of the last round, the earlier ones being false *)
    assert (Hsplit : eidx = true -> need_event (w16 ev) (w16 (a + b)) gold = need_event (w16 ev) (w16 (a + b)) a).
    { intros E. specialize (Hev E).
      pose proof (need_event_split (w16 ev) gold (sub16 a gold) b Hg Hw ltac:(lia)) as S.
      assert (Ea : w16 (gold + sub16 a gold) = a) by (unfold sub16, w16, two16 in *; lia).
      rewrite Ea in S. rewrite S, Hev. reflexivity. }
    cbn [groups]. destruct n.
    + cbn [forallb]. apply Bool.andb_true_iff. split.
      * unfold group_ok. apply (proj2 (mon_notify_meaning eidx (w16 (a + b)) gold (w16 ev) uf true size)).
        destruct eidx; [auto|]. unfold spec_required. unfold code_check in Hn. exact Hn.
      * apply IH; try assumption.
        -- unfold sub16 at 1. replace (w16 (w16 (a + b) + two16 - w16 (w16 (a + b)))) with 0
             by (unfold w16, two16 in *; lia). lia.
        -- intros _. now apply need_event_empty.
        -- intros _ E. discriminate E.
        -- reflexivity.
    + apply IH; try assumption.
      * lia.
      * intros E. rewrite (Hsplit E). subst eidx.
        destruct (need_event (w16 ev) (w16 (a + b)) a) eqn:En; [|reflexivity].
        pose proof (code_check_sound ev uf a b Ha Hb En) as Hc. congruence.
      * intros E _. subst eidx. unfold code_check in Hn. symmetry. exact Hn.
      * intros E. discriminate E.
Qed.

(* every notification-delimited round of an operation whose driver checks after each publication passes monitor 155:
   evaluating the monitor per round of an operation demands nothing a specification-following driver does not do *)
Theorem following_driver_passes eidx ev uf size a l :
  a < two16 -> total (map fst l) < two16 -> follows eidx ev uf a l ->
  forallb (group_ok eidx ev uf size) (groups a false a l) = true.
Proof.
  intros Ha Ht Hf. apply groups_ok_gen; try assumption.
  - unfold sub16 at 1. replace (w16 (a + two16 - w16 a)) with 0 by (unfold w16, two16 in *; lia). lia.
  - intros _. now apply need_event_empty.
  - intros _ E. discriminate E.
  - reflexivity.
Qed.

(* conversely a round the specification wants announced and that ended without a notification fails the monitor *)
Theorem silent_required_round_fails eidx ev uf size old new :
  spec_required eidx ev uf new old = true ->
  mon_notify [b2n eidx; new; old; ev; uf; 0; size] = false.
Proof.
  intros H. apply Bool.not_true_is_false. intros M.
  apply (proj1 (mon_notify_meaning eidx new old ev uf false size)) in M.
  destruct eidx; [specialize (M H); discriminate|congruence].
Qed.

(* ... and so does a notification the device's flag had suppressed *)
Theorem suppressed_notification_fails ev uf size old new :
  (N.land uf 1 =? 0) = false -> mon_notify [0; new; old; ev; uf; 1; size] = false.
Proof.
  intros H. apply Bool.not_true_is_false. intros M.
  apply (proj1 (mon_notify_meaning false new old ev uf true size)) in M.
  unfold spec_required in M. congruence.
Qed.

(* what a true verdict of monitor 164 means: a polling (or late) device is never waited on in vain *)
Lemma mon_blocking_meaning gave_up pol n r :
  mon_blocking (gave_up :: pol :: n :: r) = true -> pol <> 0 -> gave_up = 0.
Proof.
  unfold mon_blocking. intros H Hp. destruct (N.eqb_spec pol 0) as [E|_]; [contradiction|].
  cbn [andb] in H. now apply N.eqb_eq.
Qed.

(* ------------------------------------------------------------------------------------------------ *)
(* (b) per-queue independence *)
Record qview := mkView { v_eidx : bool; v_ev : N; v_uf : N; v_old : N; v_new : N; v_obs : bool; v_size : N }.
Definition verdict (v : qview) : bool :=
  mon_notify [b2n (v_eidx v); v_new v; v_old v; v_ev v; v_uf v; b2n (v_obs v); v_size v].
(* a device with any number of queues: queue number -> what was observed of it in the operation *)
Definition op_verdict (sys : N -> qview) (q : N) : bool := verdict (sys q).

Lemma verdict_per_queue sys sys' q : sys q = sys' q -> op_verdict sys q = op_verdict sys' q.
Proof. unfold op_verdict. now intros ->. Qed.

(* changing anything about another queue q' leaves the verdict for q alone *)
Lemma verdict_other_queue sys q q' v' :
  q <> q' -> op_verdict (fun i => if i =? q' then v' else sys i) q = op_verdict sys q.
Proof. intros H. apply verdict_per_queue. destruct (N.eqb_spec q q'); [contradiction|reflexivity]. Qed.

Definition is_nnotify (e : nev) : bool := match e with NNotify _ => true | _ => false end.

Lemma filter_nq q evs : filter is_nnotify (map (NQ q) evs) = [].
Proof. induction evs as [|e r IH]; [reflexivity|exact IH]. Qed.

(* receive_begin of the network driver: whatever the transmit queue looks like, the notification is for the receive
   queue and is decided by should_notify of the receive queue after the buffer was added *)
Theorem receive_begin_decides_on_rx s qt b ae uf :
  receive_begin (set_tx s qt) b ae uf
  = (let '(o, s', evs) := receive_begin s b ae uf in (o, set_tx s' qt, evs)).
Proof.
  unfold receive_begin. destruct (negb (check_rx_buf_len (b_len b))); [reflexivity|].
  cbn [set_tx n_rx]. destruct (add (n_rx s) [] [b] 0) as [[o q1] evs]. destruct o; reflexivity.
Qed.

Theorem receive_begin_notifies s b ae uf tok s' evs :
  receive_begin s b ae uf = (Ok tok, s', evs) ->
  n_tx s' = n_tx s
  /\ filter is_nnotify evs = (if should_notify (n_rx s') ae uf then [NNotify QUEUE_RECEIVE] else []).
Proof.
  unfold receive_begin. destruct (negb (check_rx_buf_len (b_len b))); [discriminate|].
  destruct (add (n_rx s) [] [b] 0) as [[o q1] aevs]. destruct o; try discriminate.
  intros H. inversion H; subst. cbn [set_rx n_tx n_rx]. split; [reflexivity|].
  rewrite filter_app, filter_nq. unfold notify_evs. destruct (should_notify q1 ae uf); reflexivity.
Qed.

Theorem transmit_begin_notifies s b ae uf tok s' evs :
  transmit_begin s b ae uf = (Ok tok, s', evs) ->
  n_rx s' = n_rx s
  /\ filter is_nnotify evs = (if should_notify (n_tx s') ae uf then [NNotify QUEUE_TRANSMIT] else []).
Proof.
  unfold transmit_begin. destruct (negb (check_tx_buf_len s (b_len b))); [discriminate|].
  destruct (add (n_tx s) [b] [] 0) as [[o q1] aevs]. destruct o; try discriminate.
  intros H. inversion H; subst. cbn [set_tx n_tx n_rx]. split; [reflexivity|].
  rewrite filter_app, filter_nq. unfold notify_evs. destruct (should_notify q1 ae uf); reflexivity.
Qed.

(* ------------------------------------------------------------------------------------------------ *)
(* (c) OwningQueue::poll *)
Definition is_onotify (e : oev) : bool := match e with ONotify => true | OQ _ => false end.

Lemma filter_oq evs : filter is_onotify (map OQ evs) = [].
Proof. induction evs as [|e r IH]; [reflexivity|exact IH]. Qed.

(* For every device behaviour (used-ring view, share answer, suppression words), every handler answer (hres: Ok(Some),
   Ok(None), Err) and every recorded length - including one above BUFFER_SIZE: when a completion for a buffer of the
   queue is pending, poll publishes exactly one more entry and the transport sees notify exactly when should_notify,
   asked after the buffer was re-queued, says so - as the last effect of the call. *)
Theorem poll_notifies_on_every_path s chains h bufsz u_idx u_id u_len addr ae uf hres o s' evs :
  Reach s chains h -> Stocked s chains bufsz -> bufsz <> 0 -> bufsz < two32 ->
  owning_poll s bufsz u_idx u_id u_len addr ae uf hres = (o, s', evs) ->
  q_last_used s <> w16 u_idx -> w16 u_id < q_size s ->
  q_avail_idx s' = w16 (q_avail_idx s + 1)
  /\ q_event_idx s' = q_event_idx s
  /\ exists qevs, evs = map OQ qevs ++ (if should_notify s' ae uf then [ONotify] else [])
  /\ filter is_onotify evs = (if should_notify s' ae uf then [ONotify] else []).
Proof.
  intros HR Hst Hb0 Hb32 Hrun E1 E2.
  unfold owning_poll, owning_pop, peek_used, can_pop in Hrun.
  destruct (N.eqb_spec (q_last_used s) (w16 u_idx)) as [E|_]; [contradiction|]. cbn [negb] in Hrun.
  destruct (N.leb_spec (q_size s) (w16 u_id)) as [E|_]; [lia|].
  destruct (stocked_has_chain s chains h bufsz (w16 u_id) HR Hst E2) as (pre & c & post & -> & Hhead).
  destruct Hst as [Hst Hlen].
  assert (Hc : stock_chain bufsz c).
  { rewrite Forall_forall in Hst. apply Hst. apply in_or_app. right. now left. }
  destruct Hc as (Hci & Hct & a & Hcb).
  assert (Hkeys : keys (tag_bufs [] [obuf (w16 u_id) bufsz 0]) = keys (c_bufs c)).
  { rewrite Hcb, Hhead. reflexivity. }
  destruct (pop_refines s pre c post h [] [obuf (w16 u_id) bufsz 0] u_idx u_id u_len HR Hkeys) as (_ & _ & P3).
  destruct (P3 E1 (eq_sym Hhead)) as (s1 & evs1 & Hpop & HR1 & Hlu & Hfh & Hnu & Hai & _ & _ & _ & Hsz & _ & Hei & _).
  rewrite Hhead in Hpop. rewrite Hpop in Hrun.
  unfold owning_readd in Hrun. rewrite Hsz in Hrun.
  destruct (N.leb_spec (q_size s) (w16 u_id)) as [E4|_]; [lia|].
  destruct (lifo_token s pre c post h [] [obuf (w16 u_id) bufsz 0] u_idx u_id u_len s1 evs1
              (obuf (w16 u_id) bufsz addr) true 0 HR Hkeys
              ltac:(rewrite Hhead; exact Hpop) Hb0 Hb32) as (s2 & evs2 & Hadd).
  cbn iota in Hadd. rewrite Hhead in Hadd. rewrite Hadd in Hrun. rewrite N.eqb_refl in Hrun.
  assert (Hok : bufs_ok (tag_bufs [] [obuf (w16 u_id) bufsz addr])).
  { constructor; [split; assumption|constructor]. }
  assert (Hne : tag_bufs [] [obuf (w16 u_id) bufsz addr] <> []) by discriminate.
  assert (Hidx2 : q_avail_idx s2 = w16 (q_avail_idx s1 + 1) /\ q_event_idx s2 = q_event_idx s1).
  { destruct (add_cases s1 (pre ++ post) [] [obuf (w16 u_id) bufsz addr] 0 (proj1 (Reach_Inv _ _ _ HR1)) Hok)
      as [[_ E]|[(_ & _ & E)|(_ & Hcap & _)]]; try (rewrite E in Hadd; discriminate).
    destruct (add_ok s1 (pre ++ post) [] [obuf (w16 u_id) bufsz addr] 0 (proj1 (Reach_Inv _ _ _ HR1)) Hne Hok Hcap)
      as (sx & ex & cx & Hr & _ & _ & _ & _ & Hav & _ & _ & _ & _ & Hev & _).
    rewrite Hr in Hadd. inversion Hadd; subst. split; assumption. }
  destruct Hidx2 as [Hav2 Hev2].
  set (result := if bufsz <? w32 u_len then Err EIoError else handler_result hres (w32 u_len) (w16 u_id)) in *.
  assert (Hres : s' = s2 /\ evs = map OQ evs1 ++ map OQ evs2 ++ (if should_notify s2 ae uf then [ONotify] else [])).
  { destruct result; inversion Hrun; subst; split; reflexivity. }
  destruct Hres as [-> ->].
  split; [rewrite Hav2, Hai; reflexivity|]. split; [rewrite Hev2, Hei; reflexivity|].
  exists (evs1 ++ evs2). split.
  - rewrite map_app, <- app_assoc. reflexivity.
  - rewrite !filter_app, !filter_oq. cbn [app]. destruct (should_notify s2 ae uf); reflexivity.
Qed.

(* the notification does not depend on what the handler answered nor on the recorded length: state and effects of
   two polls that differ only in these are equal *)
Theorem poll_effects_independent_of_handler s bufsz u_idx u_id u_len addr ae uf hres hres' :
  let '(_, s1, evs1) := owning_poll s bufsz u_idx u_id u_len addr ae uf hres in
  let '(_, s2, evs2) := owning_poll s bufsz u_idx u_id u_len addr ae uf hres' in
  s1 = s2 /\ evs1 = evs2.
Proof.
  unfold owning_poll. destruct (owning_pop s bufsz u_idx u_id u_len) as [[o s1] evs].
  destruct o as [[[len token]|]| | |]; try (split; reflexivity).
  destruct (owning_readd s1 bufsz token addr ae uf) as [[o2 s2] evs2].
  destruct o2; split; reflexivity.
Qed.

(* the change that moves the notification behind `let value = result?;` (seeded change C05-m4), as a model: the
   same poll, but the notification is dropped when the result is an error *)
Definition owning_poll_late_notify (s : qstate) (bufsz u_idx u_id u_len addr ae uf hres : N)
  : outcome (option (N * N)) * qstate * list oev :=
  let '(o, s', evs) := owning_poll s bufsz u_idx u_id u_len addr ae uf hres in
  match o with
  | Ok _ => (o, s', evs)
  | _ => (o, s', filter (fun e => negb (is_onotify e)) evs)
  end.

(* ... is refuted: handler error on a stocked queue of two buffers, device not suppressing: the buffer is back in
   the queue (available index 3) and the transport saw nothing *)
Example late_notify_refuted :
  exists s0 evs0 s1 evs1,
    owning_new_loop [100; 200] 0 8 (qnew 2 false false) = (Ok tt, s0, evs0)
    /\ owning_poll_late_notify s0 8 1 0 4 300 0 0 2 = (Err EIoError, s1, evs1)
    /\ q_avail_idx s1 = 3 /\ should_notify s1 0 0 = true /\ filter is_onotify evs1 = [].
Proof.
  do 4 eexists. split; [vm_compute; reflexivity|]. split; [vm_compute; reflexivity|].
  split; [vm_compute; reflexivity|]. split; vm_compute; reflexivity.
Qed.

(* ------------------------------------------------------------------------------------------------ *)
(* the hypotheses of the two main theorems are satisfiable, next to and across the 16-bit wrap *)
Example following_nonvacuous :
  65534 < two16 /\ total (map fst [(1, false); (1, true); (2, true)]) < two16
  /\ follows true 65535 0 65534 [(1, false); (1, true); (2, true)]
  /\ groups 65534 false 65534 [(1, false); (1, true); (2, true)] = [(65534, 0, true); (0, 2, true)].
Proof.
  split; [reflexivity|]. split; [reflexivity|]. split; [|reflexivity].
  cbn [follows]. repeat split; try (vm_compute; congruence); vm_compute; reflexivity.
Qed.

(* a queue of two buffers whose indices started at 65535, event-idx negotiated: the device completes buffer 1 with an
   oversized length, the handler would have failed too, the device asked to be told about entry 1: poll re-queues
   (available index 1 -> 2) and notifies *)
Example poll_notifies_nonvacuous :
  exists s chains h o s' evs,
    Reach s chains h /\ Stocked s chains 8
    /\ owning_poll s 8 0 1 99 300 1 0 2 = (o, s', evs)
    /\ q_last_used s <> w16 0 /\ w16 1 < q_size s
    /\ o = Err EIoError /\ q_avail_idx s = 1 /\ q_avail_idx s' = 2 /\ filter is_onotify evs = [ONotify].
Proof.
  destruct (owning_new_stocked 1 false true 8 [100; 200] 65535) as (s & evs0 & chains & Hrun & HR & HSt);
    try reflexivity; try discriminate.
  vm_compute in Hrun. inversion Hrun; subst s evs0; clear Hrun.
  eexists; exists chains; do 4 eexists. split; [exact HR|]. split; [exact HSt|].
  split; [vm_compute; reflexivity|].
  split; [vm_compute; discriminate|]. split; [vm_compute; reflexivity|].
  repeat split.
Qed.
