(* C11 / C13: proofs about Model/HypPci.v (the x86-64 pKVM hypercall PCI transport).                    *)
(*  1. get_bar_region (hyp_region_check): it IS the PCI transport's check with the physical address in   *)
(*     the place of the mapped one; sound, inside, complete, never panics; the code as found (F19)       *)
(*     refuted, with the strongest true statement                                                        *)
(*  2. HypPciTransport::new: = the specification's selection + the check per structure (hyp_new_pure);   *)
(*     it is PciTransport::new under the identity mapping; the regions of the transport it returns; its  *)
(*     errors; no panic; the function intact; the monitor holds of the model; F19 / F20 / F21 refuted    *)
(*  3. the operations: = the PCI transport's accesses at physical addresses; every hypercall inside the  *)
(*     regions at the offsets / widths of 4.1.4.3; order; notify; no Drop; read_config_generation (F22)  *)
(*  4. configuration access (C13): bounds, exact bytes, errors without a hypercall                       *)
(*  5. HypCam                                                                                            *)
(*  6. C12: HypCam addresses configuration space uniquely for every base (window-aligned or not)         *)
(*  7. C12: the probing done by HypPciTransport::new leaves command and BAR registers as they were        *)
From VD Require Import Base.Words Base.ListUpd Model.PciBus Model.Pci Model.PciSpec Model.HypPci
  Proofs.PciBusProofs Proofs.PciProofs.
From Coq Require Import ZArith Lia ZifyBool ZifyN.
Ltac Zify.zify_post_hook ::= Z.div_mod_to_equations.

(* ===================== 1. get_bar_region ===================== *)
(* the physical address of a structure: bar address + offset, in u64 *)
Definition paddr_of (bi : outcome (option barinfo)) (info : capinfo) : N :=
  (bar_addr (match bi with Ok x => x | _ => None end) + ci_off info) mod two64.

Definition hg_of (g : gres) (len : N) : hgres :=
  match g with GOk v => HGOk (mkHR v len) | GErr c p q => HGErr c p q | GPanic => HGPanic end.

(* the hypercall transport's get_bar_region is the PCI transport's, with mmio_phys_to_virt = the identity *)
Theorem hyp_region_check_eq fx m bi info need al :
  hyp_region_check fx m bi info need al =
  hg_of (fst (region_check fx m bi info need al (paddr_of bi info))) (ci_len info).
Proof.
  unfold hyp_region_check, region_check, paddr_of.
  destruct bi as [[[ty pf a bsz|a bsz]|]|e| |]; try reflexivity.
  destruct (a =? 0); [reflexivity|].
  destruct (if fx_sum64 fx then Some (ci_off info + ci_len info) else add_u32 m (ci_off info) (ci_len info)) as [sum|];
    [|reflexivity].
  destruct ((bsz <? sum) || (ci_len info <? need)); [reflexivity|].
  cbn [bar_addr].
  destruct (add_u64 m a (ci_off info)) as [paddr|] eqn:Ep; [|reflexivity].
  apply add_w_some in Ep. destruct Ep as [Ep _]. change 18446744073709551616 with two64 in Ep. rewrite <- Ep.
  destruct (paddr mod al =? 0); reflexivity.
Qed.

(* C11 (hypercall transport): a returned region implies a memory BAR with a non-zero address, offset + length
   <= size as natural numbers, length >= size_of::<T>(), the PHYSICAL address aligned; the region is
   (address + offset mod 2^64, length) *)
Theorem hyp_region_sound fx m bi info need al r :
  fx_sum64 fx = true ->
  hyp_region_check fx m bi info need al = HGOk r ->
  window_in bi info need al (r_paddr r)
  /\ r_paddr r = paddr_of bi info /\ r_size r = ci_len info
  /\ (m = Debug -> bar_addr (match bi with Ok x => x | _ => None end) + ci_off info < two64).
Proof.
  intros Hfx H. rewrite hyp_region_check_eq in H.
  destruct (region_check fx m bi info need al (paddr_of bi info)) as [g rq] eqn:E. cbn [fst] in H.
  destruct g as [v|c p q|]; cbn [hg_of] in H; try discriminate. inversion H; subst r. cbn [r_paddr r_size].
  apply region_check_sound in E; [|exact Hfx]. destruct E as (-> & W & _ & D). auto.
Qed.

(* a BAR that does not wrap the address space (every well-formed BAR): the region is
   [a + off, a + off + len) inside [a, a + size) *)
Theorem hyp_region_inside fx m ty pf a bsz info need al r :
  fx_sum64 fx = true -> a + bsz <= two64 -> 0 < need ->
  hyp_region_check fx m (Ok (Some (BarMem ty pf a bsz))) info need al = HGOk r ->
  r_paddr r = a + ci_off info /\ r_size r = ci_len info
  /\ a <= r_paddr r /\ r_paddr r + r_size r <= a + bsz /\ r_paddr r + r_size r <= two64
  /\ ci_off info + ci_len info <= bsz
  /\ need <= r_size r /\ r_paddr r mod al = 0 /\ a <> 0.
Proof.
  intros Hfx Hw Hneed H. apply hyp_region_sound in H; [|exact Hfx].
  destruct H as ((ty' & pf' & a' & b' & E & Ha & Hs & Hn & Hal) & Hp & Hsz & _).
  inversion E; subst a' b'. unfold paddr_of in Hp. cbn [bar_addr] in Hp.
  rewrite N.mod_small in Hp by (unfold two64 in *; lia).
  rewrite Hp in *. rewrite Hsz. repeat split; try assumption; try lia.
Qed.

(* every outcome of the repaired check, by cases on what bar_info answered *)
Theorem hyp_region_complete m bi info need al :
  hyp_region_check FIXED m bi info need al =
  match bi with
  | Err e => HGErr PE_Pci e 0
  | Panic | UB => HGPanic
  | Ok None => HGErr PE_BarNotAllocated (ci_bar info) 0
  | Ok (Some (BarIO _ _)) => HGErr PE_UnexpectedIoBar 0 0
  | Ok (Some (BarMem _ _ a bsz)) =>
      if a =? 0 then HGErr PE_BarNotAllocated (ci_bar info) 0
      else if (bsz <? ci_off info + ci_len info) || (ci_len info <? need) then HGErr PE_BarOffsetOutOfRange 0 0
      else if two64 <=? a + ci_off info then
        match m with
        | Debug => HGPanic
        | Release => if (a + ci_off info) mod two64 mod al =? 0 then HGOk (mkHR ((a + ci_off info) mod two64) (ci_len info))
                     else HGErr PE_Misaligned ((a + ci_off info) mod two64) al
        end
      else if (a + ci_off info) mod al =? 0 then HGOk (mkHR (a + ci_off info) (ci_len info))
      else HGErr PE_Misaligned (a + ci_off info) al
  end.
Proof.
  unfold hyp_region_check. cbn [fx_sum64 FIXED].
  destruct bi as [[[ty pf a bsz|a bsz]|]|e| |]; try reflexivity.
  destruct (a =? 0); [reflexivity|].
  destruct ((bsz <? ci_off info + ci_len info) || (ci_len info <? need)); [reflexivity|].
  unfold add_u64, add_w.
  destruct (N.leb_spec two64 (a + ci_off info)) as [H|H].
  - replace (a + ci_off info <? two64) with false by lia. destruct m; [reflexivity|].
    change 18446744073709551616 with two64. destruct (_ =? 0); reflexivity.
  - replace (a + ci_off info <? two64) with true by lia. destruct (_ =? 0); reflexivity.
Qed.

Theorem hyp_region_no_panic m bi info need al :
  (forall ty pf a bsz, bi = Ok (Some (BarMem ty pf a bsz)) -> a + bsz <= two64) ->
  bi <> Panic -> bi <> UB -> 0 < need ->
  hyp_region_check FIXED m bi info need al <> HGPanic.
Proof.
  intros Hw Hb1 Hb2 Hneed. rewrite hyp_region_check_eq.
  pose proof (region_check_no_panic m bi info need al (paddr_of bi info) Hw Hb1 Hb2 Hneed) as P.
  destruct (fst (region_check FIXED m bi info need al (paddr_of bi info))); cbn [hg_of]; congruence.
Qed.

(* ---- F19: the code as found, `u64::from(struct_info.offset + struct_info.length)` ---- *)
(* release: a region 4 GiB beyond the BAR; debug: neither a region nor an error *)
Theorem hyp_region_prefix_refuted :
  hyp_region_check FX_F4 Release f4_bar f4_info COMMON_SIZE COMMON_ALIGN = HGOk (mkHR 0x1fdfffff0 0x48)
  /\ ~ (ci_off f4_info + ci_len f4_info <= 0x4000)
  /\ ~ (0x1fdfffff0 + 0x48 <= 0xfe000000 + 0x4000)
  /\ hyp_region_check FX_F4 Debug f4_bar f4_info COMMON_SIZE COMMON_ALIGN = HGPanic
  /\ hyp_region_check FIXED Release f4_bar f4_info COMMON_SIZE COMMON_ALIGN = HGErr PE_BarOffsetOutOfRange 0 0
  /\ hyp_region_check FIXED Debug f4_bar f4_info COMMON_SIZE COMMON_ALIGN = HGErr PE_BarOffsetOutOfRange 0 0.
Proof. vm_compute. repeat split; try reflexivity; intros H; exact (H eq_refl). Qed.

(* what IS true of the old check: it coincides with the repaired one whenever offset + length < 2^32, and in
   the debug profile a returned region is always inside (a wrapping sum panics instead) *)
Theorem hyp_region_prefix_partial fx m bi info need al :
  fx_sum64 fx = false -> ci_off info + ci_len info < two32 ->
  hyp_region_check fx m bi info need al = hyp_region_check FIXED m bi info need al.
Proof.
  intros Hfx Hs. rewrite !hyp_region_check_eq.
  rewrite (region_check_prefix_partial fx m bi info need al _ Hfx Hs). reflexivity.
Qed.
Theorem hyp_region_prefix_partial_debug fx bi info need al r :
  hyp_region_check fx Debug bi info need al = HGOk r -> window_in bi info need al (r_paddr r).
Proof.
  intros H. rewrite hyp_region_check_eq in H.
  destruct (region_check fx Debug bi info need al (paddr_of bi info)) as [g rq] eqn:E. cbn [fst] in H.
  destruct g as [v|c p q|]; cbn [hg_of] in H; try discriminate. inversion H; subst r. cbn [r_paddr].
  pose proof E as E'. apply region_check_prefix_partial_debug in E.
  assert (v = paddr_of bi info).
  { unfold region_check in E'. destruct bi as [[[ty pf a bsz|a bsz]|]|e| |]; try discriminate.
    destruct (a =? 0); [discriminate|]. destruct (if fx_sum64 fx then _ else _); [|discriminate].
    destruct (_ || _); [discriminate|]. destruct (add_u64 Debug a (ci_off info)); [|discriminate].
    destruct (negb _); inversion E'; reflexivity. }
  subst v. exact E.
Qed.

(* ===================== 2. HypPciTransport::new ===================== *)
Lemma hyp_get_bar_region_eq fx m s info need al :
  fn_ok (n_fn s) -> ci_bar info < 6 ->
  hyp_get_bar_region fx m s info need al =
  (hyp_region_check fx m (bar_of m (n_fn s) (ci_bar info)) info need al,
   mkNst (n_fn s) (n_log s ++ snd (bar_info m (n_fn s) (ci_bar info))) (n_reqs s)).
Proof.
  intros (Hlen & Hc & Hv) Hi. unfold hyp_get_bar_region, bar_of.
  destruct (bar_info_no_side_effects m (n_fn s) (ci_bar info) Hlen Hi Hc Hv) as (r & tr & E & _).
  rewrite E. reflexivity.
Qed.

(* the check applied to what bar_info reports for the structure's BAR *)
Definition hyp_win (m : mode) (d : pcifn) (info : capinfo) (need al : N) : hgres :=
  hyp_region_check FIXED m (bar_of m d (ci_bar info)) info need al.

(* HypPciTransport::new as a function of the SPECIFICATION's reading of configuration space; it documents
   every error: which VirtioPciError in which case *)
Definition hyp_new_pure (m : mode) (d : pcifn) : hnres :=
  let rd := cfg_read d in
  let dv := rdw rd 0 in
  if negb (w16 dv =? VIRTIO_VENDOR_ID) then HNErr PE_InvalidVendorId (w16 dv) 0
  else match device_type (w16 (N.shiftr dv 16)) with
  | None => HNErr PE_InvalidDeviceId (w16 (N.shiftr dv 16)) 0
  | Some dt =>
  if negb (snd (capabilities 65 rd)) then HNDiverge
  else
  let f := spec_found rd (map cap_off (fst (capabilities 65 rd))) in
  match fd_common f with
  | None => HNErr PE_MissingCommonConfig 0 0
  | Some ic =>
  match hyp_win m d ic COMMON_SIZE COMMON_ALIGN with
  | HGErr c p q => HNErr c p q
  | HGPanic => HNPanic
  | HGOk cr =>
  match fd_notify f with
  | None => HNErr PE_MissingNotifyConfig 0 0
  | Some inn =>
  if negb (fd_mult f mod 2 =? 0) then HNErr PE_InvalidNotifyOffMultiplier (fd_mult f) 0
  else
  match hyp_win m d inn 2 2 with
  | HGErr c p q => HNErr c p q
  | HGPanic => HNPanic
  | HGOk nr =>
  match fd_isr f with
  | None => HNErr PE_MissingIsrConfig 0 0
  | Some ii =>
  match hyp_win m d ii 1 1 with
  | HGErr c p q => HNErr c p q
  | HGPanic => HNPanic
  | HGOk ir =>
  match fd_device f with
  | None => HNOk (mkHT dt cr nr (fd_mult f) ir None)
  | Some idv =>
  match hyp_win m d idv 4 4 with
  | HGErr c p q => HNErr c p q
  | HGPanic => HNPanic
  | HGOk dr => HNOk (mkHT dt cr nr (fd_mult f) ir (Some dr))
  end end end end end end end end end.

(* C11: the repaired `new` run against the reference function IS hyp_new_pure; the PCI function is left
   exactly as it was and no mmio_phys_to_virt request exists *)
Theorem hyp_new_refines m d :
  fn_ok d ->
  fst (hyp_new FIXED m d) = hyp_new_pure m d
  /\ n_fn (snd (hyp_new FIXED m d)) = d
  /\ n_reqs (snd (hyp_new FIXED m d)) = [].
Proof.
  intros Hok. unfold hyp_new, hyp_new_pure. cbv zeta.
  destruct (negb (w16 (rdw (cfg_read d) 0) =? VIRTIO_VENDOR_ID)); [cbn; auto|].
  destruct (device_type (w16 (N.shiftr (rdw (cfg_read d) 0) 16))) as [dt|]; [|cbn; auto].
  rewrite (scan_spec m (cfg_read d)).
  destruct (snd (capabilities 65 (cfg_read d))); cbn [negb]; [|cbn; auto].
  set (f := spec_found (cfg_read d) (map cap_off (fst (capabilities 65 (cfg_read d))))).
  destruct (spec_found_bars (cfg_read d) (map cap_off (fst (capabilities 65 (cfg_read d))))) as (B1 & B2 & B3 & B4).
  fold f in B1, B2, B3, B4.
  set (s1 := log_reads (log_reads (mkNst d [] []) [0]) (snd (scan FIXED m (cfg_read d)))).
  assert (H1 : n_fn s1 = d /\ n_reqs s1 = []) by (split; reflexivity).
  destruct (fd_common f) as [ic|] eqn:Ec; [|cbn; auto].
  unfold hyp_win.
  rewrite (hyp_get_bar_region_eq FIXED m s1 ic) by (first [exact Hok | specialize (B1 ic eq_refl); lia]).
  destruct H1 as [F1 R1]. rewrite F1, R1.
  destruct (hyp_region_check FIXED m (bar_of m d (ci_bar ic)) ic COMMON_SIZE COMMON_ALIGN) as [cr|c p q|];
    cbn [fst snd n_fn n_reqs]; auto.
  destruct (fd_notify f) as [inn|] eqn:En; [|cbn; auto].
  destruct (negb (fd_mult f mod 2 =? 0)); [cbn; auto|].
  match goal with |- context [hyp_get_bar_region FIXED m ?s inn 2 2] => set (s2 := s) end.
  rewrite (hyp_get_bar_region_eq FIXED m s2 inn) by (first [exact Hok | specialize (B2 inn eq_refl); lia]).
  subst s2. cbn [n_fn n_reqs n_log].
  destruct (hyp_region_check FIXED m (bar_of m d (ci_bar inn)) inn 2 2) as [nr|c p q|];
    cbn [fst snd n_fn n_reqs]; auto.
  destruct (fd_isr f) as [ii|] eqn:Ei; [|cbn; auto].
  match goal with |- context [hyp_get_bar_region FIXED m ?s ii 1 1] => set (s3 := s) end.
  rewrite (hyp_get_bar_region_eq FIXED m s3 ii) by (first [exact Hok | specialize (B3 ii eq_refl); lia]).
  subst s3. cbn [n_fn n_reqs n_log].
  destruct (hyp_region_check FIXED m (bar_of m d (ci_bar ii)) ii 1 1) as [ir|c p q|];
    cbn [fst snd n_fn n_reqs]; auto.
  destruct (fd_device f) as [idv|] eqn:Ed; [|cbn; auto].
  match goal with |- context [hyp_get_bar_region FIXED m ?s idv 4 4] => set (s4 := s) end.
  rewrite (hyp_get_bar_region_eq FIXED m s4 idv) by (first [exact Hok | specialize (B4 idv eq_refl); lia]).
  subst s4. cbn [n_fn n_reqs n_log].
  destruct (hyp_region_check FIXED m (bar_of m d (ci_bar idv)) idv 4 4) as [dr|c p q|];
    cbn [fst snd n_fn n_reqs]; auto.
Qed.

(* ---- HypPciTransport::new is PciTransport::new under the identity mapping ---- *)
(* what mmio_phys_to_virt would be asked for a structure *)
Definition pv (m : mode) (d : pcifn) (o : option capinfo) : N :=
  match o with Some c => fst (req_of m d c) | None => 0 end.
(* a PCI transport and its mmio_phys_to_virt requests, read as a hypercall transport *)
Definition hyp_of (r : nres * list (N * N)) : hnres :=
  match fst r with
  | NOk t =>
      let len i := snd (nth i (snd r) (0, 0)) in
      HNOk (mkHT (t_devtype t) (mkHR (t_common t) (len 0%nat)) (mkHR (t_notify t) (len 1%nat)) (t_mult t)
                 (mkHR (t_isr t) (len 2%nat))
                 (match t_cfg t with Some (v, _) => Some (mkHR v (len 3%nat)) | None => None end))
  | NErr c p q => HNErr c p q
  | NPanic => HNPanic
  | NDiverge => HNDiverge
  end.

Lemma hyp_win_eq m d c need al :
  hyp_win m d c need al = hg_of (fst (win m d c need al (fst (req_of m d c)))) (ci_len c).
Proof. unfold hyp_win, win. rewrite hyp_region_check_eq. reflexivity. Qed.

Theorem hyp_new_is_pci_new m d :
  let f := spec_found (cfg_read d) (map cap_off (fst (capabilities 65 (cfg_read d)))) in
  hyp_new_pure m d =
  hyp_of (new_pure m d (pv m d (fd_common f)) (pv m d (fd_notify f)) (pv m d (fd_isr f)) (pv m d (fd_device f))).
Proof.
  cbv zeta. unfold hyp_new_pure, new_pure. cbv zeta.
  destruct (negb (w16 (rdw (cfg_read d) 0) =? VIRTIO_VENDOR_ID)); [reflexivity|].
  destruct (device_type (w16 (N.shiftr (rdw (cfg_read d) 0) 16))) as [dt|]; [|reflexivity].
  destruct (negb (snd (capabilities 65 (cfg_read d)))); [reflexivity|].
  set (f := spec_found (cfg_read d) (map cap_off (fst (capabilities 65 (cfg_read d))))).
  destruct (spec_found_bars (cfg_read d) (map cap_off (fst (capabilities 65 (cfg_read d))))) as (B1 & B2 & B3 & B4).
  fold f in B1, B2, B3, B4. clearbody f.
  destruct (fd_common f) as [ic|] eqn:Ec; [|reflexivity]. cbn [pv].
  rewrite hyp_win_eq.
  destruct (win m d ic COMMON_SIZE COMMON_ALIGN (fst (req_of m d ic))) as [[cv|c p q|] r0] eqn:W0; cbn [fst hg_of]; try reflexivity.
  apply win_sound in W0; [|apply B1; reflexivity]. destruct W0 as (-> & _ & ->).
  destruct (fd_notify f) as [inn|] eqn:En; [|reflexivity]. cbn [pv].
  destruct (negb (fd_mult f mod 2 =? 0)); [reflexivity|].
  rewrite hyp_win_eq.
  destruct (win m d inn 2 2 (fst (req_of m d inn))) as [[nv|c p q|] r1] eqn:W1; cbn [fst hg_of]; try reflexivity.
  apply win_sound in W1; [|apply B2; reflexivity]. destruct W1 as (-> & _ & ->).
  destruct (fd_isr f) as [ii|] eqn:Ei; [|reflexivity]. cbn [pv].
  rewrite hyp_win_eq.
  destruct (win m d ii 1 1 (fst (req_of m d ii))) as [[iv|c p q|] r2] eqn:W2; cbn [fst hg_of]; try reflexivity.
  apply win_sound in W2; [|apply B3; reflexivity]. destruct W2 as (-> & _ & ->).
  destruct (fd_device f) as [idv|] eqn:Ed; [|reflexivity]. cbn [pv].
  rewrite hyp_win_eq.
  destruct (win m d idv 4 4 (fst (req_of m d idv))) as [[dv'|c p q|] r3] eqn:W3; cbn [fst hg_of]; try reflexivity.
  apply win_sound in W3; [|apply B4; reflexivity]. destruct W3 as (-> & _ & ->).
  reflexivity.
Qed.

(* ---- the transport that `new` returns ---- *)
(* the region in the terms of the property: the structure's BAR is a well-formed, allocated memory BAR
   [a, a + 2^k) that does not wrap; offset + length <= 2^k AS NATURAL NUMBERS; the region is exactly
   [a + offset, a + offset + length), inside the BAR; it is long enough for its use and its PHYSICAL
   address is aligned for it *)
Definition hregion_spec (d : pcifn) (c : capinfo) (need al : N) (r : hregion) : Prop :=
  exists s ty pf a k,
    spec_ok s /\ placed d (ci_bar c) s /\ spec_truth s = Some (BarMem ty pf a (2 ^ k)) /\ a <> 0
    /\ ci_off c + ci_len c <= 2 ^ k
    /\ r_paddr r = a + ci_off c /\ r_size r = ci_len c
    /\ a <= r_paddr r /\ r_paddr r + r_size r <= a + 2 ^ k /\ a + 2 ^ k <= two64
    /\ need <= r_size r /\ r_paddr r mod al = 0.

Lemma hyp_win_sound m d c need al r :
  ci_bar c <= 5 -> hyp_win m d c need al = HGOk r ->
  win_ok m d c need al (r_paddr r) /\ r_paddr r = fst (req_of m d c) /\ r_size r = ci_len c.
Proof.
  intros Hb H. unfold hyp_win in H. apply hyp_region_sound in H; [|reflexivity].
  destruct H as (W & P & S & _). unfold win_ok. auto.
Qed.

Lemma hyp_win_spec m d c need al r :
  fn_ok d -> names_bar d c -> 0 < need -> ci_bar c <= 5 ->
  hyp_win m d c need al = HGOk r -> hregion_spec d c need al r.
Proof.
  intros Hok Hn Hneed Hb H. destruct (hyp_win_sound m d c need al r Hb H) as (W & P & S).
  pose proof (win_ok_spec m d c need al (r_paddr r) Hok Hn Hneed W) as Q.
  destruct Q as (s & ty & pf & a & k & Q1 & Q2 & Q3 & Q4 & Q5 & Q6 & Q7 & Q8 & Q9 & Q10).
  rewrite Q6 in P. cbn [fst] in P.
  exists s, ty, pf, a, k. rewrite P in Q10. rewrite P, S. repeat split; auto; try lia.
Qed.

(* C11_hyp_windows: the transport the repaired HypPciTransport::new returns.  For EVERY configuration space
   (reference function in any state satisfying fn_ok), every capability list, every bar / offset / length /
   multiplier, both profiles: the PCI function is unchanged; the capability walk terminated; the device id
   is a known one; the structures are the specification's selection (the FIRST usable capability of each
   type); the multiplier is even and is the selected notify capability's; every region has the length of
   its structure; and every structure that names a well-formed BAR satisfies hregion_spec *)
Theorem hyp_new_windows m d t s :
  fn_ok d ->
  hyp_new FIXED m d = (HNOk t, s) ->
  let rd := cfg_read d in
  let f := spec_found rd (map cap_off (fst (capabilities 65 rd))) in
  n_fn s = d
  /\ snd (capabilities 65 rd) = true
  /\ w16 (rdw rd 0) = VIRTIO_VENDOR_ID
  /\ device_type (w16 (N.shiftr (rdw rd 0) 16)) = Some (ht_devtype t)
  /\ exists ic inn ii,
      fd_common f = Some ic /\ fd_notify f = Some inn /\ fd_isr f = Some ii
      /\ fd_mult f mod 2 = 0 /\ ht_mult t = fd_mult f
      /\ r_size (ht_common t) = ci_len ic /\ r_size (ht_notify t) = ci_len inn /\ r_size (ht_isr t) = ci_len ii
      /\ COMMON_SIZE <= r_size (ht_common t) /\ 2 <= r_size (ht_notify t) /\ 1 <= r_size (ht_isr t)
      /\ (names_bar d ic -> hregion_spec d ic COMMON_SIZE COMMON_ALIGN (ht_common t))
      /\ (names_bar d inn -> hregion_spec d inn 2 2 (ht_notify t))
      /\ (names_bar d ii -> hregion_spec d ii 1 1 (ht_isr t))
      /\ match fd_device f with
         | None => ht_cfg t = None
         | Some idv => exists r, ht_cfg t = Some r /\ r_size r = ci_len idv /\ 4 <= r_size r
                                 /\ (names_bar d idv -> hregion_spec d idv 4 4 r)
         end.
Proof.
  intros Hok H. cbv zeta.
  destruct (hyp_new_refines m d Hok) as (R1 & R2 & _). rewrite H in R1, R2. cbn [fst snd] in R1, R2.
  split; [exact R2|]. clear R2 H. symmetry in R1. revert R1.
  unfold hyp_new_pure. cbv zeta.
  destruct (w16 (rdw (cfg_read d) 0) =? VIRTIO_VENDOR_ID) eqn:Ev; cbn [negb]; [|discriminate].
  destruct (device_type (w16 (N.shiftr (rdw (cfg_read d) 0) 16))) as [dt|] eqn:Edt; [|discriminate].
  destruct (snd (capabilities 65 (cfg_read d))) eqn:Efin; cbn [negb]; [|discriminate].
  set (f := spec_found (cfg_read d) (map cap_off (fst (capabilities 65 (cfg_read d))))).
  destruct (spec_found_bars (cfg_read d) (map cap_off (fst (capabilities 65 (cfg_read d))))) as (B1 & B2 & B3 & B4).
  fold f in B1, B2, B3, B4. clearbody f.
  destruct (fd_common f) as [ic|] eqn:Ec; [|discriminate].
  destruct (hyp_win m d ic COMMON_SIZE COMMON_ALIGN) as [cr|c p q|] eqn:W0; try discriminate.
  destruct (fd_notify f) as [inn|] eqn:En; [|discriminate].
  destruct (fd_mult f mod 2 =? 0) eqn:Em; cbn [negb]; [|discriminate].
  destruct (hyp_win m d inn 2 2) as [nr|c p q|] eqn:W1; try discriminate.
  destruct (fd_isr f) as [ii|] eqn:Ei; [|discriminate].
  destruct (hyp_win m d ii 1 1) as [ir|c p q|] eqn:W2; try discriminate.
  specialize (B1 ic eq_refl). specialize (B2 inn eq_refl). specialize (B3 ii eq_refl).
  pose proof (hyp_win_sound m d ic _ _ cr B1 W0) as (K0 & _ & S0).
  pose proof (hyp_win_sound m d inn _ _ nr B2 W1) as (K1 & _ & S1).
  pose proof (hyp_win_sound m d ii _ _ ir B3 W2) as (K2 & _ & S2).
  apply N.eqb_eq in Ev, Em.
  assert (N0 : COMMON_SIZE <= r_size cr).
  { destruct K0 as (_ & ty & pf & a & b & _ & _ & _ & Hn & _). lia. }
  assert (N1 : 2 <= r_size nr).
  { destruct K1 as (_ & ty & pf & a & b & _ & _ & _ & Hn & _). lia. }
  assert (N2 : 1 <= r_size ir).
  { destruct K2 as (_ & ty & pf & a & b & _ & _ & _ & Hn & _). lia. }
  destruct (fd_device f) as [idv|] eqn:Ed.
  - destruct (hyp_win m d idv 4 4) as [dr|c p q|] eqn:W3; try discriminate.
    specialize (B4 idv eq_refl).
    pose proof (hyp_win_sound m d idv _ _ dr B4 W3) as (K3 & _ & S3).
    assert (N3 : 4 <= r_size dr).
    { destruct K3 as (_ & ty & pf & a & b & _ & _ & _ & Hn & _). lia. }
    intros R. inversion R; subst t. cbn [ht_devtype ht_common ht_notify ht_mult ht_isr ht_cfg].
    split; [reflexivity|]. split; [exact Ev|]. split; [reflexivity|].
    exists ic, inn, ii. repeat (split; [solve [auto]|]).
    split; [intros Hn; apply (hyp_win_spec m d ic); auto; reflexivity|].
    split; [intros Hn; apply (hyp_win_spec m d inn); auto; reflexivity|].
    split; [intros Hn; apply (hyp_win_spec m d ii); auto; reflexivity|].
    exists dr. repeat split; auto. intros Hn; apply (hyp_win_spec m d idv); auto; reflexivity.
  - intros R. inversion R; subst t. cbn [ht_devtype ht_common ht_notify ht_mult ht_isr ht_cfg].
    split; [reflexivity|]. split; [exact Ev|]. split; [reflexivity|].
    exists ic, inn, ii. repeat (split; [solve [auto]|]).
    split; [intros Hn; apply (hyp_win_spec m d ic); auto; reflexivity|].
    split; [intros Hn; apply (hyp_win_spec m d inn); auto; reflexivity|].
    split; [intros Hn; apply (hyp_win_spec m d ii); auto; reflexivity|].
    reflexivity.
Qed.

(* "either fails with an error or yields ...": when every selected structure names a well-formed BAR the
   repaired `new` never panics, in either profile, whatever offsets, lengths and multiplier; it does not
   terminate only on a cyclic capability list *)
Definition hclass (r : hnres) : N := match r with HNOk _ => 0 | HNErr _ _ _ => 1 | HNPanic => 2 | HNDiverge => 4 end.
Lemma hyp_of_class r : hclass (hyp_of r) = rc_of_n (fst r).
Proof. unfold hyp_of. destruct (fst r); reflexivity. Qed.

Theorem hyp_new_total m d :
  fn_ok d ->
  (forall c, selected (spec_found (cfg_read d) (map cap_off (fst (capabilities 65 (cfg_read d))))) c -> names_bar d c) ->
  match fst (hyp_new FIXED m d) with
  | HNOk _ | HNErr _ _ _ => True
  | HNDiverge => snd (capabilities 65 (cfg_read d)) = false
  | HNPanic => False
  end.
Proof.
  intros Hok Hnb. destruct (hyp_new_refines m d Hok) as (R1 & _). rewrite R1, hyp_new_is_pci_new.
  set (f := spec_found (cfg_read d) (map cap_off (fst (capabilities 65 (cfg_read d))))) in *.
  pose proof (new_total m d (pv m d (fd_common f)) (pv m d (fd_notify f)) (pv m d (fd_isr f)) (pv m d (fd_device f)) Hok Hnb) as T.
  destruct (new_refines m d (pv m d (fd_common f)) (pv m d (fd_notify f)) (pv m d (fd_isr f)) (pv m d (fd_device f)) Hok) as (Q1 & _).
  rewrite Q1 in T. unfold hyp_of.
  destruct (fst (new_pure m d _ _ _ _)); auto.
Qed.

(* ---- the `new` monitor (kind 1132) holds of the model ---- *)
Definition hregs_of (r : hnres) : list (N * N) :=
  match r with
  | HNOk t => [(r_paddr (ht_common t), r_size (ht_common t)); (r_paddr (ht_notify t), r_size (ht_notify t));
               (r_paddr (ht_isr t), r_size (ht_isr t))]
              ++ match ht_cfg t with Some r => [(r_paddr r, r_size r)] | None => [] end
  | _ => []
  end.
Definition hmult_of (r : hnres) : N := match r with HNOk t => ht_mult t | _ => 0 end.

Lemma hyp_conform_of_pci_ok d mult regs :
  new_conform_b d 0 (map (fun r => (fst r, snd r, fst r)) regs) = true ->
  (snd (capabilities 65 (cfg_read d)) = true ->
   mult = fd_mult (spec_found (cfg_read d) (map cap_off (fst (capabilities 65 (cfg_read d)))))) ->
  hyp_new_conform_b d 0 mult regs = true.
Proof.
  unfold new_conform_b, hyp_new_conform_b. cbv zeta.
  destruct (capabilities 65 (cfg_read d)) as [caps fin]. cbn [fst snd].
  destruct fin; cbn [negb]; [|reflexivity].
  change (map (fun c => fst (fst c)) caps) with (map cap_off caps).
  intros H Hm. rewrite (Hm eq_refl), N.eqb_refl. rewrite lenN_map in H.
  cbn [N.eqb N.ltb N.compare andb] in *.
  repeat (apply andb_prop in H; destruct H as [H ?]).
  repeat match goal with K : _ = true |- _ => rewrite K; clear K end. rewrite ?N.eqb_refl. reflexivity.
Qed.
Lemma hyp_conform_of_pci_refused d rc l mult :
  new_conform_b d rc l = true -> rc <> 0 -> hyp_new_conform_b d rc mult [] = true.
Proof.
  unfold new_conform_b, hyp_new_conform_b. cbv zeta.
  destruct (capabilities 65 (cfg_read d)) as [caps fin]. cbn [fst snd].
  destruct fin; cbn [negb]; [|reflexivity].
  intros H Hrc. apply andb_prop in H. destruct H as [H _]. rewrite H.
  replace (rc =? 0) with false by lia. reflexivity.
Qed.

Theorem hyp_new_conforms m d :
  fn_ok d -> kinds_honest d ->
  (forall c, selected (spec_found (cfg_read d) (map cap_off (fst (capabilities 65 (cfg_read d))))) c ->
             exists tr, slot_truth (f_bars d) (ci_bar c) = Some tr) ->
  let r := fst (hyp_new FIXED m d) in
  hyp_new_conform_b d (hclass r) (hmult_of r) (hregs_of r) = true.
Proof.
  intros Hok Hk Hsel. cbv zeta. destruct (hyp_new_refines m d Hok) as (R1 & _). rewrite R1, hyp_new_is_pci_new.
  set (f := spec_found (cfg_read d) (map cap_off (fst (capabilities 65 (cfg_read d))))) in *.
  set (v0 := pv m d (fd_common f)). set (v1 := pv m d (fd_notify f)).
  set (v2 := pv m d (fd_isr f)). set (v3 := pv m d (fd_device f)).
  pose proof (new_conforms m d v0 v1 v2 v3 Hok Hk Hsel) as C.
  destruct (new_refines m d v0 v1 v2 v3 Hok) as (Q1 & Q2 & _). rewrite Q1, Q2 in C. clear Q1 Q2.
  destruct (new_pure m d v0 v1 v2 v3) as [res rq] eqn:Ep. cbn [fst snd] in C.
  destruct res as [t|c p q| |].
  - (* a transport *)
    pose proof Ep as Ew. apply new_pure_windows in Ew. cbv zeta in Ew. fold f in Ew.
    destruct Ew as (Hfin & _ & _ & ic & inn & ii & Ec & En & Ei & Hm & _ & _ & _ & T1 & T2 & _ & T4 & T5 & Hd).
    unfold hyp_of. cbn [fst snd hclass hmult_of hregs_of ht_common ht_notify ht_isr ht_cfg ht_mult r_paddr r_size].
    cbn [rc_of_n] in C.
    assert (V0 : v0 = fst (req_of m d ic)) by (unfold v0; rewrite Ec; reflexivity).
    assert (V1 : v1 = fst (req_of m d inn)) by (unfold v1; rewrite En; reflexivity).
    assert (V2 : v2 = fst (req_of m d ii)) by (unfold v2; rewrite Ei; reflexivity).
    apply hyp_conform_of_pci_ok; [|intros _; exact T4].
    destruct (fd_device f) as [idv|] eqn:Ed.
    + destruct Hd as (_ & T6 & ->). rewrite T6.
      assert (V3 : v3 = fst (req_of m d idv)) by (unfold v3; reflexivity).
      cbn [nth snd app map fst]. rewrite T1, T2, T5.
      unfold zipv in C. cbn [combine map fst snd] in C.
      rewrite V0, V1, V2, V3 in *. exact C.
    + destruct Hd as (T6 & ->). rewrite T6.
      cbn [nth snd app map fst]. rewrite T1, T2, T5.
      unfold zipv in C. cbn [combine map fst snd] in C.
      rewrite V0, V1, V2 in *. exact C.
  - unfold hyp_of. cbn [fst hclass hmult_of hregs_of]. apply (hyp_conform_of_pci_refused d 1 _ 0 C). discriminate.
  - unfold hyp_of. cbn [fst hclass hmult_of hregs_of]. apply (hyp_conform_of_pci_refused d 2 _ 0 C). discriminate.
  - unfold hyp_of. cbn [fst hclass hmult_of hregs_of]. apply (hyp_conform_of_pci_refused d 4 _ 0 C). discriminate.
Qed.

(* ---- witnesses: non-vacuity, and the code as found (PREFIX: none of the three repairs) refuted ---- *)
Definition wit_t (common : hregion) (isr : hregion) : htrans :=
  mkHT 2 common (mkHR 0xfe003000 0x100) 4 isr None.
Definition wit_t_good : htrans := wit_t (mkHR 0xfe000000 0x38) (mkHR 0xfe001000 1).

(* the theorems are not vacuous: a transport, its three regions inside BAR0 = [0xfe000000, + 0x4000), the
   function untouched, its structures name a well-formed BAR *)
Example hyp_new_nonvacuous :
  fst (hyp_new FIXED Debug wit_good) = HNOk wit_t_good
  /\ fst (hyp_new FIXED Release wit_good) = HNOk wit_t_good
  /\ n_fn (snd (hyp_new FIXED Debug wit_good)) = wit_good
  /\ names_bar wit_good (mkCap 0 0 0x38)
  /\ hyp_new_conform_b wit_good 0 4 (hregs_of (HNOk wit_t_good)) = true.
Proof.
  split; [vm_compute; reflexivity|]. split; [vm_compute; reflexivity|]. split; [vm_compute; reflexivity|].
  split; [exact (proj2 (proj2 (proj2 new_nonvacuous)))|]. vm_compute. reflexivity.
Qed.

(* F19 through the whole of `new`: offset 0xfffffff0 + length 0x48 wraps to 0x38 in u32: release = a
   transport whose common region starts 4 GiB beyond the 16 KiB BAR; debug = a panic; the monitor rejects
   both; the repaired code refuses with BarOffsetOutOfRange *)
Theorem hyp_new_prefix_refuted_sum :
  fst (hyp_new PREFIX Release wit_f4) = HNOk (wit_t (mkHR 0x1fdfffff0 0x48) (mkHR 0xfe001000 1))
  /\ ~ (0x1fdfffff0 + 0x48 <= 0xfe000000 + 0x4000)
  /\ fst (hyp_new PREFIX Debug wit_f4) = HNPanic
  /\ hyp_new_conform_b wit_f4 0 4 (hregs_of (HNOk (wit_t (mkHR 0x1fdfffff0 0x48) (mkHR 0xfe001000 1)))) = false
  /\ hyp_new_conform_b wit_f4 2 0 [] = false
  /\ fst (hyp_new FIXED Release wit_f4) = HNErr PE_BarOffsetOutOfRange 0 0
  /\ fst (hyp_new FIXED Debug wit_f4) = HNErr PE_BarOffsetOutOfRange 0 0
  /\ fst (hyp_new FX_F4 Release wit_f4) = fst (hyp_new PREFIX Release wit_f4).
Proof. vm_compute. repeat split; try reflexivity. intros H; exact (H eq_refl). Qed.

(* F20: a structure with a reserved bar value is not ignored.  bar = 8 names the register at 0x30 (the
   expansion ROM base address register): it is sized like a BAR and the ISR region is taken from it
   (0xfebd0008, in no BAR); bar = 60 makes BAR0_OFFSET + 4 * bar_index overflow u8 (debug: panic) *)
Theorem hyp_new_prefix_refuted_bar :
  fst (hyp_new PREFIX Release (wit_f13 8)) = HNOk (wit_t (mkHR 0xfe000000 0x38) (mkHR 0xfebd0008 1))
  /\ fst (hyp_new PREFIX Debug (wit_f13 60)) = HNPanic
  /\ hyp_new_conform_b (wit_f13 8) 0 4 (hregs_of (HNOk (wit_t (mkHR 0xfe000000 0x38) (mkHR 0xfebd0008 1)))) = false
  /\ fst (hyp_new FIXED Debug (wit_f13 8)) = HNErr PE_MissingIsrConfig 0 0
  /\ fst (hyp_new FIXED Debug (wit_f13 60)) = HNErr PE_MissingIsrConfig 0 0
  /\ fst (hyp_new FX_F13 Release (wit_f13 8)) = fst (hyp_new PREFIX Release (wit_f13 8)).
Proof. vm_compute. repeat split. Qed.

(* F21: a vendor capability at 0xf4 claiming 16 bytes: capability.offset + CAP_LENGTH_OFFSET = 0x100
   overflows u8 (debug: panic; release: the length is read from register 0 and the structure refused with
   BarOffsetOutOfRange although the function has a perfectly good set of structures behind it) *)
Theorem hyp_new_prefix_refuted_overrun :
  fst (hyp_new PREFIX Debug wit_f14) = HNPanic
  /\ fst (hyp_new PREFIX Release wit_f14) = HNErr PE_BarOffsetOutOfRange 0 0
  /\ hyp_new_conform_b wit_f14 2 0 [] = false
  /\ fst (hyp_new FIXED Debug wit_f14) = HNOk wit_t_good
  /\ fst (hyp_new FIXED Release wit_f14) = HNOk wit_t_good
  /\ fst (hyp_new FX_F14 Debug wit_f14) = fst (hyp_new PREFIX Debug wit_f14).
Proof. vm_compute. repeat split. Qed.

(* what IS true of the code as found: its loop body is Model.Pci.scan_cap PREFIX, which coincides with the
   repaired one on every capability inside configuration space with bar <= 5 (C11_scan_cap_prefix_partial),
   and its bounds check coincides with the repaired one whenever offset + length < 2^32
   (hyp_region_prefix_partial) *)

(* remark: align_of::<CommonCfg>() = 8, tested on the PHYSICAL address: a common structure at offset 4 of
   the BAR is refused with Misaligned { address: 0xfe000004, alignment: 8 } *)
Example hyp_common_at_offset_4_refused :
  fst (hyp_new FIXED Debug (wit_fn (wit_caps 4 0x38 0))) = HNErr PE_Misaligned 0xfe000004 8.
Proof. vm_compute. reflexivity. Qed.

(* ===================== 3. the operations ===================== *)
(* a region that lies inside the 64-bit physical address space (every region of hregion_spec) *)
Definition region_fits (r : hregion) : Prop := r_paddr r + r_size r <= two64 /\ r_size r < two64.
(* the regions of a transport as `new` leaves them *)
Definition regions_ok (t : htrans) : Prop :=
  COMMON_SIZE <= r_size (ht_common t) /\ region_fits (ht_common t)
  /\ region_fits (ht_notify t)
  /\ 1 <= r_size (ht_isr t) /\ region_fits (ht_isr t)
  /\ ht_mult t mod 2 = 0 /\ ht_mult t < two32.

(* HypIoRegion::read / write inside the region: the two assertions hold and the hypercall goes to
   paddr + offset, no wrap *)
Lemma hio_ok m wr r off s v :
  region_fits r -> off + s <= r_size r -> 0 < s <= 8 ->
  hio m wr r off s v = Some (mkM wr (r_paddr r + off) s v).
Proof.
  intros (Hf & Hs) Ho H8. unfold hio, hyp_add_usize, add_u64. unfold two64 in *.
  rewrite (add_w_small _ m off s) by lia.
  replace (off + s <=? r_size r) with true by lia. replace (s <=? HYP_IO_MAX) with true by (unfold HYP_IO_MAX; lia).
  cbn [negb]. rewrite (add_w_small _ m (r_paddr r) off) by lia. reflexivity.
Qed.
(* ... outside: the first assertion fails (no overflow of offset + size below 2^64) *)
Lemma hio_out m wr r off s v :
  off + s < two64 -> r_size r < off + s -> hio m wr r off s v = None.
Proof.
  intros Hlt Ho. unfold hio, hyp_add_usize, add_u64. unfold two64 in *. rewrite (add_w_small _ m off s) by lia.
  replace (off + s <=? r_size r) with false by lia. reflexivity.
Qed.

(* the same transport with the PCI transport's representation: pointers = physical addresses, the notify
   window as length / 2 sixteen-bit elements *)
Definition pt_of (t : htrans) : ptrans :=
  mkT (ht_devtype t) (r_paddr (ht_common t)) (r_paddr (ht_notify t)) (r_size (ht_notify t) / 2) (ht_mult t)
      (r_paddr (ht_isr t)) None.

Lemma ans16_lt ans k : ans16 ans k < two16.
Proof. unfold ans16, w16, two16. apply N.mod_lt. discriminate. Qed.

Ltac hio_all Hc :=
  unfold hfin; cbn [hrun];
  repeat (rewrite (hio_ok _ _ _ _ _ _ Hc) by
            (unfold c_device_feature_select, c_device_feature, c_driver_feature_select, c_driver_feature,
               c_device_status, c_queue_select, c_queue_size, c_queue_enable, c_queue_notify_off, c_queue_desc,
               c_queue_driver, c_queue_device, c_config_generation, COMMON_SIZE in *; lia)).

(* C11 (hypercall transport): every method except ack_interrupt (from_bits_truncate instead of _retain) and
   drop (no Drop impl) performs exactly the accesses of the PCI transport, at the physical addresses, with
   the same result; the assertion of HypIoRegion::write refuses a notification exactly when the slice
   index of the PCI transport does *)
Theorem hexec_eq_exec m t o ans :
  regions_ok t ->
  match o with OAckInterrupt | ODrop => False | _ => True end ->
  hexec m t o ans = exec m (pt_of t) o ans.
Proof.
  intros (Hlc & Hc & Hn & Hli & Hi & Hmul & Hm32) Ho.
  destruct o; try contradiction; cbn [hexec exec pt_of t_common t_notify t_notify_len t_mult t_isr t_devtype];
    try reflexivity; try (hio_all Hc; reflexivity).
  - (* read_device_features: hi << 32 | lo *)
    hio_all Hc. rewrite N.lor_comm. reflexivity.
  - (* notify *)
    set (off := ans16 ans 0). pose proof (ans16_lt ans 0) as Hoff. fold off in Hoff.
    pose proof (notify_index off (ht_mult t) Hmul) as Hix.
    assert (Hb : off * ht_mult t + 2 < two64).
    { assert (off * ht_mult t <= 65535 * 4294967295) by (apply N.mul_le_mono; unfold two16, two32 in *; lia).
      unfold two64. lia. }
    unfold hfin. cbn [hrun].
    rewrite (hio_ok m true (ht_common t) c_queue_select 2 queue Hc) by (unfold c_queue_select, COMMON_SIZE in *; lia).
    rewrite (hio_ok m false (ht_common t) c_queue_notify_off 2 off Hc) by (unfold c_queue_notify_off, COMMON_SIZE in *; lia).
    destruct (N.le_gt_cases (off * ht_mult t + 2) (r_size (ht_notify t))) as [Hin|Hout].
    + rewrite (hio_ok m true (ht_notify t) (off * ht_mult t) 2 queue Hn Hin) by lia.
      replace (off * ht_mult t / 2 <? r_size (ht_notify t) / 2) with true by lia.
      rewrite Hix. reflexivity.
    + rewrite (hio_out m true (ht_notify t) (off * ht_mult t) 2 queue Hb) by lia.
      replace (off * ht_mult t / 2 <? r_size (ht_notify t) / 2) with false by lia.
      reflexivity.
Qed.

(* the monitor predicate applied to what the model does *)
Definition hconforms (m : mode) (t : htrans) (o : op) (ans : list N) : bool :=
  match op_args o with
  | [a1; a2; a3; a4; a5] =>
      hyp_conform_b (hwins t) (op_code o) a1 a2 a3 a4 a5
        (rc_of (fst (hexec m t o ans))) (rv_of (fst (hexec m t o ans))) (snd (hexec m t o ans))
  | _ => false
  end.

Lemma hwins_pt t : hwins t = wins_of (pt_of t) (r_size (ht_common t)) (r_size (ht_notify t)) (r_size (ht_isr t)).
Proof. reflexivity. Qed.
Lemma regions_wins_ok t : regions_ok t ->
  wins_ok (pt_of t) (r_size (ht_common t)) (r_size (ht_notify t)) (r_size (ht_isr t)).
Proof.
  intros (Hlc & _ & _ & Hli & _ & Hmul & _). unfold wins_ok, pt_of. cbn [t_notify_len t_mult].
  repeat split; auto. lia.
Qed.

Local Arguments N.modulo : simpl never.
Local Arguments N.mul : simpl never.
Local Arguments N.add : simpl never.
Local Arguments N.land : simpl never.

Lemma hconf_ack m t ans : regions_ok t -> hconforms m t OAckInterrupt ans = true.
Proof.
  intros (Hlc & Hc & Hn & Hli & Hi & Hmul & Hm32).
  unfold hconforms. cbn [op_args op_code hexec]. unfold hfin. cbn [hrun].
  rewrite (hio_ok m false (ht_isr t) 0 1 (ans8 ans 0) Hi) by lia. rewrite N.add_0_r.
  cbn [fst snd rc_of rv_of]. unfold hyp_conform_b. cbn [N.eqb Pos.eqb].
  set (a := ans8 ans 0). clearbody a.
  set (x := mkM false (r_paddr (ht_isr t)) 1 a).
  assert (Hx : acc_isr_b (hwins t) x = true).
  { unfold acc_isr_b, in_window, hwins, x. cbn [w_isr w_isr_len m_addr m_width m_write].
    rewrite !N.eqb_refl. replace (r_paddr (ht_isr t) <=? r_paddr (ht_isr t)) with true by lia.
    replace (r_paddr (ht_isr t) + 1 <=? r_paddr (ht_isr t) + r_size (ht_isr t)) with true by lia. reflexivity. }
  unfold table_ok, acc_ok, allowed_b. cbn [forallb]. rewrite Hx. rewrite !orb_true_r.
  cbn [m_val x N.eqb Pos.eqb andb]. rewrite N.eqb_refl. reflexivity.
Qed.

(* every method: hyp_conform_b (every hypercall inside one of the three regions, at a field of the common
   structure with the field's width and a permitted direction / a 16-bit write in the notify region / a read
   of the ISR byte; only the fields the operation may touch; queue_select written with the operation's queue
   before any per-queue field; queue_enable := 1 last, after size and the three addresses; the per-operation
   values; notify at queue_notify_off * multiplier or refused (a panic) without any access outside the common
   structure; drop: nothing) holds of the model *)
Theorem hyp_ops_conform m t o ans :
  regions_ok t -> args_in_range o -> hconforms m t o ans = true.
Proof.
  intros Hr Ha.
  assert (G : match o with OAckInterrupt | ODrop => False | _ => True end -> hconforms m t o ans = true).
  { intros Ho. unfold hconforms. rewrite (hexec_eq_exec m t o ans Hr Ho).
    pose proof (ops_conform m (pt_of t) _ _ _ o ans (regions_wins_ok t Hr) Ha) as C.
    unfold conforms in C. rewrite <- hwins_pt in C.
    destruct o; try contradiction; cbn [op_args op_code] in *; unfold hyp_conform_b; cbn [N.eqb Pos.eqb]; exact C. }
  destruct o; try (apply G; exact I).
  - apply hconf_ack; exact Hr.
  - reflexivity.
Qed.

(* every hypercall of every method lies inside one of the regions, with the right width and direction *)
Theorem hyp_ops_inside m t o ans :
  regions_ok t -> args_in_range o -> table_ok (hwins t) (snd (hexec m t o ans)) = true.
Proof.
  intros Hr Ha. pose proof (hyp_ops_conform m t o ans Hr Ha) as H. unfold hconforms in H.
  destruct o; cbn [op_args op_code] in H; unfold hyp_conform_b in H; cbn [N.eqb Pos.eqb] in H;
    try (unfold pci_conform_b in H; do 5 (apply andb_prop in H; destruct H as [H ?]); exact H).
  - do 3 (apply andb_prop in H; destruct H as [H ?]). exact H.
  - reflexivity.
Qed.

(* read_config_generation, repaired: ONE read of the config_generation byte, widened *)
Theorem hyp_gen_conform m t ans :
  regions_ok t ->
  hyp_read_gen HFIXED m t ans = (Ok (ans8 ans 0), [MR (r_paddr (ht_common t) + 21) 1 (ans8 ans 0)])
  /\ hyp_conform_b (hwins t) 13 0 0 0 0 0 0 (ans8 ans 0) [MR (r_paddr (ht_common t) + 21) 1 (ans8 ans 0)] = true.
Proof.
  intros (Hlc & Hc & _). split.
  - unfold hyp_read_gen. cbn [hx_gen8 HFIXED]. hio_all Hc. reflexivity.
  - unfold hyp_conform_b. cbn [N.eqb Pos.eqb]. set (a := ans8 ans 0). clearbody a.
    unfold table_ok, acc_ok, hwins, MR. cbn [forallb].
    rewrite (acc_common_at (r_paddr (ht_common t)) _ _ _ _ _ _ false 21 1 a Hlc) by (unfold COMMON_SIZE; lia).
    unfold is_cr, at_c, S_config_generation. cbn [w_common m_write m_addr m_val negb andb orb clookup find common_table cr_off N.eqb Pos.eqb cr_width cr_dir dir_ok].
    rewrite !N.eqb_refl. reflexivity.
Qed.

(* F22: read_config_generation as found: a FOUR-byte read at offset 21 (config_generation, queue_select and
   the low byte of queue_size), returned whole; no register of 4.1.4.3 is four bytes wide at offset 21:
   the table monitor rejects it, for every transport *)
Theorem hyp_gen_prefix_refuted m t ans :
  regions_ok t ->
  hyp_read_gen HPREFIX m t ans = (Ok (ans32 ans 0), [MR (r_paddr (ht_common t) + 21) 4 (ans32 ans 0)])
  /\ table_ok (hwins t) [MR (r_paddr (ht_common t) + 21) 4 (ans32 ans 0)] = false
  /\ hyp_conform_b (hwins t) 13 0 0 0 0 0 0 (ans32 ans 0) [MR (r_paddr (ht_common t) + 21) 4 (ans32 ans 0)] = false.
Proof.
  intros (Hlc & Hc & _).
  assert (T : table_ok (hwins t) [MR (r_paddr (ht_common t) + 21) 4 (ans32 ans 0)] = false).
  { set (a := ans32 ans 0). clearbody a. unfold table_ok, acc_ok, hwins, MR. cbn [forallb].
    rewrite (acc_common_at (r_paddr (ht_common t)) _ _ _ _ _ _ false 21 4 a Hlc) by (unfold COMMON_SIZE; lia).
    unfold acc_notify_b, acc_isr_b. cbn [m_write m_width negb andb orb clookup find common_table cr_off N.eqb Pos.eqb cr_width cr_dir].
    rewrite !andb_false_r. reflexivity. }
  split; [|split; [exact T|]].
  - unfold hyp_read_gen. cbn [hx_gen8 HPREFIX]. hio_all Hc. reflexivity.
  - unfold hyp_conform_b. cbn [N.eqb Pos.eqb]. rewrite T. reflexivity.
Qed.

(* ---- exact traces ---- *)
(* queue_set: queue_select, queue_size, queue_desc, queue_driver, queue_device (one 8-byte hypercall each),
   queue_enable := 1 last *)
Theorem hyp_queue_set_trace m t q size desc drv dev ans :
  regions_ok t ->
  let c := r_paddr (ht_common t) in
  hexec m t (OQueueSet q size desc drv dev) ans =
  (Ok 0, [MW (c + 22) 2 q; MW (c + 24) 2 (size mod 65536);
          MW (c + 32) 8 desc; MW (c + 40) 8 drv; MW (c + 48) 8 dev; MW (c + 28) 2 1]).
Proof.
  intros Hr. cbv zeta. rewrite (hexec_eq_exec m t (OQueueSet q size desc drv dev) ans Hr I). apply queue_set_trace.
Qed.

(* notify: queue_select := q, read queue_notify_off, then q written (2 bytes) at byte offset
   queue_notify_off * multiplier of the notify region, which lies inside it; otherwise a panic (the
   assertion of HypIoRegion::write) after the two accesses to the common structure and nothing else *)
Theorem hyp_notify_trace m t q ans :
  regions_ok t ->
  let c := r_paddr (ht_common t) in
  let off := ans16 ans 0 in
  let pre := [MW (c + 22) 2 q; MR (c + 30) 2 off] in
  (off * ht_mult t + 2 <= r_size (ht_notify t) ->
     hexec m t (ONotify q) ans = (Ok 0, pre ++ [MW (r_paddr (ht_notify t) + off * ht_mult t) 2 q]))
  /\ (r_size (ht_notify t) < off * ht_mult t + 2 -> hexec m t (ONotify q) ans = (Panic, pre)).
Proof.
  intros Hr. cbv zeta. rewrite (hexec_eq_exec m t (ONotify q) ans Hr I).
  destruct Hr as (_ & _ & _ & _ & _ & Hmul & _).
  destruct (notify_trace m (pt_of t) q ans Hmul) as [A B]. cbv zeta in A, B.
  cbn [pt_of t_mult t_notify_len t_common t_notify] in A, B. split; intros H; [apply A|apply B]; lia.
Qed.

(* only notify can refuse (panic): every other method returns *)
Theorem hyp_outcomes m t o ans :
  regions_ok t ->
  match fst (hexec m t o ans) with
  | Ok _ => True
  | Panic => exists q, o = ONotify q
  | _ => False
  end.
Proof.
  intros Hr.
  assert (G : match o with OAckInterrupt | ODrop => False | _ => True end ->
              match fst (hexec m t o ans) with Ok _ => True | Panic => exists q, o = ONotify q | _ => False end).
  { intros Ho. rewrite (hexec_eq_exec m t o ans Hr Ho). apply ops_outcomes. }
  destruct o; try (apply G; exact I).
  - pose proof (hconf_ack m t ans Hr) as H. unfold hconforms in H. cbn [op_args op_code] in H.
    unfold hyp_conform_b in H. cbn [N.eqb Pos.eqb] in H.
    destruct (fst (hexec m t OAckInterrupt ans)); cbn [rc_of] in H; auto;
      do 2 (apply andb_prop in H; destruct H as [H ?]); apply andb_prop in H; destruct H as [_ H]; discriminate.
  - exact I.
Qed.

(* HypPciTransport has no Drop impl: dropping it performs no hypercall; in particular the device is NOT
   reset (the `drop` clause of C11 is a statement about PciTransport only) *)
Theorem hyp_drop_silent m t ans : hexec m t ODrop ans = (Ok 0, []).
Proof. reflexivity. Qed.

(* SomeTransport::HypPci is the identity wrapper in the model; the tie to src/transport/some.rs is the
   harness, which runs a third of the scenarios through the wrapper *)
Theorem hyp_some_transport_delegates hx m t o ans s a off v :
  some_hexec m t o ans = hexec m t o ans
  /\ some_hyp_read_gen hx m t ans = hyp_read_gen hx m t ans
  /\ some_hyp_cfg_read m t s a off v = hyp_cfg_read m t s a off v
  /\ some_hyp_cfg_write m t s a off v = hyp_cfg_write m t s a off v.
Proof. repeat split. Qed.

(* ---- from `new` to the operations ---- *)
Lemma pbyte_at_lt rd a : PciSpec.byte_at rd a < 256.
Proof. unfold PciSpec.byte_at. apply N.mod_lt. discriminate. Qed.
Lemma le32_at_lt rd a : le32_at rd a < two32.
Proof.
  unfold le32_at, two32.
  pose proof (pbyte_at_lt rd a). pose proof (pbyte_at_lt rd (a + 1)).
  pose proof (pbyte_at_lt rd (a + 2)). pose proof (pbyte_at_lt rd (a + 3)). lia.
Qed.
Lemma spec_mult_lt rd offs : fd_mult (spec_found rd offs) < two32.
Proof.
  unfold spec_found. cbn [fd_mult]. destruct (select rd offs CFG_NOTIFY); [apply le32_at_lt|unfold two32; lia].
Qed.

Lemma hregion_spec_fits d c need al r : hregion_spec d c need al r -> region_fits r.
Proof.
  intros (s & ty & pf & a & k & _ & _ & _ & Ha & _ & _ & _ & Hle & Hin & Htop & _). unfold region_fits. lia.
Qed.

(* the regions of the transport the repaired `new` returns, when its three mandatory structures name
   well-formed BARs *)
Theorem hyp_new_regions_ok m d t s :
  fn_ok d -> hyp_new FIXED m d = (HNOk t, s) ->
  (forall c, selected (spec_found (cfg_read d) (map cap_off (fst (capabilities 65 (cfg_read d))))) c -> names_bar d c) ->
  regions_ok t.
Proof.
  intros Hok H Hnb. destruct (hyp_new_windows m d t s Hok H) as (_ & _ & _ & _ & ic & inn & ii & Ec & En & Ei & Hm & Tm & _ & _ & _ & N0 & N1 & N2 & W0 & W1 & W2 & _).
  cbv zeta in *.
  specialize (W0 (Hnb ic (or_introl Ec))). specialize (W1 (Hnb inn (or_intror (or_introl En)))).
  specialize (W2 (Hnb ii (or_intror (or_intror (or_introl Ei))))).
  unfold regions_ok. rewrite Tm.
  repeat split; eauto using hregion_spec_fits; try apply (hregion_spec_fits _ _ _ _ _ W0);
    try apply (hregion_spec_fits _ _ _ _ _ W1); try apply (hregion_spec_fits _ _ _ _ _ W2).
  apply spec_mult_lt.
Qed.

(* C11, both halves together: every method on the transport the repaired `new` returned issues only
   hypercalls that the monitor accepts for the regions `new` built *)
Theorem hyp_new_then_ops m d t s o ans :
  fn_ok d -> hyp_new FIXED m d = (HNOk t, s) ->
  (forall c, selected (spec_found (cfg_read d) (map cap_off (fst (capabilities 65 (cfg_read d))))) c -> names_bar d c) ->
  args_in_range o ->
  hconforms m t o ans = true /\ table_ok (hwins t) (snd (hexec m t o ans)) = true.
Proof.
  intros Hok H Hnb Ha. pose proof (hyp_new_regions_ok m d t s Hok H Hnb) as Hr.
  split; [apply hyp_ops_conform|apply hyp_ops_inside]; auto.
Qed.

(* ... and every such hypercall lies, as natural numbers, inside the allocated memory BAR of the structure
   it belongs to: the statement monitor 1142 evaluates with the harness's own knowledge of the BARs *)
Definition in_bar (d : pcifn) (c : capinfo) (x : macc) : Prop :=
  exists s ty pf a k, spec_ok s /\ placed d (ci_bar c) s /\ spec_truth s = Some (BarMem ty pf a (2 ^ k)) /\ a <> 0
                      /\ a <= m_addr x /\ m_addr x + m_width x <= a + 2 ^ k.
Lemma inside_in_bar d c need al r x :
  hregion_spec d c need al r -> inside (r_paddr r) (r_size r) x -> in_bar d c x.
Proof.
  intros (s & ty & pf & a & k & Q1 & Q2 & Q3 & Q4 & _ & _ & _ & Hle & Hin & _) (I1 & I2).
  exists s, ty, pf, a, k. repeat split; auto; lia.
Qed.
Theorem hyp_ops_in_bars m d t s o ans x :
  fn_ok d -> hyp_new FIXED m d = (HNOk t, s) ->
  (forall c, selected (spec_found (cfg_read d) (map cap_off (fst (capabilities 65 (cfg_read d))))) c -> names_bar d c) ->
  args_in_range o -> In x (snd (hexec m t o ans)) ->
  exists c, selected (spec_found (cfg_read d) (map cap_off (fst (capabilities 65 (cfg_read d))))) c /\ in_bar d c x.
Proof.
  intros Hok H Hnb Ha Hin.
  destruct (hyp_new_then_ops m d t s o ans Hok H Hnb Ha) as (_ & T).
  destruct (hyp_new_windows m d t s Hok H) as (_ & _ & _ & _ & ic & inn & ii & Ec & En & Ei & _ & _ & _ & _ & _ & _ & _ & _ & W0 & W1 & W2 & _).
  cbv zeta in *.
  specialize (W0 (Hnb ic (or_introl Ec))). specialize (W1 (Hnb inn (or_intror (or_introl En)))).
  specialize (W2 (Hnb ii (or_intror (or_intror (or_introl Ei))))).
  destruct (table_ok_sound _ _ T x Hin) as [(I & _)|[(I & _)|(I & _)]]; cbn [hwins w_common w_common_len w_notify w_notify_len w_isr w_isr_len] in I.
  - exists ic. split; [left; exact Ec|]. eapply inside_in_bar; eauto.
  - exists inn. split; [right; left; exact En|]. eapply inside_in_bar; eauto.
  - exists ii. split; [right; right; left; exact Ei|]. eapply inside_in_bar; eauto.
Qed.

Example hyp_ops_nonvacuous :
  regions_ok wit_t_good
  /\ hexec Debug wit_t_good (ONotify 3) [0x3f] = (Ok 0, [MW 0xfe000016 2 3; MR 0xfe00001e 2 0x3f; MW 0xfe0030fc 2 3])
  /\ hexec Debug wit_t_good (ONotify 3) [0x40] = (Panic, [MW 0xfe000016 2 3; MR 0xfe00001e 2 0x40])
  /\ hexec Release wit_t_good OAckInterrupt [0xff] = (Ok 3, [MR 0xfe001000 1 0xff]).
Proof.
  split; [|vm_compute; repeat split].
  unfold regions_ok, region_fits. vm_compute. repeat split; intros; discriminate.
Qed.

(* ===================== 4. configuration access (C13) ===================== *)
(* the device-specific region as `new` leaves it: inside the 64-bit address space.  (A zero-sized T at
   offset = size of a region that ends exactly at 2^64 would make `paddr + offset` wrap; the side condition
   names that corner.) *)
Definition cfg_fits (t : htrans) (s : N) : Prop :=
  forall r, ht_cfg t = Some r -> region_fits r /\ (0 < s \/ r_paddr r + r_size r < two64).

Lemma hio_ok0 m wr r off s v :
  region_fits r -> off + s <= r_size r -> s <= 8 -> (0 < s \/ r_paddr r + r_size r < two64) ->
  hio m wr r off s v = Some (mkM wr (r_paddr r + off) s v).
Proof.
  intros (Hf & Hs) Ho H8 Hz. unfold hio, hyp_add_usize, add_u64. unfold two64 in *.
  rewrite (add_w_small _ m off s) by lia.
  replace (off + s <=? r_size r) with true by lia. replace (s <=? HYP_IO_MAX) with true by (unfold HYP_IO_MAX; lia).
  cbn [negb]. rewrite (add_w_small _ m (r_paddr r) off) by lia. reflexivity.
Qed.
Lemma hio_big m wr r off s v : off + s < two64 -> off + s <= r_size r -> 8 < s -> hio m wr r off s v = None.
Proof.
  intros Hlt Ho H8. unfold hio, hyp_add_usize, add_u64. unfold two64 in *. rewrite (add_w_small _ m off s) by lia.
  replace (off + s <=? r_size r) with true by lia. replace (s <=? HYP_IO_MAX) with false by (unfold HYP_IO_MAX; lia).
  reflexivity.
Qed.

(* C13 (hypercall transport), every outcome of read_config_space::<T>(offset), for every offset < 2^64,
   every size and alignment of T, every region: Ok iff offset + size <= region size AS NATURAL NUMBERS (and
   the documented assertions hold), in which case exactly ONE read hypercall of size_of::<T>() bytes at
   paddr + offset is issued, i.e. exactly the bytes [offset, offset + size) of the region are touched;
   otherwise ConfigSpaceTooSmall / ConfigSpaceMissing with NO hypercall; a panic (before any hypercall) only
   for align_of::<T>() > 4, a misaligned offset, or size_of::<T>() > 8 (assertion of HypIoRegion::read) *)
Theorem hyp_cfg_read_complete m t s a off ans :
  off < two64 -> cfg_fits t s ->
  hyp_cfg_read m t s a off ans =
  if 4 <? a then (Panic, [])
  else if negb (off mod a =? 0) then (Panic, [])
  else match ht_cfg t with
       | None => (Err EConfigSpaceMissing, [])
       | Some r =>
           if off + s <=? r_size r then
             if s <=? 8 then (Ok (cut s ans), [MR (r_paddr r + off) s (cut s ans)]) else (Panic, [])
           else (Err EConfigSpaceTooSmall, [])
       end.
Proof.
  intros Hoff Hfit. unfold hyp_cfg_read.
  destruct (4 <? a); [reflexivity|]. destruct (negb (off mod a =? 0)); [reflexivity|].
  destruct (ht_cfg t) as [r|] eqn:Ec; [|reflexivity]. destruct (Hfit r Ec) as ((Hf & Hs) & Hz).
  unfold hyp_checked_add. destruct (off + s <? two64) eqn:El.
  - destruct (N.leb_spec (off + s) (r_size r)) as [Hin|Hout].
    + replace (r_size r <? off + s) with false by lia. unfold hfin. cbn [hrun].
      destruct (N.leb_spec s 8) as [H8|H8].
      * rewrite (hio_ok0 m false r off s (cut s ans)) by (unfold region_fits; auto). reflexivity.
      * rewrite (hio_big m false r off s (cut s ans)) by lia. reflexivity.
    + replace (r_size r <? off + s) with true by lia. reflexivity.
  - replace (off + s <=? r_size r) with false by lia. reflexivity.
Qed.
Theorem hyp_cfg_write_complete m t s a off v :
  off < two64 -> cfg_fits t s ->
  hyp_cfg_write m t s a off v =
  if 4 <? a then (Panic, [])
  else if negb (off mod a =? 0) then (Panic, [])
  else match ht_cfg t with
       | None => (Err EConfigSpaceMissing, [])
       | Some r =>
           if off + s <=? r_size r then
             if s <=? 8 then (Ok 0, [MW (r_paddr r + off) s (cut s v)]) else (Panic, [])
           else (Err EConfigSpaceTooSmall, [])
       end.
Proof.
  intros Hoff Hfit. unfold hyp_cfg_write.
  destruct (4 <? a); [reflexivity|]. destruct (negb (off mod a =? 0)); [reflexivity|].
  destruct (ht_cfg t) as [r|] eqn:Ec; [|reflexivity]. destruct (Hfit r Ec) as ((Hf & Hs) & Hz).
  unfold hyp_checked_add. destruct (off + s <? two64) eqn:El.
  - destruct (N.leb_spec (off + s) (r_size r)) as [Hin|Hout].
    + replace (r_size r <? off + s) with false by lia. unfold hfin. cbn [hrun].
      destruct (N.leb_spec s 8) as [H8|H8].
      * rewrite (hio_ok0 m true r off s (cut s v)) by (unfold region_fits; auto). reflexivity.
      * rewrite (hio_big m true r off s (cut s v)) by lia. reflexivity.
    + replace (r_size r <? off + s) with true by lia. reflexivity.
  - replace (off + s <=? r_size r) with false by lia. reflexivity.
Qed.

(* the property in its own words *)
Theorem hyp_cfg_bounds m t s a off ans v r :
  off < two64 -> cfg_fits t s -> ht_cfg t = Some r ->
  (* succeeds only if wholly inside, and then touches exactly those bytes *)
  (forall x tr, hyp_cfg_read m t s a off ans = (Ok x, tr) ->
     off + s <= r_size r /\ tr = [MR (r_paddr r + off) s x] /\ x = cut s ans
     /\ r_paddr r <= r_paddr r + off /\ r_paddr r + off + s <= r_paddr r + r_size r)
  /\ (forall x tr, hyp_cfg_write m t s a off v = (Ok x, tr) ->
     off + s <= r_size r /\ tr = [MW (r_paddr r + off) s (cut s v)]
     /\ r_paddr r + off + s <= r_paddr r + r_size r)
  (* otherwise the error, and no hypercall *)
  /\ (r_size r < off + s -> a <= 4 -> off mod a = 0 ->
      hyp_cfg_read m t s a off ans = (Err EConfigSpaceTooSmall, [])
      /\ hyp_cfg_write m t s a off v = (Err EConfigSpaceTooSmall, []))
  (* inside, aligned, at most eight bytes: it does succeed *)
  /\ (off + s <= r_size r -> a <= 4 -> off mod a = 0 -> s <= 8 ->
      hyp_cfg_read m t s a off ans = (Ok (cut s ans), [MR (r_paddr r + off) s (cut s ans)])
      /\ hyp_cfg_write m t s a off v = (Ok 0, [MW (r_paddr r + off) s (cut s v)])).
Proof.
  intros Hoff Hfit Ec.
  rewrite (hyp_cfg_read_complete m t s a off ans Hoff Hfit), (hyp_cfg_write_complete m t s a off v Hoff Hfit), Ec.
  repeat split.
  - destruct (4 <? a); [discriminate|]. destruct (negb _); [discriminate|].
    destruct (N.leb_spec (off + s) (r_size r)); [|discriminate]. destruct (s <=? 8); [|discriminate].
    lia.
  - revert H. destruct (4 <? a); [discriminate|]. destruct (negb _); [discriminate|].
    destruct (off + s <=? r_size r); [|discriminate]. destruct (s <=? 8); [|discriminate].
    intros H; inversion H; reflexivity.
  - revert H. destruct (4 <? a); [discriminate|]. destruct (negb _); [discriminate|].
    destruct (off + s <=? r_size r); [|discriminate]. destruct (s <=? 8); [|discriminate].
    intros H; inversion H; reflexivity.
  - lia.
  - revert H. destruct (4 <? a); [discriminate|]. destruct (negb _); [discriminate|].
    destruct (N.leb_spec (off + s) (r_size r)); [|discriminate]. intros _. lia.
  - revert H. destruct (4 <? a); [discriminate|]. destruct (negb _); [discriminate|].
    destruct (N.leb_spec (off + s) (r_size r)); [|discriminate]. intros _. lia.
  - revert H. destruct (4 <? a); [discriminate|]. destruct (negb _); [discriminate|].
    destruct (off + s <=? r_size r); [|discriminate]. destruct (s <=? 8); [|discriminate].
    intros H; inversion H; reflexivity.
  - revert H. destruct (4 <? a); [discriminate|]. destruct (negb _); [discriminate|].
    destruct (N.leb_spec (off + s) (r_size r)); [|discriminate]. intros _. lia.
  - replace (4 <? a) with false by lia. replace (off mod a =? 0) with true by lia. cbn [negb].
    replace (off + s <=? r_size r) with false by lia. reflexivity.
  - replace (4 <? a) with false by lia. replace (off mod a =? 0) with true by lia. cbn [negb].
    replace (off + s <=? r_size r) with false by lia. reflexivity.
  - replace (4 <? a) with false by lia. replace (off mod a =? 0) with true by lia. cbn [negb].
    replace (off + s <=? r_size r) with true by lia. replace (s <=? 8) with true by lia. reflexivity.
  - replace (4 <? a) with false by lia. replace (off mod a =? 0) with true by lia. cbn [negb].
    replace (off + s <=? r_size r) with true by lia. replace (s <=? 8) with true by lia. reflexivity.
Qed.
(* no device-specific capability: ConfigSpaceMissing, no hypercall, whatever the offset *)
Theorem hyp_cfg_missing m t s a off ans v :
  ht_cfg t = None -> a <= 4 -> off mod a = 0 ->
  hyp_cfg_read m t s a off ans = (Err EConfigSpaceMissing, [])
  /\ hyp_cfg_write m t s a off v = (Err EConfigSpaceMissing, []).
Proof.
  intros Ec Ha Hm. unfold hyp_cfg_read, hyp_cfg_write. rewrite Ec.
  replace (4 <? a) with false by lia. replace (off mod a =? 0) with true by lia. split; reflexivity.
Qed.

(* the monitor (kind 1362) holds of the model, reads and writes *)
Definition cfg_present (t : htrans) : bool := match ht_cfg t with Some _ => true | None => false end.
Definition cfg_base (t : htrans) : N := match ht_cfg t with Some r => r_paddr r | None => 0 end.
Definition cfg_size (t : htrans) : N := match ht_cfg t with Some r => r_size r | None => 0 end.
Theorem hyp_cfg_conforms m t s a off ans v :
  off < two64 -> cfg_fits t s -> 0 < a ->
  let rr := hyp_cfg_read m t s a off ans in
  let rw := hyp_cfg_write m t s a off v in
  hyp_cfg_conform_b (cfg_present t) (cfg_base t) (cfg_size t) s a off false 0 (rc_of (fst rr)) (rv_of (fst rr)) (snd rr) = true
  /\ hyp_cfg_conform_b (cfg_present t) (cfg_base t) (cfg_size t) s a off true v (rc_of (fst rw)) (rv_of (fst rw)) (snd rw) = true.
Proof.
  intros Hoff Hfit Ha. cbv zeta.
  rewrite (hyp_cfg_read_complete m t s a off ans Hoff Hfit), (hyp_cfg_write_complete m t s a off v Hoff Hfit).
  unfold hyp_cfg_conform_b, cfg_present, cfg_base, cfg_size, HYP_IO_MAX.
  destruct (N.ltb_spec 4 a) as [H4|H4].
  { replace (a <=? 4) with false by lia. split; reflexivity. }
  replace (a <=? 4) with true by lia.
  destruct (off mod a =? 0) eqn:Em; cbn [negb andb]; [|split; reflexivity].
  destruct (ht_cfg t) as [r|]; [|split; reflexivity].
  destruct (N.leb_spec (off + s) (r_size r)) as [Hin|Hout]; cbn [andb].
  - destruct (N.leb_spec s 8) as [H8|H8]; cbn [fst snd rc_of rv_of N.eqb Pos.eqb andb].
    + unfold MR, MW. cbn [m_write m_addr m_width m_val Bool.eqb]. rewrite !N.eqb_refl. split; reflexivity.
    + replace (8 <? s) with true by lia. split; reflexivity.
  - cbn [fst snd rc_of rv_of N.eqb Pos.eqb andb is_nil]. split; reflexivity.
Qed.

(* ===================== 5. HypCam ===================== *)
(* read_word / write_word for a CAM that lies inside the physical address space: exactly one four-byte
   hypercall at phys_base + cam_offset, word-aligned within the CAM and wholly inside it; the requests that
   violate an assertion of cam_offset panic without a hypercall; distinct (bus, device, function, register)
   go to distinct addresses (C12_cam injectivity) *)
Theorem hyp_cam_spec m ecam base bus dev fn reg ans data :
  bus < 256 -> reg < 256 -> base + cam_size ecam <= two64 ->
  (dev < 32 -> fn < 8 -> reg mod 4 = 0 ->
     let off := (bus * 256 + dev * 8 + fn) * cam_shift ecam + reg in
     hyp_cam_read m ecam base bus dev fn reg ans = (Ok (w32 ans), [MR (base + off) 4 (w32 ans)])
     /\ hyp_cam_write m ecam base bus dev fn reg data = (Ok 0, [MW (base + off) 4 (w32 data)])
     /\ off mod 4 = 0 /\ base <= base + off /\ base + off + 4 <= base + cam_size ecam)
  /\ ((32 <= dev \/ 8 <= fn \/ reg mod 4 <> 0) ->
     hyp_cam_read m ecam base bus dev fn reg ans = (Panic, [])
     /\ hyp_cam_write m ecam base bus dev fn reg data = (Panic, [])).
Proof.
  intros Hb Hr Hbase. split.
  - intros Hd Hf Ha. cbv zeta.
    assert (Hr' : reg < cam_shift ecam) by (unfold cam_shift; destruct ecam; lia).
    destruct (cam_offset_ok ecam bus dev fn reg Hb Hd Hf Hr' Ha) as (E & Hlt & H4).
    unfold hyp_cam_read, hyp_cam_write. rewrite E.
    set (off := (bus * 256 + dev * 8 + fn) * cam_shift ecam + reg) in *.
    assert (Hsz : cam_size ecam mod 4 = 0) by (destruct ecam; reflexivity).
    unfold add_u64. rewrite (add_w_small _ m base off) by (unfold two64 in *; lia).
    repeat split; lia.
  - intros H. apply (cam_offset_refuses ecam bus dev fn reg Hb Hr) in H.
    unfold hyp_cam_read, hyp_cam_write. rewrite H. split; reflexivity.
Qed.

(* the monitor (kind 1151) holds of the model *)
Theorem hyp_cam_conforms m ecam base bus dev fn reg ans data :
  bus < 256 -> reg < 256 ->
  let rr := hyp_cam_read m ecam base bus dev fn reg ans in
  let rw := hyp_cam_write m ecam base bus dev fn reg data in
  hyp_cam_conform_b ecam base bus dev fn reg false 0 (rc_of (fst rr)) (rv_of (fst rr)) (snd rr) = true
  /\ hyp_cam_conform_b ecam base bus dev fn reg true (w32 data) (rc_of (fst rw)) (rv_of (fst rw)) (snd rw) = true.
Proof.
  intros Hb Hr. cbv zeta. unfold hyp_cam_conform_b.
  destruct (N.ltb_spec two64 (base + cam_size ecam)) as [Hw|Hbase]; [split; reflexivity|].
  destruct (N.lt_ge_cases dev 32) as [Hd|Hd];
    [destruct (N.lt_ge_cases fn 8) as [Hf|Hf]; [destruct (N.eq_dec (reg mod 4) 0) as [Ha|Ha]|]|].
  - destruct (hyp_cam_spec m ecam base bus dev fn reg ans data Hb Hr Hbase) as (S & _).
    destruct (S Hd Hf Ha) as (E1 & E2 & H4 & _ & Hin). cbv zeta in *. rewrite E1, E2.
    assert (Hr' : reg < cam_shift ecam) by (unfold cam_shift; destruct ecam; lia).
    destruct (cam_offset_ok ecam bus dev fn reg Hb Hd Hf Hr' Ha) as (E & Hlt & _). rewrite E.
    cbn [fst snd rc_of rv_of MR MW m_write m_addr m_width m_val Bool.eqb N.eqb Pos.eqb andb].
    rewrite !N.eqb_refl. cbn [andb].
    replace (_ <? cam_size ecam) with true by lia. replace (_ mod 4 =? 0) with true by lia. split; reflexivity.
  - destruct (hyp_cam_spec m ecam base bus dev fn reg ans data Hb Hr Hbase) as (_ & S).
    destruct (S (or_intror (or_intror Ha))) as (E1 & E2). rewrite E1, E2.
    rewrite (proj2 (cam_offset_refuses ecam bus dev fn reg Hb Hr) (or_intror (or_intror Ha))). split; reflexivity.
  - destruct (hyp_cam_spec m ecam base bus dev fn reg ans data Hb Hr Hbase) as (_ & S).
    destruct (S (or_intror (or_introl Hf))) as (E1 & E2). rewrite E1, E2.
    rewrite (proj2 (cam_offset_refuses ecam bus dev fn reg Hb Hr) (or_intror (or_introl Hf))). split; reflexivity.
  - destruct (hyp_cam_spec m ecam base bus dev fn reg ans data Hb Hr Hbase) as (_ & S).
    destruct (S (or_introl Hd)) as (E1 & E2). rewrite E1, E2.
    rewrite (proj2 (cam_offset_refuses ecam bus dev fn reg Hb Hr) (or_introl Hd)). split; reflexivity.
Qed.

Example hyp_cfg_nonvacuous :
  let t := mkHT 2 (mkHR 0xfe000000 0x38) (mkHR 0xfe003000 0x100) 4 (mkHR 0xfe001000 1) (Some (mkHR 0xfe002000 0x100)) in
  cfg_fits t 6
  /\ hyp_cfg_read Debug t 6 1 0xfa 0x1122334455667788 = (Ok 0x334455667788, [MR 0xfe0020fa 6 0x334455667788])
  /\ hyp_cfg_read Debug t 6 1 0xfb 0 = (Err EConfigSpaceTooSmall, [])
  /\ hyp_cfg_read Release t 4 4 0xfffffffffffffffc 0 = (Err EConfigSpaceTooSmall, [])
  /\ hyp_cfg_write Debug t 16 4 0 5 = (Panic, []).
Proof.
  cbv zeta. split; [|vm_compute; repeat split].
  intros r E. inversion E; subst r. unfold region_fits. vm_compute. repeat split; try discriminate. left; reflexivity.
Qed.

(* ===================== 6. C12: HypCam addresses configuration space uniquely ===================== *)
(* (a) the model: for EVERY base with base + window <= 2^64 (aligned to the window or not) a valid request is
   one hypercall at base + offset, the sum in N, inside [base, base + window), and the address determines the
   request (C12_cam: cam_offset_ok / cam_offset_injective); (b) what a true monitor 1257 means on ANY list of
   observations; (c) the monitor holds of the model. *)
Lemma cam_req_valid_spec o : cam_req_valid o = true <->
  co_bus o < 256 /\ co_dev o < 32 /\ co_fn o < 8 /\ co_reg o < 256 /\ co_reg o mod 4 = 0.
Proof. unfold cam_req_valid. rewrite !andb_true_iff, !N.ltb_lt, N.eqb_eq. tauto. Qed.

Lemma cam_stride_shift ecam : cam_stride ecam = cam_shift ecam.
Proof. reflexivity. Qed.

Theorem hyp_cam_injective m ecam base b1 d1 f1 r1 x1 b2 d2 f2 r2 x2 a1 a2 :
  base + cam_size ecam <= two64 ->
  b1 < 256 -> d1 < 32 -> f1 < 8 -> r1 < 256 -> r1 mod 4 = 0 ->
  b2 < 256 -> d2 < 32 -> f2 < 8 -> r2 < 256 -> r2 mod 4 = 0 ->
  In a1 (snd (hyp_cam_read m ecam base b1 d1 f1 r1 x1) ++ snd (hyp_cam_write m ecam base b1 d1 f1 r1 x1)) ->
  In a2 (snd (hyp_cam_read m ecam base b2 d2 f2 r2 x2) ++ snd (hyp_cam_write m ecam base b2 d2 f2 r2 x2)) ->
  (m_addr a1 = base + ((b1 * 256 + d1 * 8 + f1) * cam_stride ecam + r1)
   /\ base <= m_addr a1 /\ m_addr a1 + 4 <= base + cam_size ecam /\ m_width a1 = 4)
  /\ (m_addr a1 = m_addr a2 -> b1 = b2 /\ d1 = d2 /\ f1 = f2 /\ r1 = r2).
Proof.
  intros Hbase Hb1 Hd1 Hf1 Hr1 Ha1 Hb2 Hd2 Hf2 Hr2 Ha2 I1 I2.
  destruct (hyp_cam_spec m ecam base b1 d1 f1 r1 x1 x1 Hb1 Hr1 Hbase) as (S1 & _).
  destruct (hyp_cam_spec m ecam base b2 d2 f2 r2 x2 x2 Hb2 Hr2 Hbase) as (S2 & _).
  destruct (S1 Hd1 Hf1 Ha1) as (E1 & W1 & _ & L1 & U1). destruct (S2 Hd2 Hf2 Ha2) as (E2 & W2 & _ & L2 & U2).
  cbv zeta in *. rewrite E1, W1 in I1. rewrite E2, W2 in I2. cbn [snd app In] in I1, I2.
  assert (A1 : m_addr a1 = base + ((b1 * 256 + d1 * 8 + f1) * cam_shift ecam + r1) /\ m_width a1 = 4)
    by (destruct I1 as [<-|[<-|[]]]; split; reflexivity).
  assert (A2 : m_addr a2 = base + ((b2 * 256 + d2 * 8 + f2) * cam_shift ecam + r2))
    by (destruct I2 as [<-|[<-|[]]]; reflexivity).
  destruct A1 as [A1 Wd]. rewrite cam_stride_shift. split.
  - rewrite A1. repeat split; lia.
  - intros E. rewrite A1, A2 in E.
    assert (Hr1' : r1 < cam_shift ecam) by (unfold cam_shift; destruct ecam; lia).
    assert (Hr2' : r2 < cam_shift ecam) by (unfold cam_shift; destruct ecam; lia).
    destruct (cam_offset_ok ecam b1 d1 f1 r1 Hb1 Hd1 Hf1 Hr1' Ha1) as (O1 & _).
    destruct (cam_offset_ok ecam b2 d2 f2 r2 Hb2 Hd2 Hf2 Hr2' Ha2) as (O2 & _).
    apply (cam_offset_injective ecam b1 d1 f1 r1 b2 d2 f2 r2 ((b1 * 256 + d1 * 8 + f1) * cam_shift ecam + r1));
      try assumption.
    rewrite O2. f_equal. lia.
Qed.

(* two valid observations that pass the per-observation test and carry the same address are the same request *)
Lemma cam_ok_same ecam base a b :
  cam_obs_ok ecam base a = true -> cam_obs_ok ecam base b = true ->
  cam_req_valid a = true -> cam_req_valid b = true -> co_addr a = co_addr b ->
  co_bus a = co_bus b /\ co_dev a = co_dev b /\ co_fn a = co_fn b /\ co_reg a = co_reg b.
Proof.
  intros Oa Ob Va Vb E. unfold cam_obs_ok in Oa, Ob. rewrite Va in Oa. rewrite Vb in Ob.
  rewrite !andb_true_iff in Oa, Ob.
  destruct Oa as (((((_ & _) & _) & Aa) & _) & _). destruct Ob as (((((_ & _) & _) & Ab) & _) & _).
  apply N.eqb_eq in Aa, Ab. unfold cam_spec_addr in Aa, Ab.
  apply cam_req_valid_spec in Va, Vb. destruct Va as (? & ? & ? & ? & ?). destruct Vb as (? & ? & ? & ? & ?).
  rewrite Aa, Ab in E. unfold cam_stride in E. destruct ecam; lia.
Qed.

(* what a true monitor 1257 means, for ANY list of observations *)
Theorem hyp_cam_addrs_b_sound ecam base l :
  base + cam_size ecam <= two64 -> hyp_cam_addrs_b ecam base l = true ->
  (forall o, In o l -> cam_req_valid o = true ->
     co_cls o = 0 /\ co_cnt o = 1 /\ co_width o = 4
     /\ co_addr o = base + ((co_bus o * 256 + co_dev o * 8 + co_fn o) * cam_stride ecam + co_reg o)
     /\ base <= co_addr o /\ co_addr o + 4 <= base + cam_size ecam)
  /\ (forall o, In o l -> cam_req_valid o = false -> co_cls o = 2 /\ co_cnt o = 0)
  /\ (forall a b, In a l -> In b l -> cam_req_valid a = true -> cam_req_valid b = true ->
        co_addr a = co_addr b ->
        co_bus a = co_bus b /\ co_dev a = co_dev b /\ co_fn a = co_fn b /\ co_reg a = co_reg b).
Proof.
  intros Hbase H. unfold hyp_cam_addrs_b in H.
  replace (two64 <? base + cam_size ecam) with false in H by lia.
  apply andb_true_iff in H. destruct H as [Hall _]. rewrite forallb_forall in Hall.
  split; [|split].
  - intros o Ho Hv. specialize (Hall o Ho). unfold cam_obs_ok in Hall. rewrite Hv in Hall.
    rewrite !andb_true_iff in Hall. destruct Hall as (((((C & K) & W) & A) & L) & U).
    apply N.eqb_eq in C, K, W, A. apply N.leb_le in L, U. unfold cam_spec_addr in A. repeat split; assumption.
  - intros o Ho Hv. specialize (Hall o Ho). unfold cam_obs_ok in Hall. rewrite Hv in Hall.
    apply andb_true_iff in Hall. destruct Hall as [C K]. apply N.eqb_eq in C, K. split; assumption.
  - intros a b Ia Ib Va Vb E. exact (cam_ok_same ecam base a b (Hall a Ia) (Hall b Ib) Va Vb E).
Qed.

Lemma cam_distinct_of_ok ecam base : forall l,
  forallb (cam_obs_ok ecam base) l = true -> cam_distinct l = true.
Proof.
  induction l as [|a t IH]; intros H; [reflexivity|].
  cbn [forallb] in H. apply andb_true_iff in H. destruct H as [Ha Ht].
  cbn [cam_distinct]. rewrite (IH Ht), andb_true_r. apply forallb_forall. intros b Ib.
  rewrite forallb_forall in Ht. specialize (Ht b Ib).
  destruct (cam_req_valid a) eqn:Va; [|reflexivity]. destruct (cam_req_valid b) eqn:Vb; [|reflexivity].
  cbn [andb negb orb].
  destruct (co_addr a =? co_addr b) eqn:E; [|rewrite orb_true_r; reflexivity].
  apply N.eqb_eq in E. destruct (cam_ok_same ecam base a b Ha Ht Va Vb E) as (E1 & E2 & E3 & E4).
  unfold cam_same_req. rewrite E1, E2, E3, E4, !N.eqb_refl. reflexivity.
Qed.

Lemma cam_obs_of_ok m ecam base bus dev fn reg wr x :
  bus < 256 -> reg < 256 -> base + cam_size ecam <= two64 ->
  cam_obs_ok ecam base (cam_obs_of m ecam base (bus, dev, fn, reg, wr, x)) = true.
Proof.
  intros Hb Hr Hbase.
  destruct (hyp_cam_spec m ecam base bus dev fn reg x x Hb Hr Hbase) as (S & R).
  unfold cam_obs_of, cam_obs_ok.
  destruct (cam_req_valid _) eqn:Hv.
  - apply cam_req_valid_spec in Hv.
    assert (V : dev < 32 /\ fn < 8 /\ reg mod 4 = 0) by (destruct wr; cbn in Hv; tauto).
    destruct V as (Hd & Hf & Ha). destruct (S Hd Hf Ha) as (E1 & E2 & _ & L & U). cbv zeta in *.
    destruct wr; [rewrite E2|rewrite E1].
    all: cbn [fst snd cam_class lenN length N.of_nat co_cls co_cnt co_addr co_width co_bus co_dev co_fn co_reg
           MR MW m_addr m_width].
    all: unfold cam_spec_addr; cbn [co_bus co_dev co_fn co_reg]; change (cam_stride ecam) with (cam_shift ecam).
    all: rewrite !N.eqb_refl; cbn [andb].
    all: apply andb_true_iff; split; [apply N.leb_le; lia|apply N.leb_le; lia].
  - assert (V : 32 <= dev \/ 8 <= fn \/ reg mod 4 <> 0).
    { destruct (N.lt_ge_cases dev 32) as [Hd|Hd]; [|auto]. destruct (N.lt_ge_cases fn 8) as [Hf|Hf]; [|auto].
      right. right. intros Ha. assert (T : cam_req_valid (mkCO bus dev fn reg 0 0 0 0) = true)
        by (apply cam_req_valid_spec; cbn; auto).
      unfold cam_req_valid in Hv, T. destruct wr; cbn in Hv, T; rewrite T in Hv; discriminate. }
    destruct (R V) as (E1 & E2). destruct wr; [rewrite E2|rewrite E1]; reflexivity.
Qed.

(* the monitor holds of the model: every list of requests (bus, register: u8), both mechanisms, EVERY base
   with base + window <= 2^64, reads and writes *)
Theorem hyp_cam_addrs_conform m ecam base qs :
  Forall (fun q : N * N * N * N * bool * N => let '(bus, dev, fn, reg, wr, x) := q in bus < 256 /\ reg < 256) qs ->
  hyp_cam_addrs_b ecam base (map (cam_obs_of m ecam base) qs) = true.
Proof.
  intros H. unfold hyp_cam_addrs_b.
  destruct (N.ltb_spec two64 (base + cam_size ecam)) as [|Hbase]; [reflexivity|].
  assert (A : forallb (cam_obs_ok ecam base) (map (cam_obs_of m ecam base) qs) = true).
  { apply forallb_forall. intros o Ho. apply in_map_iff in Ho. destruct Ho as (q & <- & Hq).
    rewrite Forall_forall in H. specialize (H q Hq). destruct q as [[[[[bus dev] fn] reg] wr] x].
    destruct H as [Hb Hr]. apply cam_obs_of_ok; assumption. }
  rewrite A. cbn [andb]. exact (cam_distinct_of_ok ecam base _ A).
Qed.

(* `|` in the place of `+` (seeded change C12-m18) is rejected: ECAM at 0x3_9800_0000, bus 0x80 *)
Example hyp_cam_addrs_b_rejects_or :
  hyp_cam_addrs_b true 0x398000000 [mkCO 0x80 3 0 0 0 1 (N.lor 0x398000000 (0x80 * 1048576 + 3 * 32768)) 4] = false
  /\ hyp_cam_addrs_b true 0x398000000 [mkCO 0x80 3 0 0 0 1 (0x398000000 + (0x80 * 1048576 + 3 * 32768)) 4] = true.
Proof. split; vm_compute; reflexivity. Qed.

Example hyp_cam_addrs_nonvacuous :
  let qs := [(0x80, 3, 0, 0, false, 7); (0xff, 31, 7, 252, true, 9); (0, 0, 0, 4, false, 0); (0, 32, 0, 0, false, 0)] in
  0xffffffffff000000 + cam_size false <= two64 /\ 0x1000 + cam_size true <= two64
  /\ map co_addr (map (cam_obs_of Debug true 0x1000) qs) = [0x1000 + 0x8018000; 0x1000 + 0xffff0fc; 0x1004; 0]
  /\ hyp_cam_addrs_b true 0x1000 (map (cam_obs_of Debug true 0x1000) qs) = true.
Proof. cbv zeta. repeat split; vm_compute; try reflexivity; intros H; discriminate H. Qed.

(* ===================== 7. C12: HypPciTransport::new probes without side effects ===================== *)
(* C12 "sizes BARs without side effects" for the probing HypPciTransport::new does (up to four bar_info calls
   between configuration reads): on EVERY function (any six BAR registers, well-formed or not, any 16-bit
   command value: decoding enabled or not, bits without a named flag set or not) and for every outcome of `new`
   (transport, error, panic) the function is left exactly as it was - command register and all six BAR registers -
   and no all-ones sizing pattern is ever written to a BAR register while address decoding is enabled. *)
Lemma sws_nil : sizing_writes_safe [] = true.
Proof. reflexivity. Qed.
Lemma sws_reads d offs : sizing_writes_safe (map (read_acc d) offs) = true.
Proof.
  unfold sizing_writes_safe. apply forallb_forall. intros a Ha. apply in_map_iff in Ha.
  destruct Ha as (o & <- & _). reflexivity.
Qed.
Lemma sws_bar_info m d i : fn_ok d -> i < 6 -> sizing_writes_safe (snd (bar_info m d i)) = true.
Proof.
  intros (Hlen & Hc & Hv) Hi. destruct (bar_info_no_side_effects m d i Hlen Hi Hc Hv) as (r & tr & E & S & _).
  rewrite E. exact S.
Qed.

Ltac sws_leaf :=
  cbn [fst snd n_log n_fn n_reqs log_reads];
  rewrite ?sws_app, ?sws_reads, ?sws_nil;
  repeat match goal with H : sizing_writes_safe _ = true |- _ => rewrite H; clear H end;
  reflexivity.

Theorem hyp_new_probe_restores m d :
  fn_ok d ->
  n_fn (snd (hyp_new FIXED m d)) = d
  /\ f_cmd (n_fn (snd (hyp_new FIXED m d))) = f_cmd d
  /\ bar_vals (n_fn (snd (hyp_new FIXED m d))) = bar_vals d
  /\ sizing_writes_safe (n_log (snd (hyp_new FIXED m d))) = true.
Proof.
  intros Hok. destruct (hyp_new_refines m d Hok) as (_ & R & _). rewrite R.
  split; [reflexivity|]. split; [reflexivity|]. split; [reflexivity|]. clear R.
  unfold hyp_new. cbv zeta.
  destruct (negb (w16 (rdw (cfg_read d) 0) =? VIRTIO_VENDOR_ID)); [sws_leaf|].
  destruct (device_type (w16 (N.shiftr (rdw (cfg_read d) 0) 16))) as [dt|]; [|sws_leaf].
  rewrite (scan_spec m (cfg_read d)).
  destruct (snd (capabilities 65 (cfg_read d))); cbn [negb]; [|sws_leaf].
  set (f := spec_found (cfg_read d) (map cap_off (fst (capabilities 65 (cfg_read d))))).
  destruct (spec_found_bars (cfg_read d) (map cap_off (fst (capabilities 65 (cfg_read d))))) as (B1 & B2 & B3 & B4).
  fold f in B1, B2, B3, B4.
  set (s1 := log_reads (log_reads (mkNst d [] []) [0]) (snd (scan FIXED m (cfg_read d)))).
  assert (H1 : n_fn s1 = d /\ n_reqs s1 = []) by (split; reflexivity).
  assert (L1 : sizing_writes_safe (n_log s1) = true) by (subst s1; sws_leaf).
  destruct (fd_common f) as [ic|] eqn:Ec; [|cbn [snd]; exact L1].
  assert (Sic : sizing_writes_safe (snd (bar_info m d (ci_bar ic))) = true)
    by (apply sws_bar_info; [exact Hok|specialize (B1 ic eq_refl); lia]).
  rewrite (hyp_get_bar_region_eq FIXED m s1 ic) by (first [exact Hok | specialize (B1 ic eq_refl); lia]).
  destruct H1 as [F1 R1]. rewrite F1, R1.
  destruct (hyp_region_check FIXED m (bar_of m d (ci_bar ic)) ic COMMON_SIZE COMMON_ALIGN) as [cr|c p q|];
    cbn [fst snd n_fn n_reqs]; try sws_leaf.
  destruct (fd_notify f) as [inn|] eqn:En; [|sws_leaf].
  destruct (negb (fd_mult f mod 2 =? 0)); [sws_leaf|].
  assert (Sinn : sizing_writes_safe (snd (bar_info m d (ci_bar inn))) = true)
    by (apply sws_bar_info; [exact Hok|specialize (B2 inn eq_refl); lia]).
  match goal with |- context [hyp_get_bar_region FIXED m ?s inn 2 2] => set (s2 := s) end.
  rewrite (hyp_get_bar_region_eq FIXED m s2 inn) by (first [exact Hok | specialize (B2 inn eq_refl); lia]).
  subst s2. cbn [n_fn n_reqs n_log].
  destruct (hyp_region_check FIXED m (bar_of m d (ci_bar inn)) inn 2 2) as [nr|c p q|];
    cbn [fst snd n_fn n_reqs]; try sws_leaf.
  destruct (fd_isr f) as [ii|] eqn:Ei; [|sws_leaf].
  assert (Sii : sizing_writes_safe (snd (bar_info m d (ci_bar ii))) = true)
    by (apply sws_bar_info; [exact Hok|specialize (B3 ii eq_refl); lia]).
  match goal with |- context [hyp_get_bar_region FIXED m ?s ii 1 1] => set (s3 := s) end.
  rewrite (hyp_get_bar_region_eq FIXED m s3 ii) by (first [exact Hok | specialize (B3 ii eq_refl); lia]).
  subst s3. cbn [n_fn n_reqs n_log].
  destruct (hyp_region_check FIXED m (bar_of m d (ci_bar ii)) ii 1 1) as [ir|c p q|];
    cbn [fst snd n_fn n_reqs]; try sws_leaf.
  destruct (fd_device f) as [idv|] eqn:Ed; [|sws_leaf].
  assert (Sidv : sizing_writes_safe (snd (bar_info m d (ci_bar idv))) = true)
    by (apply sws_bar_info; [exact Hok|specialize (B4 idv eq_refl); lia]).
  match goal with |- context [hyp_get_bar_region FIXED m ?s idv 4 4] => set (s4 := s) end.
  rewrite (hyp_get_bar_region_eq FIXED m s4 idv) by (first [exact Hok | specialize (B4 idv eq_refl); lia]).
  subst s4. cbn [n_fn n_reqs n_log].
  destruct (hyp_region_check FIXED m (bar_of m d (ci_bar idv)) idv 4 4) as [dr|c p q|];
    cbn [fst snd n_fn n_reqs]; sws_leaf.
Qed.

(* not vacuous: command 0xf887 (decoding enabled, every bit without a named flag set): `new` returns a transport
   after three probes, each of which clears exactly the two decode bits (0xf884), writes the all-ones pattern and
   puts 0xf887 back; the seeded change C12-m19 would leave 0x0407 *)
Example hyp_new_probe_nonvacuous :
  let d := mkFn 0xf887 16 (f_bars wit_good) (f_regs wit_good) in
  fn_ok d
  /\ fst (hyp_new FIXED Debug d) = HNOk wit_t_good
  /\ f_cmd (n_fn (snd (hyp_new FIXED Debug d))) = 0xf887
  /\ map a_val (filter (fun a => a_write a && (a_off a =? 4)) (n_log (snd (hyp_new FIXED Debug d))))
     = [0xf884; 0xf887; 0xf884; 0xf887; 0xf884; 0xf887]
  /\ lenN (filter (fun a => a_write a && is_bar_off (a_off a) && (a_val a =? ones32)) (n_log (snd (hyp_new FIXED Debug d)))) = 3.
Proof.
  cbv zeta. split; [|repeat split; vm_compute; reflexivity].
  unfold fn_ok. cbn [f_bars f_cmd]. repeat split; try reflexivity.
  intros j Hj. assert (Hc : j = 0 \/ j = 1 \/ j = 2 \/ j = 3 \/ j = 4 \/ j = 5) by lia.
  destruct Hc as [->|[->|[->|[->|[->| ->]]]]]; vm_compute; reflexivity.
Qed.
