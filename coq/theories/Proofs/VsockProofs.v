(* C17: vsock credit-based flow control and the per-connection receive buffer: theorems.          *)
From VD Require Import Base.Words Base.ListUpd Model.Vsock Model.VsockSpec.
From Coq Require Import ZArith Lia ZifyBool ZifyN.
Ltac Zify.zify_post_hook ::= Z.div_mod_to_equations.

(* ========================================================================================= *)
(* 1. The packet header                                                                       *)

Lemma to_le_length n x : length (to_le n x) = n.
Proof. revert x; induction n as [|n IH]; intros x; cbn [to_le length]; [reflexivity|now rewrite IH]. Qed.

Lemma from_le_to_le n x : from_le (to_le n x) = x mod 256 ^ N.of_nat n.
Proof.
  revert x; induction n as [|n IH]; intros x.
  - cbn [to_le from_le]. change (256 ^ N.of_nat 0) with 1. now rewrite N.mod_1_r.
  - cbn [to_le from_le]. rewrite IH.
    replace (N.of_nat (S n)) with (N.succ (N.of_nat n)) by lia.
    rewrite N.pow_succ_r'. rewrite N.mod_mul_r; [reflexivity|lia|].
    apply N.pow_nonzero. lia.
Qed.

Lemma le_num_from_le l : le_num l = from_le l.
Proof. induction l as [|b t IH]; [reflexivity|]. cbn [le_num fold_right from_le]. fold (le_num t). now rewrite IH. Qed.

Lemma firstn_app_len {A} (a b : list A) n : length a = n -> firstn n (a ++ b) = a.
Proof. intros <-. rewrite firstn_app, Nat.sub_diag, firstn_all. cbn [firstn]. apply app_nil_r. Qed.

Lemma skipn_app_len {A} (a b : list A) n : length a = n -> skipn n (a ++ b) = b.
Proof. intros <-. rewrite skipn_app, Nat.sub_diag, skipn_all. reflexivity. Qed.

Lemma skipn_add {A} (l : list A) a b : skipn (a + b) l = skipn b (skipn a l).
Proof.
  revert l; induction a as [|a IH]; intros l; [reflexivity|].
  destruct l as [|x t]; [now rewrite !skipn_nil|]. cbn [Nat.add skipn]. apply IH.
Qed.

Definition hdr_wf (h : hdr) : Prop :=
  h_src_cid h < two64 /\ h_dst_cid h < two64 /\ h_src_port h < two32 /\ h_dst_port h < two32
  /\ h_len h < two32 /\ h_type h < two16 /\ h_op h < two16 /\ h_flags h < two32
  /\ h_buf_alloc h < two32 /\ h_fwd_cnt h < two32.

Lemma take_to_le n x l : take n (to_le n x ++ l) = (to_le n x, l).
Proof. unfold take. rewrite firstn_app_len, skipn_app_len by apply to_le_length. reflexivity. Qed.

Lemma from_le_small n x : x < 256 ^ N.of_nat n -> from_le (to_le n x) = x.
Proof. intros H. rewrite from_le_to_le. now apply N.mod_small. Qed.

(* the crate's decoder inverts the crate's encoder (whatever follows the header) *)
Lemma dec_enc_hdr h rest : hdr_wf h -> dec_hdr (enc_hdr h ++ rest) = h.
Proof.
  intros (H1 & H2 & H3 & H4 & H5 & H6 & H7 & H8 & H9 & H10).
  unfold dec_hdr, enc_hdr. rewrite <- !app_assoc.
  rewrite !take_to_le.
  rewrite !from_le_small; [destruct h; reflexivity| | | | | | | | | |];
    (eapply N.lt_le_trans; [eassumption|]); vm_compute; discriminate.
Qed.

(* the crate's decoder IS the specification's decoder, on every byte string long enough *)
Theorem dec_hdr_is_spec (b : list N) : 44 <= lenN b -> spec_dec b = Some (dec_hdr b).
Proof.
  intros H. unfold spec_dec. destruct (N.ltb_spec (lenN b) 44); [lia|].
  unfold dec_hdr, take, field, F_src_cid, F_dst_cid, F_src_port, F_dst_port, F_len, F_type, F_op, F_flags,
    F_buf_alloc, F_fwd_cnt. cbn [fst snd]. rewrite !le_num_from_le.
  rewrite <- !skipn_add. cbn [Nat.add]. reflexivity.
Qed.

(* C17_header, layout part: what the crate puts on the wire decodes, by the specification's
   table of offsets, to exactly the fields it was built from *)
Theorem hdr_on_wire h : hdr_wf h -> spec_dec (enc_hdr h) = Some h.
Proof.
  intros Hwf. rewrite dec_hdr_is_spec.
  - rewrite <- (app_nil_r (enc_hdr h)). now rewrite dec_enc_hdr.
  - unfold lenN, enc_hdr. rewrite !app_length, !to_le_length. cbn. lia.
Qed.

Lemma enc_hdr_length h : lenN (enc_hdr h) = 44.
Proof. unfold lenN, enc_hdr. rewrite !app_length, !to_le_length. reflexivity. Qed.

(* ========================================================================================= *)
(* 2. RingBuffer refines a bounded FIFO byte queue                                            *)

Definition rb_wf (rb : ringbuf) : Prop :=
  1 <= rb_cap rb /\ rb_start rb < rb_cap rb /\ rb_used rb <= rb_cap rb.

(* the queue a ring buffer stands for: its i-th byte lives at (start + i) mod capacity *)
Definition rb_abs (rb : ringbuf) : list N :=
  map (fun i => nthN (rb_buf rb) ((rb_start rb + N.of_nat i) mod rb_cap rb) 0)
      (seq 0 (N.to_nat (rb_used rb))).

Lemma rb_abs_length rb : lenN (rb_abs rb) = rb_used rb.
Proof. unfold rb_abs, lenN. rewrite map_length, seq_length. lia. Qed.

Lemma mod_piece a c : 0 < c -> a < 2 * c -> a mod c = if a <? c then a else a - c.
Proof.
  intros Hc Ha. destruct (N.ltb_spec a c) as [H|H].
  - now apply N.mod_small.
  - symmetry. apply (N.mod_unique a c 1); lia.
Qed.

Lemma nth_map_seq {A} (f : nat -> A) n i d : (i < n)%nat -> nth i (map f (seq 0 n)) d = f i.
Proof.
  intros H. rewrite (nth_indep _ d (f 0%nat)) by (rewrite map_length, seq_length; exact H).
  rewrite map_nth, seq_nth by exact H. reflexivity.
Qed.

Lemma nth_firstn_lt {A} (l : list A) n i d : (i < n)%nat -> nth i (firstn n l) d = nth i l d.
Proof.
  revert l i; induction n as [|n IH]; intros l i H; [lia|].
  destruct l as [|x t]; [now destruct i|]. destruct i as [|i]; [reflexivity|]. cbn [firstn nth]. apply IH. lia.
Qed.

Lemma nth_skipn_add {A} (l : list A) n i d : nth i (skipn n l) d = nth (n + i) l d.
Proof.
  revert l; induction n as [|n IH]; intros l; [reflexivity|].
  destruct l as [|x t]; [now destruct i|]. cbn [skipn Nat.add nth]. apply IH.
Qed.

(* what a slice assignment does to each element *)
Lemma slice_put_nth l a d l' :
  slice_put l a d = Some l' ->
  length l' = length l /\ (N.to_nat a + length d <= length l)%nat
  /\ forall j, nth j l' 0 =
       if ((N.to_nat a <=? j) && (j <? N.to_nat a + length d))%nat then nth (j - N.to_nat a) d 0 else nth j l 0.
Proof.
  unfold slice_put. destruct (N.leb_spec (a + lenN d) (lenN l)) as [H|H]; [|discriminate].
  intros E; injection E as <-. unfold lenN in *.
  assert (Ha : (N.to_nat a + length d <= length l)%nat) by lia.
  split; [|split; [exact Ha|]].
  - rewrite !app_length, firstn_length, skipn_length. replace (N.to_nat (a + N.of_nat (length d))) with (N.to_nat a + length d)%nat by lia. lia.
  - intros j. replace (N.to_nat (a + N.of_nat (length d))) with (N.to_nat a + length d)%nat by lia.
    assert (Hf : length (firstn (N.to_nat a) l) = N.to_nat a) by (rewrite firstn_length; lia).
    destruct (Nat.leb_spec (N.to_nat a) j) as [H1|H1]; cbn [andb].
    + rewrite app_nth2 by lia. rewrite Hf.
      destruct (Nat.ltb_spec j (N.to_nat a + length d)) as [H2|H2].
      * rewrite app_nth1 by lia. reflexivity.
      * rewrite app_nth2 by lia. rewrite nth_skipn_add. f_equal. lia.
    + rewrite app_nth1 by lia. apply nth_firstn_lt. exact H1.
Qed.

Lemma slice_put_ok l a d : a + lenN d <= lenN l -> exists l', slice_put l a d = Some l'.
Proof. intros H. unfold slice_put. destruct (N.leb_spec (a + lenN d) (lenN l)); [eauto|lia]. Qed.

Lemma rb_new_spec cap : 1 <= cap -> rb_wf (rb_new cap) /\ rb_cap (rb_new cap) = cap /\ rb_abs (rb_new cap) = [].
Proof.
  intros H. unfold rb_wf, rb_new, rb_cap, rb_abs. cbn [rb_buf rb_used rb_start].
  rewrite lenN_repeat. repeat split; try lia.
Qed.

(* RingBuffer::add *)
Theorem rb_add_refines rb bytes :
  rb_wf rb ->
  match fifo_add (rb_cap rb) (rb_abs rb) bytes with
  | Some q' => exists rb', rb_add rb bytes = (Ok true, rb') /\ rb_abs rb' = q' /\ rb_wf rb'
                           /\ rb_cap rb' = rb_cap rb /\ rb_start rb' = rb_start rb /\ rb_used rb' = rb_used rb + lenN bytes
  | None => rb_add rb bytes = (Ok false, rb)
  end.
Proof.
  intros (Hc & Hs & Hu). unfold fifo_add. rewrite rb_abs_length.
  unfold rb_add. destruct (N.ltb_spec (rb_cap rb) (rb_used rb)) as [?|_]; [lia|].
  destruct (N.leb_spec (lenN bytes) (rb_cap rb - rb_used rb)) as [Hfit|Hfit].
  2:{ destruct (N.ltb_spec (rb_cap rb - rb_used rb) (lenN bytes)); [reflexivity|lia]. }
  destruct (N.ltb_spec (rb_cap rb - rb_used rb) (lenN bytes)) as [?|_]; [lia|].
  destruct (N.eqb_spec (rb_cap rb) 0) as [?|_]; [lia|].
  rewrite (mod_piece (rb_start rb + rb_used rb)) by lia.
  set (fa := if rb_start rb + rb_used rb <? rb_cap rb then rb_start rb + rb_used rb else rb_start rb + rb_used rb - rb_cap rb).
  assert (Hfa : fa < rb_cap rb /\ (fa = rb_start rb + rb_used rb \/ fa + rb_cap rb = rb_start rb + rb_used rb)).
  { subst fa. destruct (N.ltb_spec (rb_start rb + rb_used rb) (rb_cap rb)); lia. }
  set (before := N.min (lenN bytes) (rb_cap rb - fa)).
  assert (Hb : before <= lenN bytes /\ before <= rb_cap rb - fa) by (subst before; lia).
  assert (Hl1 : lenN (firstn (N.to_nat before) bytes) = before).
  { unfold lenN in *. rewrite firstn_length. lia. }
  assert (Hl2 : lenN (skipn (N.to_nat before) bytes) = lenN bytes - before).
  { unfold lenN in *. rewrite skipn_length. lia. }
  unfold rb_cap in *.
  destruct (slice_put_ok (rb_buf rb) fa (firstn (N.to_nat before) bytes)) as [b1 E1]; [rewrite Hl1; lia|].
  rewrite E1. destruct (slice_put_nth _ _ _ _ E1) as (L1 & _ & N1).
  destruct (slice_put_ok b1 0 (skipn (N.to_nat before) bytes)) as [b2 E2].
  { rewrite Hl2. unfold lenN at 2. rewrite L1. fold (lenN (rb_buf rb)). lia. }
  rewrite E2. destruct (slice_put_nth _ _ _ _ E2) as (L2 & _ & N2).
  eexists. split; [reflexivity|].
  assert (Hlen : lenN b2 = lenN (rb_buf rb)) by (unfold lenN; now rewrite L2, L1).
  split.
  2:{ unfold rb_wf, rb_cap. cbn [rb_buf rb_used rb_start]. rewrite Hlen. repeat split; try lia. }
  (* the abstraction *)
  unfold rb_abs, rb_cap. cbn [rb_buf rb_used rb_start]. rewrite Hlen.
  apply (nth_ext _ _ 0 0).
  { rewrite app_length, !map_length, !seq_length. unfold lenN in *. lia. }
  intros i Hi. rewrite map_length, seq_length in Hi.
  rewrite nth_map_seq by exact Hi.
  rewrite (mod_piece (rb_start rb + N.of_nat i)) by (unfold lenN in *; lia).
  set (j := if rb_start rb + N.of_nat i <? lenN (rb_buf rb) then rb_start rb + N.of_nat i else rb_start rb + N.of_nat i - lenN (rb_buf rb)).
  assert (Hj : j < lenN (rb_buf rb) /\ (j = rb_start rb + N.of_nat i \/ j + lenN (rb_buf rb) = rb_start rb + N.of_nat i)).
  { subst j. destruct (N.ltb_spec (rb_start rb + N.of_nat i) (lenN (rb_buf rb))); unfold lenN in *; lia. }
  unfold nthN. rewrite N2, N1.
  assert (Hf1 : length (firstn (N.to_nat before) bytes) = N.to_nat before) by (unfold lenN in Hl1; lia).
  assert (Hf2 : length (skipn (N.to_nat before) bytes) = (length bytes - N.to_nat before)%nat) by (unfold lenN in Hl2; lia).
  rewrite Hf1, Hf2. change (N.to_nat 0) with 0%nat. cbn [Nat.add].
  destruct (Nat.ltb_spec i (N.to_nat (rb_used rb))) as [Hold|Hnew].
  - (* an old byte: untouched by both copies *)
    rewrite app_nth1 by (rewrite map_length, seq_length; exact Hold).
    rewrite nth_map_seq by exact Hold.
    rewrite (mod_piece (rb_start rb + N.of_nat i)) by (unfold lenN in *; lia). fold j.
    destruct (Nat.ltb_spec (N.to_nat j) (length bytes - N.to_nat before)) as [Ha|Ha];
      [exfalso; unfold lenN in *; lia|]. cbn [Nat.leb andb].
    destruct (Nat.leb_spec (N.to_nat fa) (N.to_nat j)) as [Hb1|Hb1]; cbn [andb]; [|reflexivity].
    destruct (Nat.ltb_spec (N.to_nat j) (N.to_nat fa + N.to_nat before)) as [Hb2|Hb2]; [exfalso; unfold lenN in *; lia|reflexivity].
  - (* a new byte *)
    rewrite app_nth2 by (rewrite map_length, seq_length; lia). rewrite map_length, seq_length.
    destruct (Nat.ltb_spec (N.to_nat j) (length bytes - N.to_nat before)) as [Ha|Ha]; cbn [Nat.leb andb].
    + (* second copy, after the wrap-around *)
      rewrite nth_skipn_add. f_equal. unfold lenN in *. lia.
    + destruct (Nat.leb_spec (N.to_nat fa) (N.to_nat j)) as [Hb1|Hb1]; cbn [andb]; [|exfalso; unfold lenN in *; lia].
      destruct (Nat.ltb_spec (N.to_nat j) (N.to_nat fa + N.to_nat before)) as [Hb2|Hb2]; [|exfalso; unfold lenN in *; lia].
      rewrite nth_firstn_lt by lia. f_equal. unfold lenN in *. lia.
Qed.

Lemma slice_get_ok l a n : a + n <= lenN l -> slice_get l a n = Some (firstn (N.to_nat n) (skipn (N.to_nat a) l)).
Proof. intros H. unfold slice_get. destruct (N.leb_spec (a + n) (lenN l)); [reflexivity|lia]. Qed.

(* RingBuffer::drain *)
Theorem rb_drain_refines rb out_len :
  rb_wf rb ->
  exists rb', rb_drain rb out_len = (Ok (fst (fifo_drain (rb_abs rb) out_len)), rb')
              /\ rb_abs rb' = snd (fifo_drain (rb_abs rb) out_len) /\ rb_wf rb'
              /\ rb_cap rb' = rb_cap rb /\ rb_buf rb' = rb_buf rb
              /\ rb_used rb' = rb_used rb - N.min (rb_used rb) out_len.
Proof.
  intros (Hc & Hs & Hu). unfold fifo_drain. rewrite rb_abs_length. cbn [fst snd].
  unfold rb_drain. destruct (N.ltb_spec (rb_cap rb) (rb_start rb)) as [?|_]; [lia|].
  set (n := N.min (rb_used rb) out_len).
  replace (N.min out_len (rb_used rb)) with n by (subst n; lia).
  assert (Hn : n <= rb_used rb) by (subst n; lia).
  set (before := N.min n (rb_cap rb - rb_start rb)).
  assert (Hb : before <= n /\ before <= rb_cap rb - rb_start rb /\ (before = n \/ before = rb_cap rb - rb_start rb)) by (subst before; lia).
  unfold rb_cap in *.
  rewrite (slice_get_ok (rb_buf rb) (rb_start rb) before) by lia.
  rewrite (slice_get_ok (rb_buf rb) 0 (n - before)) by lia.
  destruct (N.eqb_spec (lenN (rb_buf rb)) 0) as [?|_]; [lia|].
  rewrite (mod_piece (rb_start rb + n)) by lia.
  set (s' := if rb_start rb + n <? lenN (rb_buf rb) then rb_start rb + n else rb_start rb + n - lenN (rb_buf rb)).
  assert (Hs' : s' < lenN (rb_buf rb) /\ (s' = rb_start rb + n \/ s' + lenN (rb_buf rb) = rb_start rb + n)).
  { subst s'. destruct (N.ltb_spec (rb_start rb + n) (lenN (rb_buf rb))); lia. }
  eexists. split; [f_equal; f_equal|].
  - (* the bytes handed out are the first n of the queue *)
    apply (nth_ext _ _ 0 0).
    { rewrite app_length, !firstn_length, !skipn_length. unfold rb_abs, rb_cap. rewrite map_length, seq_length.
      change (N.to_nat 0) with 0%nat. unfold lenN in *. lia. }
    intros i Hi. rewrite app_length, !firstn_length, !skipn_length in Hi. change (N.to_nat 0) with 0%nat in Hi.
    assert (Hin : (i < N.to_nat n)%nat) by (unfold lenN in *; lia).
    rewrite nth_firstn_lt by exact Hin. unfold rb_abs, rb_cap. rewrite nth_map_seq by lia.
    rewrite (mod_piece (rb_start rb + N.of_nat i)) by (unfold lenN in *; lia). unfold nthN.
    destruct (Nat.ltb_spec i (N.to_nat before)) as [H1|H1].
    + rewrite app_nth1 by (rewrite firstn_length, skipn_length; unfold lenN in *; lia).
      rewrite nth_firstn_lt by exact H1. rewrite nth_skipn_add.
      destruct (N.ltb_spec (rb_start rb + N.of_nat i) (lenN (rb_buf rb))); [f_equal; lia|unfold lenN in *; lia].
    + rewrite app_nth2 by (rewrite firstn_length, skipn_length; unfold lenN in *; lia).
      rewrite firstn_length, skipn_length.
      rewrite nth_firstn_lt by (unfold lenN in *; lia). change (N.to_nat 0) with 0%nat. cbn [skipn].
      destruct (N.ltb_spec (rb_start rb + N.of_nat i) (lenN (rb_buf rb))); [unfold lenN in *; lia|f_equal; unfold lenN in *; lia].
  - cbn [rb_buf rb_used rb_start]. split.
    2:{ unfold rb_wf, rb_cap. cbn [rb_buf rb_used rb_start]. repeat split; try lia. }
    (* what stays is the rest of the queue *)
    unfold rb_abs, rb_cap. cbn [rb_buf rb_used rb_start].
    apply (nth_ext _ _ 0 0).
    { rewrite skipn_length, !map_length, !seq_length. lia. }
    intros i Hi. rewrite map_length, seq_length in Hi.
    rewrite nth_map_seq by exact Hi. rewrite nth_skipn_add. rewrite nth_map_seq by lia.
    rewrite (mod_piece (s' + N.of_nat i)) by (unfold lenN in *; lia).
    rewrite (mod_piece (rb_start rb + N.of_nat (N.to_nat n + i))) by (unfold lenN in *; lia).
    f_equal.
    destruct (N.ltb_spec (s' + N.of_nat i) (lenN (rb_buf rb))); destruct (N.ltb_spec (rb_start rb + N.of_nat (N.to_nat n + i)) (lenN (rb_buf rb))); unfold lenN in *; lia.
Qed.

(* C17_ringbuffer: from any history of add / drain on a buffer of any capacity >= 1 the buffer is
   well formed (so no arithmetic ever wraps, no slice index is out of range: no Panic) and stands
   for the queue obtained by the same operations on a bounded FIFO *)
Inductive rbop := RAdd (bytes : list N) | RDrain (out_len : N).

Fixpoint rb_run (rb : ringbuf) (ops : list rbop) : ringbuf * list (outcome (list N)) :=
  match ops with
  | [] => (rb, [])
  | RAdd b :: t => let '(r, rb1) := rb_add rb b in
                   let '(rb2, os) := rb_run rb1 t in
                   (rb2, match r with Ok true => Ok [1] | Ok false => Ok [0] | Err e => Err e | Panic => Panic | UB => UB end :: os)
  | RDrain n :: t => let '(r, rb1) := rb_drain rb n in let '(rb2, os) := rb_run rb1 t in (rb2, r :: os)
  end.
Fixpoint fifo_run (cap : N) (q : list N) (ops : list rbop) : list N * list (outcome (list N)) :=
  match ops with
  | [] => (q, [])
  | RAdd b :: t => match fifo_add cap q b with
                   | Some q' => let '(q2, os) := fifo_run cap q' t in (q2, Ok [1] :: os)
                   | None => let '(q2, os) := fifo_run cap q t in (q2, Ok [0] :: os)
                   end
  | RDrain n :: t => let '(out, q') := fifo_drain q n in let '(q2, os) := fifo_run cap q' t in (q2, Ok out :: os)
  end.

Theorem rb_refines_fifo ops : forall rb,
  rb_wf rb ->
  let '(rb', os) := rb_run rb ops in
  let '(q', os') := fifo_run (rb_cap rb) (rb_abs rb) ops in
  os = os' /\ rb_abs rb' = q' /\ rb_wf rb' /\ rb_cap rb' = rb_cap rb.
Proof.
  induction ops as [|o t IH]; intros rb Hwf.
  - cbn [rb_run fifo_run]. auto.
  - destruct o as [b|n]; cbn [rb_run fifo_run].
    + pose proof (rb_add_refines rb b Hwf) as H. destruct (fifo_add (rb_cap rb) (rb_abs rb) b) as [q'|].
      * destruct H as (rb1 & E & Ha & Hw & Hc & _). rewrite E. specialize (IH rb1 Hw). rewrite Ha, Hc in IH.
        destruct (rb_run rb1 t) as [rb2 os]. destruct (fifo_run (rb_cap rb) q' t) as [q2 os'].
        destruct IH as (-> & ? & ? & ?). auto.
      * rewrite H. specialize (IH rb Hwf).
        destruct (rb_run rb t) as [rb2 os]. destruct (fifo_run (rb_cap rb) (rb_abs rb) t) as [q2 os'].
        destruct IH as (-> & ? & ? & ?). auto.
    + destruct (rb_drain_refines rb n Hwf) as (rb1 & E & Ha & Hw & Hc & _). rewrite E.
      destruct (fifo_drain (rb_abs rb) n) as [out q'] eqn:Ed. cbn [fst snd] in *.
      specialize (IH rb1 Hw). rewrite Ha, Hc in IH.
      destruct (rb_run rb1 t) as [rb2 os]. destruct (fifo_run (rb_cap rb) q' t) as [q2 os'].
      destruct IH as (-> & ? & ? & ?). auto.
Qed.

Example rb_refines_fifo_nonvacuous :
  rb_wf (rb_new 3) /\
  rb_run (rb_new 3) [RAdd [1; 2]; RDrain 1; RAdd [3; 4]; RAdd [5]; RDrain 5]
  = (mkRB [4; 2; 3] 0 1, [Ok [1]; Ok [1]; Ok [1]; Ok [0]; Ok [2; 3; 4]]).
Proof. split; [apply rb_new_spec; lia|vm_compute; reflexivity]. Qed.

(* ========================================================================================= *)
(* 3. ConnectionInfo: the transmit credit                                                     *)

Definition conn_wf (c : conn) : Prop :=
  c_peer_buf_alloc c < two32 /\ c_peer_fwd_cnt c < two32 /\ c_tx_cnt c < two32
  /\ c_buf_alloc c < two32 /\ c_fwd_cnt c < two32.
Definition ids_wf (c : conn) (src_cid : N) : Prop :=
  src_cid < two64 /\ c_dst_cid c < two64 /\ c_dst_port c < two32 /\ c_src_port c < two32.

(* payload bytes sent and not yet reported as consumed by the peer, modulo 2^32 *)
Definition in_flight (c : conn) : N := sub32 (c_tx_cnt c) (c_peer_fwd_cnt c).

Lemma peer_free_eq c : peer_free c = c_peer_buf_alloc c - in_flight c.
Proof. reflexivity. Qed.

(* C17_tx_credit (1): send succeeds iff the payload fits the space the peer last advertised minus
   the bytes in flight; for EVERY value of the counters (no hypothesis: also across 2^32) and every
   length (usize). *)
Theorem send_accepts_iff c src len :
  (exists c' p, send c src len = (Ok tt, c', p)) <-> len <= c_peer_buf_alloc c - in_flight c.
Proof.
  unfold send, check_with. rewrite peer_free_eq.
  destruct (N.leb_spec len (c_peer_buf_alloc c - in_flight c)) as [H|H].
  - split; [intros _; exact H|intros _; eauto].
  - split; [|lia]. intros (c' & p & E). destruct (c_pending c); discriminate.
Qed.

Theorem send_ok_spec c src len c' p :
  send c src len = (Ok tt, c', p) ->
  len <= c_peer_buf_alloc c - in_flight c
  /\ c' = set_tx_cnt c (add32 (c_tx_cnt c) (w32 len))
  /\ p = [Pkt (with_op_len (new_header c src) OP_RW (w32 len)) len].
Proof.
  unfold send, check_with. rewrite peer_free_eq.
  destruct (N.leb_spec len (c_peer_buf_alloc c - in_flight c)) as [H|H].
  - intros E; injection E as <- <-. auto.
  - destruct (c_pending c); discriminate.
Qed.

(* C17_tx_credit (2): a refused send sends nothing but, at most, ONE credit request (none if one
   is already pending), leaves every counter alone and reports InsufficientBufferSpaceInPeer *)
Theorem send_refused_spec c src len :
  c_peer_buf_alloc c - in_flight c < len ->
  send c src len =
    (Err SE_InsufficientBufferSpaceInPeer,
     (if c_pending c then c else set_pending c true),
     (if c_pending c then [] else [Pkt (with_op (new_header c src) OP_CREDIT_REQUEST) 0])).
Proof.
  intros H. unfold send, check_with. rewrite peer_free_eq.
  destruct (N.leb_spec len (c_peer_buf_alloc c - in_flight c)); [lia|].
  destruct (c_pending c); reflexivity.
Qed.

Theorem send_never_panics c src len :
  let '(o, _, _) := send c src len in o = Ok tt \/ o = Err SE_InsufficientBufferSpaceInPeer.
Proof.
  unfold send, check_with. destruct (len <=? peer_free c); [now left|]. destruct (c_pending c); now right.
Qed.

(* C17_tx_credit (3): after a successful send of a non-empty payload the bytes in flight have grown
   by exactly the payload and do not exceed the space the peer last advertised *)
Theorem in_flight_bounded c src len c' p :
  conn_wf c -> send c src len = (Ok tt, c', p) -> 0 < len ->
  in_flight c' = in_flight c + len /\ in_flight c' <= c_peer_buf_alloc c'
  /\ c_peer_buf_alloc c' = c_peer_buf_alloc c /\ c_peer_fwd_cnt c' = c_peer_fwd_cnt c.
Proof.
  intros (Ha & Hf & Ht & _) E Hl. destruct (send_ok_spec _ _ _ _ _ E) as (Hle & -> & _).
  unfold in_flight, set_tx_cnt in *. cbn [c_tx_cnt c_peer_fwd_cnt c_peer_buf_alloc].
  unfold sub32, add32, w32, two32 in *. lia.
Qed.

Example in_flight_bounded_nonvacuous :
  let c := mkConn 2 1234 4321 50 4294967290 4294967294 1024 7 false in
  conn_wf c /\ in_flight c = 4
  /\ send c 66 46 = (Ok tt, set_tx_cnt c 44, [Pkt (mkHdr 66 2 4321 1234 46 1 5 0 1024 7) 46])
  /\ in_flight (set_tx_cnt c 44) = 50.
Proof. vm_compute. repeat split; reflexivity. Qed.

(* C17_header: every packet of send / credit_update / the credit request carries, in the bytes the
   specification's layout assigns to them, the addressing of the connection, the stream type, the
   payload length, and the driver's CURRENT buf_alloc and fwd_cnt *)
Definition hdr_for (c : conn) (src_cid : N) (h : hdr) : Prop :=
  spec_dec (enc_hdr h) = Some h
  /\ h_src_cid h = src_cid /\ h_dst_cid h = c_dst_cid c /\ h_src_port h = c_src_port c
  /\ h_dst_port h = c_dst_port c /\ h_type h = TYPE_STREAM /\ h_flags h = 0
  /\ h_buf_alloc h = c_buf_alloc c /\ h_fwd_cnt h = c_fwd_cnt c.

Lemma hdr_for_new c src op len :
  ids_wf c src -> conn_wf c -> op < two16 -> len < two32 ->
  hdr_for c src (with_op_len (new_header c src) op len).
Proof.
  intros (I1 & I2 & I3 & I4) (_ & _ & _ & C4 & C5) Hop Hlen. unfold hdr_for. split.
  - apply hdr_on_wire. unfold hdr_wf, with_op_len, new_header, TYPE_STREAM. cbn. repeat split; try assumption; vm_compute; reflexivity.
  - unfold with_op_len, new_header. cbn. repeat split.
Qed.

Theorem send_header c src len o c' p :
  ids_wf c src -> conn_wf c -> send c src len = (o, c', p) ->
  Forall (fun pk => match pk with Pkt h n =>
            hdr_for c src h
            /\ ((o = Ok tt /\ h_op h = OP_RW /\ h_len h = len /\ n = len)
                \/ (o <> Ok tt /\ h_op h = OP_CREDIT_REQUEST /\ h_len h = 0 /\ n = 0)) end) p
  /\ c_buf_alloc c' = c_buf_alloc c /\ c_fwd_cnt c' = c_fwd_cnt c.
Proof.
  intros Hi Hw E. pose proof Hw as (Ha & _).
  destruct (N.leb_spec len (c_peer_buf_alloc c - in_flight c)) as [H|H].
  - destruct (proj2 (send_accepts_iff c src len) H) as (c1 & p1 & E1). rewrite E1 in E. injection E as <- <- <-.
    destruct (send_ok_spec _ _ _ _ _ E1) as (_ & -> & ->).
    assert (Hl : w32 len = len) by (unfold w32; apply N.mod_small; unfold two32 in *; lia).
    split; [|split; reflexivity]. constructor; [|constructor].
    split; [apply hdr_for_new; try assumption; [vm_compute; reflexivity|rewrite Hl; unfold two32 in *; lia]|].
    left. cbn. auto.
  - rewrite (send_refused_spec c src len H) in E. injection E as <- <- <-.
    split; [|destruct (c_pending c); split; reflexivity].
    destruct (c_pending c); constructor; [|constructor].
    split; [apply (hdr_for_new c src OP_CREDIT_REQUEST 0); try assumption; vm_compute; reflexivity|].
    right. cbn. repeat split. discriminate.
Qed.

Theorem credit_update_header c src :
  ids_wf c src -> conn_wf c ->
  exists h, credit_update c src = [Pkt h 0] /\ hdr_for c src h /\ h_op h = OP_CREDIT_UPDATE /\ h_len h = 0.
Proof.
  intros Hi Hw. eexists. split; [reflexivity|]. split; [|split; reflexivity].
  apply (hdr_for_new c src OP_CREDIT_UPDATE 0); try assumption; vm_compute; reflexivity.
Qed.

(* C17_tx_credit (4): at most one credit request between two credit updates, whatever else happens
   on the connection in between *)
Inductive cop :=
| CSend (len : N)
| CEvent (e : event)          (* update_for_event *)
| CForwarded (n : N).         (* done_forwarding *)

Definition is_request (p : pkt) : bool := match p with Pkt h _ => h_op h =? OP_CREDIT_REQUEST end.
Definition not_credit_update (o : cop) : bool :=
  match o with CEvent e => match e_type e with TCreditUpdate => false | _ => true end | _ => true end.

Fixpoint crun (c : conn) (src : N) (ops : list cop) : conn * list pkt :=
  match ops with
  | [] => (c, [])
  | CSend len :: t => let '(_, c1, p) := send c src len in let '(c2, ps) := crun c1 src t in (c2, p ++ ps)
  | CEvent e :: t => crun (update_for_event c e) src t
  | CForwarded n :: t => crun (done_forwarding c n) src t
  end.

Lemma send_requests c src len o c' p :
  send c src len = (o, c', p) ->
  (c_pending c = true -> c_pending c' = true /\ filter is_request p = [])
  /\ (c_pending c = false -> (c_pending c' = true /\ length (filter is_request p) = 1%nat)
                             \/ (c_pending c' = false /\ filter is_request p = [])).
Proof.
  intros E. destruct (N.leb_spec len (c_peer_buf_alloc c - in_flight c)) as [H|H].
  - destruct (proj2 (send_accepts_iff c src len) H) as (c1 & p1 & E1). rewrite E1 in E. injection E as <- <- <-.
    destruct (send_ok_spec _ _ _ _ _ E1) as (_ & -> & ->). cbn. split; intros Hp; [auto|right; auto].
  - rewrite (send_refused_spec c src len H) in E. injection E as <- <- <-.
    split; intros Hp; rewrite Hp; cbn; auto.
Qed.

Theorem single_credit_request ops : forall c src,
  forallb not_credit_update ops = true ->
  let '(c', ps) := crun c src ops in
  (length (filter is_request ps) <= (if c_pending c then 0 else 1))%nat
  /\ (c_pending c = true -> c_pending c' = true).
Proof.
  induction ops as [|o t IH]; intros c src Hall.
  - cbn. split; [destruct (c_pending c); lia|auto].
  - cbn [forallb] in Hall. apply andb_prop in Hall as [Ho Ht]. destruct o as [len|e|n]; cbn [crun].
    + destruct (send c src len) as [[o c1] p] eqn:E. specialize (IH c1 src Ht).
      destruct (crun c1 src t) as [c2 ps]. destruct IH as (IH1 & IH2).
      destruct (send_requests _ _ _ _ _ _ E) as (Hp1 & Hp0).
      rewrite filter_app, app_length.
      destruct (c_pending c) eqn:Ep.
      * destruct (Hp1 eq_refl) as (Hc1 & ->). rewrite Hc1 in IH1. cbn [length]. split; [lia|auto].
      * destruct (Hp0 eq_refl) as [(Hc1 & Hl)|(Hc1 & ->)]; rewrite Hc1 in IH1; cbn [length]; split; try lia; discriminate.
    + specialize (IH (update_for_event c e) src Ht). destruct (crun (update_for_event c e) src t) as [c2 ps].
      unfold update_for_event, set_peer in IH. cbn [c_pending] in IH. cbn [not_credit_update] in Ho.
      destruct (e_type e); try discriminate; exact IH.
    + specialize (IH (done_forwarding c n) src Ht). destruct (crun (done_forwarding c n) src t) as [c2 ps]. exact IH.
Qed.

(* ... and a credit update re-arms the request *)
Theorem credit_update_rearms c e : e_type e = TCreditUpdate -> c_pending (update_for_event c e) = false.
Proof. intros H. unfold update_for_event, set_peer. cbn. now rewrite H. Qed.

Example single_credit_request_nonvacuous :
  let c := mkConn 2 1234 4321 10 0 0 1024 0 false in
  let ev := mkEvent 2 1234 66 4321 10 0 (TReceived 0) in
  snd (crun c 66 [CSend 11; CSend 12; CEvent ev; CSend 20; CSend 4])
  = [Pkt (mkHdr 66 2 4321 1234 0 1 7 0 1024 0) 0; Pkt (mkHdr 66 2 4321 1234 4 1 5 0 1024 0) 4].
Proof. vm_compute. reflexivity. Qed.

(* ---- the code as found: C17 is REFUTED (F7: counters crossing 2^32; F9: the peer shrinking its
        buffer below the bytes in flight) ---- *)

(* F7a: tx_cnt + len crosses 2^32: the debug profile panics although the credit suffices *)
Theorem send_prefix_refuted_tx_wrap :
  exists c src len, conn_wf c /\ len <= c_peer_buf_alloc c - in_flight c
                    /\ fst (fst (send_prefix Debug c src len)) = Panic.
Proof. exists (mkConn 2 1234 4321 100 4294967290 4294967290 1024 0 false), 66, 10. vm_compute. repeat split; try reflexivity; discriminate. Qed.

(* F7b: once tx_cnt has wrapped and peer_fwd_cnt has not yet, tx_cnt - peer_fwd_cnt panics in debug *)
Theorem send_prefix_refuted_tx_wrapped :
  exists c src len, conn_wf c /\ in_flight c = 11 /\ len <= c_peer_buf_alloc c - in_flight c
                    /\ fst (fst (send_prefix Debug c src len)) = Panic.
Proof. exists (mkConn 2 1234 4321 100 4294967290 5 1024 0 false), 66, 10. vm_compute. repeat split; try reflexivity; discriminate. Qed.

(* F7c: fwd_cnt crossing 2^32 *)
Theorem done_forwarding_prefix_refuted :
  exists c n, conn_wf c /\ n < two32 /\ done_forwarding_prefix Debug c n = Panic.
Proof. exists (mkConn 2 1234 4321 0 0 0 1024 4294967290 false), 10. vm_compute. repeat split; reflexivity. Qed.

(* F9: the peer has shrunk buf_alloc below the bytes in flight: the release profile ACCEPTS a
   payload although no credit is left (and the debug profile panics) *)
Theorem send_prefix_refuted_credit_underflow :
  exists c src len c' p,
    conn_wf c /\ c_peer_buf_alloc c - in_flight c = 0 /\ 0 < len
    /\ send_prefix Release c src len = (Ok tt, c', p) /\ p <> []
    /\ fst (fst (send_prefix Debug c src len)) = Panic.
Proof.
  exists (mkConn 2 1234 4321 10 0 20 1024 0 false), 66, 100. eexists. eexists.
  vm_compute. repeat split; try reflexivity; discriminate.
Qed.

(* the strongest true statement about the code as found: it agrees with the repaired code when
   neither counter is involved in a wrap and the bytes in flight fit the advertised space
   (debug), resp. when the bytes in flight fit the advertised space (release) *)
Theorem send_prefix_partial m c src len :
  conn_wf c ->
  in_flight c <= c_peer_buf_alloc c ->
  (m = Debug -> c_peer_fwd_cnt c <= c_tx_cnt c /\ c_tx_cnt c + w32 len < two32) ->
  send_prefix m c src len = send c src len.
Proof.
  intros (Ha & Hf & Ht & _) Hin Hm. unfold send_prefix, send, peer_free_prefix, peer_free.
  fold (in_flight c).
  assert (E1 : psub32 m (c_tx_cnt c) (c_peer_fwd_cnt c) = Ok (in_flight c)).
  { unfold psub32, in_flight. destruct (N.leb_spec (c_peer_fwd_cnt c) (c_tx_cnt c)).
    - f_equal. unfold sub32, w32, two32 in *. lia.
    - destruct m; [destruct (Hm eq_refl); lia|reflexivity]. }
  rewrite E1.
  assert (E2 : psub32 m (c_peer_buf_alloc c) (in_flight c) = Ok (c_peer_buf_alloc c - in_flight c)).
  { unfold psub32. destruct (N.leb_spec (in_flight c) (c_peer_buf_alloc c)); [reflexivity|lia]. }
  rewrite E2. unfold check_with.
  destruct (len <=? c_peer_buf_alloc c - in_flight c); [|destruct (c_pending c); reflexivity].
  unfold padd32, add32.
  destruct (N.ltb_spec (c_tx_cnt c + w32 len) two32) as [H|H].
  - do 3 f_equal. unfold w32 at 2. symmetry. apply N.mod_small. exact H.
  - destruct m; [destruct (Hm eq_refl); lia|reflexivity].
Qed.

(* ========================================================================================= *)
(* 4. One connection against the reference observer of Model/VsockSpec.v: for EVERY history    *)
(*    of sends, peer control packets, peer data within the advertised credit, recvs of every   *)
(*    size and credit updates, started from ANY value of the free-running counters, every      *)
(*    monitor judgement is true, and the application reads exactly the peer's bytes.          *)

Definition class_of {A} (o : outcome A) : N := match o with Ok _ => 0 | Err _ => 1 | Panic => 2 | UB => 3 end.
Definition code_of {A} (o : outcome A) : N := match o with Err e => e | _ => 0 end.
Definition has_ev (o : outcome (option event)) : bool := match o with Ok (Some _) => true | _ => false end.
(* what the device sees of a packet: the header bytes, the payload length, the caller's payload *)
Definition obs_pkts (l : list pkt) : list opkt := map (fun p => match p with Pkt h n => (enc_hdr h, n, true) end) l.

Inductive sop :=
| SSend (len : N)                               (* the application sends len bytes *)
| SPeerCtrl (op alloc k : N)                    (* response / credit update / credit request from the peer,
                                                   reporting buf_alloc = alloc and k more bytes consumed *)
| SPeerData (bytes : list N) (alloc k : N)      (* a data packet from the peer *)
| SRecv (out_len : N)                           (* the application reads into a buffer of out_len bytes *)
| SUpdateCredit.                                (* the application sends a credit update *)

(* the header the peer writes *)
Definition peer_hdr (st : sspec) (op alloc k len : N) : hdr :=
  mkHdr (s_peer_cid st) (s_guest_cid st) (s_peer_port st) (s_local_port st) len TYPE_STREAM op 0 alloc
        (peer_fwd_field st k).

(* one step of the product: the model performs the operation, the observer judges what it sees;
   the last component is what the application was handed *)
Definition sys_step (v : vconn) (st : sspec) (o : sop) : vconn * sspec * bool * list N :=
  let g := s_guest_cid st in
  match o with
  | SSend len =>
      let '(r, v', p) := vsend v g len in
      let '(st', b) := mon_send st len (class_of r) (code_of r) (obs_pkts p) in (v', st', b, [])
  | SPeerCtrl op alloc k =>
      match poll_packet v g (enc_hdr (peer_hdr st op alloc k 0)) with
      | Some (r, v', p) =>
          let '(st', b) := mon_peer_ctrl st op alloc k (class_of r) (has_ev r) (obs_pkts p) in (v', st', b, [])
      | None => (v, st, false, [])
      end
  | SPeerData bytes alloc k =>
      match poll_packet v g (enc_hdr (peer_hdr st OP_RW alloc k (lenN bytes)) ++ bytes) with
      | Some (r, v', p) =>
          let '(st', b) := mon_peer_data st bytes alloc k (class_of r) (obs_pkts p) in (v', st', b, [])
      | None => (v, st, false, [])
      end
  | SRecv n =>
      let '(r, v') := recv v n in
      let bytes := match r with Ok b => b | _ => [] end in
      let '(st', b) := mon_recv st n (class_of r) (lenN bytes) bytes [] in (v', st', b, bytes)
  | SUpdateCredit =>
      let '(st', b) := mon_update_credit st 0 (obs_pkts (vupdate_credit v g)) in (v, st', b, [])
  end.

(* what the environment may do: the peer reports consumption of bytes that were sent to it, its
   fields are 32-bit, and it is HONEST: a data packet fits the credit of the last packet it saw *)
Definition env_ok (st : sspec) (o : sop) : bool :=
  match o with
  | SPeerCtrl op alloc k =>
      ((op =? OP_RESPONSE) || (op =? OP_CREDIT_UPDATE) || (op =? OP_CREDIT_REQUEST))
      && (alloc <? two32) && (k <=? s_tx_total st - s_peer_fwd st)
  | SPeerData bytes alloc k =>
      (alloc <? two32) && (k <=? s_tx_total st - s_peer_fwd st) && (lenN bytes <=? peer_credit st)
  | _ => true
  end.
Definition data_of (o : sop) : list N := match o with SPeerData b _ _ => b | _ => [] end.

(* the simulation relation between the driver (32-bit wrapping counters) and the observer
   (unbounded counters) *)
Record Rel (v : vconn) (st : sspec) : Prop := mkRel {
  R_dcid : c_dst_cid (v_info v) = s_peer_cid st;
  R_dport : c_dst_port (v_info v) = s_peer_port st;
  R_sport : c_src_port (v_info v) = s_local_port st;
  R_g64 : s_guest_cid st < two64; R_p64 : s_peer_cid st < two64;
  R_pp32 : s_peer_port st < two32; R_lp32 : s_local_port st < two32;
  R_wf : rb_wf (v_rb v);
  R_cap : rb_cap (v_rb v) = s_cap st;
  R_cap32 : s_cap st < two32;
  R_alloc : c_buf_alloc (v_info v) = s_cap st;
  R_fwd : c_fwd_cnt (v_info v) = w32 (s_rx_base st + s_delivered st);
  R_abs : rb_abs (v_rb v) = s_fifo st;
  R_sent : s_sent st = s_delivered st + lenN (s_fifo st);
  R_adv : s_adv_alloc st = s_cap st;
  R_view : exists d, d <= s_delivered st /\ s_adv_fwd st = w32 (s_rx_base st + d) /\ s_sent st - d <= s_cap st;
  R_tx : c_tx_cnt (v_info v) = w32 (s_tx_base st + s_tx_total st);
  R_pfc : c_peer_fwd_cnt (v_info v) = w32 (s_tx_base st + s_peer_fwd st);
  R_FT : s_peer_fwd st <= s_tx_total st;
  R_fl32 : s_tx_total st - s_peer_fwd st < two32;
  R_pba : c_peer_buf_alloc (v_info v) = s_peer_alloc st;
  R_pba32 : s_peer_alloc st < two32;
  R_pend : c_pending (v_info v) = s_req st }.

Lemma Rel_fifo_len v st : Rel v st -> lenN (s_fifo st) <= s_cap st.
Proof. intros R. rewrite <- (R_abs _ _ R), rb_abs_length, <- (R_cap _ _ R). apply (R_wf _ _ R). Qed.

Lemma Rel_conn_wf v st : Rel v st -> conn_wf (v_info v) /\ ids_wf (v_info v) (s_guest_cid st).
Proof.
  intros R. unfold conn_wf, ids_wf.
  rewrite (R_pba _ _ R), (R_pfc _ _ R), (R_tx _ _ R), (R_alloc _ _ R), (R_fwd _ _ R), (R_dcid _ _ R), (R_dport _ _ R), (R_sport _ _ R).
  pose proof (R_pba32 _ _ R). pose proof (R_cap32 _ _ R). pose proof (R_g64 _ _ R). pose proof (R_p64 _ _ R).
  pose proof (R_pp32 _ _ R). pose proof (R_lp32 _ _ R).
  unfold w32, two32 in *. repeat split; try assumption; apply N.mod_lt; discriminate.
Qed.

Lemma sub32_w32_diff a x y : y <= x -> x - y < two32 -> sub32 (w32 (a + x)) (w32 (a + y)) = x - y.
Proof. intros H1 H2. unfold sub32, w32, two32 in *. lia. Qed.

Lemma Rel_in_flight v st : Rel v st -> in_flight (v_info v) = s_tx_total st - s_peer_fwd st.
Proof.
  intros R. unfold in_flight. rewrite (R_tx _ _ R), (R_pfc _ _ R).
  apply sub32_w32_diff; [apply (R_FT _ _ R)|apply (R_fl32 _ _ R)].
Qed.

Lemma Rel_peer_free v st : Rel v st -> c_peer_buf_alloc (v_info v) - in_flight (v_info v) = tx_free st.
Proof. intros R. unfold tx_free. now rewrite (Rel_in_flight _ _ R), (R_pba _ _ R). Qed.

(* every header the driver builds in such a state passes the observer's field checks *)
Lemma Rel_fields v st op len :
  Rel v st -> op < two16 -> len < two32 ->
  let h := with_op_len (new_header (v_info v) (s_guest_cid st)) op len in
  spec_dec (enc_hdr h) = Some h /\ pkt_fields_ok st h = true
  /\ h_buf_alloc h = s_cap st /\ h_fwd_cnt h = w32 (s_rx_base st + s_delivered st).
Proof.
  intros R Hop Hlen h. destruct (Rel_conn_wf _ _ R) as (Hcw & Hiw).
  destruct (hdr_for_new (v_info v) (s_guest_cid st) op len Hiw Hcw Hop Hlen) as (Hdec & _).
  split; [exact Hdec|]. subst h. unfold pkt_fields_ok, with_op_len, new_header.
  cbn [h_src_cid h_dst_cid h_src_port h_dst_port h_type h_buf_alloc h_fwd_cnt].
  rewrite (R_dcid _ _ R), (R_dport _ _ R), (R_sport _ _ R), (R_alloc _ _ R), (R_fwd _ _ R), !N.eqb_refl.
  cbn [andb]. split; [|split; reflexivity]. apply N.leb_le.
  pose proof (Rel_fifo_len _ _ R) as HL. pose proof (R_sent _ _ R) as HS. pose proof (R_cap32 _ _ R) as HC.
  rewrite sub32_w32_diff by (unfold two32 in *; lia). lia.
Qed.

Lemma list_eqb_refl l : list_eqb l l = true.
Proof.
  unfold list_eqb. rewrite N.eqb_refl. cbn [andb].
  induction l as [|x t IH]; [reflexivity|]. cbn [combine forallb fst snd]. now rewrite N.eqb_refl, IH.
Qed.

Lemma step_send v st len :
  Rel v st ->
  exists v' st', sys_step v st (SSend len) = (v', st', true, []) /\ Rel v' st' /\ s_fifo st' = s_fifo st.
Proof.
  intros R. cbn [sys_step]. unfold vsend.
  pose proof (Rel_peer_free _ _ R) as Hfree.
  destruct (N.leb_spec len (tx_free st)) as [Hle|Hgt].
  - (* enough credit *)
    assert (Hle' : len <= c_peer_buf_alloc (v_info v) - in_flight (v_info v)) by lia.
    destruct (proj2 (send_accepts_iff (v_info v) (s_guest_cid st) len) Hle') as (c1 & p1 & E1). rewrite E1.
    destruct (send_ok_spec _ _ _ _ _ E1) as (_ & -> & ->).
    assert (Hl32 : len < two32).
    { pose proof (R_pba32 _ _ R). unfold tx_free in Hle. lia. }
    assert (Hw : w32 len = len) by (unfold w32; apply N.mod_small; exact Hl32).
    rewrite Hw.
    destruct (Rel_fields v st OP_RW len R ltac:(vm_compute; reflexivity) Hl32) as (Hdec & Hok & Hba & Hfw).
    cbn [class_of code_of obs_pkts map]. unfold mon_send.
    destruct (N.leb_spec len (tx_free st)); [|lia].
    rewrite Hdec, Hok. cbn [with_op_len h_op h_len]. rewrite !N.eqb_refl. cbn [andb].
    eexists; eexists. split; [reflexivity|]. split; [|reflexivity].
    pose proof (R_FT _ _ R). pose proof (R_fl32 _ _ R). pose proof (R_pba32 _ _ R).
    pose proof (Rel_fifo_len v st R). unfold tx_free in Hle.
    destruct R. constructor; cbn; try assumption.
    + exists (s_delivered st). split; [lia|]. split; [exact R_fwd0|]. rewrite R_sent0. lia.
    + rewrite R_tx0. unfold add32, w32, two32. lia.
    + lia.
    + lia.
  - (* refused *)
    assert (Hgt' : c_peer_buf_alloc (v_info v) - in_flight (v_info v) < len) by lia.
    rewrite (send_refused_spec _ (s_guest_cid st) _ Hgt').
    cbn [class_of code_of]. unfold mon_send.
    destruct (N.leb_spec len (tx_free st)); [lia|]. rewrite !N.eqb_refl. cbn [andb].
    rewrite <- (R_pend _ _ R). destruct (c_pending (v_info v)) eqn:Ep.
    + cbn [obs_pkts map]. eexists; eexists. split; [reflexivity|]. split; [|reflexivity].
      destruct R; constructor; cbn; assumption.
    + cbn [obs_pkts map]. unfold ctrl_ok.
      destruct (Rel_fields v st OP_CREDIT_REQUEST 0 R ltac:(vm_compute; reflexivity) ltac:(vm_compute; reflexivity)) as (Hdec & Hok & Hba & Hfw).
      change (with_op (new_header (v_info v) (s_guest_cid st)) OP_CREDIT_REQUEST)
        with (with_op_len (new_header (v_info v) (s_guest_cid st)) OP_CREDIT_REQUEST 0).
      rewrite Hdec, Hok. cbn [with_op_len h_op h_len]. rewrite !N.eqb_refl. cbn [andb].
      eexists; eexists. split; [reflexivity|]. split; [|reflexivity].
      pose proof (Rel_fifo_len v st R).
      destruct R. constructor; cbn; try assumption; try reflexivity.
      exists (s_delivered st). split; [lia|]. split; [exact R_fwd0|]. rewrite R_sent0. lia.
Qed.

Lemma step_update_credit v st :
  Rel v st ->
  exists st', sys_step v st SUpdateCredit = (v, st', true, []) /\ Rel v st' /\ s_fifo st' = s_fifo st.
Proof.
  intros R. cbn [sys_step]. unfold vupdate_credit, credit_update. cbn [obs_pkts map].
  unfold mon_update_credit, ctrl_ok.
  destruct (Rel_fields v st OP_CREDIT_UPDATE 0 R ltac:(vm_compute; reflexivity) ltac:(vm_compute; reflexivity)) as (Hdec & Hok & Hba & Hfw).
  change (with_op (new_header (v_info v) (s_guest_cid st)) OP_CREDIT_UPDATE)
    with (with_op_len (new_header (v_info v) (s_guest_cid st)) OP_CREDIT_UPDATE 0).
  rewrite Hdec, Hok. cbn [with_op_len h_op h_len]. rewrite !N.eqb_refl. cbn [andb].
  eexists. split; [reflexivity|]. split; [|reflexivity].
  pose proof (Rel_fifo_len v st R).
  destruct R. constructor; cbn; try assumption; try reflexivity.
  exists (s_delivered st). split; [lia|]. split; [exact R_fwd0|]. rewrite R_sent0. lia.
Qed.

Lemma fifo_drain_parts q n :
  let '(out, q') := fifo_drain q n in
  out ++ q' = q /\ lenN out = N.min n (lenN q) /\ lenN q' = lenN q - N.min n (lenN q).
Proof.
  unfold fifo_drain. split; [apply firstn_skipn|].
  unfold lenN. rewrite firstn_length, skipn_length. lia.
Qed.

Lemma step_recv v st n :
  Rel v st ->
  exists v' st' bytes, sys_step v st (SRecv n) = (v', st', true, bytes) /\ Rel v' st'
                       /\ bytes ++ s_fifo st' = s_fifo st.
Proof.
  intros R. cbn [sys_step]. unfold recv.
  destruct (rb_drain_refines (v_rb v) n (R_wf _ _ R)) as (rb' & E & Ha & Hw & Hc & _ & _).
  rewrite E. rewrite (R_abs _ _ R) in *.
  pose proof (fifo_drain_parts (s_fifo st) n) as Hp.
  unfold mon_recv. destruct (fifo_drain (s_fifo st) n) as [out q'] eqn:Ed. cbn [fst snd] in *.
  destruct Hp as (Happ & Hlo & Hlq).
  cbn [class_of]. rewrite !N.eqb_refl, list_eqb_refl. cbn [andb].
  eexists; eexists; eexists. split; [reflexivity|]. split; [|exact Happ].
  pose proof (Rel_fifo_len v st R). pose proof (R_cap32 _ _ R).
  destruct R. constructor; cbn; try assumption; try reflexivity.
  - congruence.
  - rewrite R_fwd0. unfold add32, w32, two32 in *. lia.
  - lia.
  - destruct R_view0 as (d & Hd1 & Hd2 & Hd3). exists d. split; [lia|]. split; assumption.
Qed.

Lemma Rel_peer_reports v st alloc k (cu : bool) :
  Rel v st -> alloc < two32 -> k <= s_tx_total st - s_peer_fwd st ->
  Rel (mkV (set_peer (v_info v) alloc (peer_fwd_field st k) (if cu then false else c_pending (v_info v))) (v_rb v))
      (peer_reports st alloc k cu).
Proof.
  intros R Ha Hk. destruct R. constructor; cbn; try assumption; try reflexivity.
  - unfold peer_fwd_field. f_equal. lia.
  - lia.
  - lia.
  - now rewrite R_pend0.
Qed.

Lemma peer_hdr_wf st op alloc k len :
  s_guest_cid st < two64 -> s_peer_cid st < two64 -> s_peer_port st < two32 -> s_local_port st < two32 ->
  op < two16 -> alloc < two32 -> len < two32 -> hdr_wf (peer_hdr st op alloc k len).
Proof.
  intros. unfold hdr_wf, peer_hdr, peer_fwd_field, TYPE_STREAM.
  cbn [h_src_cid h_dst_cid h_src_port h_dst_port h_len h_type h_op h_flags h_buf_alloc h_fwd_cnt].
  repeat split; try assumption; try reflexivity.
  unfold w32, two32. apply N.mod_lt. discriminate.
Qed.

Lemma rhb_peer ph body :
  hdr_wf ph -> h_len ph = lenN body -> read_header_and_body (enc_hdr ph ++ body) = Ok (ph, body).
Proof.
  intros Hwf Hl. unfold read_header_and_body. rewrite lenN_app, enc_hdr_length, (dec_enc_hdr ph body Hwf), Hl.
  unfold HDR_SIZE.
  destruct (N.ltb_spec (44 + lenN body) 44) as [?|_]; [lia|].
  assert (lenN body < two32) by (rewrite <- Hl; apply Hwf).
  destruct (N.leb_spec two64 (44 + lenN body)) as [?|_]; [unfold two64, two32 in *; lia|].
  destruct (N.ltb_spec (44 + lenN body) (44 + lenN body)) as [?|_]; [lia|].
  rewrite skipn_app_len by (pose proof (enc_hdr_length ph); unfold lenN in *; lia).
  unfold lenN. rewrite Nat2N.id, firstn_all. reflexivity.
Qed.

Lemma matches_peer v st alloc k t :
  Rel v st ->
  matches_connection (mkEvent (s_peer_cid st) (s_peer_port st) (s_guest_cid st) (s_local_port st) alloc
                              (peer_fwd_field st k) t) (v_info v) (s_guest_cid st) = true.
Proof.
  intros R. unfold matches_connection. cbn [e_src_cid e_src_port e_dst_cid e_dst_port].
  now rewrite (R_dcid _ _ R), (R_dport _ _ R), (R_sport _ _ R), !N.eqb_refl.
Qed.

Lemma step_peer_ctrl v st op alloc k :
  Rel v st -> env_ok st (SPeerCtrl op alloc k) = true ->
  exists v' st', sys_step v st (SPeerCtrl op alloc k) = (v', st', true, []) /\ Rel v' st' /\ s_fifo st' = s_fifo st.
Proof.
  intros R He. cbn [env_ok] in He.
  apply andb_prop in He as [He Hk]. apply andb_prop in He as [Hop Ha].
  apply N.ltb_lt in Ha. apply N.leb_le in Hk.
  assert (Hop16 : op < two16).
  { apply orb_prop in Hop as [Hop|Hop]; [apply orb_prop in Hop as [Hop|Hop]|]; apply N.eqb_eq in Hop; subst op; vm_compute; reflexivity. }
  pose proof (peer_hdr_wf st op alloc k 0 (R_g64 _ _ R) (R_p64 _ _ R) (R_pp32 _ _ R) (R_lp32 _ _ R) Hop16 Ha ltac:(vm_compute; reflexivity)) as Hwf.
  cbn [sys_step]. unfold poll_packet.
  rewrite <- (app_nil_r (enc_hdr (peer_hdr st op alloc k 0))).
  rewrite (rhb_peer _ [] Hwf eq_refl).
  apply orb_prop in Hop as [Hop|Hop]; [apply orb_prop in Hop as [Hop|Hop]|]; apply N.eqb_eq in Hop; subst op.
  - (* response *)
    change (from_header (peer_hdr st OP_RESPONSE alloc k 0))
      with (Ok (mkEvent (s_peer_cid st) (s_peer_port st) (s_guest_cid st) (s_local_port st) alloc (peer_fwd_field st k) TConnected)).
    cbv beta iota. rewrite (matches_peer v st alloc k _ R). cbn [e_type].
    cbn [class_of has_ev obs_pkts map]. unfold mon_peer_ctrl.
    change (OP_RESPONSE =? OP_CREDIT_REQUEST) with false. change (OP_RESPONSE =? OP_CREDIT_UPDATE) with false. cbn [andb N.eqb].
    eexists; eexists. split; [reflexivity|]. split; [|reflexivity].
    unfold update_for_event. cbn [e_buf_alloc e_fwd_cnt e_type].
    apply (Rel_peer_reports v st alloc k false R Ha Hk).
  - (* credit update *)
    change (from_header (peer_hdr st OP_CREDIT_UPDATE alloc k 0))
      with (Ok (mkEvent (s_peer_cid st) (s_peer_port st) (s_guest_cid st) (s_local_port st) alloc (peer_fwd_field st k) TCreditUpdate)).
    cbv beta iota. rewrite (matches_peer v st alloc k _ R). cbn [e_type].
    cbn [class_of has_ev obs_pkts map]. unfold mon_peer_ctrl.
    change (OP_CREDIT_UPDATE =? OP_CREDIT_REQUEST) with false. change (OP_CREDIT_UPDATE =? OP_CREDIT_UPDATE) with true. cbn [andb N.eqb].
    eexists; eexists. split; [reflexivity|]. split; [|reflexivity].
    unfold update_for_event. cbn [e_buf_alloc e_fwd_cnt e_type].
    apply (Rel_peer_reports v st alloc k true R Ha Hk).
  - (* credit request: answered by a credit update *)
    change (from_header (peer_hdr st OP_CREDIT_REQUEST alloc k 0))
      with (Ok (mkEvent (s_peer_cid st) (s_peer_port st) (s_guest_cid st) (s_local_port st) alloc (peer_fwd_field st k) TCreditRequest)).
    cbv beta iota. rewrite (matches_peer v st alloc k _ R). cbn [e_type].
    unfold update_for_event. cbn [e_buf_alloc e_fwd_cnt e_type].
    pose proof (Rel_peer_reports v st alloc k false R Ha Hk) as R1.
    set (v1 := mkV (set_peer (v_info v) alloc (peer_fwd_field st k) (c_pending (v_info v))) (v_rb v)) in *.
    set (st1 := peer_reports st alloc k false) in *.
    cbn [class_of has_ev]. unfold mon_peer_ctrl.
    change (OP_CREDIT_REQUEST =? OP_CREDIT_REQUEST) with true. change (OP_CREDIT_REQUEST =? OP_CREDIT_UPDATE) with false. cbv iota.
    fold st1. unfold credit_update. cbn [obs_pkts map]. unfold ctrl_ok.
    destruct (Rel_fields v1 st1 OP_CREDIT_UPDATE 0 R1 ltac:(vm_compute; reflexivity) ltac:(vm_compute; reflexivity)) as (Hdec & Hok & Hba & Hfw).
    change (s_guest_cid st1) with (s_guest_cid st) in *. change (v_info v1) with (set_peer (v_info v) alloc (peer_fwd_field st k) (c_pending (v_info v))) in *.
    change (with_op (new_header (set_peer (v_info v) alloc (peer_fwd_field st k) (c_pending (v_info v))) (s_guest_cid st)) OP_CREDIT_UPDATE)
      with (with_op_len (new_header (set_peer (v_info v) alloc (peer_fwd_field st k) (c_pending (v_info v))) (s_guest_cid st)) OP_CREDIT_UPDATE 0).
    rewrite Hdec, Hok. cbn [with_op_len h_op h_len]. rewrite !N.eqb_refl. cbn [andb negb].
    eexists; eexists. split; [reflexivity|]. split; [|reflexivity].
    pose proof (Rel_fifo_len v1 st1 R1).
    destruct R1. constructor; cbn; try assumption; try reflexivity.
    exists (s_delivered st). split; [lia|]. split; [exact R_fwd0|]. cbn in R_sent0. rewrite R_sent0. cbn in H. lia.
Qed.

Lemma Rel_peer_credit v st : Rel v st -> peer_credit st <= s_cap st - lenN (s_fifo st) /\ peer_credit st < two32.
Proof.
  intros R. unfold peer_credit. rewrite (R_adv _ _ R).
  destruct (R_view _ _ R) as (d & Hd1 & Hd2 & Hd3). rewrite Hd2.
  pose proof (R_sent _ _ R). pose proof (R_cap32 _ _ R).
  rewrite sub32_w32_diff by lia. lia.
Qed.

Lemma step_peer_data v st bytes alloc k :
  Rel v st -> env_ok st (SPeerData bytes alloc k) = true ->
  exists v' st', sys_step v st (SPeerData bytes alloc k) = (v', st', true, []) /\ Rel v' st'
                 /\ s_fifo st' = s_fifo st ++ bytes.
Proof.
  intros R He. cbn [env_ok] in He.
  apply andb_prop in He as [He Hh]. apply andb_prop in He as [Ha Hk].
  apply N.ltb_lt in Ha. apply N.leb_le in Hk. apply N.leb_le in Hh.
  destruct (Rel_peer_credit v st R) as (Hcr & Hcr32).
  assert (Hl32 : lenN bytes < two32) by lia.
  pose proof (peer_hdr_wf st OP_RW alloc k (lenN bytes) (R_g64 _ _ R) (R_p64 _ _ R) (R_pp32 _ _ R) (R_lp32 _ _ R)
                ltac:(reflexivity) Ha Hl32) as Hwf.
  cbn [sys_step]. unfold poll_packet.
  rewrite (rhb_peer _ bytes Hwf eq_refl).
  change (from_header (peer_hdr st OP_RW alloc k (lenN bytes)))
    with (Ok (mkEvent (s_peer_cid st) (s_peer_port st) (s_guest_cid st) (s_local_port st) alloc (peer_fwd_field st k) (TReceived (lenN bytes)))).
  cbv beta iota. rewrite (matches_peer v st alloc k _ R). cbn [e_type].
  unfold update_for_event. cbn [e_buf_alloc e_fwd_cnt e_type].
  pose proof (Rel_peer_reports v st alloc k false R Ha Hk) as R1.
  pose proof (rb_add_refines (v_rb v) bytes (R_wf _ _ R)) as Hadd.
  unfold fifo_add in Hadd. rewrite (R_abs _ _ R), (R_cap _ _ R) in Hadd.
  destruct (N.leb_spec (lenN bytes) (s_cap st - lenN (s_fifo st))) as [_|?]; [|lia].
  destruct Hadd as (rb' & E & Habs & Hwf' & Hcap' & _ & _). rewrite E.
  cbn [class_of obs_pkts map]. unfold mon_peer_data.
  destruct (N.leb_spec (lenN bytes) (peer_credit st)) as [_|?]; [|lia].
  rewrite N.eqb_refl. cbn [andb].
  eexists; eexists. split; [reflexivity|]. split; [|reflexivity].
  destruct R1. cbn [v_info v_rb] in *. constructor; cbn; try assumption; try reflexivity.
  - cbn in R_sent0. rewrite R_sent0, lenN_app. lia.
  - cbn in R_view0. destruct R_view0 as (d & Hd1 & Hd2 & Hd3). exists d. split; [exact Hd1|]. split; [exact Hd2|].
    unfold peer_credit in Hh. rewrite (R_adv _ _ R), Hd2 in Hh.
    pose proof (R_sent _ _ R). pose proof (R_cap32 _ _ R).
    rewrite sub32_w32_diff in Hh by lia. lia.
Qed.

(* one step, any operation *)
Theorem sys_step_ok v st o :
  Rel v st -> env_ok st o = true ->
  exists v' st' bytes, sys_step v st o = (v', st', true, bytes) /\ Rel v' st'
                       /\ bytes ++ s_fifo st' = s_fifo st ++ data_of o.
Proof.
  intros R He. destruct o as [len|op alloc k|b alloc k|n|]; cbn [data_of].
  - destruct (step_send v st len R) as (v' & st' & E & R' & Hf). exists v', st', []. rewrite app_nil_r. cbn [app]. auto.
  - destruct (step_peer_ctrl v st op alloc k R He) as (v' & st' & E & R' & Hf). exists v', st', []. rewrite app_nil_r. cbn [app]. auto.
  - destruct (step_peer_data v st b alloc k R He) as (v' & st' & E & R' & Hf). exists v', st', []. cbn [app]. auto.
  - destruct (step_recv v st n R) as (v' & st' & bytes & E & R' & Hf). exists v', st', bytes. rewrite app_nil_r. auto.
  - destruct (step_update_credit v st R) as (st' & E & R' & Hf). exists v, st', []. rewrite app_nil_r. cbn [app]. auto.
Qed.

(* whole histories: env = the environment stayed within its rules, mons = every judgement of the
   observer was true, then the bytes handed to the application and the bytes of the peer *)
Fixpoint sys_run (v : vconn) (st : sspec) (ops : list sop) : bool * bool * vconn * sspec * list N * list N :=
  match ops with
  | [] => (true, true, v, st, [], [])
  | o :: t =>
      let e := env_ok st o in
      let '(v1, st1, b, d) := sys_step v st o in
      let '(e2, b2, v2, st2, ds, ss) := sys_run v1 st1 t in
      (e && e2, b && b2, v2, st2, d ++ ds, data_of o ++ ss)
  end.

(* C17_lossless / C17_wrap: for every history in which the peer honours the advertised credit, from
   any starting value of the four free-running counters: every send is accepted exactly when the
   credit suffices and otherwise refused with at most one credit request; every packet carries the
   current buf_alloc / fwd_cnt and never implies more credit than there is free space; no peer
   data is refused; and what the application has read, followed by what is still buffered, is
   what the peer sent, in order. *)
Theorem sys_run_ok ops : forall v st,
  Rel v st ->
  let '(e, b, v', st', delivered, sent) := sys_run v st ops in
  e = true ->
  b = true /\ Rel v' st' /\ delivered ++ s_fifo st' = s_fifo st ++ sent /\ rb_abs (v_rb v') = s_fifo st'.
Proof.
  induction ops as [|o t IH]; intros v st R.
  - cbn [sys_run]. intros _. rewrite !app_nil_r. cbn [app].
    split; [reflexivity|]. split; [exact R|]. split; [reflexivity|apply (R_abs _ _ R)].
  - cbn [sys_run]. destruct (env_ok st o) eqn:He.
    + destruct (sys_step_ok v st o R He) as (v1 & st1 & d & E & R1 & Hd). rewrite E.
      specialize (IH v1 st1 R1). destruct (sys_run v1 st1 t) as [[[[[e2 b2] v2] st2] ds] ss].
      cbn [andb]. intros He2. destruct (IH He2) as (-> & R2 & Hds & Ha).
      split; [reflexivity|]. split; [exact R2|]. split; [|exact Ha].
      rewrite <- app_assoc, Hds, app_assoc, Hd, <- app_assoc. reflexivity.
    + destruct (sys_step v st o) as [[[v1 st1] b] d]. destruct (sys_run v1 st1 t) as [[[[[e2 b2] v2] st2] ds] ss].
      cbn [andb]. discriminate.
Qed.

(* the initial state of a connection (Connection::new with capacity cap, then the counters set to
   arbitrary 32-bit values, tx_cnt = peer_fwd_cnt and the peer's own counter = fwd_cnt: nothing in
   flight in either direction) is related to the observer's initial state *)
Theorem Rel_init guest pc pp lp cap rxb txb alloc :
  guest < two64 -> pc < two64 -> pp < two32 -> lp < two32 -> 1 <= cap -> cap < two32 ->
  rxb < two32 -> txb < two32 -> alloc < two32 ->
  Rel (mkV (mkConn pc pp lp alloc txb txb cap rxb false) (rb_new cap))
      (spec_init guest pc pp lp cap rxb txb 0 alloc false).
Proof.
  intros. destruct (rb_new_spec cap) as (Hw & Hc & Ha); [assumption|].
  constructor; cbn [v_info v_rb c_dst_cid c_dst_port c_src_port c_buf_alloc c_fwd_cnt c_tx_cnt c_peer_fwd_cnt
    c_peer_buf_alloc c_pending spec_init s_guest_cid s_peer_cid s_peer_port s_local_port s_cap s_rx_base s_sent
    s_delivered s_fifo s_adv_alloc s_adv_fwd s_tx_base s_tx_total s_peer_fwd s_peer_alloc s_req];
    try assumption; try reflexivity.
  - rewrite N.add_0_r. unfold w32. symmetry. now apply N.mod_small.
  - exists 0. rewrite N.add_0_r. repeat split; lia.
  - rewrite N.add_0_r. unfold w32. symmetry. now apply N.mod_small.
  - rewrite N.add_0_r. unfold w32. symmetry. now apply N.mod_small.
Qed.

(* non-vacuity: a history that takes both the transmit and the forward counter across 2^32, with a
   capacity-3 buffer wrapping around, a refused send, one credit request, a credit update *)
Example sys_run_nonvacuous :
  let v := mkV (mkConn 2 1234 4321 8 4294967294 4294967294 3 4294967295 false) (rb_new 3) in
  let st := spec_init 66 2 1234 4321 3 4294967295 4294967294 0 8 false in
  Rel v st /\
  let '(e, b, v', st', delivered, sent) :=
    sys_run v st [SSend 5; SSend 4; SSend 4; SPeerData [7; 8] 8 0; SRecv 1; SPeerCtrl 6 8 5; SSend 4;
                  SPeerData [9; 10] 8 0; SRecv 5; SUpdateCredit; SPeerData [11; 12; 13] 8 4; SRecv 2] in
  e = true /\ b = true /\ delivered = [7; 8; 9; 10; 11; 12] /\ sent = [7; 8; 9; 10; 11; 12; 13]
  /\ c_tx_cnt (v_info v') = 7 /\ c_fwd_cnt (v_info v') = 5 /\ c_pending (v_info v') = false
  /\ s_tx_total st' = 9 /\ s_delivered st' = 6 /\ v_rb v' = mkRB [13; 11; 12] 1 0.
Proof.
  split; [apply Rel_init; vm_compute; try reflexivity; discriminate|].
  vm_compute. repeat split; reflexivity.
Qed.

(* C17_rx_credit: the credit a peer derives from ANY header the driver builds in a reachable state
   (5.10.6.3: buf_alloc - (tx_cnt - fwd_cnt) on 32-bit values) never exceeds the free space of the
   ring buffer; w = payload bytes the peer has sent that still sit in the rx virtqueue (they are in
   the peer's tx_cnt, not yet in the ring buffer) *)
Theorem rx_credit_never_overstates v st w :
  Rel v st -> lenN (s_fifo st) + w < two32 ->
  let h := new_header (v_info v) (s_guest_cid st) in
  h_buf_alloc h - sub32 (w32 (s_rx_base st + (s_sent st + w))) (h_fwd_cnt h)
  = rb_cap (v_rb v) - rb_used (v_rb v) - w.
Proof.
  intros R Hw h. subst h. unfold new_header. cbn [h_buf_alloc h_fwd_cnt].
  rewrite (R_alloc _ _ R), (R_fwd _ _ R), (R_cap _ _ R), <- rb_abs_length, (R_abs _ _ R).
  pose proof (R_sent _ _ R) as HS. rewrite sub32_w32_diff by lia. lia.
Qed.

(* read_header_and_body only ever hands out a body that lies inside the buffer, of the length the
   header states, with the header decoded as the specification lays it out *)
Local Opaque skipn firstn.
Theorem rhb_sound b h body :
  read_header_and_body b = Ok (h, body) ->
  spec_dec b = Some h /\ lenN body = h_len h /\ 44 + h_len h <= lenN b
  /\ body = firstn (N.to_nat (h_len h)) (skipn 44 b).
Proof.
  unfold read_header_and_body, HDR_SIZE.
  destruct (N.ltb_spec (lenN b) 44) as [|H44]; [discriminate|].
  rewrite (dec_hdr_is_spec b H44). generalize (dec_hdr b) as hd. intros hd.
  destruct (two64 <=? 44 + h_len hd); [discriminate|].
  destruct (N.ltb_spec (lenN b) (44 + h_len hd)) as [|Hle]; [discriminate|].
  intros E; injection E as <- <-. split; [reflexivity|]. split; [|split; [exact Hle|reflexivity]].
  unfold lenN in *. rewrite firstn_length, skipn_length. lia.
Qed.
Local Transparent skipn firstn.

(* F7 at the level of the connection manager: recv on the code as found panics in the debug profile
   when fwd_cnt crosses 2^32, AFTER the bytes have left the ring buffer: they are lost *)
Theorem recv_prefix_refuted :
  exists v n, rb_wf (v_rb v) /\ rb_abs (v_rb v) = [7; 8] /\ conn_wf (v_info v)
              /\ fst (recv_prefix Debug v n) = Panic
              /\ rb_abs (v_rb (snd (recv_prefix Debug v n))) = []
              /\ fst (recv v n) = Ok [7; 8].
Proof.
  exists (mkV (mkConn 2 1234 4321 0 0 0 4 4294967295 false) (mkRB [0; 0; 7; 8] 2 2)), 2.
  vm_compute. repeat split; try reflexivity; discriminate.
Qed.
