(* C05: no interleaving of the blocking helper with a specification-following notification-driven device
   reaches the lost wake-up state; and whenever the driver still waits, some step is enabled that makes
   progress towards serving the request (no deadlock). *)
From VD Require Import Base.Words Model.Queue Model.Wakeup.
From Coq Require Import ZArith Lia ZifyBool ZifyN.
Ltac Zify.zify_post_hook ::= Z.div_mod_to_equations.

Lemma decide_armed ei a0 : a0 < two16 -> decide ei (w16 (a0 + 1)) (armed_word ei a0) = true.
Proof.
  intros H. unfold decide, armed_word. destruct ei; [|reflexivity].
  unfold sub16, add16, w16, two16 in *. lia.
Qed.

Definition a1 (s : wstate) : N := w16 (w_a0 s + 1).

Definition WInv (s : wstate) : Prop :=
  w_a0 s < two16
  (* the device has served nothing or exactly the request *)
  /\ ((w_seen s = w_a0 s /\ w_used s = w_a0 s) \/ (w_seen s = a1 s /\ w_used s = a1 s /\ w_drv s <> D0))
  (* the index in memory *)
  /\ (w_drv s = D0 -> w_idx s = w_a0 s) /\ (w_drv s <> D0 -> w_idx s = a1 s)
  (* a device that is about to sleep or asleep has published its word *)
  /\ (w_dev s = R_recheck \/ w_dev s = Sleep -> w_ev s = armed_word (w_event_idx s) (w_seen s))
  (* asleep with the request unserved: the driver has not decided yet and what it loaded / will load is the
     published word, or a notification is under way *)
  /\ (w_dev s = Sleep -> w_seen s = w_a0 s ->
        w_drv s = D0 \/ w_drv s = D1 \/ w_drv s = D2 (armed_word (w_event_idx s) (w_a0 s)) \/ w_notif s = true).

Lemma a1_neq s : w_a0 s < two16 -> a1 s <> w_a0 s.
Proof. unfold a1, w16, two16. intros. lia. Qed.

Lemma init_inv s : init s -> WInv s.
Proof.
  intros (Ha & Hi & Hu & Hs & Hn & Hd & Hp). unfold WInv.
  split; [exact Ha|]. split; [left; split; assumption|].
  split; [intros _; exact Hi|]. split; [intros H; congruence|].
  split; [exact Hp|]. intros _ _. left. exact Hd.
Qed.

Lemma step_inv s s' : WInv s -> step s s' -> WInv s'.
Proof.
  intros (Ha & Hserved & Hi0 & Hi1 & Hpub & Hsl) Hst.
  pose proof (a1_neq s Ha) as Hne.
  inversion Hst; subst; unfold WInv, upd_drv, upd_dev, a1 in *; cbn [w_a0 w_idx w_used w_ev w_seen w_notif w_drv w_dev w_event_idx] in *.
  - (* add *)
    split; [exact Ha|]. split.
    { destruct Hserved as [A|(A & B & C)]; [left; exact A|congruence]. }
    split; [intros E; discriminate E|]. split; [intros _; reflexivity|]. split; [exact Hpub|].
    intros E1 E2. right. left. reflexivity.
  - (* load *)
    split; [exact Ha|]. split.
    { destruct Hserved as [A|(A & B & C)]; [left; exact A|right; repeat split; try assumption; discriminate]. }
    split; [intros E; discriminate E|]. split; [intros _; apply Hi1; congruence|]. split; [exact Hpub|].
    intros E1 E2. right. right. left. f_equal. rewrite (Hpub (or_intror E1)), E2. reflexivity.
  - (* decide *)
    split; [exact Ha|]. split.
    { destruct Hserved as [A|(A & B & C)]; [left; exact A|right; repeat split; try assumption; discriminate]. }
    split; [intros E; discriminate E|]. split; [intros _; apply Hi1; congruence|]. split; [exact Hpub|].
    intros E1 E2. right. right. right.
    destruct (Hsl E1 E2) as [E|[E|[E|E]]]; try congruence.
    + rewrite H in E. inversion E; subst l. rewrite (Hi1 ltac:(congruence)).
      rewrite decide_armed by assumption. apply Bool.orb_true_r.
    + rewrite E. reflexivity.
  - (* spin, nothing yet *) repeat split; assumption.
  - (* spin done *)
    split; [exact Ha|]. split.
    { destruct Hserved as [[A B]|(A & B & C)]; [congruence|right; repeat split; try assumption; discriminate]. }
    split; [intros E; discriminate E|]. split; [intros _; apply Hi1; congruence|]. split; [exact Hpub|].
    intros E1 E2. destruct Hserved as [[A B]|(A & B & C)]; congruence.
  - (* device processes the entry: only possible when the driver has added *)
    assert (Hd : w_drv s <> D0).
    { intro E. rewrite (Hi0 E) in H0. destruct Hserved as [[A B]|(A & B & C)]; congruence. }
    assert (Hs0 : w_seen s = w_a0 s /\ w_used s = w_a0 s).
    { destruct Hserved as [A|(A & B & C)]; [exact A|]. rewrite (Hi1 Hd) in H0. congruence. }
    destruct Hs0 as [Hs0 Hu0]. rewrite Hs0, Hu0.
    split; [exact Ha|]. split; [right; repeat split; assumption|].
    split; [exact Hi0|]. split; [exact Hi1|].
    split; [intros [E|E]; discriminate E|]. intros E; discriminate E.
  - (* device finds nothing new *)
    split; [exact Ha|]. split; [exact Hserved|]. split; [exact Hi0|]. split; [exact Hi1|].
    split; [intros [E|E]; discriminate E|]. intros E; discriminate E.
  - (* device publishes *)
    split; [exact Ha|]. split; [exact Hserved|]. split; [exact Hi0|]. split; [exact Hi1|].
    split; [intros _; reflexivity|]. intros E; discriminate E.
  - (* recheck: more work *)
    split; [exact Ha|]. split; [exact Hserved|]. split; [exact Hi0|]. split; [exact Hi1|].
    split; [intros [E|E]; discriminate E|]. intros E; discriminate E.
  - (* recheck: nothing, go to sleep: the driver cannot have added yet unless the request is served *)
    split; [exact Ha|]. split; [exact Hserved|]. split; [exact Hi0|]. split; [exact Hi1|].
    split; [intros _; apply Hpub; left; assumption|].
    intros _ E2. left.
    destruct (w_drv s) eqn:Ed; try reflexivity; exfalso;
      (assert (Hx : w_idx s = w16 (w_a0 s + 1)) by (apply Hi1; congruence)); rewrite Hx in H0; congruence.
  - (* wake *)
    split; [exact Ha|]. split; [exact Hserved|]. split; [exact Hi0|]. split; [exact Hi1|].
    split; [intros [E|E]; discriminate E|]. intros E; discriminate E.
Qed.

Theorem reach_inv s : reach s -> WInv s.
Proof. induction 1; [now apply init_inv | eapply step_inv; eauto]. Qed.

(* no lost wake-up: for every interleaving *)
Theorem no_lost_wakeup s : reach s -> ~ stuck s.
Proof.
  intros HR (Hd & Hu & Hs & Hn).
  destruct (reach_inv s HR) as (Ha & Hserved & Hi0 & Hi1 & Hpub & Hsl).
  assert (Hseen : w_seen s = w_a0 s).
  { destruct Hserved as [[A _]|(A & B & C)]; [exact A|]. pose proof (a1_neq s Ha). unfold a1 in *. congruence. }
  destruct (Hsl Hs Hseen) as [E|[E|[E|E]]]; congruence.
Qed.

(* progress: while the driver waits for an unserved request, the device (or the notification) can move,
   and the only moves available lead to the request being served: the device is never both asleep and
   un-notified, and an awake device in front of the new entry processes it *)
Theorem waiting_makes_progress s :
  reach s -> w_drv s = D3 -> w_used s = w_a0 s ->
  (w_dev s = Sleep /\ w_notif s = true) \/ (w_dev s <> Sleep /\ w_idx s <> w_seen s).
Proof.
  intros HR Hd Hu.
  destruct (reach_inv s HR) as (Ha & Hserved & Hi0 & Hi1 & Hpub & Hsl).
  assert (Hseen : w_seen s = w_a0 s).
  { destruct Hserved as [[A _]|(A & B & C)]; [exact A|]. pose proof (a1_neq s Ha). unfold a1 in *. congruence. }
  destruct (w_dev s) eqn:Ed.
  - right. split; [discriminate|]. rewrite (Hi1 ltac:(congruence)), Hseen. apply (a1_neq s Ha).
  - right. split; [discriminate|]. rewrite (Hi1 ltac:(congruence)), Hseen. apply (a1_neq s Ha).
  - right. split; [discriminate|]. rewrite (Hi1 ltac:(congruence)), Hseen. apply (a1_neq s Ha).
  - left. split; [reflexivity|]. destruct (Hsl eq_refl Hseen) as [E|[E|[E|E]]]; congruence.
Qed.

(* once served, the spin loop exits at its next iteration *)
Theorem served_returns s : w_drv s = D3 -> w_used s <> w_a0 s -> exists s', step s s' /\ w_drv s' = D4.
Proof. intros Hd Hu. eexists. split; [apply S_spin_done; assumption|reflexivity]. Qed.

Example wakeup_nonvacuous :
  reach (mkW true 65535 0 0 65535 0 false D4 R_read).
Proof.
  (* a0 = 65535 (across the wrap), device asleep and armed; driver adds, loads, notifies; device wakes, serves *)
  set (s0 := mkW true 65535 65535 65535 65535 65535 false D0 Sleep).
  assert (R0 : reach s0) by (apply reach_init; unfold init, s0; cbn; repeat split; auto).
  set (s1 := upd_drv s0 (w16 (w_a0 s0 + 1)) (w_notif s0) D1).
  assert (R1 : reach s1) by (eapply reach_step; [exact R0|apply S_add; reflexivity]).
  set (s2 := upd_drv s1 (w_idx s1) (w_notif s1) (D2 (w_ev s1))).
  assert (R2 : reach s2) by (eapply reach_step; [exact R1|apply S_load; reflexivity]).
  set (s3 := upd_drv s2 (w_idx s2) (w_notif s2 || decide (w_event_idx s2) (w_idx s2) (w_ev s1)) D3).
  assert (R3 : reach s3) by (eapply reach_step; [exact R2|apply S_decide; reflexivity]).
  set (s4 := upd_dev s3 (w_used s3) (w_ev s3) (w_seen s3) false R_read).
  assert (R4 : reach s4) by (eapply reach_step; [exact R3|apply S_dev_wake; reflexivity]).
  set (s5 := upd_dev s4 (w16 (w_used s4 + 1)) (w_ev s4) (w16 (w_seen s4 + 1)) (w_notif s4) R_read).
  assert (R5 : reach s5) by (eapply reach_step; [exact R4|apply S_dev_process; [reflexivity|vm_compute; discriminate]]).
  set (s6 := upd_drv s5 (w_idx s5) (w_notif s5) D4).
  assert (R6 : reach s6) by (eapply reach_step; [exact R5|apply S_spin_done; [reflexivity|vm_compute; discriminate]]).
  exact R6.
Qed.
