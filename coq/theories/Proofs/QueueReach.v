(* Reachable states of the virtqueue under the caller contract, for EVERY device behaviour:        *)
(* the used-ring view (u_idx, u_id, u_len) of each pop is an arbitrary argument, as are the        *)
(* addresses the platform answers for shares.                                                       *)
From VD Require Import Base.Words Base.ListUpd Model.Queue Proofs.QueueInv.
From Coq Require Import ZArith Lia Permutation.

Inductive Reach : qstate -> list chain -> list qev -> Prop :=
| R_new k ind ev v :
    k <= 15 -> v < two16 ->
    Reach (qset_indices (qnew (2 ^ k) ind ev) v) [] []
| R_add s chains h ins outs taddr o s' evs :
    Reach s chains h ->
    bufs_ok (tag_bufs ins outs) ->                       (* "the buffers must not be empty" *)
    add s ins outs taddr = (o, s', evs) ->
    Reach s' (match o with Ok _ => chains ++ [new_chain s ins outs taddr] | _ => chains end) (h ++ evs)
| R_pop s pre c post h ins outs u_idx u_id u_len o s' evs :
    Reach s (pre ++ c :: post) h ->
    keys (tag_bufs ins outs) = keys (c_bufs c) ->        (* "the buffers originally added for this token" *)
    pop_used s (c_head c) ins outs u_idx u_id u_len = (o, s', evs) ->
    Reach s' (match o with Ok _ => pre ++ post | _ => pre ++ c :: post end) (h ++ evs)
| R_notify s chains h en :
    Reach s chains h ->
    Reach (fst (set_dev_notify s en)) chains (h ++ snd (set_dev_notify s en)).

Lemma tag_bufs_nil ins outs : tag_bufs ins outs = [] -> ins = [] /\ outs = [].
Proof. unfold tag_bufs. destruct ins, outs; simpl; intros H; try discriminate; auto. Qed.

Lemma keys_lens_nz a b : keys a = keys b -> bufs_ok b -> lens_nz a.
Proof.
  revert b. induction a as [|[x w] a IH]; intros [|[y w'] b] Hk Hb; simpl in Hk; try discriminate; [constructor|].
  injection Hk as E1 E2 E3 E4. apply Forall_cons_iff in Hb. destruct Hb as [[Hz _] Hb']. simpl in Hz.
  constructor; [simpl; congruence|]. eapply IH; eauto.
Qed.

Definition chains_ok (chains : list chain) : Prop := Forall (fun c => bufs_ok (c_bufs c)) chains.

(* what add does, by cases, with nothing assumed about the state but Inv *)
Lemma add_cases s chains ins outs taddr :
  Inv s chains -> bufs_ok (tag_bufs ins outs) ->
  (tag_bufs ins outs = [] /\ add s ins outs taddr = (Err EInvalidParam, s, []))
  \/ (tag_bufs ins outs <> [] /\ capacity_ok s (lenN (tag_bufs ins outs)) = false
      /\ add s ins outs taddr = (Err EQueueFull, s, []))
  \/ (tag_bufs ins outs <> [] /\ capacity_ok s (lenN (tag_bufs ins outs)) = true
      /\ exists s' evs, add s ins outs taddr = (Ok (q_free_head s), s', evs)
                        /\ Inv s' (chains ++ [new_chain s ins outs taddr])).
Proof.
  intros HI Hok.
  destruct (tag_bufs ins outs) eqn:E.
  - left. split; [reflexivity|]. apply tag_bufs_nil in E. destruct E; subst. reflexivity.
  - right. rewrite <- E in *.
    assert (Hne : tag_bufs ins outs <> []) by (rewrite E; discriminate).
    destruct (capacity_ok s (lenN (tag_bufs ins outs))) eqn:Hc.
    + right. split; [exact Hne|]. split; [reflexivity|].
      destruct (add_ok s chains ins outs taddr HI Hne Hok Hc) as (s' & evs & c & Hrun & Hinv & _ & _ & _ & _ & _ & _ & _ & _ & _ & _ & _ & _ & _ & evs0 & _ & _ & Hc' & _).
      exists s', evs. split; [exact Hrun|]. now rewrite <- Hc'.
    + left. split; [exact Hne|]. split; [reflexivity|]. now apply add_refuse_full.
Qed.

Lemma new_chain_bufs s ins outs taddr : c_bufs (new_chain s ins outs taddr) = tag_bufs ins outs.
Proof. unfold new_chain. destruct (q_indirect s && _); reflexivity. Qed.

Theorem Reach_Inv s chains h : Reach s chains h -> Inv s chains /\ chains_ok chains.
Proof.
  induction 1 as [k ind ev v Hk Hv
                 | s chains h ins outs taddr o s' evs HR [IH1 IH2] Hok Hadd
                 | s pre c post h ins outs u_idx u_id u_len o s' evs HR [IH1 IH2] Hkeys Hpop
                 | s chains h en HR [IH1 IH2]].
  - split; [|constructor]. apply qset_indices_inv; [apply qnew_inv; exact Hk|exact Hv].
  - destruct (add_cases s chains ins outs taddr IH1 Hok) as [[_ E]|[(_ & _ & E)|(_ & _ & s1 & evs1 & E & HI)]];
      rewrite E in Hadd; inversion Hadd; subst; auto.
    split; [exact HI|]. apply Forall_app. split; [exact IH2|]. constructor; [|constructor].
    now rewrite new_chain_bufs.
  - assert (Hcok : bufs_ok (c_bufs c)).
    { unfold chains_ok in IH2. rewrite Forall_forall in IH2. apply IH2. apply in_or_app. right. now left. }
    assert (IH2' : chains_ok (pre ++ post)).
    { unfold chains_ok in *. apply Forall_app in IH2. destruct IH2 as [A B]. inversion B; subst.
      apply Forall_app. split; assumption. }
    destruct (N.eq_dec (q_last_used s) (w16 u_idx)) as [E1|E1].
    { rewrite (pop_not_ready _ _ _ _ _ _ _ E1) in Hpop. inversion Hpop; subst. auto. }
    destruct (N.eq_dec (w16 u_id) (c_head c)) as [E2|E2].
    2:{ rewrite (pop_wrong_token _ _ _ _ _ _ _ E1 E2) in Hpop. inversion Hpop; subst. auto. }
    destruct (pop_ok s pre c post ins outs u_idx u_id u_len IH1 E1 E2 (keys_length _ _ Hkeys)
                (keys_lens_nz _ _ Hkeys Hcok)) as (s1 & E & HI & _).
    rewrite E in Hpop. inversion Hpop; subst. auto.
  - split; [|exact IH2]. now apply set_dev_notify_inv.
Qed.
