(* C16: network frames pass unmodified; receive buffers are never lost or duplicated. *)
From VD Require Import Base.Words Base.ListUpd Model.Queue Model.Owning Model.Net Model.NetSpec
  Proofs.QueueInv Proofs.QueueReach Proofs.QueueProps Proofs.OwningProofs.
From Coq Require Import ZArith Lia ZifyBool ZifyN Permutation.
Ltac Zify.zify_post_hook ::= Z.div_mod_to_equations.

(* ================================================================================================ *)
(* Part A: header size, header contents, bytes on the wire                                           *)

(* the header size the driver uses is the one the specification prescribes for the negotiated bits *)
Theorem hdr_size_is_spec neg : hdr_size (legacy_header neg) = spec_hdr_len neg.
Proof.
  unfold legacy_header, spec_hdr_len, hdr_size, BIT_VERSION_1, BIT_MRG_RXBUF, VIRTIO_F_VERSION_1, VIRTIO_NET_F_MRG_RXBUF.
  destruct (N.testbit neg 32), (N.testbit neg 15); reflexivity.
Qed.

Lemma negotiate_bit devf i : N.testbit (net_negotiate devf) i = N.testbit devf i && N.testbit NET_SUPPORTED i.
Proof. unfold net_negotiate. apply N.land_spec. Qed.

(* 12 bytes iff the device offers VERSION_1 (the driver always accepts it and never accepts MRG_RXBUF) *)
Theorem hdr_size_negotiated devf :
  let neg := net_negotiate devf in
  N.testbit neg BIT_MRG_RXBUF = false
  /\ N.testbit neg BIT_VERSION_1 = N.testbit devf BIT_VERSION_1
  /\ hdr_size (legacy_header neg) = (if N.testbit devf BIT_VERSION_1 then 12 else 10)
  /\ hdr_size (legacy_header neg) = spec_hdr_len neg.
Proof.
  cbv zeta.
  assert (A : N.testbit (net_negotiate devf) BIT_MRG_RXBUF = false).
  { rewrite negotiate_bit. replace (N.testbit NET_SUPPORTED BIT_MRG_RXBUF) with false by (vm_compute; reflexivity).
    apply andb_false_r. }
  assert (B : N.testbit (net_negotiate devf) BIT_VERSION_1 = N.testbit devf BIT_VERSION_1).
  { rewrite negotiate_bit. replace (N.testbit NET_SUPPORTED BIT_VERSION_1) with true by (vm_compute; reflexivity).
    apply andb_true_r. }
  split; [exact A|]. split; [exact B|]. split; [|apply hdr_size_is_spec].
  unfold legacy_header. rewrite A, B. destruct (N.testbit devf BIT_VERSION_1); reflexivity.
Qed.

Lemma negotiate_ring_bits devf :
  N.testbit (net_negotiate devf) BIT_RING_INDIRECT_DESC = N.testbit devf BIT_RING_INDIRECT_DESC
  /\ N.testbit (net_negotiate devf) BIT_RING_EVENT_IDX = N.testbit devf BIT_RING_EVENT_IDX.
Proof.
  rewrite !negotiate_bit.
  replace (N.testbit NET_SUPPORTED BIT_RING_INDIRECT_DESC) with true by (vm_compute; reflexivity).
  replace (N.testbit NET_SUPPORTED BIT_RING_EVENT_IDX) with true by (vm_compute; reflexivity).
  now rewrite !andb_true_r.
Qed.

(* the default header is all zero bytes and has the declared size *)
Theorem hdr_bytes_zero legacy :
  hdr_bytes legacy = repeat 0 (N.to_nat (hdr_size legacy)) /\ lenN (hdr_bytes legacy) = hdr_size legacy.
Proof. destruct legacy; split; vm_compute; reflexivity. Qed.

Lemma list_eqb_refl l : list_eqb l l = true.
Proof. induction l as [|x l IH]; [reflexivity|]. cbn [list_eqb]. now rewrite N.eqb_refl. Qed.

Lemma list_eqb_eq a b : list_eqb a b = true -> a = b.
Proof.
  revert b. induction a as [|x a IH]; intros [|y b] H; try discriminate; [reflexivity|].
  cbn [list_eqb] in H. apply andb_prop in H. destruct H as [H1 H2].
  apply N.eqb_eq in H1. subst. f_equal. now apply IH.
Qed.

Lemma send_payload_concat legacy frame : concat (send_payload legacy frame) = hdr_bytes legacy ++ frame.
Proof. destruct frame; cbn [send_payload concat]; now rewrite ?app_nil_r. Qed.

(* C16_tx, byte level: what send hands to the queue, read back to back the way a device reads the
   readable part of a chain, is a zeroed header of the specified length followed by exactly the
   caller's bytes; the specification's device-side parser recovers exactly the frame; no buffer handed
   to the queue is empty (the empty frame is sent as the header alone). *)
Theorem tx_wire neg frame :
  let legacy := legacy_header neg in
  concat (send_payload legacy frame) = repeat 0 (N.to_nat (spec_hdr_len neg)) ++ frame
  /\ spec_tx_frame neg (concat (send_payload legacy frame)) = Some frame
  /\ Forall (fun b => b <> []) (send_payload legacy frame)
  /\ (forall hid haddr fid faddr,
        map lenN (send_payload legacy frame)
        = map b_len (send_bufs legacy hid haddr (mkBuf fid (lenN frame) faddr))).
Proof.
  cbv zeta. rewrite send_payload_concat, <- hdr_size_is_spec.
  destruct (hdr_bytes_zero (legacy_header neg)) as [Hz Hl]. rewrite Hz.
  split; [reflexivity|].
  split.
  { unfold spec_tx_frame, spec_parse. rewrite <- hdr_size_is_spec.
    destruct (legacy_header neg); cbn [hdr_size].
    - change (N.to_nat 10) with 10%nat. cbn [repeat app].
      assert (E : lenN (0 :: 0 :: 0 :: 0 :: 0 :: 0 :: 0 :: 0 :: 0 :: 0 :: frame) <? 10 = false).
      { apply N.ltb_ge. rewrite !lenN_cons. lia. }
      rewrite E. reflexivity.
    - change (N.to_nat 12) with 12%nat. cbn [repeat app].
      assert (E : lenN (0 :: 0 :: 0 :: 0 :: 0 :: 0 :: 0 :: 0 :: 0 :: 0 :: 0 :: 0 :: frame) <? 12 = false).
      { apply N.ltb_ge. rewrite !lenN_cons. lia. }
      rewrite E. reflexivity. }
  split.
  { destruct frame; cbn [send_payload]; repeat constructor; try discriminate;
      destruct (legacy_header neg); discriminate. }
  intros hid haddr fid faddr. unfold send_bufs. cbn [b_len].
  destruct frame as [|x frame].
  - cbn [send_payload map]. change (lenN (@nil N) =? 0) with true. cbn [map b_len]. now rewrite Hl.
  - cbn [send_payload map]. destruct (N.eqb_spec (lenN (x :: frame)) 0) as [E|E].
    + rewrite lenN_cons in E. lia.
    + cbn [map b_len]. now rewrite Hl.
Qed.

(* the monitor predicate holds of what the model sends (so a monitor failure is a disagreement between
   the implementation and the specification, not an artefact of the predicate) *)
Theorem tx_monitor_accepts_model neg frame :
  spec_tx_ok_b neg (map lenN (send_payload (legacy_header neg) frame)) false
               (concat (send_payload (legacy_header neg) frame)) frame = true.
Proof.
  destruct (tx_wire neg frame) as (Hc & Hs & Hne & _).
  unfold spec_tx_ok_b. rewrite Hs, list_eqb_refl. cbn [negb andb]. rewrite andb_true_r.
  apply andb_true_intro. split.
  - apply forallb_forall. intros l Hl. apply in_map_iff in Hl. destruct Hl as (b & <- & Hb).
    rewrite Forall_forall in Hne. specialize (Hne b Hb). destruct b; [congruence|]. rewrite lenN_cons.
    apply negb_true_iff. apply N.eqb_neq. lia.
  - apply N.eqb_eq. rewrite send_payload_concat, lenN_app.
    destruct frame; cbn [send_payload map fold_right]; [change (lenN (@nil N)) with 0|]; lia.
Qed.

(* and it accepts nothing else: if the device-side bytes pass the monitor they are the zeroed header
   followed by the frame *)
Theorem tx_monitor_sound neg lens wire frame :
  spec_tx_ok_b neg lens false wire frame = true ->
  wire = repeat 0 (N.to_nat (spec_hdr_len neg)) ++ frame.
Proof.
  unfold spec_tx_ok_b, spec_tx_frame, spec_parse. intros H.
  apply andb_prop in H. destruct H as [_ H].
  destruct (N.ltb_spec (lenN wire) (spec_hdr_len neg)) as [Hlt|Hge]; [discriminate|].
  destruct (hdr_is_zero _) eqn:Hz; [|discriminate].
  apply list_eqb_eq in H. subst frame.
  unfold hdr_is_zero in Hz. cbn [sh_flags sh_gso_type sh_hdr_len sh_gso_size sh_csum_start sh_csum_offset sh_num_buffers] in Hz.
  repeat (apply andb_prop in Hz; destruct Hz as [Hz ?]).
  repeat match goal with H : (_ =? 0) = true |- _ => apply N.eqb_eq in H end.
  unfold rd8, rd16 in *.
  unfold spec_hdr_len in *.
  destruct (N.testbit neg VIRTIO_F_VERSION_1 || N.testbit neg VIRTIO_NET_F_MRG_RXBUF).
  - change (N.to_nat 12) with 12%nat. change (12 =? 12) with true in *. cbv iota in *.
    do 12 (destruct wire as [|?b wire]; [rewrite ?lenN_cons, ?lenN_nil in Hge; lia|]).
    cbn [nth] in *. cbn [skipn repeat app].
    repeat match goal with H : _ + 256 * _ = 0 |- _ => apply N.eq_add_0 in H; destruct H as [? H]; apply N.eq_mul_0_r in H; [|discriminate] end.
    subst. reflexivity.
  - change (N.to_nat 10) with 10%nat. change (10 =? 12) with false in *. cbv iota in *.
    do 10 (destruct wire as [|?b wire]; [rewrite ?lenN_cons, ?lenN_nil in Hge; lia|]).
    cbn [nth] in *. cbn [skipn repeat app].
    repeat match goal with H : _ + 256 * _ = 0 |- _ => apply N.eq_add_0 in H; destruct H as [? H]; apply N.eq_mul_0_r in H; [|discriminate] end.
    subst. reflexivity.
Qed.

(* a buffer prepared by the raw interface (fill_buffer_header, then the frame copied behind it) carries
   the same bytes *)
Theorem fill_buffer_header_spec s buf :
  let h := hdr_size (n_legacy s) in
  (lenN buf < h -> fill_buffer_header s buf = (Err EInvalidParam, buf))
  /\ (h <= lenN buf ->
      fill_buffer_header s buf = (Ok h, repeat 0 (N.to_nat h) ++ skipn (N.to_nat h) buf)
      /\ lenN (snd (fill_buffer_header s buf)) = lenN buf).
Proof.
  cbv zeta. unfold fill_buffer_header. split; intros H.
  - destruct (N.ltb_spec (lenN buf) (hdr_size (n_legacy s))); [reflexivity|lia].
  - destruct (N.ltb_spec (lenN buf) (hdr_size (n_legacy s))); [lia|].
    destruct (hdr_bytes_zero (n_legacy s)) as [Hz Hl]. rewrite Hz. split; [reflexivity|].
    cbn [snd]. unfold lenN in *. rewrite app_length, repeat_length, skipn_length. lia.
Qed.

(* C16_rx, byte level: whatever header bytes hb (of the negotiated size) and frame the device writes
   into the buffer, with used length = header + frame, the packet length computed by receive_complete's
   arithmetic is the frame length and RxBuffer::packet returns exactly the frame; and this is the frame
   the specification assigns to that completion *)
Theorem rx_packet_roundtrip neg hb frame tail :
  let legacy := legacy_header neg in
  let h := hdr_size legacy in
  let used := h + lenN frame in
  lenN hb = h ->
  used - h = lenN frame
  /\ (used <? h) = false
  /\ rx_packet legacy (hb ++ frame ++ tail) (used - h) = Ok frame
  /\ spec_rx_frame neg used (hb ++ frame ++ tail) = Some frame.
Proof.
  cbv zeta. intros Hh.
  assert (E1 : hdr_size (legacy_header neg) + lenN frame - hdr_size (legacy_header neg) = lenN frame) by lia.
  assert (Hsk : skipn (N.to_nat (hdr_size (legacy_header neg))) (hb ++ frame ++ tail) = frame ++ tail).
  { replace (N.to_nat (hdr_size (legacy_header neg))) with (length hb + 0)%nat by (unfold lenN in Hh; lia).
    rewrite skipn_app, Nat.add_comm. rewrite skipn_all2 by lia. cbn [app].
    replace (0 + length hb - length hb)%nat with 0%nat by lia. reflexivity. }
  assert (Hfn : forall m, m = lenN frame ->
            firstn (N.to_nat (N.min m (lenN (hb ++ frame ++ tail)))) (frame ++ tail) = frame).
  { intros m ->. rewrite !lenN_app.
    replace (N.to_nat (N.min (lenN frame) (lenN hb + (lenN frame + lenN tail)))) with (length frame + 0)%nat
      by (unfold lenN; lia).
    rewrite firstn_app_2. cbn [firstn]. apply app_nil_r. }
  split; [exact E1|]. split; [apply N.ltb_ge; lia|].
  split.
  - unfold rx_packet. rewrite E1.
    destruct (N.ltb_spec (lenN (hb ++ frame ++ tail)) (hdr_size (legacy_header neg) + lenN frame)) as [Hlt|_].
    { rewrite !lenN_app in Hlt. lia. }
    rewrite Hsk, Hfn; reflexivity.
  - unfold spec_rx_frame. rewrite <- hdr_size_is_spec.
    destruct (N.ltb_spec (hdr_size (legacy_header neg) + lenN frame) (hdr_size (legacy_header neg))); [lia|].
    destruct (N.ltb_spec (lenN (hb ++ frame ++ tail)) (hdr_size (legacy_header neg) + lenN frame)) as [Hlt|_].
    { rewrite !lenN_app in Hlt. lia. }
    cbn [orb]. rewrite Hsk, Hfn; [reflexivity|lia].
Qed.

(* RxBuffer::packet panics exactly when the recorded packet length does not fit the buffer *)
Theorem rx_packet_total legacy bytes plen :
  (hdr_size legacy + plen <= lenN bytes ->
     exists p, rx_packet legacy bytes plen = Ok p /\ lenN p = plen)
  /\ (lenN bytes < hdr_size legacy + plen -> rx_packet legacy bytes plen = Panic).
Proof.
  unfold rx_packet. split; intros H.
  - destruct (N.ltb_spec (lenN bytes) (hdr_size legacy + plen)); [lia|].
    eexists. split; [reflexivity|]. unfold lenN in *. rewrite firstn_length, skipn_length. lia.
  - destruct (N.ltb_spec (lenN bytes) (hdr_size legacy + plen)); [reflexivity|lia].
Qed.

(* ================================================================================================ *)
(* Part C: VirtIONet - the receive buffers                                                           *)

Definition slot_bufs (slots : list (option rxbuf)) : list rxbuf :=
  flat_map (fun o => match o with Some b => [b] | None => [] end) slots.

(* a posted receive buffer: one direct device-writable descriptor; token t <-> slot t holds the buffer,
   whose idx field is t *)
Definition rx_chain (slots : list (option rxbuf)) (c : chain) : Prop :=
  c_idxs c = [c_head c] /\ c_tbl c = None
  /\ exists b a, nthN_error slots (c_head c) = Some (Some b) /\ rb_idx b = c_head c
                 /\ c_bufs c = [(rx_ubuf b a, true)].

Definition idlen (b : rxbuf) : N * N := (rb_id b, rb_len b).

Definition RxInv (rx : qstate) (slots : list (option rxbuf)) (chains : list chain) : Prop :=
  Forall (rx_chain slots) chains
  /\ lenN slots = q_size rx
  /\ (forall t b, nthN_error slots t = Some (Some b) -> exists c, In c chains /\ c_head c = t).

(* the ownership invariant: `owned` are the buffers the caller holds.  Every buffer identity
   0 .. size-1 occurs exactly once in (owned ++ buffers sitting in slots), every buffer in a slot is
   posted to the device under the slot's number, every posted token has its buffer in its slot. *)
Definition NetInv (L : N) (v : vnet) (owned : list rxbuf) : Prop :=
  exists chains h,
    let rx := n_rx (v_raw v) in
    Reach rx chains h
    /\ RxInv rx (v_slots v) chains
    /\ lenN chains + lenN owned = q_size rx
    /\ Permutation (map idlen (owned ++ slot_bufs (v_slots v)))
                   (map (fun i => (i, L)) (seqN 0 (N.to_nat (q_size rx))))
    /\ MIN_BUFFER_LEN <= L /\ L < two32.

Lemma slot_bufs_take_nat : forall slots t b, nth_error slots t = Some (Some b) ->
  Permutation (slot_bufs slots) (b :: slot_bufs (upd slots t None)).
Proof.
  induction slots as [|o slots IH]; intros [|t] b H; cbn [nth_error] in H; try discriminate.
  - injection H as ->. cbn [upd slot_bufs flat_map app]. apply Permutation_refl.
  - cbn [upd]. unfold slot_bufs in *. cbn [flat_map].
    destruct o as [b0|]; cbn [app].
    + eapply perm_trans; [apply perm_skip; apply IH; exact H|]. apply perm_swap.
    + apply IH; exact H.
Qed.

Lemma slot_bufs_take slots t b : nthN_error slots t = Some (Some b) ->
  Permutation (slot_bufs slots) (b :: slot_bufs (updN slots t None)).
Proof. apply slot_bufs_take_nat. Qed.

Lemma slot_bufs_put_nat : forall slots t b, nth_error slots t = Some None ->
  Permutation (slot_bufs (upd slots t (Some b))) (b :: slot_bufs slots).
Proof.
  induction slots as [|o slots IH]; intros [|t] b H; cbn [nth_error] in H; try discriminate.
  - injection H as ->. cbn [upd slot_bufs flat_map app]. apply Permutation_refl.
  - cbn [upd]. unfold slot_bufs in *. cbn [flat_map].
    destruct o as [b0|]; cbn [app].
    + eapply perm_trans; [apply perm_skip; apply IH; exact H|]. apply perm_swap.
    + apply IH; exact H.
Qed.

Lemma slot_bufs_put slots t b : nthN_error slots t = Some None ->
  Permutation (slot_bufs (updN slots t (Some b))) (b :: slot_bufs slots).
Proof. apply slot_bufs_put_nat. Qed.

Lemma rx_all_idxs slots chains : Forall (rx_chain slots) chains -> all_idxs chains = map c_head chains.
Proof.
  induction 1 as [|c l [Hc _] _ IH]; [reflexivity|].
  unfold all_idxs in *. cbn [map concat]. rewrite Hc, IH. reflexivity.
Qed.

(* receive_begin on a queue whose free list starts with x: token x, never an error *)
Lemma receive_begin_post s chains h x fl' b ae uf :
  Reach (n_rx s) chains h -> InvFl (n_rx s) chains (x :: fl') ->
  MIN_BUFFER_LEN <= b_len b -> b_len b < two32 ->
  exists s1 evs h1,
    receive_begin s b ae uf = (Ok x, s1, evs)
    /\ n_legacy s1 = n_legacy s /\ n_tx s1 = n_tx s
    /\ Reach (n_rx s1) (chains ++ [mkChain x [x] [(b, true)] None]) h1
    /\ InvFl (n_rx s1) (chains ++ [mkChain x [x] [(b, true)] None]) fl'
    /\ q_size (n_rx s1) = q_size (n_rx s).
Proof.
  intros HR HI Hmin Hb32.
  assert (Hb0 : b_len b <> 0) by (unfold MIN_BUFFER_LEN in Hmin; lia).
  destruct (add_single_fl (n_rx s) chains x fl' b HI Hb0 Hb32) as (q1 & evs1 & Hadd & HI1 & Hnc & Hsz & Hfh).
  assert (Hok : bufs_ok (tag_bufs [] [b])) by (constructor; [split; assumption|constructor]).
  pose proof (R_add _ _ _ _ _ _ _ _ _ HR Hok Hadd) as HR1. cbn iota in HR1. rewrite Hnc in HR1.
  unfold receive_begin, check_rx_buf_len.
  destruct (N.ltb_spec (b_len b) MIN_BUFFER_LEN) as [Hlt|_]; [lia|]. cbn [negb].
  rewrite Hadd.
  eexists; eexists; eexists. split; [reflexivity|].
  cbn [set_rx n_legacy n_tx n_rx].
  split; [reflexivity|]. split; [reflexivity|]. split; [exact HR1|]. split; [exact HI1|exact Hsz].
Qed.

(* posting a buffer into the slot of the token: the slot was empty, and the slot invariant is kept *)
Lemma rxinv_post rx rx' slots chains x fl' (b : rxbuf) a :
  InvFl rx chains (x :: fl') -> RxInv rx slots chains -> q_size rx' = q_size rx -> rb_idx b = x ->
  nthN_error slots x = Some None
  /\ RxInv rx' (updN slots x (Some b)) (chains ++ [mkChain x [x] [(rx_ubuf b a, true)] None]).
Proof.
  intros HI (Hch & Hlen & Hsome) Hsz Hidx.
  destruct HI as (Hnd & _ & Hrange & _).
  assert (Hx : x < q_size rx) by (apply Hrange; now left).
  assert (Hnot : ~ In x (all_idxs chains)).
  { intro Hin. eapply (NoDup_app_disj (x :: fl') (all_idxs chains) x Hnd); [now left|exact Hin]. }
  assert (Hslot : nthN_error slots x = Some None).
  { destruct (nthN_lt_some slots x ltac:(lia)) as [o Ho]. rewrite Ho. destruct o as [b0|]; [|reflexivity].
    exfalso. destruct (Hsome x b0 Ho) as (c & Hc & Hhd). apply Hnot.
    rewrite (rx_all_idxs _ _ Hch). apply in_map_iff. eauto. }
  split; [exact Hslot|].
  split; [|split].
  - apply Forall_app. split.
    + rewrite Forall_forall in Hch |- *. intros c Hc. destruct (Hch c Hc) as (A & B & b0 & a0 & C & D & E).
      split; [exact A|]. split; [exact B|]. exists b0, a0.
      split; [|split; assumption].
      rewrite nthN_updN_neq; [exact C|]. intro E'. apply Hnot. rewrite E'.
      rewrite (rx_all_idxs slots chains); [apply in_map; exact Hc|]. now apply Forall_forall.
    + constructor; [|constructor]. unfold rx_chain. cbn [c_idxs c_head c_tbl c_bufs].
      split; [reflexivity|]. split; [reflexivity|]. exists b, a.
      split; [apply nthN_updN_eq; lia|]. split; [exact Hidx|reflexivity].
  - rewrite lenN_updN. lia.
  - intros t b0 Ht. destruct (N.eq_dec t x) as [->|Hne].
    + eexists. split; [apply in_or_app; right; now left|reflexivity].
    + rewrite nthN_updN_neq in Ht by congruence. destruct (Hsome t b0 Ht) as (c & Hc & Hhd).
      exists c. split; [apply in_or_app; now left|exact Hhd].
Qed.

(* taking the buffer of a completed token out of its slot *)
Lemma rxinv_take rx rx' slots pre c post :
  RxInv rx slots (pre ++ c :: post) -> NoDup (all_idxs (pre ++ c :: post)) -> q_size rx' = q_size rx ->
  RxInv rx' (updN slots (c_head c) None) (pre ++ post).
Proof.
  intros (Hch & Hlen & Hsome) Hnd Hsz.
  rewrite (rx_all_idxs _ _ Hch) in Hnd.
  assert (Hother : forall c', In c' (pre ++ post) -> c_head c' <> c_head c).
  { intros c' Hc' E. rewrite map_app in Hnd. cbn [map] in Hnd.
    apply NoDup_remove_2 in Hnd. apply Hnd. rewrite <- map_app, <- E. now apply in_map. }
  assert (Hch' : Forall (rx_chain slots) (pre ++ post)).
  { apply Forall_app in Hch. destruct Hch as [A B]. inversion B; subst. apply Forall_app. split; assumption. }
  split; [|split].
  - rewrite Forall_forall in Hch' |- *. intros c' Hc'. destruct (Hch' c' Hc') as (A & B & b0 & a0 & C & D & E).
    split; [exact A|]. split; [exact B|]. exists b0, a0. split; [|split; assumption].
    rewrite nthN_updN_neq; [exact C|]. intro E'. exact (Hother c' Hc' (eq_sym E')).
  - rewrite lenN_updN. lia.
  - intros t b0 Ht. destruct (N.eq_dec t (c_head c)) as [->|Hne].
    + exfalso. destruct (nthN_lt_some slots (c_head c)) as [o Ho].
      { apply nthN_some_lt in Ht. now rewrite lenN_updN in Ht. }
      rewrite nthN_updN_eq in Ht by (eapply nthN_some_lt; eauto). discriminate.
    + rewrite nthN_updN_neq in Ht by congruence. destruct (Hsome t b0 Ht) as (c' & Hc' & Hhd).
      exists c'. split; [|exact Hhd].
      apply in_app_or in Hc'. apply in_or_app. destruct Hc' as [?|[<-|?]]; auto. congruence.
Qed.

Lemma perm_move {A} (x : A) o1 o2 S : Permutation ((o1 ++ x :: o2) ++ S) (x :: (o1 ++ o2) ++ S).
Proof. rewrite <- !app_assoc. cbn [app]. apply Permutation_sym, Permutation_middle. Qed.

Lemma idlen_set_idx b x : idlen (set_idx b x) = idlen b.
Proof. reflexivity. Qed.
Lemma idlen_set_plen b p : idlen (set_plen b p) = idlen b.
Proof. reflexivity. Qed.

Lemma netinv_len L v owned b : NetInv L v owned -> In b (owned ++ slot_bufs (v_slots v)) -> rb_len b = L /\ rb_id b < q_size (n_rx (v_raw v)).
Proof.
  intros (chains & h & _ & _ & _ & Hperm & _) Hin.
  assert (Hi : In (idlen b) (map idlen (owned ++ slot_bufs (v_slots v)))) by now apply in_map.
  eapply Permutation_in in Hi; [|exact Hperm].
  apply in_map_iff in Hi. destruct Hi as (i & E & Hi). unfold idlen in E. injection E as E1 E2.
  apply seqN_in in Hi. split; [congruence|lia].
Qed.

(* C16_ownership, recycle: giving back a buffer the caller owns always succeeds - the token the queue
   hands out is one whose slot is empty, so the WrongToken branch (and QueueFull, InvalidParam) of
   recycle_rx_buffer is unreachable - and the invariant is kept with the buffer now posted *)
Theorem vnet_recycle_ok L v owned1 b owned2 addr ae uf :
  NetInv L v (owned1 ++ b :: owned2) ->
  exists v' evs,
    vnet_recycle v b addr ae uf = (Ok tt, v', evs)
    /\ NetInv L v' (owned1 ++ owned2)
    /\ n_tx (v_raw v') = n_tx (v_raw v) /\ n_legacy (v_raw v') = n_legacy (v_raw v)
    /\ q_size (n_rx (v_raw v')) = q_size (n_rx (v_raw v)).
Proof.
  intros HN.
  destruct (netinv_len L v _ b HN) as [HbL _].
  { apply in_or_app. left. apply in_or_app. right. now left. }
  destruct HN as (chains & h & HR & HX & Hcnt & Hperm & Hmin & H32). cbv zeta in *.
  destruct (Reach_Inv _ _ _ HR) as [[fl HI] _].
  assert (Hfl : exists x fl', fl = x :: fl').
  { destruct fl as [|x fl']; [|eauto]. exfalso.
    destruct HI as (_ & Hlen & _). cbn [app] in Hlen.
    rewrite (rx_all_idxs _ _ (proj1 HX)), lenN_map in Hlen.
    rewrite lenN_app, lenN_cons in Hcnt. lia. }
  destruct Hfl as (x & fl' & ->).
  destruct (receive_begin_post (v_raw v) chains h x fl' (rx_ubuf b addr) ae uf HR HI)
    as (s1 & evs & h1 & Hrb & Hleg & Htx & HR1 & HI1 & Hsz).
  { cbn [rx_ubuf b_len]. lia. } { cbn [rx_ubuf b_len]. lia. }
  destruct (rxinv_post (n_rx (v_raw v)) (n_rx s1) (v_slots v) chains x fl' (set_idx b x) addr HI HX Hsz eq_refl)
    as (Hslot & HX1).
  unfold vnet_recycle. rewrite Hrb, Hslot.
  eexists; eexists. split; [reflexivity|].
  cbn [v_raw v_slots].
  split; [|auto].
  exists (chains ++ [mkChain x [x] [(rx_ubuf b addr, true)] None]), h1. cbv zeta. cbn [v_raw v_slots].
  split; [exact HR1|]. split; [exact HX1|].
  split. { rewrite Hsz. rewrite lenN_app, lenN_cons in Hcnt. rewrite !lenN_app, lenN_cons. change (lenN (@nil chain)) with 0. lia. }
  split; [|split; assumption].
  rewrite Hsz. eapply perm_trans; [|exact Hperm].
  eapply perm_trans.
  { apply Permutation_map. apply Permutation_app_head. apply slot_bufs_put. exact Hslot. }
  eapply perm_trans.
  { apply Permutation_map. apply Permutation_sym. apply (Permutation_middle (owned1 ++ owned2)). }
  apply Permutation_sym. eapply perm_trans; [apply Permutation_map; apply perm_move|].
  cbn [map]. rewrite idlen_set_idx. apply Permutation_refl.
Qed.

(* C16_ownership, receive, for EVERY device behaviour (used index, used id and used length are
   arbitrary numbers) *)
Theorem vnet_receive_cases L v owned u_idx u_id u_len o v' evs :
  NetInv L v owned ->
  vnet_receive v u_idx u_id u_len = (o, v', evs) ->
  let rx := n_rx (v_raw v) in
  let hs := hdr_size (n_legacy (v_raw v)) in
  match o with
  | Ok b =>
      (* the completion at the head of the used ring: its buffer, taken out of its slot, with
         packet_len = used length - header *)
      q_last_used rx <> w16 u_idx /\ hs <= w32 u_len
      /\ (exists b0, nthN_error (v_slots v) (w16 u_id) = Some (Some b0) /\ b = set_plen b0 (w32 u_len - hs))
      /\ rb_plen b + hs = w32 u_len
      /\ q_last_used (n_rx (v_raw v')) = w16 (q_last_used rx + 1)
      /\ NetInv L v' (b :: owned)
  | Err e =>
      (e = ENotReady /\ q_last_used rx = w16 u_idx /\ v' = v /\ evs = [])
      (* the device names a token that is not posted: refused, nothing changes *)
      \/ (e = EWrongToken /\ q_last_used rx <> w16 u_idx /\ nthN_error (v_slots v) (w16 u_id) = Some None
          /\ v' = v /\ evs = [])
      (* the device reports fewer bytes than a header (violates 5.1.6.4): the buffer is consumed *)
      \/ (e = EIoError /\ q_last_used rx <> w16 u_idx /\ w32 u_len < hs)
  | Panic => q_last_used rx <> w16 u_idx /\ q_size rx <= w16 u_id   (* a used id outside the queue *)
  | UB => False
  end
  /\ n_tx (v_raw v') = n_tx (v_raw v) /\ n_legacy (v_raw v') = n_legacy (v_raw v).
Proof.
  intros HN Hrun. cbv zeta.
  assert (HN0 := HN).
  destruct HN as (chains & h & HR & HX & Hcnt & Hperm & Hmin & H32). cbv zeta in *.
  unfold vnet_receive, poll_receive, peek_used, can_pop in Hrun.
  destruct (N.eqb_spec (q_last_used (n_rx (v_raw v))) (w16 u_idx)) as [E1|E1]; cbn [negb] in Hrun.
  { inversion Hrun; subst. split; [left; auto|auto]. }
  destruct (nthN_error (v_slots v) (w16 u_id)) as [[b0|]|] eqn:Hslot.
  3:{ inversion Hrun; subst. split; [|auto]. split; [exact E1|].
      apply nthN_none_ge in Hslot. destruct HX as (_ & Hl & _). lia. }
  2:{ inversion Hrun; subst. split; [right; left; auto|auto]. }
  destruct HX as (Hch & Hlen & Hsome).
  destruct (Hsome _ _ Hslot) as (c & Hc & Hhd).
  apply in_split in Hc. destruct Hc as (pre & post & ->).
  assert (Hrc : rx_chain (v_slots v) c).
  { rewrite Forall_forall in Hch. apply Hch. apply in_or_app. right. now left. }
  destruct Hrc as (Hci & Hct & b1 & a1 & Hs1 & Hidx & Hcb).
  rewrite Hhd, Hslot in Hs1. injection Hs1 as <-.
  rewrite Hidx, Hhd, N.eqb_refl in Hrun. cbn [negb] in Hrun.
  assert (Hkeys : keys (tag_bufs [] [rx_ubuf b0 0]) = keys (c_bufs c)) by (rewrite Hcb; reflexivity).
  destruct (pop_refines _ pre c post h [] [rx_ubuf b0 0] u_idx u_id u_len HR Hkeys) as (_ & _ & P3).
  destruct (P3 E1 (eq_sym Hhd)) as (q1 & evs1 & Hpop & HR1 & Hlu & Hfh & Hnu & _ & _ & _ & _ & Hsz & _).
  unfold receive_complete in Hrun. rewrite Hhd in Hpop. rewrite Hpop in Hrun.
  destruct (N.ltb_spec (w32 u_len) (hdr_size (n_legacy (v_raw v)))) as [E3|E3].
  { inversion Hrun; subst. split; [right; right; auto|auto]. }
  inversion Hrun; subst o v' evs. clear Hrun. cbn [v_raw v_slots set_rx n_rx n_tx n_legacy rb_plen set_plen].
  split; [|auto].
  split; [exact E1|]. split; [exact E3|]. split; [eauto|]. split; [lia|]. split; [exact Hlu|].
  exists (pre ++ post). eexists. cbv zeta. cbn [v_raw v_slots set_rx n_rx].
  split; [exact HR1|].
  split.
  { rewrite <- Hhd. apply (rxinv_take (n_rx (v_raw v))); [repeat split; assumption| |exact Hsz].
    apply (chains_disjoint _ _ _ HR). }
  split. { rewrite Hsz. rewrite !lenN_app, !lenN_cons in *. lia. }
  split; [|split; assumption].
  rewrite Hsz. eapply perm_trans; [|exact Hperm].
  cbn [app map]. rewrite idlen_set_plen.
  eapply perm_trans; [|apply Permutation_map; apply Permutation_app_head; apply Permutation_sym;
                       apply slot_bufs_take; exact Hslot].
  rewrite !map_app. cbn [map]. apply Permutation_middle.
Qed.

(* ------------------------------------------------------------------------------------------------ *)
(* VirtIONet::new                                                                                    *)
Lemma seqN_snoc : forall n s, seqN s (S n) = seqN s n ++ [s + N.of_nat n].
Proof.
  induction n as [|n IH]; intros s.
  - cbn [seqN app]. f_equal. lia.
  - change (seqN s (S (S n))) with (s :: seqN (s + 1) (S n)). rewrite IH. cbn [seqN app]. do 2 f_equal. f_equal. lia.
Qed.

(* the free list of a fresh queue is 0, 1, ..., size-1 in this order (as in OwningProofs) *)
Lemma qnew_invfl k ind ev : k <= 15 -> InvFl (qnew (2 ^ k) ind ev) [] (seqN 0 (N.to_nat (2 ^ k))).
Proof.
  intros Hk.
  pose proof (qnew_inv k ind ev Hk) as [fl Hfl].
  assert (fl = seqN 0 (N.to_nat (2 ^ k))); [|subst; exact Hfl].
  destruct Hfl as (Hnd & Hlen & Hrange & _ & Hseg & _).
  unfold all_idxs in *. cbn [map concat] in *. rewrite app_nil_r in *.
  cbn [qnew q_shadow q_free_head q_size] in *.
  assert (Hgen : forall m fl i, lseg (init_table 0 (N.to_nat (2 ^ k))) i fl -> length fl = m ->
                   N.of_nat m + i = 2 ^ k -> fl = seqN i m).
  { induction m as [|m IHm]; intros fl0 i Hs Hm Hsum.
    - destruct fl0; [reflexivity|discriminate].
    - destruct fl0 as [|x fl0]; [discriminate|]. cbn [lseg] in Hs. destruct Hs as (-> & Hx & Hs).
      cbn [seqN]. f_equal. apply IHm; [|simpl in Hm; lia|lia].
      unfold nxt in Hs. rewrite init_table_spec in Hs by lia. cbn [d_next] in Hs.
      destruct m as [|m'].
      + simpl in Hm. destruct fl0; [exact I|discriminate].
      + destruct (N.eqb_spec (x + 1) (N.of_nat (N.to_nat (2 ^ k)))); [lia|].
        replace (0 + x + 1) with (x + 1) in Hs by lia. exact Hs. }
  apply Hgen; [exact Hseg| |lia]. unfold lenN in Hlen. lia.
Qed.

Lemma slot_bufs_repeat_none n : slot_bufs (repeat None n) = [].
Proof. induction n as [|n IH]; [reflexivity|]. cbn [repeat]. unfold slot_bufs in *. cbn [flat_map app]. exact IH. Qed.

Lemma vnet_new_loop_inv L buf_len :
  L = 8 * (buf_len / 8) -> MIN_BUFFER_LEN <= L -> L < two32 ->
  forall k env i s slots chains h,
    Reach (n_rx s) chains h -> InvFl (n_rx s) chains (seqN i k) -> RxInv (n_rx s) slots chains ->
    N.of_nat k + i = q_size (n_rx s) -> q_size (n_rx s) <= 32768 -> lenN chains = i ->
    Permutation (map idlen (slot_bufs slots)) (map (fun j => (j, L)) (seqN 0 (N.to_nat i))) ->
    exists v evs chains' h',
      vnet_new_loop k env i buf_len s slots = (Ok tt, v, evs)
      /\ Reach (n_rx (v_raw v)) chains' h' /\ RxInv (n_rx (v_raw v)) (v_slots v) chains'
      /\ lenN chains' = q_size (n_rx s) /\ q_size (n_rx (v_raw v)) = q_size (n_rx s)
      /\ Permutation (map idlen (slot_bufs (v_slots v)))
                     (map (fun j => (j, L)) (seqN 0 (N.to_nat (q_size (n_rx s)))))
      /\ n_tx (v_raw v) = n_tx s /\ n_legacy (v_raw v) = n_legacy s.
Proof.
  intros HL Hmin H32. induction k as [|k IH]; intros env i s slots chains h HR HI HX Hsum Hmax Hcnt Hperm.
  - cbn [vnet_new_loop]. exists (mkV s slots), [], chains, h. cbn [v_raw v_slots].
    split; [reflexivity|]. split; [exact HR|]. split; [exact HX|].
    assert (Hi : i = q_size (n_rx s)) by lia. rewrite Hi in Hcnt, Hperm.
    split; [exact Hcnt|]. split; [reflexivity|]. split; [exact Hperm|]. split; reflexivity.
  - cbn [vnet_new_loop]. destruct (hd (0, 0, 0) env) as [[addr ae] uf].
    unfold rxbuf_new. destruct (N.leb_spec two16 i) as [Hbig|_]; [unfold two16 in Hbig; lia|].
    rewrite <- HL. set (b := mkRx i L 0 i).
    cbn [seqN] in HI.
    destruct (receive_begin_post s chains h i (seqN (i + 1) k) (rx_ubuf b addr) ae uf HR HI)
      as (s1 & evs & h1 & Hrb & Hleg & Htx & HR1 & HI1 & Hsz).
    { cbn [rx_ubuf b_len b rb_len]. exact Hmin. } { cbn [rx_ubuf b_len b rb_len]. exact H32. }
    rewrite Hrb.
    assert (Hw : w16 i = i) by (unfold w16; apply N.mod_small; lia).
    rewrite Hw, N.eqb_refl.
    destruct (rxinv_post (n_rx s) (n_rx s1) slots chains i (seqN (i + 1) k) b addr HI HX Hsz eq_refl) as (Hslot & HX1).
    destruct (IH (tl env) (i + 1) s1 (updN slots i (Some b)) _ _ HR1 HI1 HX1) as (v & evs2 & chains' & h' & Hrun & A1 & A2 & A3 & A4 & A5 & A6 & A7).
    + rewrite Hsz. lia.
    + rewrite Hsz. exact Hmax.
    + rewrite lenN_app, lenN_cons. change (lenN (@nil chain)) with 0. lia.
    + replace (N.to_nat (i + 1)) with (S (N.to_nat i)) by lia. rewrite seqN_snoc, map_app. cbn [map].
      eapply perm_trans; [apply Permutation_map; apply slot_bufs_put; exact Hslot|].
      cbn [map]. eapply perm_trans; [apply perm_skip; exact Hperm|].
      replace (idlen b) with (0 + N.of_nat (N.to_nat i), L) by (unfold idlen, b; cbn [rb_id rb_len]; f_equal; lia).
      apply Permutation_cons_append.
    + rewrite Hrun. exists v, (evs ++ evs2), chains', h'.
      split; [reflexivity|]. split; [exact A1|]. split; [exact A2|].
      rewrite Hsz in A3, A4, A5. split; [exact A3|]. split; [exact A4|]. split; [exact A5|].
      split; congruence.
Qed.

(* C16_ownership, initial state: VirtIONet::new on a queue of any size 2^k with any buffer length whose
   8-byte-rounded value is at least MIN_BUFFER_LEN posts every buffer (token i for buffer i: the assert
   never fires) and establishes the invariant with nothing owned by the caller *)
Theorem vnet_new_inv k devf buf_len env :
  k <= 15 -> MIN_BUFFER_LEN <= 8 * (buf_len / 8) -> 8 * (buf_len / 8) < two32 ->
  exists v evs,
    vnet_new devf (2 ^ k) buf_len env = (Ok tt, v, evs)
    /\ NetInv (8 * (buf_len / 8)) v []
    /\ n_legacy (v_raw v) = legacy_header (net_negotiate devf)
    /\ Reach (n_tx (v_raw v)) [] []
    /\ q_size (n_rx (v_raw v)) = 2 ^ k.
Proof.
  intros Hk Hmin H32.
  assert (Hp : 2 ^ k <= 32768) by (change 32768 with (2 ^ 15); apply N.pow_le_mono_r; [discriminate|exact Hk]).
  unfold vnet_new. rewrite (N.min_l _ _ Hp).
  set (neg := net_negotiate devf).
  set (ind := N.testbit neg BIT_RING_INDIRECT_DESC). set (ev := N.testbit neg BIT_RING_EVENT_IDX).
  assert (HR0 : Reach (qnew (2 ^ k) ind ev) [] []).
  { change (qnew (2 ^ k) ind ev) with (qset_indices (qnew (2 ^ k) ind ev) 0). apply R_new; [exact Hk|reflexivity]. }
  unfold raw_new. fold neg ind ev.
  destruct (vnet_new_loop_inv (8 * (buf_len / 8)) buf_len eq_refl Hmin H32 (N.to_nat (2 ^ k)) env 0
              (mkRaw (legacy_header neg) (qnew (2 ^ k) ind ev) (qnew (2 ^ k) ind ev))
              (repeat None (N.to_nat (2 ^ k))) [] [])
    as (v & evs & chains' & h' & Hrun & A1 & A2 & A3 & A4 & A5 & A6 & A7); cbn [n_rx n_tx n_legacy qnew q_size].
  - exact HR0.
  - apply qnew_invfl. exact Hk.
  - split; [constructor|]. split; [rewrite lenN_repeat; cbn [qnew q_size]; lia|].
    intros t b Ht. exfalso. assert (Hlt := nthN_some_lt _ _ _ Ht). rewrite lenN_repeat in Hlt.
    rewrite nthN_repeat in Ht by exact Hlt. discriminate.
  - lia.
  - exact Hp.
  - reflexivity.
  - rewrite slot_bufs_repeat_none. apply Permutation_refl.
  - exists v, evs. split; [exact Hrun|].
    cbn [n_rx n_tx n_legacy qnew q_size] in *.
    split.
    { exists chains', h'. cbv zeta. split; [exact A1|]. split; [exact A2|].
      split; [change (lenN (@nil rxbuf)) with 0; lia|]. split; [|split; assumption].
      cbn [app]. rewrite A4. exact A5. }
    split; [exact A7|]. split; [|exact A4].
    rewrite A6. exact HR0.
Qed.

(* a buffer length that rounds down to less than MIN_BUFFER_LEN (1526, 1527 included) is refused *)
Theorem vnet_new_small_buffer k devf buf_len env :
  8 * (buf_len / 8) < MIN_BUFFER_LEN ->
  exists v, vnet_new devf (2 ^ k) buf_len env = (Err EInvalidParam, v, []).
Proof.
  intros Hs. unfold vnet_new.
  assert (Hpos : exists n, N.to_nat (N.min (2 ^ k) 32768) = S n).
  { assert (0 < 2 ^ k) by (apply N.neq_0_lt_0, N.pow_nonzero; discriminate).
    exists (pred (N.to_nat (N.min (2 ^ k) 32768))). lia. }
  destruct Hpos as [n ->]. cbn [vnet_new_loop]. destruct (hd (0, 0, 0) env) as [[addr ae] uf].
  unfold rxbuf_new. change (two16 <=? 0) with false. cbv iota.
  unfold receive_begin, check_rx_buf_len. cbn [rx_ubuf b_len rb_len].
  destruct (N.ltb_spec (8 * (buf_len / 8)) MIN_BUFFER_LEN); [|lia]. cbn [negb]. eauto.
Qed.

(* ------------------------------------------------------------------------------------------------ *)
(* all histories of the buffer-managing driver.  The device is arbitrary except for the two places
   where the code gives up: a used id outside the queue (index panic: no successor state) and a
   completion shorter than the header (the buffer is dropped, see vnet_receive_cases).              *)
Inductive VReach (L : N) : vnet -> list rxbuf -> Prop :=
| VR_new k devf buf_len env v evs :
    k <= 15 -> L = 8 * (buf_len / 8) -> MIN_BUFFER_LEN <= L -> L < two32 ->
    vnet_new devf (2 ^ k) buf_len env = (Ok tt, v, evs) ->
    VReach L v []
| VR_receive v owned u_idx u_id u_len o v' evs :
    VReach L v owned ->
    vnet_receive v u_idx u_id u_len = (o, v', evs) ->
    w16 u_id < q_size (n_rx (v_raw v)) ->                       (* used ids name descriptors *)
    hdr_size (n_legacy (v_raw v)) <= w32 u_len ->               (* a completion carries a header *)
    VReach L v' (match o with Ok b => b :: owned | _ => owned end)
| VR_recycle v owned1 b owned2 addr ae uf o v' evs :
    VReach L v (owned1 ++ b :: owned2) ->                       (* only a buffer the caller holds *)
    vnet_recycle v b addr ae uf = (o, v', evs) ->
    VReach L v' (owned1 ++ owned2)
| VR_send v owned hid haddr fb taddr ae uf u_idx u_id u_len o v' evs :
    VReach L v owned ->
    vnet_send v hid haddr fb taddr ae uf u_idx u_id u_len = (o, v', evs) ->
    VReach L v' owned.

Lemma netinv_rx_only L v v' owned :
  NetInv L v owned -> n_rx (v_raw v') = n_rx (v_raw v) -> v_slots v' = v_slots v -> NetInv L v' owned.
Proof. intros (chains & h & H) E1 E2. exists chains, h. cbv zeta in *. rewrite E1, E2. exact H. Qed.

(* C16_ownership: over all histories (any interleaving of receives, recycles and sends, any completion
   order, burst size and lengths chosen by the device) every buffer is in exactly one place *)
Theorem vnet_ownership L v owned : VReach L v owned -> NetInv L v owned.
Proof.
  induction 1 as [k devf buf_len env v evs Hk HL Hmin H32 Hrun
                 | v owned u_idx u_id u_len o v' evs HV IH Hrun Hid Hlen
                 | v owned1 b owned2 addr ae uf o v' evs HV IH Hrun
                 | v owned hid haddr fb taddr ae uf u_idx u_id u_len o v' evs HV IH Hrun].
  - subst L. destruct (vnet_new_inv k devf buf_len env Hk Hmin H32) as (v0 & evs0 & E & HN & _).
    rewrite E in Hrun. inversion Hrun; subst. exact HN.
  - pose proof (vnet_receive_cases L v owned u_idx u_id u_len o v' evs IH Hrun) as [Hc _]. cbv zeta in Hc.
    destruct o as [b|e| |].
    + tauto.
    + destruct Hc as [(_ & _ & -> & _)|[(_ & _ & _ & -> & _)|(_ & _ & Hshort)]]; try exact IH. lia.
    + destruct Hc as [_ Hc]. lia.
    + contradiction.
  - destruct (vnet_recycle_ok L v owned1 b owned2 addr ae uf IH) as (v1 & evs1 & E & HN & _).
    rewrite E in Hrun. inversion Hrun; subst. exact HN.
  - unfold vnet_send in Hrun. destruct (net_send _ _ _ _ _ _ _ _ _ _) as [[o1 s1] evs1] eqn:Es.
    inversion Hrun; subst. apply (netinv_rx_only L v); [exact IH| |reflexivity].
    cbn [v_raw]. unfold net_send in Es. destruct (add_notify_wait_pop _ _ _ _ _ _ _ _ _ _) as [[o2 q2] evs2].
    inversion Es; subst. reflexivity.
Qed.

(* what the invariant says, spelled out *)
Theorem netinv_exactly_one_place L v owned :
  NetInv L v owned ->
  let size := q_size (n_rx (v_raw v)) in
  (* no identity twice, every identity somewhere: with the caller, or in a slot *)
  NoDup (map rb_id (owned ++ slot_bufs (v_slots v)))
  /\ (forall i, i < size <-> In i (map rb_id (owned ++ slot_bufs (v_slots v))))
  (* the slots and the posted tokens are in bijection, and the device sees each posted buffer as one
     writable descriptor of the buffer's length *)
  /\ exists chains h,
       Reach (n_rx (v_raw v)) chains h
       /\ lenN chains + lenN owned = size
       /\ (forall t b, nthN_error (v_slots v) t = Some (Some b) ->
             rb_idx b = t /\ exists c a, In c chains /\ c_head c = t /\ c_bufs c = [(rx_ubuf b a, true)])
       /\ (forall c, In c chains -> exists b a, nthN_error (v_slots v) (c_head c) = Some (Some b)
                                             /\ c_bufs c = [(rx_ubuf b a, true)] /\ rb_len b = L)
       /\ Forall (fun c => walk (q_dtable (n_rx (v_raw v))) (fun _ => None) (c_head c) (N.to_nat size)
                           = Some (elems (c_bufs c))) chains.
Proof.
  intros HN. assert (HN0 := HN).
  destruct HN as (chains & h & HR & (Hch & Hlen & Hsome) & Hcnt & Hperm & Hmin & H32). cbv zeta in *.
  assert (Hids : Permutation (map rb_id (owned ++ slot_bufs (v_slots v))) (seqN 0 (N.to_nat (q_size (n_rx (v_raw v)))))).
  { apply (Permutation_map fst) in Hperm. rewrite !map_map in Hperm. cbn [fst idlen] in Hperm.
    rewrite map_id in Hperm. exact Hperm. }
  split. { eapply Permutation_NoDup; [apply Permutation_sym; exact Hids|apply seqN_nodup]. }
  split.
  { intros i. split; intros Hi.
    - eapply Permutation_in; [apply Permutation_sym; exact Hids|]. apply seqN_in. lia.
    - eapply Permutation_in in Hi; [|exact Hids]. apply seqN_in in Hi. lia. }
  exists chains, h. split; [exact HR|]. split; [exact Hcnt|].
  rewrite Forall_forall in Hch.
  split.
  { intros t b Ht. destruct (Hsome t b Ht) as (c & Hc & Hhd).
    destruct (Hch c Hc) as (_ & _ & b1 & a1 & Hs1 & Hidx & Hcb). rewrite Hhd, Ht in Hs1. injection Hs1 as <-.
    split; [congruence|]. exists c, a1. auto. }
  split.
  { intros c Hc. destruct (Hch c Hc) as (_ & _ & b1 & a1 & Hs1 & Hidx & Hcb). exists b1, a1.
    split; [exact Hs1|]. split; [exact Hcb|].
    apply (netinv_len L v owned b1 HN0). apply in_or_app. right.
    unfold slot_bufs. apply in_flat_map. exists (Some b1). split; [|now left].
    unfold nthN_error in Hs1. eapply nth_error_In; eauto. }
  apply all_chains_walk with (h := h); [exact HR|].
  intros c ta tbl Hc Et. exfalso. destruct (Hch c Hc) as (_ & Hn & _). congruence.
Qed.

(* "the number of posted buffers returns to the queue size once all buffers are recycled" *)
Theorem netinv_all_recycled L v :
  NetInv L v [] ->
  exists chains h,
    Reach (n_rx (v_raw v)) chains h /\ lenN chains = q_size (n_rx (v_raw v))
    /\ q_num_used (n_rx (v_raw v)) = q_size (n_rx (v_raw v))
    /\ forall t, t < q_size (n_rx (v_raw v)) ->
         exists b c, nthN_error (v_slots v) t = Some (Some b) /\ In c chains /\ c_head c = t.
Proof.
  intros (chains & h & HR & (Hch & Hlen & Hsome) & Hcnt & Hperm & Hmin & H32). cbv zeta in *.
  change (lenN (@nil rxbuf)) with 0 in Hcnt.
  exists chains, h. split; [exact HR|]. split; [lia|].
  destruct (chains_disjoint _ _ _ HR) as (Hnd & Hrange & Hnu & _).
  rewrite (rx_all_idxs _ _ Hch) in *. rewrite lenN_map in Hnu.
  split; [lia|].
  intros t Ht.
  assert (Hin : In t (map c_head chains)).
  { assert (Hincl : incl (seqN 0 (N.to_nat (q_size (n_rx (v_raw v))))) (map c_head chains)).
    { apply NoDup_length_incl; [exact Hnd| |].
      - rewrite seqN_length, map_length. unfold lenN in Hcnt. lia.
      - intros x Hx. apply seqN_in. specialize (Hrange x Hx). lia. }
    apply Hincl. apply seqN_in. lia. }
  apply in_map_iff in Hin. destruct Hin as (c & Hhd & Hc).
  rewrite Forall_forall in Hch. destruct (Hch c Hc) as (_ & _ & b & a & Hs & _).
  exists b, c. rewrite <- Hhd. auto.
Qed.

(* ================================================================================================ *)
(* Part B: the raw driver on its two queues (caller contract of the queue: Reach)                    *)

Lemma elems_readable bufs : elems (tag_bufs bufs []) = map (fun b => (b_addr b, b_len b, false)) bufs.
Proof. unfold elems, tag_bufs. cbn [map]. rewrite app_nil_r, map_map. reflexivity. Qed.
Lemma elems_writable bufs : elems (tag_bufs [] bufs) = map (fun b => (b_addr b, b_len b, true)) bufs.
Proof. unfold elems, tag_bufs. cbn [map app]. rewrite map_map. reflexivity. Qed.

Lemma send_bufs_ok legacy hid haddr fb : b_len fb < two32 -> bufs_ok (tag_bufs (send_bufs legacy hid haddr fb) []).
Proof.
  intros H. unfold send_bufs.
  assert (Hh : hdr_size legacy <> 0 /\ hdr_size legacy < two32) by (destruct legacy; split; [discriminate|reflexivity|discriminate|reflexivity]).
  destruct (N.eqb_spec (b_len fb) 0) as [E|E]; unfold tag_bufs; cbn [map app].
  - constructor; [exact Hh|constructor].
  - constructor; [exact Hh|]. constructor; [split; assumption|constructor].
Qed.

(* the wait loop of add_notify_wait_pop has ended: can_pop, i.e. last_used <> the device's used index *)
(* C16_tx, queue level: send, for every state of the transmit queue reachable under the queue's
   contract, every frame length below 2^32 (the empty frame included), every device behaviour *)
Theorem net_send_spec s chains h hid haddr fb taddr ae uf u_idx u_id u_len mem o s' evs :
  Reach (n_tx s) chains h -> b_len fb < two32 ->
  q_last_used (n_tx s) <> w16 u_idx ->
  net_send s hid haddr fb taddr ae uf u_idx u_id u_len = (o, s', evs) ->
  let bufs := send_bufs (n_legacy s) hid haddr fb in
  let c := new_chain (n_tx s) bufs [] taddr in
  let head := q_free_head (n_tx s) in
  (forall ta tbl, c_tbl c = Some (ta, tbl) -> mem ta = Some tbl) ->
  n_rx s' = n_rx s /\ n_legacy s' = n_legacy s
  /\ ((capacity_ok (n_tx s) (lenN bufs) = false /\ o = Err EQueueFull /\ s' = s /\ evs = [])
      \/ (capacity_ok (n_tx s) (lenN bufs) = true
          /\ exists q1 evs1,
               add (n_tx s) bufs [] taddr = (Ok head, q1, evs1)
               (* ring slot avail_idx mod size names the chain; from there the device reaches the
                  header and then the frame, device-readable, with the caller's lengths *)
               /\ q_aring q1 = updN (q_aring (n_tx s)) (q_avail_idx (n_tx s) mod q_size (n_tx s)) head
               /\ walk (q_dtable q1) mem head (N.to_nat (q_size q1))
                  = Some (map (fun b => (b_addr b, b_len b, false)) bufs)
               /\ ((w16 u_id = head /\ o = Ok tt
                    /\ exists h', Reach (n_tx s') chains h')     (* completed: nothing left behind *)
                   \/ (w16 u_id <> head /\ o = Err EWrongToken    (* another completion came first *)
                       /\ exists h', Reach (n_tx s') (chains ++ [c]) h')))).
Proof.
  intros HR H32 Hcp Hrun bufs c head Hmem.
  unfold net_send, add_notify_wait_pop in Hrun. fold bufs in Hrun.
  assert (Hok : bufs_ok (tag_bufs bufs [])) by (apply send_bufs_ok; exact H32).
  assert (Hne : tag_bufs bufs [] <> []).
  { unfold bufs, send_bufs. destruct (b_len fb =? 0); discriminate. }
  assert (Hlen : lenN (tag_bufs bufs []) = lenN bufs).
  { unfold tag_bufs. cbn [map]. rewrite app_nil_r. apply lenN_map. }
  destruct (add_refusals _ _ _ bufs [] taddr HR Hok) as (_ & A2 & A3).
  destruct (capacity_ok (n_tx s) (lenN bufs)) eqn:Hcap.
  2:{ rewrite (A2 Hne ltac:(now rewrite Hlen)) in Hrun. inversion Hrun; subst.
      split; [reflexivity|]. split; [reflexivity|]. left. destruct s; auto. }
  destruct (A3 Hne ltac:(now rewrite Hlen)) as (q1 & evs1 & Hadd).
  rewrite Hadd in Hrun.
  destruct (add_publishes _ _ _ bufs [] taddr _ _ _ mem HR Hok Hadd Hmem)
    as (_ & Hch & Hcb & Hwalk & _ & Hring & Hai & _ & _ & _ & _ & HR1).
  fold c in Hch, Hcb, HR1.
  assert (Hlu : q_last_used q1 = q_last_used (n_tx s)).
  { destruct (Reach_Inv _ _ _ HR) as [HI _].
    destruct (add_ok _ _ bufs [] taddr HI Hne Hok ltac:(now rewrite Hlen))
      as (sx & ex & cx & Hr & _ & _ & _ & _ & _ & _ & Hl & _).
    rewrite Hr in Hadd. inversion Hadd; subst. exact Hl. }
  assert (Hkeys : keys (tag_bufs bufs []) = keys (c_bufs c)) by now rewrite Hcb.
  destruct (pop_refines q1 chains c [] _ bufs [] u_idx u_id u_len HR1 Hkeys) as (_ & P2 & P3).
  rewrite Hch in P2, P3.
  split; [|split].
  1,2: destruct (pop_used q1 _ _ _ _ _ _) as [[o2 q2] evs2]; inversion Hrun; subst; reflexivity.
  right. split; [reflexivity|]. exists q1, evs1. split; [exact Hadd|]. split; [exact Hring|].
  split; [rewrite <- elems_readable; exact Hwalk|].
  destruct (N.eq_dec (w16 u_id) head) as [E|E].
  - destruct (P3 ltac:(now rewrite Hlu) E) as (q2 & evs2 & Hpop & HR2 & _).
    rewrite Hpop in Hrun. inversion Hrun; subst. left.
    split; [exact E|]. split; [reflexivity|]. cbn [set_tx n_tx]. rewrite app_nil_r in HR2. eauto.
  - destruct (P2 ltac:(now rewrite Hlu) E) as (Hpop & _).
    rewrite Hpop in Hrun. inversion Hrun; subst. right.
    split; [exact E|]. split; [reflexivity|]. cbn [set_tx n_tx]. eauto.
Qed.

(* transmit_begin: the caller's buffer as it is (header prepared with fill_buffer_header) *)
Theorem transmit_begin_spec s chains h b ae uf o s' evs :
  Reach (n_tx s) chains h -> b_len b < two32 ->
  transmit_begin s b ae uf = (o, s', evs) ->
  let hs := hdr_size (n_legacy s) in
  n_rx s' = n_rx s /\ n_legacy s' = n_legacy s
  /\ ((b_len b < hs /\ o = Err EInvalidParam /\ s' = s /\ evs = [])
      \/ (hs <= b_len b /\ capacity_ok (n_tx s) 1 = false /\ o = Err EQueueFull /\ s' = s /\ evs = [])
      \/ (hs <= b_len b /\ o = Ok (q_free_head (n_tx s))
          /\ walk (q_dtable (n_tx s')) (fun _ => None) (q_free_head (n_tx s)) (N.to_nat (q_size (n_tx s')))
             = Some [(b_addr b, b_len b, false)]
          /\ q_aring (n_tx s') = updN (q_aring (n_tx s)) (q_avail_idx (n_tx s) mod q_size (n_tx s)) (q_free_head (n_tx s))
          /\ exists h', Reach (n_tx s') (chains ++ [new_chain (n_tx s) [b] [] 0]) h')).
Proof.
  intros HR H32 Hrun hs. unfold transmit_begin, check_tx_buf_len in Hrun. fold hs in Hrun.
  destruct (N.ltb_spec (b_len b) hs) as [Hlt|Hge]; cbn [negb] in Hrun.
  { inversion Hrun; subst. split; [reflexivity|]. split; [reflexivity|]. left. auto. }
  assert (Hb0 : b_len b <> 0) by (subst hs; destruct (n_legacy s); cbn [hdr_size] in Hge; lia).
  assert (Hok : bufs_ok (tag_bufs [b] [])) by (constructor; [split; assumption|constructor]).
  assert (Hne : tag_bufs [b] [] <> []) by discriminate.
  destruct (add_refusals _ _ _ [b] [] 0 HR Hok) as (_ & A2 & A3).
  change (lenN (tag_bufs [b] [])) with 1 in A2, A3.
  destruct (capacity_ok (n_tx s) 1) eqn:Hcap.
  2:{ rewrite (A2 Hne eq_refl) in Hrun. inversion Hrun; subst.
      split; [reflexivity|]. split; [reflexivity|]. right. left. destruct s; auto. }
  destruct (A3 Hne eq_refl) as (q1 & evs1 & Hadd). rewrite Hadd in Hrun. inversion Hrun; subst o s' evs.
  destruct (add_publishes _ _ _ [b] [] 0 _ _ _ (fun _ => None) HR Hok Hadd)
    as (_ & _ & _ & Hwalk & _ & Hring & _ & _ & _ & _ & _ & HR1).
  { intros ta tbl Et. exfalso. unfold new_chain in Et. change (lenN (tag_bufs [b] [])) with 1 in Et.
    change (1 <? 1) with false in Et. rewrite andb_false_r in Et. discriminate. }
  cbn [set_tx n_tx n_rx n_legacy]. split; [reflexivity|]. split; [reflexivity|]. right. right.
  split; [exact Hge|]. split; [reflexivity|]. split; [exact Hwalk|]. split; [exact Hring|]. eauto.
Qed.

(* transmit_complete is pop_used on the transmit queue with the same buffer: see C16_pop (pop_refines) *)
Theorem transmit_complete_is_pop s token b u_idx u_id u_len :
  transmit_complete s token b u_idx u_id u_len
  = (let '(o, q1, evs) := pop_used (n_tx s) token [b] [] u_idx u_id u_len in
     (o, set_tx s q1, map (NQ QUEUE_TRANSMIT) evs)).
Proof. reflexivity. Qed.

(* receive_begin: a buffer of at least MIN_BUFFER_LEN bytes becomes one device-writable descriptor *)
Theorem receive_begin_spec s chains h b ae uf o s' evs :
  Reach (n_rx s) chains h -> b_len b < two32 ->
  receive_begin s b ae uf = (o, s', evs) ->
  n_tx s' = n_tx s /\ n_legacy s' = n_legacy s
  /\ ((b_len b < MIN_BUFFER_LEN /\ o = Err EInvalidParam /\ s' = s /\ evs = [])
      \/ (MIN_BUFFER_LEN <= b_len b /\ capacity_ok (n_rx s) 1 = false /\ o = Err EQueueFull /\ s' = s /\ evs = [])
      \/ (MIN_BUFFER_LEN <= b_len b /\ o = Ok (q_free_head (n_rx s))
          /\ walk (q_dtable (n_rx s')) (fun _ => None) (q_free_head (n_rx s)) (N.to_nat (q_size (n_rx s')))
             = Some [(b_addr b, b_len b, true)]
          /\ exists h', Reach (n_rx s') (chains ++ [new_chain (n_rx s) [] [b] 0]) h')).
Proof.
  intros HR H32 Hrun. unfold receive_begin, check_rx_buf_len in Hrun.
  destruct (N.ltb_spec (b_len b) MIN_BUFFER_LEN) as [Hlt|Hge]; cbn [negb] in Hrun.
  { inversion Hrun; subst. split; [reflexivity|]. split; [reflexivity|]. left. auto. }
  assert (Hb0 : b_len b <> 0) by (unfold MIN_BUFFER_LEN in Hge; lia).
  assert (Hok : bufs_ok (tag_bufs [] [b])) by (constructor; [split; assumption|constructor]).
  assert (Hne : tag_bufs [] [b] <> []) by discriminate.
  destruct (add_refusals _ _ _ [] [b] 0 HR Hok) as (_ & A2 & A3).
  change (lenN (tag_bufs [] [b])) with 1 in A2, A3.
  destruct (capacity_ok (n_rx s) 1) eqn:Hcap.
  2:{ rewrite (A2 Hne eq_refl) in Hrun. inversion Hrun; subst.
      split; [reflexivity|]. split; [reflexivity|]. right. left. destruct s; auto. }
  destruct (A3 Hne eq_refl) as (q1 & evs1 & Hadd). rewrite Hadd in Hrun. inversion Hrun; subst o s' evs.
  destruct (add_publishes _ _ _ [] [b] 0 _ _ _ (fun _ => None) HR Hok Hadd)
    as (_ & _ & _ & Hwalk & _ & _ & _ & _ & _ & _ & _ & HR1).
  { intros ta tbl Et. exfalso. unfold new_chain in Et. change (lenN (tag_bufs [] [b])) with 1 in Et.
    change (1 <? 1) with false in Et. rewrite andb_false_r in Et. discriminate. }
  cbn [set_rx n_tx n_rx n_legacy]. split; [reflexivity|]. split; [reflexivity|]. right. right.
  split; [exact Hge|]. split; [reflexivity|]. split; [exact Hwalk|]. eauto.
Qed.

(* C16_rx, queue level: receive_complete for every device behaviour *)
Theorem receive_complete_spec s pre c post h b u_idx u_id u_len o s' evs :
  Reach (n_rx s) (pre ++ c :: post) h -> keys (tag_bufs [] [b]) = keys (c_bufs c) ->
  receive_complete s (c_head c) b u_idx u_id u_len = (o, s', evs) ->
  let hs := hdr_size (n_legacy s) in
  n_tx s' = n_tx s /\ n_legacy s' = n_legacy s
  /\ ((q_last_used (n_rx s) = w16 u_idx /\ o = Err ENotReady /\ s' = s /\ evs = [])
      \/ (q_last_used (n_rx s) <> w16 u_idx /\ w16 u_id <> c_head c /\ o = Err EWrongToken /\ s' = s /\ evs = [])
      \/ (q_last_used (n_rx s) <> w16 u_idx /\ w16 u_id = c_head c
          /\ (exists h', Reach (n_rx s') (pre ++ post) h')        (* the buffer is the caller's again *)
          /\ q_last_used (n_rx s') = w16 (q_last_used (n_rx s) + 1)
          /\ ((w32 u_len < hs /\ o = Err EIoError)
              \/ (hs <= w32 u_len /\ o = Ok (hs, w32 u_len - hs))))).
Proof.
  intros HR Hkeys Hrun hs. unfold receive_complete in Hrun. fold hs in Hrun.
  destruct (pop_refines _ pre c post h [] [b] u_idx u_id u_len HR Hkeys) as (P1 & P2 & P3).
  destruct (N.eq_dec (q_last_used (n_rx s)) (w16 u_idx)) as [E1|E1].
  { destruct (P1 E1) as [Hpop _]. rewrite Hpop in Hrun. inversion Hrun; subst.
    split; [reflexivity|]. split; [reflexivity|]. left. destruct s; auto. }
  destruct (N.eq_dec (w16 u_id) (c_head c)) as [E2|E2].
  2:{ destruct (P2 E1 E2) as [Hpop _]. rewrite Hpop in Hrun. inversion Hrun; subst.
      split; [reflexivity|]. split; [reflexivity|]. right. left. destruct s; auto. }
  destruct (P3 E1 E2) as (q1 & evs1 & Hpop & HR1 & Hlu & _). rewrite Hpop in Hrun.
  destruct (N.ltb_spec (w32 u_len) hs) as [E3|E3]; inversion Hrun; subst o s' evs; cbn [set_rx n_rx n_tx n_legacy];
    (split; [reflexivity|]; split; [reflexivity|]; right; right;
     split; [exact E1|]; split; [exact E2|]; split; [eauto|]; split; [exact Hlu|]); [left|right]; auto.
Qed.

Lemma bufs_ok_rx b : MIN_BUFFER_LEN <= b_len b -> b_len b < two32 -> bufs_ok (tag_bufs [] [b]).
Proof.
  intros Hmin H32. constructor; [|constructor]. cbn [fst]. split; [unfold MIN_BUFFER_LEN in Hmin; lia|exact H32].
Qed.

(* receive_wait: post, wait, complete.  With another completion at the head of the used ring when the
   wait ends, the function returns WrongToken and the buffer is STILL posted (see the report). *)
Theorem receive_wait_spec s chains h b ae uf u_idx u_id u_len o s' evs :
  Reach (n_rx s) chains h -> MIN_BUFFER_LEN <= b_len b -> b_len b < two32 ->
  q_last_used (n_rx s) <> w16 u_idx ->
  receive_wait s b ae uf u_idx u_id u_len = (o, s', evs) ->
  let hs := hdr_size (n_legacy s) in
  let tok := q_free_head (n_rx s) in
  n_tx s' = n_tx s /\ n_legacy s' = n_legacy s
  /\ ((capacity_ok (n_rx s) 1 = false /\ o = Err EQueueFull /\ s' = s /\ evs = [])
      \/ (capacity_ok (n_rx s) 1 = true /\ w16 u_id = tok
          /\ (exists h', Reach (n_rx s') chains h')
          /\ ((w32 u_len < hs /\ o = Err EIoError) \/ (hs <= w32 u_len /\ o = Ok (hs, w32 u_len - hs))))
      \/ (capacity_ok (n_rx s) 1 = true /\ w16 u_id <> tok /\ o = Err EWrongToken
          /\ exists h', Reach (n_rx s') (chains ++ [new_chain (n_rx s) [] [b] 0]) h')).
Proof.
  intros HR Hmin H32 Hcp Hrun hs tok. subst tok. unfold receive_wait in Hrun.
  destruct (receive_begin s b ae uf) as [[o1 s1] evs1] eqn:Hrb.
  destruct (receive_begin_spec s chains h b ae uf o1 s1 evs1 HR H32 Hrb) as (T1 & L1 & [C|[C|C]]).
  - destruct C as (Hlt & _). lia.
  - destruct C as (_ & Hcap & -> & -> & ->). inversion Hrun; subst. split; [reflexivity|]. split; [reflexivity|]. left. auto.
  - destruct C as (_ & -> & _ & h1 & HR1).
    assert (Hcap : capacity_ok (n_rx s) 1 = true).
    { destruct (capacity_ok (n_rx s) 1) eqn:E; [reflexivity|]. exfalso.
      assert (Hok : bufs_ok (tag_bufs [] [b])) by (apply bufs_ok_rx; assumption).
      destruct (add_refusals _ _ _ [] [b] 0 HR Hok) as (_ & A2 & _).
      unfold receive_begin, check_rx_buf_len in Hrb.
      destruct (N.ltb_spec (b_len b) MIN_BUFFER_LEN); [lia|]. cbn [negb] in Hrb.
      rewrite (A2 ltac:(discriminate) E) in Hrb. discriminate. }
    set (c := new_chain (n_rx s) [] [b] 0) in *.
    assert (Hhd : c_head c = q_free_head (n_rx s)).
    { unfold c, new_chain. destruct (q_indirect (n_rx s) && _); reflexivity. }
    assert (Hcb : keys (tag_bufs [] [b]) = keys (c_bufs c)) by (unfold c; now rewrite new_chain_bufs).
    assert (Hlu1 : q_last_used (n_rx s1) = q_last_used (n_rx s)).
    { unfold receive_begin, check_rx_buf_len in Hrb.
      destruct (N.ltb_spec (b_len b) MIN_BUFFER_LEN); [lia|]. cbn [negb] in Hrb.
      destruct (Reach_Inv _ _ _ HR) as [HI _].
      assert (Hok : bufs_ok (tag_bufs [] [b])) by (apply bufs_ok_rx; assumption).
      destruct (add_ok _ _ [] [b] 0 HI ltac:(discriminate) Hok Hcap)
        as (sx & ex & cx & Hr & _ & _ & _ & _ & _ & _ & Hl & _).
      rewrite Hr in Hrb. inversion Hrb; subst. exact Hl. }
    destruct (receive_complete s1 (q_free_head (n_rx s)) b u_idx u_id u_len) as [[o2 s2] evs2] eqn:Hrc.
    inversion Hrun; subst o s' evs. rewrite <- Hhd in Hrc.
    destruct (receive_complete_spec s1 chains c [] h1 b u_idx u_id u_len o2 s2 evs2 HR1 Hcb Hrc) as (T2 & L2 & [D|[D|D]]).
    + destruct D as (E & _). congruence.
    + destruct D as (_ & Hne & -> & -> & _).
      split; [congruence|]. split; [congruence|]. right. right.
      split; [exact Hcap|]. split; [congruence|]. split; [reflexivity|]. eauto.
    + destruct D as (_ & He & (h2 & HR2) & _ & Hres). rewrite app_nil_r in HR2.
      split; [congruence|]. split; [congruence|]. right. left.
      split; [exact Hcap|]. split; [congruence|]. split; [eauto|]. subst hs. rewrite <- L1. exact Hres.
Qed.

(* ------------------------------------------------------------------------------------------------ *)
(* C16_ready                                                                                         *)
Theorem can_recv_spec L v owned u_idx :
  NetInv L v owned ->
  (* can_recv iff the device's used index differs from the driver's: the used ring is non-empty *)
  vnet_can_recv v u_idx = negb (q_last_used (n_rx (v_raw v)) =? w16 u_idx)
  (* and it agrees with receive: NotReady exactly when can_recv is false *)
  /\ (forall u_id u_len,
        fst (fst (vnet_receive v u_idx u_id u_len)) = Err ENotReady <-> vnet_can_recv v u_idx = false).
Proof.
  intros HN.
  assert (H1 : vnet_can_recv v u_idx = negb (q_last_used (n_rx (v_raw v)) =? w16 u_idx)).
  { unfold vnet_can_recv, poll_receive, peek_used, can_pop.
    destruct (q_last_used (n_rx (v_raw v)) =? w16 u_idx); reflexivity. }
  split; [exact H1|]. intros u_id u_len. rewrite H1. split.
  - destruct (vnet_receive v u_idx u_id u_len) as [[o v'] evs] eqn:Hrun. cbn [fst]. intros ->.
    destruct (vnet_receive_cases L v owned u_idx u_id u_len _ v' evs HN Hrun) as [Hc _]. cbv zeta in Hc.
    destruct Hc as [(_ & E & _)|[(E & _)|(E & _)]]; try discriminate.
    rewrite E, N.eqb_refl. reflexivity.
  - intros E. unfold vnet_receive, poll_receive, peek_used, can_pop. rewrite E. reflexivity.
Qed.

Theorem can_send_spec s chains h :
  Reach (n_tx s) chains h ->
  raw_can_send s = spec_can_send (q_size (n_tx s)) (lenN (all_idxs chains)) (q_indirect (n_tx s))
  /\ raw_can_send s = capacity_ok (n_tx s) 2
  (* true: send is not refused for any frame; false: a non-empty frame is refused *)
  /\ (raw_can_send s = true -> capacity_ok (n_tx s) 1 = true).
Proof.
  intros HR. destruct (counts_exact _ _ _ HR) as (Hnu & Hle & Hav).
  unfold raw_can_send, spec_can_send, capacity_ok. rewrite Hav, <- Hnu.
  destruct (q_indirect (n_tx s)); cbn [negb andb orb].
  - destruct (N.eqb_spec (q_num_used (n_tx s)) (q_size (n_tx s))); split; try split; try intro; lia.
  - split; [|split; [|intro]]; lia.
Qed.

(* ------------------------------------------------------------------------------------------------ *)
(* the ownership monitor (kind 1652) says what the invariant says: if it accepts the identities found
   posted / completed-but-not-received / held by the caller, each of 0 .. size-1 is in exactly one place *)
Lemma count_occ_N_zero l x : count_occ_N l x = 0 -> ~ In x l.
Proof.
  induction l as [|y l IH]; intros H; [intros []|]. cbn [count_occ_N] in H.
  destruct (N.eqb_spec x y) as [E|E]; [lia|]. intros [->|Hin]; [congruence|]. apply IH; [lia|exact Hin].
Qed.

Lemma count_once_nodup l : (forall x, In x l -> count_occ_N l x = 1) -> NoDup l.
Proof.
  induction l as [|y l IH]; intros H; [constructor|].
  assert (Hy := H y (or_introl eq_refl)). cbn [count_occ_N] in Hy. rewrite N.eqb_refl in Hy.
  assert (Hny : ~ In y l) by (apply count_occ_N_zero; lia).
  constructor; [exact Hny|]. apply IH. intros x Hx.
  assert (Hxx := H x (or_intror Hx)). cbn [count_occ_N] in Hxx.
  destruct (N.eqb_spec x y) as [E|E]; [subst; contradiction|lia].
Qed.

Theorem ownership_monitor_sound size posted pending owned :
  spec_ownership_ok_b size posted pending owned = true ->
  NoDup (posted ++ pending ++ owned)
  /\ (forall i, i < size <-> In i (posted ++ pending ++ owned))
  /\ lenN posted + lenN pending + lenN owned = size.
Proof.
  unfold spec_ownership_ok_b, each_once_b. set (ids := posted ++ pending ++ owned). intros H.
  apply andb_prop in H. destruct H as [Hlen Hall]. apply N.eqb_eq in Hlen.
  rewrite forallb_forall in Hall.
  assert (Hnd : NoDup ids).
  { apply count_once_nodup. intros x Hx. specialize (Hall x Hx). apply andb_prop in Hall. destruct Hall as [_ Hc].
    now apply N.eqb_eq in Hc. }
  assert (Hlt : forall x, In x ids -> x < size).
  { intros x Hx. specialize (Hall x Hx). apply andb_prop in Hall. destruct Hall as [Hc _]. now apply N.ltb_lt in Hc. }
  split; [exact Hnd|]. split.
  - intros i. split; [|apply Hlt]. intros Hi.
    assert (Hincl : incl (seqN 0 (N.to_nat size)) ids).
    { apply NoDup_length_incl; [exact Hnd| |].
      - rewrite seqN_length. unfold lenN in Hlen. lia.
      - intros x Hx. apply seqN_in. specialize (Hlt x Hx). lia. }
    apply Hincl. apply seqN_in. lia.
  - subst ids. rewrite !lenN_app in Hlen. lia.
Qed.

(* ================================================================================================ *)
(* Non-vacuity: concrete instances of the hypotheses used above                                      *)
Example hdr_size_examples :
  hdr_size (legacy_header (net_negotiate (2 ^ 32 + 2 ^ 28))) = 12
  /\ hdr_size (legacy_header (net_negotiate (2 ^ 29))) = 10
  (* a legacy device offering MRG_RXBUF: the driver does not accept the bit, the header stays 10 bytes *)
  /\ hdr_size (legacy_header (net_negotiate (2 ^ 15))) = 10
  /\ spec_hdr_len (net_negotiate (2 ^ 15)) = 10.
Proof. repeat split; vm_compute; reflexivity. Qed.

Example tx_wire_example :
  concat (send_payload true [1; 2; 3]) = [0; 0; 0; 0; 0; 0; 0; 0; 0; 0; 1; 2; 3]
  /\ concat (send_payload false []) = [0; 0; 0; 0; 0; 0; 0; 0; 0; 0; 0; 0]
  /\ spec_tx_ok_b (2 ^ 32) [12; 3] false [0; 0; 0; 0; 0; 0; 0; 0; 0; 0; 0; 0; 7; 8; 9] [7; 8; 9] = true
  /\ spec_tx_ok_b (2 ^ 32) [10; 3] false [0; 0; 0; 0; 0; 0; 0; 0; 0; 0; 7; 8; 9] [7; 8; 9] = false
  /\ spec_tx_ok_b 0 [12; 3] false [0; 0; 0; 0; 0; 0; 0; 0; 0; 0; 0; 0; 7; 8; 9] [7; 8; 9] = false.
Proof. repeat split; vm_compute; reflexivity. Qed.

Example rx_roundtrip_example :
  rx_packet false ([1; 0; 0; 0; 0; 0; 0; 0; 0; 0; 1; 0] ++ [9; 8; 7] ++ [0; 0; 0]) (15 - 12) = Ok [9; 8; 7]
  /\ spec_rx_ok_b (2 ^ 32) 15 ([1; 0; 0; 0; 0; 0; 0; 0; 0; 0; 1; 0] ++ [9; 8; 7]) 12 3 [9; 8; 7] = true
  /\ spec_rx_ok_b (2 ^ 32) 15 ([1; 0; 0; 0; 0; 0; 0; 0; 0; 0; 1; 0] ++ [9; 8; 7]) 10 5 [0; 0; 9; 8; 7] = false.
Proof. repeat split; vm_compute; reflexivity. Qed.

(* a whole history on the real model: new on a 4-entry queue, the device completes token 2 (out of
   order) with 12 + 5 bytes, the driver receives it, the caller recycles it, a frame is sent *)
Example vnet_history_nonvacuous :
  exists v0 e0 b v1 e1 v2 e2 v3 e3,
    vnet_new (2 ^ 32) (2 ^ 2) 1528 [] = (Ok tt, v0, e0)
    /\ vnet_receive v0 1 2 17 = (Ok b, v1, e1) /\ rb_plen b = 5 /\ rb_idx b = 2 /\ rb_id b = 2
    /\ v_slots v1 = [Some (mkRx 0 1528 0 0); Some (mkRx 1 1528 0 1); None; Some (mkRx 3 1528 0 3)]
    /\ vnet_recycle v1 b 7777 0 0 = (Ok tt, v2, e2)
    /\ vnet_send v2 100 8888 (mkBuf 101 60 9999) 0 0 0 1 0 0 = (Ok tt, v3, e3)
    /\ VReach 1528 v1 [b] /\ VReach 1528 v3 [].
Proof.
  do 9 eexists.
  split; [vm_compute; reflexivity|].
  split; [vm_compute; reflexivity|].
  split; [reflexivity|]. split; [reflexivity|]. split; [reflexivity|]. split; [reflexivity|].
  split; [vm_compute; reflexivity|].
  split; [vm_compute; reflexivity|].
  assert (H0 : VReach 1528 (snd (fst (vnet_new (2 ^ 32) (2 ^ 2) 1528 []))) []).
  { eapply (VR_new 1528 2 (2 ^ 32) 1528 []); [discriminate|reflexivity|discriminate|reflexivity|].
    vm_compute. reflexivity. }
  assert (H1 : VReach 1528 (snd (fst (vnet_receive (snd (fst (vnet_new (2 ^ 32) (2 ^ 2) 1528 []))) 1 2 17)))
                      [mkRx 2 1528 5 2]).
  { eapply (VR_receive 1528 _ [] 1 2 17 (Ok (mkRx 2 1528 5 2))) in H0;
      [exact H0|vm_compute; reflexivity|vm_compute; reflexivity|vm_compute; discriminate]. }
  split; [exact H1|].
  eapply (VR_recycle 1528 _ [] (mkRx 2 1528 5 2) [] 7777 0 0 (Ok tt)) in H1; [|vm_compute; reflexivity].
  eapply (VR_send 1528 _ [] 100 8888 (mkBuf 101 60 9999) 0 0 0 1 0 0 (Ok tt)) in H1; [|vm_compute; reflexivity].
  exact H1.
Qed.

Example vnet_new_refused_example :
  fst (fst (vnet_new (2 ^ 32) 4 1527 [])) = Err EInvalidParam /\ fst (fst (vnet_new (2 ^ 32) 4 1528 [])) = Ok tt.
Proof. split; vm_compute; reflexivity. Qed.

(* send on a fresh raw driver: the hypotheses of net_send_spec are satisfiable, both branches *)
Example net_send_nonvacuous :
  let s := raw_new (2 ^ 32) 4 in
  Reach (n_tx s) [] [] /\ q_last_used (n_tx s) <> w16 1
  /\ fst (fst (net_send s 100 8888 (mkBuf 101 60 9999) 0 0 0 1 0 0)) = Ok tt
  /\ fst (fst (net_send s 100 8888 (mkBuf 101 0 0) 0 0 0 1 0 0)) = Ok tt
  /\ fst (fst (net_send s 100 8888 (mkBuf 101 60 9999) 0 0 0 1 3 0)) = Err EWrongToken.
Proof.
  cbv zeta. split.
  { change (n_tx (raw_new (2 ^ 32) 4)) with (qset_indices (qnew (2 ^ 2) false false) 0).
    apply R_new; [discriminate|reflexivity]. }
  split; [vm_compute; discriminate|]. repeat split; vm_compute; reflexivity.
Qed.

(* OBSERVATION (not claimed as a violation, see the report): receive_wait with another receive
   outstanding.  Buffer 1 is posted with receive_begin (token 0), buffer 2 with receive_wait (token 1);
   the device completes token 0 first: receive_wait returns WrongToken although buffer 2 is still posted
   (descriptor 1 is still in use). *)
Example receive_wait_other_completion_first :
  let s0 := raw_new (2 ^ 32) 4 in
  exists s1 e1 s2 e2,
    receive_begin s0 (mkBuf 1 2048 4096) 0 0 = (Ok 0, s1, e1)
    /\ receive_wait s1 (mkBuf 2 2048 8192) 0 0 1 0 100 = (Err EWrongToken, s2, e2)
    /\ q_num_used (n_rx s2) = 2.
Proof. cbv zeta. do 4 eexists. split; [vm_compute; reflexivity|]. split; vm_compute; reflexivity. Qed.
