(* The alloc-less build of src/queue.rs (Model/QueueNoAlloc.v) against the model of the default build   *)
(* (Model/Queue.v): every alloc-less operation IS the corresponding operation of Model/Queue.v on a    *)
(* state whose `q_indirect` is false - for ALL states and inputs, nothing assumed about reachability -  *)
(* so every theorem of C01-C05 / C07 about `Reach` states carries over (section "transfer").            *)
From VD Require Import Base.Words Base.ListUpd Model.Queue Model.QueueNoAlloc Proofs.QueueInv Proofs.QueueReach Proofs.QueueProps.
From Coq Require Import ZArith Lia ZifyBool ZifyN Permutation.
Ltac Zify.zify_post_hook ::= Z.div_mod_to_equations.

(* ------------------------------------------------------------------------------------------ *)
(* 1. operation by operation, all states, all inputs                                            *)

(* VirtQueue::new ignores its `indirect` argument *)
Theorem na_new_eq size ind ev : na_new size ind ev = qnew size false ev.
Proof. reflexivity. Qed.

Theorem na_new_ignores_request size ev : na_new size true ev = na_new size false ev.
Proof. reflexivity. Qed.

(* the one-clause capacity test `num_used + needed > SIZE` against the three-clause one of the default
   build, indirect off: equivalent for every state as soon as one buffer is offered ... *)
Theorem na_capacity_equiv s n :
  q_indirect s = false -> 1 <= n -> na_capacity_ok s n = capacity_ok s n.
Proof.
  intros Hi Hn. unfold na_capacity_ok, capacity_ok. rewrite Hi. cbn [negb andb].
  destruct (N.ltb_spec (q_size s) (q_num_used s + n)) as [H|H];
    destruct (N.ltb_spec (q_size s) (q_num_used s + 1)) as [H1|H1];
    destruct (N.ltb_spec (q_size s) n) as [H2|H2]; cbn [orb negb]; try reflexivity; lia.
Qed.

(* ... and NOT for the empty submission on a full queue, which both builds refuse earlier *)
Example na_capacity_differs_at_zero :
  let s := mkQ 4 false false 4 0 0 0 [] [] [] 0 0 0 [] in
  na_capacity_ok s 0 = true /\ capacity_ok s 0 = false
  /\ na_add s [] [] = (Err EInvalidParam, s, []) /\ add s [] [] 0 = (Err EInvalidParam, s, []).
Proof. vm_compute. repeat split; reflexivity. Qed.

Theorem na_add_eq s ins outs taddr :
  q_indirect s = false -> na_add s ins outs = add s ins outs taddr.
Proof.
  intros Hi. unfold na_add, add.
  destruct (N.eqb_spec (lenN (tag_bufs ins outs)) 0) as [E0|E0]; [reflexivity|].
  rewrite na_capacity_equiv by (auto; lia).
  destruct (negb (capacity_ok s (lenN (tag_bufs ins outs)))); [reflexivity|].
  rewrite Hi. cbn [andb]. reflexivity.
Qed.

Theorem na_available_desc_eq s : q_indirect s = false -> na_available_desc s = available_desc s.
Proof. intros Hi. unfold na_available_desc, available_desc. now rewrite Hi. Qed.

(* recycle_descriptors: the compiled-out branch is the only difference; it is guarded by the INDIRECT
   flag of the head's SHADOW descriptor *)
Definition head_not_indirect (s : qstate) (head : N) : Prop :=
  forall hd, nthN_error (q_shadow s) head = Some hd -> has_flag (d_flags hd) F_INDIRECT = false.

Theorem na_recycle_eq s head bufs :
  head_not_indirect s head -> na_recycle s head bufs = recycle s head bufs.
Proof.
  intros Hh. unfold na_recycle, recycle. destruct (nthN_error (q_shadow s) head) as [hd|] eqn:E; [|reflexivity].
  rewrite (Hh hd E). reflexivity.
Qed.

Theorem na_pop_used_eq s token ins outs u_idx u_id u_len :
  head_not_indirect s (w16 u_id) ->
  na_pop_used s token ins outs u_idx u_id u_len = pop_used s token ins outs u_idx u_id u_len.
Proof.
  intros Hh. unfold na_pop_used, pop_used.
  destruct (negb (can_pop s u_idx)); [reflexivity|].
  destruct (negb (w16 u_id =? token)); [reflexivity|].
  now rewrite na_recycle_eq.
Qed.

(* where the two builds DO differ: a head whose shadow descriptor carries INDIRECT (no alloc-less operation
   ever writes one, see below): the default build frees the table, the alloc-less build does nothing *)
Example na_recycle_differs_on_indirect_head :
  let s := mkQ 2 false false 1 1 0 0 [mkDesc 9 32 F_INDIRECT 1; zero_desc] [None; None]
               [mkDesc 9 32 F_INDIRECT 1; zero_desc] 0 0 0 [0; 0] in
  fst (fst (na_recycle s 0 [])) = Ok tt /\ fst (fst (recycle s 0 [])) = Panic.
Proof. vm_compute. split; reflexivity. Qed.

(* ------------------------------------------------------------------------------------------ *)
(* 2. no alloc-less operation reads the two fields the struct does not have                     *)
Definition with_ind (s : qstate) (b : bool) (l : list (option (list desc))) : qstate :=
  mkQ (q_size s) b (q_event_idx s) (q_num_used s) (q_free_head s) (q_avail_idx s) (q_last_used s)
      (q_shadow s) l (q_dtable s) (q_aflags s) (q_aidx s) (q_uevent s) (q_aring s).

Theorem na_add_ignores_ind s b l ins outs :
  let '(o, s', evs) := na_add s ins outs in
  na_add (with_ind s b l) ins outs = (o, with_ind s' b l, evs).
Proof.
  unfold na_add. destruct (lenN (tag_bufs ins outs) =? 0); [reflexivity|].
  change (na_capacity_ok (with_ind s b l) (lenN (tag_bufs ins outs))) with (na_capacity_ok s (lenN (tag_bufs ins outs))).
  destruct (negb (na_capacity_ok s (lenN (tag_bufs ins outs)))); [reflexivity|].
  unfold add_direct. cbn [with_ind q_shadow q_dtable q_free_head q_num_used q_ind].
  destruct (add_direct_loop (tag_bufs ins outs) (q_shadow s) (q_dtable s) (q_free_head s) (q_free_head s)) as [[[[[sh dt] fh] last]|e| |] evs];
    try reflexivity.
  destruct (nthN_error sh last); reflexivity.
Qed.

Theorem na_available_desc_ignores_ind s b l : na_available_desc (with_ind s b l) = na_available_desc s.
Proof. reflexivity. Qed.

Theorem na_pop_used_ignores_ind s b l token ins outs u_idx u_id u_len :
  let '(o, s', evs) := na_pop_used s token ins outs u_idx u_id u_len in
  na_pop_used (with_ind s b l) token ins outs u_idx u_id u_len = (o, with_ind s' b l, evs).
Proof.
  unfold na_pop_used. change (can_pop (with_ind s b l) u_idx) with (can_pop s u_idx).
  destruct (negb (can_pop s u_idx)); [reflexivity|].
  destruct (negb (w16 u_id =? token)); [reflexivity|].
  unfold na_recycle. cbn [with_ind q_shadow q_dtable q_free_head q_num_used q_ind].
  destruct (nthN_error (q_shadow s) (w16 u_id)) as [hd|]; [|reflexivity].
  destruct (has_flag (d_flags hd) F_INDIRECT).
  - cbn [set_core q_event_idx q_last_used with_ind]. destruct (q_event_idx s); reflexivity.
  - destruct (recycle_loop (tag_bufs ins outs) (q_shadow s) (q_dtable s) (Some (w16 u_id)) (q_free_head s) (q_num_used s))
      as [[[[sh dt] nu]|e| |] evs]; try reflexivity.
    cbn [set_core q_event_idx q_last_used with_ind]. destruct (q_event_idx s); reflexivity.
Qed.

(* ------------------------------------------------------------------------------------------ *)
(* 3. no INDIRECT descriptor is ever written (shadow table and device-visible table), no table *)
(*    is ever shared - preserved by every alloc-less operation from ANY state that satisfies it *)
Definition NoInd (t : list desc) : Prop := Forall (fun d => has_flag (d_flags d) F_INDIRECT = false) t.
Definition NoIndState (s : qstate) : Prop := NoInd (q_shadow s) /\ NoInd (q_dtable s).
Definition no_table_evs (evs : list qev) : Prop := Forall (fun e => is_table_ev e = false) evs.

Lemma NoInd_upd t i d : NoInd t -> has_flag (d_flags d) F_INDIRECT = false -> NoInd (updN t i d).
Proof.
  unfold NoInd, updN. generalize (N.to_nat i) as k. induction t as [|x t IH]; intros k Ht Hd; [constructor|].
  inversion Ht; subst. destruct k; cbn [upd]; constructor; auto.
Qed.

Lemma NoInd_nth t i d : NoInd t -> nthN_error t i = Some d -> has_flag (d_flags d) F_INDIRECT = false.
Proof.
  unfold NoInd, nthN_error. intros Ht Hn. apply nth_error_In in Hn. rewrite Forall_forall in Ht. now apply Ht.
Qed.

Lemma NoInd_b t : NoInd t <-> no_indirect_b t = true.
Proof.
  unfold NoInd, no_indirect_b. rewrite forallb_forall, Forall_forall.
  split; intros H x Hx; specialize (H x Hx); destruct (has_flag (d_flags x) F_INDIRECT); auto; discriminate.
Qed.

Lemma NoInd_init : forall k i, NoInd (init_table i k).
Proof.
  induction k as [|k IH]; intros i; [constructor|].
  destruct k as [|k]; [repeat constructor|].
  change (init_table i (S (S k))) with (mkDesc 0 0 0 (i + 1) :: init_table (i + 1) (S k)).
  constructor; [reflexivity|apply IH].
Qed.

Lemma na_new_noind size ind ev : NoIndState (na_new size ind ev).
Proof. split; apply NoInd_init. Qed.

Lemma qset_indices_noind s v : NoIndState s -> NoIndState (qset_indices s v).
Proof. intros H; exact H. Qed.

Lemma set_dev_notify_noind s en : NoIndState s -> NoIndState (fst (set_dev_notify s en)).
Proof. intros H. unfold set_dev_notify. destruct (q_event_idx s); exact H. Qed.

Lemma flag_buf_noind w : has_flag (F_NEXT + wflag w) F_INDIRECT = false.
Proof. destruct w; reflexivity. Qed.

Lemma land_ldiff_next_ind f : N.land (N.ldiff f F_NEXT) F_INDIRECT = N.land f F_INDIRECT.
Proof.
  apply N.bits_inj. intros n. rewrite !N.land_spec, N.ldiff_spec.
  destruct n as [|p]; [cbn; now rewrite !andb_false_r|].
  change (N.testbit F_NEXT (N.pos p)) with false. cbn [negb]. now rewrite andb_true_r.
Qed.

Lemma clear_next_noind d : has_flag (d_flags (clear_next d)) F_INDIRECT = has_flag (d_flags d) F_INDIRECT.
Proof. unfold clear_next, has_flag. cbn [d_flags]. now rewrite land_ldiff_next_ind. Qed.

Lemma add_direct_loop_noind : forall bufs sh dt fh last o evs,
  NoInd sh -> NoInd dt ->
  add_direct_loop bufs sh dt fh last = (o, evs) ->
  no_table_evs evs
  /\ match o with Ok (sh', dt', _, _) => NoInd sh' /\ NoInd dt' | _ => True end.
Proof.
  induction bufs as [|[b w] rest IH]; intros sh dt fh last o evs Hs Hd H; cbn [add_direct_loop] in H.
  - inversion H; subst. split; [constructor|auto].
  - destruct (b_len b =? 0); [inversion H; subst; split; [constructor|exact I]|].
    destruct (nthN_error sh fh) as [d|]; [|inversion H; subst; split; [constructor|exact I]].
    destruct (two32 <=? b_len b); [inversion H; subst; split; [repeat constructor|exact I]|].
    set (d' := mkDesc (b_addr b) (b_len b) (F_NEXT + wflag w) (d_next d)) in *.
    destruct (add_direct_loop rest (updN sh fh d') (updN dt fh d') (d_next d) fh) as [o' evs'] eqn:E.
    inversion H; subst o evs. clear H.
    assert (Hf : has_flag (d_flags d') F_INDIRECT = false) by apply flag_buf_noind.
    destruct (IH _ _ _ _ _ _ (NoInd_upd _ fh _ Hs Hf) (NoInd_upd _ fh _ Hd Hf) E) as [A B].
    split; [|exact B]. constructor; [reflexivity|]. constructor; [exact Hf|exact A].
Qed.

Lemma add_direct_noind s bufs o s' evs :
  NoIndState s -> add_direct s bufs = (o, s', evs) -> NoIndState s' /\ no_table_evs evs.
Proof.
  intros [Hs Hd] H. unfold add_direct in H.
  destruct (add_direct_loop bufs (q_shadow s) (q_dtable s) (q_free_head s) (q_free_head s)) as [o' evs'] eqn:E.
  destruct (add_direct_loop_noind _ _ _ _ _ _ _ Hs Hd E) as [A B].
  destruct o' as [[[[sh dt] fh] last]|e| |]; try (inversion H; subst; split; [split; assumption|exact A]).
  destruct B as [B1 B2].
  destruct (nthN_error sh last) as [dl|] eqn:El; [|inversion H; subst; split; [split; assumption|exact A]].
  inversion H; subst. clear H.
  assert (Hf : has_flag (d_flags (clear_next dl)) F_INDIRECT = false)
    by (rewrite clear_next_noind; exact (NoInd_nth _ _ _ B1 El)).
  split; [split; cbn [set_core q_shadow q_dtable]; apply NoInd_upd; assumption|].
  apply Forall_app. split; [exact A|]. constructor; [exact Hf|constructor].
Qed.

Theorem na_add_noind s ins outs o s' evs :
  NoIndState s -> na_add s ins outs = (o, s', evs) -> NoIndState s' /\ no_table_evs evs.
Proof.
  intros Hs H. unfold na_add in H.
  destruct (lenN (tag_bufs ins outs) =? 0); [inversion H; subst; split; [exact Hs|constructor]|].
  destruct (negb (na_capacity_ok s (lenN (tag_bufs ins outs)))); [inversion H; subst; split; [exact Hs|constructor]|].
  destruct (add_direct s (tag_bufs ins outs)) as [[o1 s1] evs1] eqn:E.
  destruct (add_direct_noind _ _ _ _ _ Hs E) as [A B].
  destruct o1; inversion H; subst; try (split; assumption).
  split; [exact A|]. apply Forall_app. split; [exact B|repeat constructor].
Qed.

Lemma recycle_loop_noind : forall bufs sh dt next orig nu o evs,
  NoInd sh -> NoInd dt ->
  recycle_loop bufs sh dt next orig nu = (o, evs) ->
  no_table_evs evs
  /\ match o with Ok (sh', dt', _) => NoInd sh' /\ NoInd dt' | _ => True end.
Proof.
  induction bufs as [|[b w] rest IH]; intros sh dt next orig nu o evs Hs Hd H; cbn [recycle_loop] in H.
  - destruct next; inversion H; subst; split; try constructor; auto.
  - destruct (b_len b =? 0); [inversion H; subst; split; [constructor|exact I]|].
    destruct next as [i|]; [|inversion H; subst; split; [constructor|exact I]].
    destruct (nthN_error sh i) as [d|] eqn:Ed; [|inversion H; subst; split; [constructor|exact I]].
    destruct (nu =? 0); [inversion H; subst; split; [constructor|exact I]|].
    set (nx := if has_flag (d_flags d) F_NEXT then Some (d_next d) else None) in *.
    set (d2 := match nx with None => set_next (unset_buf d) orig | Some _ => unset_buf d end) in *.
    destruct (recycle_loop rest (updN sh i d2) (updN dt i d2) nx orig (nu - 1)) as [o' evs'] eqn:E.
    inversion H; subst o evs. clear H.
    assert (Hf : has_flag (d_flags d2) F_INDIRECT = false).
    { unfold d2. destruct nx; cbn [set_next unset_buf d_flags]; exact (NoInd_nth _ _ _ Hs Ed). }
    destruct (IH _ _ _ _ _ _ _ (NoInd_upd _ i _ Hs Hf) (NoInd_upd _ i _ Hd Hf) E) as [A B].
    split; [|exact B]. constructor; [exact Hf|]. constructor; [reflexivity|exact A].
Qed.

Theorem na_pop_used_noind s token ins outs u_idx u_id u_len o s' evs :
  NoIndState s -> na_pop_used s token ins outs u_idx u_id u_len = (o, s', evs) ->
  NoIndState s' /\ no_table_evs evs.
Proof.
  intros [Hs Hd] H. unfold na_pop_used in H.
  destruct (negb (can_pop s u_idx)); [inversion H; subst; split; [split; assumption|constructor]|].
  destruct (negb (w16 u_id =? token)); [inversion H; subst; split; [split; assumption|constructor]|].
  unfold na_recycle in H.
  destruct (nthN_error (q_shadow s) (w16 u_id)) as [hd|] eqn:Eh;
    [|inversion H; subst; split; [split; assumption|constructor]].
  rewrite (NoInd_nth _ _ _ Hs Eh) in H.
  destruct (recycle_loop (tag_bufs ins outs) (q_shadow s) (q_dtable s) (Some (w16 u_id)) (q_free_head s) (q_num_used s))
    as [o' evs'] eqn:E.
  destruct (recycle_loop_noind _ _ _ _ _ _ _ _ Hs Hd E) as [A B].
  destruct o' as [[[sh dt] nu]|e| |]; try (inversion H; subst; split; [split; assumption|exact A]).
  destruct B as [B1 B2]. cbn [set_core q_event_idx q_last_used q_uevent] in H.
  destruct (q_event_idx s); inversion H; subst; (split; [split; assumption|]); [|exact A].
  apply Forall_app. split; [exact A|repeat constructor].
Qed.

(* hence the compiled-out branch of recycle_descriptors is dead code in every such state *)
Lemma NoIndState_head s head : NoIndState s -> head_not_indirect s head.
Proof. intros [Hs _] hd E. eapply NoInd_nth; eauto. Qed.

(* ------------------------------------------------------------------------------------------ *)
(* 4. reachable states of the alloc-less build, and the transfer                                *)
Inductive NaReach : qstate -> list chain -> list qev -> Prop :=
| NR_new k ind_requested ev v :
    k <= 15 -> v < two16 ->
    NaReach (qset_indices (na_new (2 ^ k) ind_requested ev) v) [] []
| NR_add s chains h ins outs o s' evs :
    NaReach s chains h ->
    bufs_ok (tag_bufs ins outs) ->
    na_add s ins outs = (o, s', evs) ->
    NaReach s' (match o with Ok _ => chains ++ [new_chain s ins outs 0] | _ => chains end) (h ++ evs)
| NR_pop s pre c post h ins outs u_idx u_id u_len o s' evs :
    NaReach s (pre ++ c :: post) h ->
    keys (tag_bufs ins outs) = keys (c_bufs c) ->
    na_pop_used s (c_head c) ins outs u_idx u_id u_len = (o, s', evs) ->
    NaReach s' (match o with Ok _ => pre ++ post | _ => pre ++ c :: post end) (h ++ evs)
| NR_notify s chains h en :
    NaReach s chains h ->
    NaReach (fst (set_dev_notify s en)) chains (h ++ snd (set_dev_notify s en)).

Lemma add_keeps_indirect s ins outs taddr o s' evs :
  add s ins outs taddr = (o, s', evs) -> q_indirect s' = q_indirect s.
Proof.
  unfold add. destruct (lenN (tag_bufs ins outs) =? 0); [intros H; inversion H; reflexivity|].
  destruct (negb (capacity_ok s (lenN (tag_bufs ins outs)))); [intros H; inversion H; reflexivity|].
  destruct (q_indirect s && (1 <? lenN (tag_bufs ins outs))).
  - unfold add_indirect. destruct (existsb _ _); [intros H; inversion H; reflexivity|].
    destruct (nthN_error (q_ind s) (q_free_head s)) as [[?|]|]; try (intros H; inversion H; reflexivity).
    destruct (nthN_error (q_shadow s) (q_free_head s)); intros H; inversion H; reflexivity.
  - unfold add_direct.
    destruct (add_direct_loop _ _ _ _ _) as [[[[[sh dt] fh] last]|e| |] evs0]; try (intros H; inversion H; reflexivity).
    destruct (nthN_error sh last); intros H; inversion H; reflexivity.
Qed.

Lemma pop_keeps_indirect s token ins outs u_idx u_id u_len o s' evs :
  pop_used s token ins outs u_idx u_id u_len = (o, s', evs) -> q_indirect s' = q_indirect s.
Proof.
  unfold pop_used. destruct (negb (can_pop s u_idx)); [intros H; inversion H; reflexivity|].
  destruct (negb (w16 u_id =? token)); [intros H; inversion H; reflexivity|].
  destruct (recycle s (w16 u_id) (tag_bufs ins outs)) as [[o1 s1] evs1] eqn:E.
  assert (Hi : q_indirect s1 = q_indirect s).
  { unfold recycle in E. destruct (nthN_error (q_shadow s) (w16 u_id)) as [hd|]; [|inversion E; reflexivity].
    destruct (has_flag (d_flags hd) F_INDIRECT).
    - destruct (nthN_error (q_ind s) (w16 u_id)) as [[tbl|]|]; try (inversion E; reflexivity).
      destruct (q_num_used s =? 0); [inversion E; reflexivity|].
      destruct (negb (lenN tbl =? lenN (tag_bufs ins outs))); [inversion E; reflexivity|].
      destruct (unshare_ind (tag_bufs ins outs) tbl). inversion E; reflexivity.
    - destruct (recycle_loop _ _ _ _ _ _) as [[[[sh dt] nu]|e| |] evs0]; inversion E; reflexivity. }
  destruct o1; try (intros H; inversion H; subst; exact Hi).
  destruct (q_event_idx s1); intros H; inversion H; subst; exact Hi.
Qed.

(* every history of the alloc-less build is a history of the default build's model with indirect off *)
Theorem NaReach_Reach s chains h :
  NaReach s chains h -> Reach s chains h /\ q_indirect s = false /\ NoIndState s /\ no_table_evs h.
Proof.
  induction 1 as [k ind ev v Hk Hv
                 | s chains h ins outs o s' evs HR (IH & Hi & Hn & Hh) Hok Hadd
                 | s pre c post h ins outs u_idx u_id u_len o s' evs HR (IH & Hi & Hn & Hh) Hkeys Hpop
                 | s chains h en HR (IH & Hi & Hn & Hh)].
  - rewrite na_new_eq. split; [now constructor|]. split; [reflexivity|]. split; [|constructor].
    apply qset_indices_noind. apply (na_new_noind (2 ^ k) ind ev).
  - destruct (na_add_noind _ _ _ _ _ _ Hn Hadd) as [Hn' He].
    rewrite (na_add_eq s ins outs 0 Hi) in Hadd.
    split; [exact (R_add _ _ _ _ _ _ _ _ _ IH Hok Hadd)|].
    split; [rewrite (add_keeps_indirect _ _ _ _ _ _ _ Hadd); exact Hi|].
    split; [exact Hn'|]. apply Forall_app. split; assumption.
  - destruct (na_pop_used_noind _ _ _ _ _ _ _ _ _ _ Hn Hpop) as [Hn' He].
    rewrite (na_pop_used_eq s (c_head c) ins outs u_idx u_id u_len (NoIndState_head _ _ Hn)) in Hpop.
    split; [exact (R_pop _ _ _ _ _ _ _ _ _ _ _ _ _ IH Hkeys Hpop)|].
    split; [rewrite (pop_keeps_indirect _ _ _ _ _ _ _ _ _ _ Hpop); exact Hi|].
    split; [exact Hn'|]. apply Forall_app. split; assumption.
  - split; [now constructor|]. split; [unfold set_dev_notify; destruct (q_event_idx s); exact Hi|].
    split; [now apply set_dev_notify_noind|]. apply Forall_app. split; [exact Hh|].
    unfold set_dev_notify. destruct (q_event_idx s); cbn [snd]; repeat constructor.
Qed.

(* a driver that negotiated RING_INDIRECT_DESC (and asked VirtQueue::new for indirect descriptors) never
   publishes an INDIRECT descriptor and never shares a table in this build: along any history, whatever was
   requested at `new`, the device-visible table holds no INDIRECT descriptor and no event concerns a table *)
Theorem na_never_indirect s chains h :
  NaReach s chains h ->
  no_indirect_b (q_dtable s) = true /\ no_indirect_b (q_shadow s) = true /\ no_table_evs h
  /\ Forall (fun c => c_tbl c = None) chains.
Proof.
  intros HR. destruct (NaReach_Reach _ _ _ HR) as (HRR & Hi & [Hs Hd] & Hh).
  split; [now apply NoInd_b|]. split; [now apply NoInd_b|]. split; [exact Hh|].
  clear HRR Hi Hs Hd Hh.
  induction HR as [k ind ev v Hk Hv
                  | s chains h ins outs o s' evs HR IH Hok Hadd
                  | s pre c post h ins outs u_idx u_id u_len o s' evs HR IH Hkeys Hpop
                  | s chains h en HR IH]; [constructor| | |exact IH].
  - destruct o; try exact IH. apply Forall_app. split; [exact IH|]. constructor; [|constructor].
    unfold new_chain. destruct (NaReach_Reach _ _ _ HR) as (_ & Hi & _). rewrite Hi. reflexivity.
  - assert (IH' : Forall (fun c0 => c_tbl c0 = None) (pre ++ post)).
    { apply Forall_app in IH. destruct IH as [A B]. inversion B; subst. apply Forall_app. split; assumption. }
    destruct o; assumption.
Qed.

(* ------------------------------------------------------------------------------------------ *)
(* 5. the headline theorems of C01 / C03 / C04, restated for the alloc-less operations          *)
Theorem na_invariant s chains h : NaReach s chains h -> Inv s chains /\ chains_ok chains.
Proof. intros HR. destruct (NaReach_Reach _ _ _ HR) as (HRR & _). exact (Reach_Inv _ _ _ HRR). Qed.

Lemma na_new_chain_direct s ins outs taddr : q_indirect s = false -> c_tbl (new_chain s ins outs taddr) = None.
Proof. intros Hi. unfold new_chain. rewrite Hi. reflexivity. Qed.

(* C01: what the device reaches from the new ring entry is exactly the caller's buffers, through the main
   table only (the memory view offers NO indirect table at any address) *)
Theorem na_add_publishes s chains h ins outs head s' evs :
  NaReach s chains h -> bufs_ok (tag_bufs ins outs) ->
  na_add s ins outs = (Ok head, s', evs) ->
  let c := new_chain s ins outs 0 in
  head = q_free_head s /\ c_head c = head /\ c_bufs c = tag_bufs ins outs /\ c_tbl c = None
  /\ walk (q_dtable s') (fun _ => None) head (N.to_nat (q_size s')) = Some (elems (tag_bufs ins outs))
  /\ readable_first (elems (tag_bufs ins outs)) = true
  /\ q_aring s' = updN (q_aring s) (q_avail_idx s mod q_size s) head
  /\ q_avail_idx s' = w16 (q_avail_idx s + 1) /\ q_aidx s' = q_avail_idx s'
  /\ (forall j, ~ In j (c_idxs c) -> nthN_error (q_dtable s') j = nthN_error (q_dtable s) j)
  /\ (forall j, In j (c_idxs c) -> ~ In j (all_idxs chains))
  /\ no_table_evs evs /\ no_indirect_b (q_dtable s') = true
  /\ NaReach s' (chains ++ [c]) (h ++ evs).
Proof.
  intros HR Hok Hadd c.
  destruct (NaReach_Reach _ _ _ HR) as (HRR & Hi & Hn & _).
  pose proof (NR_add _ _ _ _ _ _ _ _ HR Hok Hadd) as HR'. cbn iota in HR'. fold c in HR'.
  destruct (na_add_noind _ _ _ _ _ _ Hn Hadd) as [[_ Hd'] He].
  rewrite (na_add_eq s ins outs 0 Hi) in Hadd.
  assert (Ht : c_tbl c = None) by (apply na_new_chain_direct; exact Hi).
  destruct (add_publishes s chains h ins outs 0 head s' evs (fun _ => None) HRR Hok Hadd)
    as (A1 & A2 & A3 & A4 & A5 & A6 & A7 & A8 & _ & A10 & A11 & _).
  { fold c. rewrite Ht. intros ta tbl E. discriminate. }
  fold c in A2, A3, A10, A11.
  repeat (split; [assumption|]). split; [now apply NoInd_b|]. exact HR'.
Qed.

(* C03: the three outcomes of add, with the capacity clause as it is written in this build *)
Theorem na_add_refusals s chains h ins outs :
  NaReach s chains h -> bufs_ok (tag_bufs ins outs) ->
  (tag_bufs ins outs = [] -> na_add s ins outs = (Err EInvalidParam, s, []))
  /\ (tag_bufs ins outs <> [] -> q_size s < q_num_used s + lenN (tag_bufs ins outs) ->
      na_add s ins outs = (Err EQueueFull, s, []))
  /\ (tag_bufs ins outs <> [] -> q_num_used s + lenN (tag_bufs ins outs) <= q_size s ->
      exists s' evs, na_add s ins outs = (Ok (q_free_head s), s', evs)
                     /\ lenN (shares_of evs) = lenN (tag_bufs ins outs) /\ unshares_of evs = []).
Proof.
  intros HR Hok. destruct (NaReach_Reach _ _ _ HR) as (HRR & Hi & _).
  destruct (Reach_Inv _ _ _ HRR) as [HI _].
  rewrite (na_add_eq s ins outs 0 Hi).
  destruct (add_refusals s chains h ins outs 0 HRR Hok) as (R1 & R2 & _).
  split; [exact R1|]. split.
  - intros Hne Hlt. apply R2; [exact Hne|].
    assert (Hn1 : 1 <= lenN (tag_bufs ins outs)).
    { destruct (tag_bufs ins outs); [congruence|]. rewrite lenN_cons. lia. }
    rewrite <- (na_capacity_equiv s _ Hi Hn1). unfold na_capacity_ok.
    destruct (N.ltb_spec (q_size s) (q_num_used s + lenN (tag_bufs ins outs))); [reflexivity|lia].
  - intros Hne Hle.
    assert (Hn1 : 1 <= lenN (tag_bufs ins outs)).
    { destruct (tag_bufs ins outs); [congruence|]. rewrite lenN_cons. lia. }
    assert (Hcap : capacity_ok s (lenN (tag_bufs ins outs)) = true).
    { rewrite <- (na_capacity_equiv s _ Hi Hn1). unfold na_capacity_ok.
      destruct (N.ltb_spec (q_size s) (q_num_used s + lenN (tag_bufs ins outs))); [lia|reflexivity]. }
    destruct (add_ok s chains ins outs 0 HI Hne Hok Hcap)
      as (s1 & evs1 & c1 & Hrun & _ & _ & Hcb & _ & _ & _ & _ & _ & _ & _ & _ & _ & _ & _ & evs0 & Hevs & _ & Hc1 & Hsh & Hun).
    exists s1, evs1. split; [exact Hrun|]. subst evs1.
    rewrite shares_of_app, unshares_of_app, Hsh, Hun.
    cbn [shares_of unshares_of flat_map app]. rewrite !app_nil_r. split; [|reflexivity].
    unfold chain_shares. rewrite Hc1, (na_new_chain_direct s ins outs 0 Hi), app_nil_r.
    rewrite <- Hc1, Hcb. unfold buf_shares. now rewrite lenN_map.
Qed.

(* the boolean form evaluated by monitor 151 on the implementation is true of the model *)
Definition oclass {A} (o : outcome A) : N := match o with Ok _ => 0 | Err _ => 1 | Panic => 2 | UB => 3 end.
Definition ocode {A} (o : outcome A) : N := match o with Err e => e | _ => 0 end.

Theorem na_refusal_spec_holds s chains h ins outs o s' evs :
  NaReach s chains h -> bufs_ok (tag_bufs ins outs) -> na_add s ins outs = (o, s', evs) ->
  na_refusal_spec (q_size s) (lenN (all_idxs chains)) (lenN (tag_bufs ins outs)) (oclass o) (ocode o)
                  (lenN (shares_of evs)) = true
  /\ (oclass o = 1 -> s' = s /\ evs = []).
Proof.
  intros HR Hok Hadd.
  destruct (na_add_refusals s chains h ins outs HR Hok) as (R1 & R2 & R3).
  destruct (NaReach_Reach _ _ _ HR) as (HRR & _).
  destruct (chains_disjoint _ _ _ HRR) as (_ & _ & Hnu & _).
  unfold na_refusal_spec. rewrite <- Hnu.
  destruct (tag_bufs ins outs) as [|bw l] eqn:E.
  - rewrite (R1 eq_refl) in Hadd. inversion Hadd; subst. split; [reflexivity|auto].
  - rewrite <- E in *. assert (Hne : tag_bufs ins outs <> []) by (rewrite E; discriminate).
    assert (Hn0 : lenN (tag_bufs ins outs) =? 0 = false).
    { apply N.eqb_neq. rewrite E, lenN_cons. lia. }
    rewrite Hn0.
    destruct (N.leb_spec (q_num_used s + lenN (tag_bufs ins outs)) (q_size s)) as [Hle|Hlt].
    + destruct (R3 Hne Hle) as (s1 & e1 & Hrun & Hsh & _). rewrite Hrun in Hadd. inversion Hadd; subst.
      cbn [oclass ocode]. rewrite Hsh, !N.eqb_refl. split; [reflexivity|intros X; discriminate X].
    + rewrite (R2 Hne Hlt) in Hadd. inversion Hadd; subst. split; [reflexivity|auto].
Qed.

(* C03: the free count is exact; with no table ever in use, a chain holds one descriptor per buffer *)
Lemma direct_chains_count sh dt ind chains :
  Forall (chain_ok sh dt ind) chains -> Forall (fun c => c_tbl c = None) chains ->
  lenN (all_idxs chains) = lenN (concat (map c_bufs chains)).
Proof.
  induction chains as [|c chains IH]; intros Hc Ht; [reflexivity|].
  inversion Hc as [|? ? Hc0 Hc']; subst. inversion Ht as [|? ? Ht0 Ht']; subst.
  unfold all_idxs in *. cbn [map concat]. rewrite !lenN_app, (IH Hc' Ht').
  unfold chain_ok in Hc0. rewrite Ht0 in Hc0. destruct Hc0 as (Hd & _).
  destruct (dchain_length _ _ _ Hd) as [Hl _]. unfold lenN. now rewrite Hl.
Qed.

Theorem na_counts_exact s chains h :
  NaReach s chains h ->
  q_num_used s = lenN (all_idxs chains) /\ q_num_used s <= q_size s
  /\ na_available_desc s = q_size s - lenN (all_idxs chains)
  /\ lenN (all_idxs chains) = lenN (concat (map c_bufs chains))
  /\ na_available_desc s = available_desc s.
Proof.
  intros HR. destruct (NaReach_Reach _ _ _ HR) as (HRR & Hi & _).
  destruct (counts_exact _ _ _ HRR) as (A & B & _).
  destruct (na_never_indirect _ _ _ HR) as (_ & _ & _ & Ht).
  destruct (Reach_Inv _ _ _ HRR) as [(fl & _ & _ & _ & _ & _ & Hch & _) _].
  split; [exact A|]. split; [exact B|]. split; [unfold na_available_desc; now rewrite A|].
  split; [eapply direct_chains_count; eauto|]. now apply na_available_desc_eq.
Qed.

(* C03: consumption, for EVERY used-ring content *)
Theorem na_pop_refines s pre c post h ins outs u_idx u_id u_len :
  NaReach s (pre ++ c :: post) h -> keys (tag_bufs ins outs) = keys (c_bufs c) ->
  (q_last_used s = w16 u_idx ->
     na_pop_used s (c_head c) ins outs u_idx u_id u_len = (Err ENotReady, s, [])
     /\ can_pop s u_idx = false /\ peek_used s u_idx u_id = None)
  /\ (q_last_used s <> w16 u_idx -> w16 u_id <> c_head c ->
     na_pop_used s (c_head c) ins outs u_idx u_id u_len = (Err EWrongToken, s, [])
     /\ peek_used s u_idx u_id = Some (w16 u_id))
  /\ (q_last_used s <> w16 u_idx -> w16 u_id = c_head c ->
     exists s' evs,
       na_pop_used s (c_head c) ins outs u_idx u_id u_len = (Ok (w32 u_len), s', evs)
       /\ NaReach s' (pre ++ post) (h ++ evs)
       /\ q_last_used s' = w16 (q_last_used s + 1)
       /\ q_free_head s' = c_head c
       /\ q_num_used s' = q_num_used s - lenN (c_bufs c)
       /\ q_avail_idx s' = q_avail_idx s /\ q_aidx s' = q_aidx s /\ q_aring s' = q_aring s
       /\ q_aflags s' = q_aflags s
       /\ q_uevent s' = (if q_event_idx s then w16 (q_last_used s + 1) else q_uevent s)
       /\ (forall j, ~ In j (c_idxs c) -> nthN_error (q_dtable s') j = nthN_error (q_dtable s) j)
       /\ evs = recycle_evs (c_idxs c) (c_bufs c) (tag_bufs ins outs) (q_free_head s)
                 ++ (if q_event_idx s then [QStoreUsedEvent (w16 (q_last_used s + 1))] else [])).
Proof.
  intros HR Hkeys. destruct (NaReach_Reach _ _ _ HR) as (HRR & Hi & Hn & _).
  destruct (pop_refines s pre c post h ins outs u_idx u_id u_len HRR Hkeys) as (P1 & P2 & P3).
  assert (Heq := na_pop_used_eq s (c_head c) ins outs u_idx u_id u_len (NoIndState_head _ _ Hn)).
  split; [intros E; rewrite Heq; now apply P1|]. split; [intros E1 E2; rewrite Heq; now apply P2|].
  intros E1 E2. destruct (P3 E1 E2) as (s1 & evs1 & E & _ & A1 & A2 & A3 & A4 & A5 & A6 & A7 & _ & _ & _ & A11 & A12 & A13).
  exists s1, evs1. rewrite Heq. split; [exact E|].
  assert (Hpop : na_pop_used s (c_head c) ins outs u_idx u_id u_len = (Ok (w32 u_len), s1, evs1)) by (rewrite Heq; exact E).
  pose proof (NR_pop _ _ _ _ _ _ _ _ _ _ _ _ _ HR Hkeys Hpop) as HR'. cbn iota in HR'.
  destruct (na_never_indirect _ _ _ HR) as (_ & _ & _ & Ht).
  assert (Htc : c_tbl c = None).
  { rewrite Forall_forall in Ht. apply Ht. apply in_or_app. right. now left. }
  assert (Hlen : lenN (c_idxs c) = lenN (c_bufs c)).
  { destruct (Reach_Inv _ _ _ HRR) as [(fl & _ & _ & _ & _ & _ & Hch & _) _].
    rewrite Forall_forall in Hch. specialize (Hch c ltac:(apply in_or_app; right; now left)).
    unfold chain_ok in Hch. rewrite Htc in Hch. destruct Hch as (Hd & _).
    destruct (dchain_length _ _ _ Hd) as [Hl _]. unfold lenN. now rewrite Hl. }
  split; [exact HR'|]. split; [exact A1|]. split; [exact A2|]. split; [rewrite <- Hlen; exact A3|].
  split; [exact A4|]. split; [exact A5|]. split; [exact A6|]. split; [exact A7|]. split; [exact A11|].
  split; [exact A12|]. rewrite A13. unfold pop_evs. rewrite Htc. reflexivity.
Qed.

(* C04: the ledger; and nothing but caller buffers is ever shared *)
Theorem na_ledger_balanced s chains h :
  NaReach s chains h ->
  Permutation (shares_of h) (unshares_of h ++ live_shares chains)
  /\ live_shares chains = concat (map (fun c => buf_shares (c_bufs c)) chains)
  /\ no_table_evs h.
Proof.
  intros HR. destruct (NaReach_Reach _ _ _ HR) as (HRR & _ & _ & Hh).
  split; [exact (ledger_balanced _ _ _ HRR)|]. split; [|exact Hh].
  destruct (na_never_indirect _ _ _ HR) as (_ & _ & _ & Ht). clear HR HRR Hh.
  unfold live_shares. induction chains as [|c chains IH]; [reflexivity|].
  inversion Ht as [|? ? Ht0 Ht']; subst. cbn [map concat].
  unfold chain_shares at 1. rewrite Ht0, app_nil_r. f_equal.
  apply IH; auto.
Qed.
