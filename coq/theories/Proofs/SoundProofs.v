(* C20, sound driver: Model/Sound.v (the driver on top of the virtqueue model) against Model/SoundSpec.v   *)
(* (structures, codes and rules of VirtIO 1.2 section 5.14).                                              *)
(*  1. codec: every request structure decodes, with the specification's decoder, to the caller's          *)
(*     parameters; every response structure encoded per the specification is read back field by field.    *)
(*  2. one control request on the idle control queue: what the device obtains, for every device behaviour. *)
(*  3. the control operations: request contents, response checking for every response value, effects.    *)
(*  4. the state rule (parameters before transfer) and the invariant of the stored parameters.            *)
(*  5. pcm_xfer: the loop invariant; in-order completion, every timing.                                   *)
(*  6. pcm_xfer_nb / pcm_xfer_ok: any number outstanding, every completion order.                         *)
(* Built on Proofs/QueueProps (add_publishes, pop_refines, counts_exact, Reach_Inv) and on the Hal memory  *)
(* lemmas of Proofs/BlkProofs (add_world).                                                                *)
From VD Require Import Base.Words Base.ListUpd Model.Queue Model.Blk Model.BlkSpec Model.SoundSpec Model.Sound
  Proofs.QueueInv Proofs.QueueReach Proofs.QueueProps Proofs.BlkProofs.
From Coq Require Import ZArith Lia ZifyBool ZifyN Permutation.
Ltac Zify.zify_post_hook ::= Z.div_mod_to_equations.

(* ======================================================================================================= *)
(* 1. codec                                                                                                *)
Lemma sle_le_val bs : sle bs = le_val bs.
Proof. induction bs as [|b t IH]; [reflexivity|]. cbn [sle le_val]. now rewrite IH. Qed.
Lemma spec_le_le_bytes n x : spec_le n x = le_bytes n x.
Proof. revert x. induction n as [|n IH]; intros x; [reflexivity|]. cbn [spec_le le_bytes]. now rewrite IH. Qed.

(* fields of concatenations of little-endian blocks, without unfolding the blocks *)
Lemma rd_fld bs off n : rd bs off n = fld bs off n.
Proof. unfold rd, fld. symmetry. apply sle_le_val. Qed.

Lemma firstn_app_all {A} (a b : list A) n : length a = n -> firstn n (a ++ b) = a.
Proof. intros <-. rewrite firstn_app, Nat.sub_diag, firstn_all. cbn [firstn]. apply app_nil_r. Qed.
Lemma skipn_app_all {A} (a b : list A) n : length a = n -> skipn n (a ++ b) = b.
Proof. intros <-. rewrite skipn_app, Nat.sub_diag, skipn_all. reflexivity. Qed.
Lemma skipn_app_more {A} (a b : list A) off : skipn (length a + off) (a ++ b) = skipn off b.
Proof. induction a as [|x a IH]; [reflexivity|exact IH]. Qed.

Lemma fld_le_app n x r : fld (le_bytes n x ++ r) 0 n = x mod 256 ^ N.of_nat n.
Proof.
  unfold fld. cbn [skipn]. rewrite firstn_app_all by apply le_bytes_length.
  rewrite sle_le_val. apply le_val_le_bytes.
Qed.
Lemma fld_le n x : fld (le_bytes n x) 0 n = x mod 256 ^ N.of_nat n.
Proof. rewrite <- (app_nil_r (le_bytes n x)). apply fld_le_app. Qed.
Lemma fld_skip_le m y r off n k : k = (m + off)%nat -> fld (le_bytes m y ++ r) k n = fld r off n.
Proof.
  intros ->. unfold fld. do 2 f_equal. rewrite <- (le_bytes_length m y) at 1. apply skipn_app_more.
Qed.
Lemma fld_skip_cons x (r : list N) k n : fld (x :: r) (S k) n = fld r k n.
Proof. reflexivity. Qed.
Lemma fld_cons1 x (r : list N) : fld (x :: r) 0 1 = x.
Proof. unfold fld. cbn [skipn firstn sle]. lia. Qed.

Ltac fld_steps :=
  repeat match goal with
  | |- context [fld (le_bytes ?m ?y ++ ?r) ?k ?n] =>
      lazymatch k with
      | O => fail
      | _ => let off := eval cbv in (k - m)%nat in rewrite (fld_skip_le m y r off n k eq_refl)
      end
  | |- context [fld (?x :: ?r) (S ?k) ?n] => rewrite (fld_skip_cons x r k n)
  end.
(* a field of a normalised concatenation (blocks separated by ++, right-nested) equals its value *)
Ltac fld_field :=
  fld_steps; rewrite ?fld_le_app, ?fld_le, ?fld_cons1;
  change (256 ^ N.of_nat 4) with 4294967296; change (256 ^ N.of_nat 8) with 18446744073709551616;
  change (256 ^ N.of_nat 1) with 256;
  try (apply N.mod_small; unfold two32, two64 in *; lia); try reflexivity.
Ltac field_arith :=
  unfold enc_query, enc_set_params, enc_pcm_hdr, enc_jack_remap, enc_xfer_hdr, spec_info_rsp,
    CC_RJackInfo, CC_RJackRemap, CC_RPcmInfo, CC_RPcmSetParams, CC_RPcmPrepare, CC_RPcmRelease, CC_RPcmStart, CC_RPcmStop,
    CC_RChmapInfo;
  repeat rewrite rd_fld;
  repeat match goal with |- context [spec_le ?n ?x] => change (spec_le n x) with (le_bytes n x) end;
  repeat rewrite <- app_assoc; cbn [app]; fld_field.

Lemma lenN_enc_query c s n z : lenN (enc_query c s n z) = 16.
Proof. reflexivity. Qed.
Lemma lenN_enc_pcm_hdr c s : lenN (enc_pcm_hdr c s) = 8.
Proof. reflexivity. Qed.
Lemma lenN_enc_set_params s b p f c m r : lenN (enc_set_params s b p f c m r) = 24.
Proof. reflexivity. Qed.
Lemma lenN_enc_jack_remap j a q : lenN (enc_jack_remap j a q) = 16.
Proof. reflexivity. Qed.

(* the three info queries, as the driver builds them *)
Theorem query_roundtrip code start count size :
  is_query_code code = true -> start < two32 -> count < two32 -> size < two32 ->
  spec_decode_ctl (enc_query code start count size) = Some (RqQuery code start count size).
Proof.
  intros Hc Hs Hn Hz. unfold spec_decode_ctl. rewrite lenN_enc_query.
  assert (Hc32 : code < two32).
  { unfold is_query_code, SND_R_JACK_INFO, SND_R_PCM_INFO, SND_R_CHMAP_INFO, two32 in *. lia. }
  assert (E0 : fld (enc_query code start count size) 0 4 = code) by field_arith.
  assert (E1 : fld (enc_query code start count size) 4 4 = start) by field_arith.
  assert (E2 : fld (enc_query code start count size) 8 4 = count) by field_arith.
  assert (E3 : fld (enc_query code start count size) 12 4 = size) by field_arith.
  rewrite E0, E1, E2, E3, Hc. reflexivity.
Qed.

Theorem pcm_hdr_roundtrip code sid :
  is_pcm_cmd_code code = true -> sid < two32 ->
  spec_decode_ctl (enc_pcm_hdr code sid) = Some (RqPcm code sid).
Proof.
  intros Hc Hs. unfold spec_decode_ctl. rewrite lenN_enc_pcm_hdr.
  assert (Hc32 : code < two32).
  { unfold is_pcm_cmd_code, SND_R_PCM_PREPARE, SND_R_PCM_RELEASE, SND_R_PCM_START, SND_R_PCM_STOP, two32 in *. lia. }
  assert (E0 : fld (enc_pcm_hdr code sid) 0 4 = code) by field_arith.
  assert (E1 : fld (enc_pcm_hdr code sid) 4 4 = sid) by field_arith.
  rewrite E0, E1, Hc.
  assert (Q : is_query_code code = false).
  { unfold is_pcm_cmd_code, is_query_code, SND_R_PCM_PREPARE, SND_R_PCM_RELEASE, SND_R_PCM_START, SND_R_PCM_STOP,
      SND_R_JACK_INFO, SND_R_PCM_INFO, SND_R_CHMAP_INFO in *. lia. }
  assert (Q2 : (code =? SND_R_JACK_REMAP) = false /\ (code =? SND_R_PCM_SET_PARAMS) = false).
  { unfold is_pcm_cmd_code, SND_R_PCM_PREPARE, SND_R_PCM_RELEASE, SND_R_PCM_START, SND_R_PCM_STOP,
      SND_R_JACK_REMAP, SND_R_PCM_SET_PARAMS in *. lia. }
  destruct Q2 as [Q2 Q3]. rewrite Q, Q2, Q3. reflexivity.
Qed.

Theorem set_params_roundtrip sid buffer period features channels format rate :
  sid < two32 -> buffer < two32 -> period < two32 -> features < two32 ->
  channels < 256 -> format < 256 -> rate < 256 ->
  spec_decode_ctl (enc_set_params sid buffer period features channels format rate)
  = Some (RqSetParams sid buffer period features channels format rate 0).
Proof.
  intros H1 H2 H3 H4 H5 H6 H7. unfold spec_decode_ctl. rewrite lenN_enc_set_params.
  set (b := enc_set_params sid buffer period features channels format rate).
  assert (E0 : fld b 0 4 = 257) by (subst b; field_arith).
  assert (E1 : fld b 4 4 = sid) by (subst b; field_arith).
  assert (E2 : fld b 8 4 = buffer) by (subst b; field_arith).
  assert (E3 : fld b 12 4 = period) by (subst b; field_arith).
  assert (E4 : fld b 16 4 = features) by (subst b; field_arith).
  assert (E5 : fld b 20 1 = channels) by (subst b; field_arith).
  assert (E6 : fld b 21 1 = format) by (subst b; field_arith).
  assert (E7 : fld b 22 1 = rate) by (subst b; field_arith).
  assert (E8 : fld b 23 1 = 0) by (subst b; field_arith).
  rewrite E0, E1, E2, E3, E4, E5, E6, E7, E8. reflexivity.
Qed.

Theorem jack_remap_roundtrip jack association sequence :
  jack < two32 -> association < two32 -> sequence < two32 ->
  spec_decode_ctl (enc_jack_remap jack association sequence) = Some (RqJackRemap jack association sequence).
Proof.
  intros H1 H2 H3. unfold spec_decode_ctl. rewrite lenN_enc_jack_remap.
  set (b := enc_jack_remap jack association sequence).
  assert (E0 : fld b 0 4 = 2) by (subst b; field_arith).
  assert (E1 : fld b 4 4 = jack) by (subst b; field_arith).
  assert (E2 : fld b 8 4 = association) by (subst b; field_arith).
  assert (E3 : fld b 12 4 = sequence) by (subst b; field_arith).
  rewrite E0, E1, E2, E3. reflexivity.
Qed.

(* the TX header: 4 little-endian bytes of the stream id in front of the data *)
Theorem xfer_hdr_roundtrip sid data :
  sid < two32 ->
  spec_decode_tx (enc_xfer_hdr sid ++ data) 8 = Some (sid, data).
Proof.
  intros H. unfold spec_decode_tx.
  assert (L : lenN (enc_xfer_hdr sid ++ data) = 4 + lenN data).
  { rewrite lenN_app. reflexivity. }
  rewrite L. destruct (N.leb_spec 4 (4 + lenN data)); [|lia]. cbn [andb N.eqb Pos.eqb].
  assert (E : fld (enc_xfer_hdr sid ++ data) 0 4 = sid) by field_arith.
  rewrite E. reflexivity.
Qed.

(* the request codes the driver uses are the specification's *)
Theorem codes_match :
  CC_RJackInfo = SND_R_JACK_INFO /\ CC_RJackRemap = SND_R_JACK_REMAP /\ CC_RPcmInfo = SND_R_PCM_INFO
  /\ CC_RPcmSetParams = SND_R_PCM_SET_PARAMS /\ CC_RPcmPrepare = SND_R_PCM_PREPARE /\ CC_RPcmRelease = SND_R_PCM_RELEASE
  /\ CC_RPcmStart = SND_R_PCM_START /\ CC_RPcmStop = SND_R_PCM_STOP /\ CC_RChmapInfo = SND_R_CHMAP_INFO
  /\ CC_SOk = SND_S_OK
  /\ JACK_INFO_SZ = spec_item_size SND_R_JACK_INFO /\ PCM_INFO_SZ = spec_item_size SND_R_PCM_INFO
  /\ CHMAP_INFO_SZ = spec_item_size SND_R_CHMAP_INFO.
Proof. repeat split. Qed.

Example roundtrip_nonvacuous :
  enc_set_params 258 4096 1024 5 2 17 7 = [1;1;0;0; 2;1;0;0; 0;16;0;0; 0;4;0;0; 5;0;0;0; 2; 17; 7; 0]
  /\ spec_decode_ctl (enc_query 256 0 3 32) = Some (RqQuery 256 0 3 32)
  /\ spec_decode_tx (enc_xfer_hdr 4294967295 ++ [9; 8]) 8 = Some (4294967295, [9; 8]).
Proof. repeat split; vm_compute; reflexivity. Qed.

(* ---------- responses: what the device reports is what the driver stores ---------- *)
Theorem jack_info_roundtrip j pad : jack_in_range j -> parse_jack (spec_enc_jack_info j pad) = j.
Proof.
  intros (H1 & H2 & H3 & H4 & H5). destruct j as [nid ft dc cp cn]. cbn [j_nid j_features j_defconf j_caps j_connected] in *.
  unfold parse_jack, spec_enc_jack_info. cbn [j_nid j_features j_defconf j_caps j_connected].
  f_equal; field_arith.
Qed.

Theorem pcm_info_roundtrip p pad : pcm_in_range p -> parse_pcm (spec_enc_pcm_info p pad) = p.
Proof.
  intros (H1 & H2 & H3 & H4 & H5 & H6 & H7). destruct p as [nid ft fm rt dr mn mx].
  cbn [p_nid p_features p_formats p_rates p_direction p_chmin p_chmax] in *.
  unfold parse_pcm, spec_enc_pcm_info. cbn [p_nid p_features p_formats p_rates p_direction p_chmin p_chmax].
  f_equal; field_arith.
Qed.

Theorem chmap_info_roundtrip c : chmap_in_range c -> parse_chmap (spec_enc_chmap_info c) = c.
Proof.
  intros (H1 & H2 & H3 & H4). destruct c as [nid dr ch ps]. cbn [c_nid c_direction c_channels c_positions] in *.
  unfold parse_chmap, spec_enc_chmap_info. cbn [c_nid c_direction c_channels c_positions].
  rewrite (firstn_app_all ps (repeat 0 18) 18 H4).
  f_equal; try field_arith.
  cbv [spec_le app skipn]. apply firstn_all2. lia.
Qed.

Lemma enc_jack_len j pad : length (spec_enc_jack_info j pad) = 24%nat.
Proof.
  unfold spec_enc_jack_info. rewrite !app_length, !spec_le_le_bytes, !le_bytes_length.
  rewrite firstn_length, app_length, repeat_length. cbn [length]. lia.
Qed.
Lemma enc_pcm_len p pad : length (spec_enc_pcm_info p pad) = 32%nat.
Proof.
  unfold spec_enc_pcm_info. rewrite !app_length, !spec_le_le_bytes, !le_bytes_length.
  rewrite firstn_length, app_length, repeat_length. cbn [length]. lia.
Qed.
Lemma enc_chmap_len c : length (spec_enc_chmap_info c) = 24%nat.
Proof.
  unfold spec_enc_chmap_info. rewrite !app_length, !spec_le_le_bytes, !le_bytes_length.
  rewrite firstn_length, app_length, repeat_length. cbn [length]. lia.
Qed.

(* the status header of a response *)
Lemma hdr_ok_rsp st items : st < two32 -> hdr_ok (spec_info_rsp st items) = (st =? SND_S_OK).
Proof.
  intros H. unfold hdr_ok, spec_info_rsp.
  assert (E : rd (spec_le 4 st ++ concat items) 0 4 = st) by field_arith.
  rewrite E. reflexivity.
Qed.

Theorem hdr_ok_iff rsp : hdr_ok rsp = true <-> fld rsp 0 4 = SND_S_OK.
Proof.
  unfold hdr_ok. rewrite rd_fld. unfold CC_SOk, SND_S_OK. split; intros H; lia.
Qed.

(* the items of a query response, read back one by one *)

Lemma parse_infos_ok {A} (parse : list N -> A) (enc : A -> list N) (size : N) :
  forall (items : list A) (pre : list N) (i : N),
  (forall x, In x items -> length (enc x) = N.to_nat size /\ parse (enc x) = x) ->
  lenN pre = 4 + i * size -> 4 + (i + lenN items) * size <= RECV_SIZE ->
  forall tl, parse_infos parse size (pre ++ concat (map enc items) ++ tl) i (length items) = Ok items.
Proof.
  induction items as [|x items IH]; intros pre i Hx Hpre Hfit tl; [reflexivity|].
  cbn [length parse_infos]. rewrite lenN_cons in Hfit.
  destruct (N.ltb_spec RECV_SIZE (4 + (i + 1) * size)); [unfold RECV_SIZE in *; nia|].
  destruct (Hx x (or_introl eq_refl)) as [Lx Px].
  assert (ER : pre ++ concat (map enc (x :: items)) ++ tl = (pre ++ enc x) ++ concat (map enc items) ++ tl)
    by (cbn [map concat]; now rewrite <- !app_assoc).
  rewrite ER. rewrite (IH (pre ++ enc x) (i + 1)).
  - f_equal. f_equal. unfold slice. rewrite <- app_assoc.
    rewrite skipn_app_all by (unfold lenN in Hpre; lia).
    rewrite firstn_app_all by exact Lx. exact Px.
  - intros y Hy. apply Hx. now right.
  - rewrite lenN_app, Hpre. unfold lenN. rewrite Lx. lia.
  - lia.
Qed.

(* C20_snd_values, the transport half: a device answering a query per the specification (status OK followed
   by the items) has its items stored exactly as reported, for every item count that fits the 4096-byte
   receive buffer *)
Theorem parse_all_spec {A} (parse : list N -> A) (enc : A -> list N) (size : N) (items : list A) tl :
  24 <= size ->
  (forall x, In x items -> length (enc x) = N.to_nat size /\ parse (enc x) = x) ->
  4 + lenN items * size <= RECV_SIZE ->
  parse_all parse size (spec_info_rsp SND_S_OK (map enc items) ++ tl) (lenN items) = Ok items.
Proof.
  intros Hs Hx Hfit. unfold parse_all, spec_info_rsp.
  assert (Hn : N.to_nat (N.min (lenN items) INFO_FUEL) = length items).
  { unfold INFO_FUEL, RECV_SIZE, lenN in *. nia. }
  rewrite Hn, <- app_assoc. apply parse_infos_ok; [exact Hx|reflexivity|lia].
Qed.

(* more items than the receive buffer can hold are never read: the slice bound panics first *)
Lemma parse_infos_overflow {A} (parse : list N -> A) size rsp :
  forall n i, RECV_SIZE < 4 + (i + N.of_nat n) * size -> n <> O -> parse_infos parse size rsp i n = Panic.
Proof.
  induction n as [|n IH]; intros i H Hn; [congruence|]. cbn [parse_infos].
  destruct (N.ltb_spec RECV_SIZE (4 + (i + 1) * size)); [reflexivity|].
  destruct n as [|n]; [change (N.of_nat 1) with 1 in H; lia|].
  rewrite IH; [reflexivity| |discriminate].
  replace (i + 1 + N.of_nat (S n)) with (i + N.of_nat (S (S n))) by lia. exact H.
Qed.

Example parse_all_nonvacuous :
  parse_all parse_pcm 32 (spec_info_rsp SND_S_OK (map (fun p => spec_enc_pcm_info p [7; 7]) [mkPcm 1 2 3 4 0 1 2; mkPcm 9 8 7 6 1 0 255])) 2
  = Ok [mkPcm 1 2 3 4 0 1 2; mkPcm 9 8 7 6 1 0 255].
Proof. vm_compute. reflexivity. Qed.

(* ======================================================================================================= *)
(* 2. a submission, and what the device obtains from the chain just published                              *)
Definition per (q : qstate) (n : N) : N := if q_indirect q && (1 <? n) then 1 else n.

Lemma readable_part_tag ins outs :
  readable_part (elems (tag_bufs ins outs)) = elems (map (fun b => (b, false)) ins).
Proof.
  unfold tag_bufs, elems, readable_part. rewrite map_app, filter_app, !map_map. cbn [fst snd].
  replace (filter (fun e : N * N * bool => negb (snd e)) (map (fun x : ubuf => (b_addr x, b_len x, true)) outs)) with (@nil (N * N * bool)).
  - rewrite app_nil_r. induction ins as [|b ins IH]; [reflexivity|]. cbn [map filter snd negb]. now rewrite IH.
  - induction outs as [|b outs IH]; [reflexivity|]. cbn [map filter snd negb]. exact IH.
Qed.
Lemma writable_part_tag ins outs :
  writable_part (elems (tag_bufs ins outs)) = elems (map (fun b => (b, true)) outs).
Proof.
  unfold tag_bufs, elems, writable_part. rewrite map_app, filter_app, !map_map. cbn [fst snd].
  replace (filter (fun e : N * N * bool => snd e) (map (fun x : ubuf => (b_addr x, b_len x, false)) ins)) with (@nil (N * N * bool)).
  - cbn [app]. induction outs as [|b outs IH]; [reflexivity|]. cbn [map filter snd]. now rewrite IH.
  - induction ins as [|b ins IH]; [reflexivity|]. cbn [map filter snd]. exact IH.
Qed.

(* device memory after the shares of a submission, starting from nothing *)
Definition shared_mem (caller : amap) (ins outs : list ubuf) : amap :=
  w_dev (fold_left hal_share (buf_shares (tag_bufs ins outs)) (mkW caller (fun _ => []))).

Definition view_of (caller : amap) (ins outs : list ubuf) : dview :=
  Some (concat (map (el_bytes (shared_mem caller ins outs)) (elems (map (fun b => (b, false)) ins))),
        sumN (map b_len outs)).

Lemma sumN_writable outs : sumN (map (fun e : N * N * bool => snd (fst e)) (elems (map (fun b : ubuf => (b, true)) outs))) = sumN (map b_len outs).
Proof. unfold elems. rewrite !map_map. cbn [fst snd]. reflexivity. Qed.

Lemma add_step s chains h ins outs taddr :
  Reach s chains h -> bufs_ok (tag_bufs ins outs) -> tag_bufs ins outs <> [] ->
  capacity_ok s (lenN (tag_bufs ins outs)) = true ->
  exists s' evs,
    add s ins outs taddr = (Ok (q_free_head s), s', evs)
    /\ Reach s' (chains ++ [new_chain s ins outs taddr]) (h ++ evs)
    /\ c_head (new_chain s ins outs taddr) = q_free_head s
    /\ c_bufs (new_chain s ins outs taddr) = tag_bufs ins outs
    /\ q_size s' = q_size s /\ q_indirect s' = q_indirect s /\ q_event_idx s' = q_event_idx s
    /\ q_last_used s' = q_last_used s
    /\ lenN (c_idxs (new_chain s ins outs taddr)) = per s (lenN (tag_bufs ins outs))
    /\ forall caller, publish_view s' (q_free_head s) evs caller taddr = view_of caller ins outs.
Proof.
  intros HR Hok Hne Hcap.
  destruct (Reach_Inv _ _ _ HR) as [HI _].
  destruct (add_ok s chains ins outs taddr HI Hne Hok Hcap)
    as (s' & evs & c & Hrun & _ & Hch & Hcb & _ & _ & _ & Hlu & Hsz & Hind & Hev & _ & _ & _ & _
        & evs0 & _ & _ & Hc & _).
  subst c. exists s', evs. split; [exact Hrun|].
  pose proof (R_add _ _ _ _ _ _ _ _ _ HR Hok Hrun) as HR'. cbn iota in HR'.
  set (c := new_chain s ins outs taddr) in *.
  destruct (Reach_Inv _ _ _ HR') as [HI' _].
  assert (Hcok : chain_ok (q_shadow s') (q_dtable s') (q_ind s') c).
  { destruct HI' as (fl & _ & _ & _ & _ & _ & Hchs & _). apply Forall_app in Hchs. destruct Hchs as [_ Hl].
    inversion Hl; assumption. }
  split; [exact HR'|]. split; [exact Hch|]. split; [exact Hcb|].
  split; [exact Hsz|]. split; [exact Hind|]. split; [exact Hev|]. split; [exact Hlu|].
  split.
  { unfold per. unfold chain_ok in Hcok. unfold c, new_chain in *.
    destruct (q_indirect s && (1 <? lenN (tag_bufs ins outs))); cbn [c_tbl c_idxs c_bufs c_head] in *.
    - reflexivity.
    - destruct Hcok as (Hd & _). destruct (dchain_length _ _ _ Hd) as [Hl _]. unfold lenN. now rewrite Hl. }
  intros caller. unfold publish_view.
  set (tm := fun a : N => if a =? taddr then match nthN_error (q_ind s') (q_free_head s) with Some (Some t) => Some t | _ => None end else None).
  assert (Hmem : forall ta tbl, c_tbl c = Some (ta, tbl) -> tm ta = Some tbl).
  { intros ta tbl E. unfold chain_ok in Hcok. rewrite E in Hcok. destruct Hcok as (_ & _ & _ & _ & _ & Hi).
    rewrite Hch in Hi. unfold c, new_chain in E. destruct (q_indirect s && _); cbn [c_tbl] in E; [|discriminate].
    injection E as <- _. unfold tm. rewrite N.eqb_refl, Hi. reflexivity. }
  destruct (add_publishes s chains h ins outs taddr (q_free_head s) s' evs tm HR Hok Hrun Hmem)
    as (_ & _ & _ & Hwalk & Hrf & _).
  unfold dev_view. rewrite Hwalk, Hrf.
  rewrite (add_world s chains ins outs taddr (q_free_head s) s' evs HI Hok Hrun).
  unfold view_of, shared_mem. rewrite readable_part_tag, writable_part_tag, sumN_writable. reflexivity.
Qed.

(* ======================================================================================================= *)
(* 3. one control request on the idle control queue                                                        *)
Definition same_but_ctl (s s' : sstate) : Prop :=
  s_tx s' = s_tx s /\ s_jacks s' = s_jacks s /\ s_streams s' = s_streams s /\ s_chmaps s' = s_chmaps s
  /\ s_set_up s' = s_set_up s /\ s_jack_infos s' = s_jack_infos s /\ s_pcm_infos s' = s_pcm_infos s
  /\ s_chmap_infos s' = s_chmap_infos s /\ s_params s' = s_params s /\ s_tok_buf s' = s_tok_buf s
  /\ s_tok_rsp s' = s_tok_rsp s.

Lemma same_but_ctl_set s q : same_but_ctl s (set_ctl s q).
Proof. unfold same_but_ctl, set_ctl. cbn. repeat split. Qed.

Definition ctl_idle (s : sstate) : Prop := (exists h, Reach (s_ctl s) [] h) /\ q_size (s_ctl s) = 32.

Lemma capacity_idle q n h : Reach q [] h -> q_size q = 32 -> 1 <= n <= 32 -> capacity_ok q n = true.
Proof.
  intros HR Hs Hn. destruct (counts_exact _ _ _ HR) as (Hnu & _). cbn in Hnu.
  unfold capacity_ok. rewrite Hs, Hnu. destruct (q_indirect q); cbn [negb andb]; lia.
Qed.

(* C20_snd_request: for EVERY device behaviour (used-ring words, response bytes, share addresses) *)
Theorem ctl_request_wire s req e r :
  ctl_idle s -> req <> [] -> lenN req < two32 ->
  ctl_request s req e = r ->
  exists q1 evs1,
    add (s_ctl s) [mkBuf ID_REQ (lenN req) (ce_areq e)] [mkBuf ID_RECV RECV_SIZE (ce_arecv e)] (ce_taddr e)
      = (Ok (q_free_head (s_ctl s)), q1, evs1)
    (* the wait has not ended on this used index *)
    /\ (q_last_used (s_ctl s) = w16 (ce_uidx e) -> r = None)
    /\ (q_last_used (s_ctl s) <> w16 (ce_uidx e) ->
        exists o s' evs,
          (* the device reads exactly the request bytes and has 4096 writable bytes for the answer *)
          r = Some (o, s', evs, [Some (req, RECV_SIZE)])
          /\ same_but_ctl s s'
          /\ (exists evs2, evs = sq CTL_Q evs1 ++ (if should_notify q1 (ce_ae e) (ce_uf e) then [SNotify CTL_Q] else []) ++ sq CTL_Q evs2)
          (* the device completed this very request: the response buffer is returned, the queue is idle again *)
          /\ (w16 (ce_uid e) = q_free_head (s_ctl s) ->
              o = Ok (ce_rsp e) /\ ctl_idle s' /\ q_free_head (s_ctl s') = q_free_head (s_ctl s)
              /\ q_last_used (s_ctl s') = w16 (q_last_used (s_ctl s) + 1))
          (* it named another chain (it cannot: nothing else is outstanding): the error is returned *)
          /\ (w16 (ce_uid e) <> q_free_head (s_ctl s) -> o = Err EWrongToken)).
Proof.
  intros [[h HR] Hsz] Hne Hlen <-.
  set (ins := [mkBuf ID_REQ (lenN req) (ce_areq e)]). set (outs := [mkBuf ID_RECV RECV_SIZE (ce_arecv e)]).
  assert (Hl0 : lenN req <> 0). { destruct req; [congruence|]. rewrite lenN_cons. lia. }
  assert (Hok : bufs_ok (tag_bufs ins outs)).
  { unfold ins, outs. cbn [tag_bufs map app]. repeat constructor; cbn [fst b_len]; unfold RECV_SIZE, two32 in *; lia. }
  assert (Hnn : tag_bufs ins outs <> []) by discriminate.
  assert (Hcap : capacity_ok (s_ctl s) (lenN (tag_bufs ins outs)) = true).
  { eapply capacity_idle; eauto. cbn. lia. }
  destruct (add_step (s_ctl s) [] h ins outs (ce_taddr e) HR Hok Hnn Hcap)
    as (q1 & evs1 & Hadd & HR1 & Hch & Hcb & Hsz1 & _ & _ & Hlu1 & _ & Hview).
  exists q1, evs1. split; [exact Hadd|].
  unfold ctl_request. fold ins outs. rewrite Hadd.
  unfold can_pop. rewrite Hlu1.
  split.
  { intros E. rewrite E, N.eqb_refl. reflexivity. }
  intros E1. destruct (N.eqb_spec (q_last_used (s_ctl s)) (w16 (ce_uidx e))) as [|_]; [contradiction|]. cbn [negb].
  set (c := new_chain (s_ctl s) ins outs (ce_taddr e)) in *. cbn [app] in HR1.
  assert (Hk : keys (tag_bufs ins outs) = keys (c_bufs c)) by (now rewrite Hcb).
  destruct (pop_refines q1 [] c [] (h ++ evs1) ins outs (ce_uidx e) (ce_uid e) (ce_ulen e) HR1 Hk) as (_ & P2 & P3).
  rewrite Hch in P2, P3. rewrite Hlu1 in P2, P3.
  assert (Hv : publish_view q1 (q_free_head (s_ctl s)) evs1 (fun id : N => if id =? ID_REQ then req else []) (ce_taddr e)
               = Some (req, RECV_SIZE)).
  { rewrite Hview. unfold view_of, shared_mem, ins, outs.
    cbn [tag_bufs map app buf_shares fold_left hal_share hal_ev fst snd b_id b_len b_addr w_caller w_dev elems concat].
    unfold el_bytes. cbn [fst snd]. rewrite aset_eq. cbn [N.eqb ID_REQ Pos.eqb].
    repeat rewrite (takeN_all (lenN req) req eq_refl). rewrite app_nil_r.
    cbn [sumN]. rewrite N.add_0_r. reflexivity. }
  rewrite Hv.
  destruct (N.eq_dec (w16 (ce_uid e)) (q_free_head (s_ctl s))) as [E2|E2].
  - destruct (P3 E1 E2) as (q2 & evs2 & Hpop & HR2 & Hlu2 & Hfh2 & _ & _ & _ & _ & _ & Hsz2 & _).
    rewrite Hpop. eexists; eexists; eexists. split; [reflexivity|]. split; [apply same_but_ctl_set|].
    split; [eexists; reflexivity|]. split; [|intros X; contradiction].
    intros _. split; [reflexivity|]. cbn [set_ctl s_ctl].
    split; [split; [cbn [app] in HR2; eauto|cbn [set_ctl s_ctl]; congruence]|]. split; [exact Hfh2|exact Hlu2].
  - destruct (P2 E1 E2) as [Hpop _]. rewrite Hpop.
    eexists; eexists; eexists. split; [reflexivity|]. split; [apply same_but_ctl_set|].
    split; [exists []; reflexivity|]. split; [intros X; contradiction|]. intros _. reflexivity.
Qed.

(* the device has served this request: the wait ended on the used index it published, and the used element names
   the chain of the request (the only one outstanding) *)
Definition env_done (s : sstate) (e : cenv) : Prop :=
  q_last_used (s_ctl s) <> w16 (ce_uidx e) /\ w16 (ce_uid e) = q_free_head (s_ctl s).

Lemma ctl_request_done s req e :
  ctl_idle s -> req <> [] -> lenN req < two32 -> env_done s e ->
  exists s' evs,
    ctl_request s req e = Some (Ok (ce_rsp e), s', evs, [Some (req, RECV_SIZE)])
    /\ same_but_ctl s s' /\ ctl_idle s'
    /\ q_free_head (s_ctl s') = q_free_head (s_ctl s)
    /\ q_last_used (s_ctl s') = w16 (q_last_used (s_ctl s) + 1).
Proof.
  intros Hi Hne Hl [E1 E2].
  destruct (ctl_request_wire s req e _ Hi Hne Hl eq_refl) as (q1 & evs1 & _ & _ & P).
  destruct (P E1) as (o & s' & evs & Hr & Hsame & _ & Hdone & _).
  destruct (Hdone E2) as (-> & Hidle & Hf & Hl2).
  exists s', evs. split; [exact Hr|]. split; [exact Hsame|]. split; [exact Hidle|]. split; assumption.
Qed.

Lemma with_set_up_done {A} s es (k : sstate -> list cenv -> sres A) :
  s_set_up s = true -> with_set_up s es k = k s es.
Proof. intros H. unfold with_set_up. now rewrite H. Qed.

(* ---------- pcm_prepare / pcm_release / pcm_start / pcm_stop ---------- *)
(* C20_snd_cmd: the request is the specification's virtio_snd_pcm_hdr with the caller's stream id; the
   result is Ok exactly when the device answered VIRTIO_SND_S_OK, an error for every other response value *)
Theorem pcm_cmd_spec s code sid e :
  s_set_up s = true -> ctl_idle s -> is_pcm_cmd_code code = true -> sid < two32 -> env_done s e ->
  exists o s' evs rb,
    snd_pcm_cmd s code sid [e] = Some (o, s', evs, [Some (rb, RECV_SIZE)])
    /\ spec_decode_ctl rb = Some (RqPcm code sid)
    /\ (o = Ok tt <-> fld (ce_rsp e) 0 4 = SND_S_OK)
    /\ (o = Ok tt \/ o = Err EIoError)
    /\ same_but_ctl s s' /\ ctl_idle s'.
Proof.
  intros Hsu Hi Hc Hs Hd. unfold snd_pcm_cmd. rewrite with_set_up_done by exact Hsu. cbn [nth].
  assert (Hne : enc_pcm_hdr code sid <> []) by (intros X; apply (f_equal lenN) in X; rewrite lenN_enc_pcm_hdr in X; discriminate).
  assert (Hl : lenN (enc_pcm_hdr code sid) < two32) by (rewrite lenN_enc_pcm_hdr; reflexivity).
  destruct (ctl_request_done s _ e Hi Hne Hl Hd) as (s' & evs & -> & Hsame & Hidle & _).
  eexists; exists s', evs; eexists. split; [reflexivity|]. split; [now apply pcm_hdr_roundtrip|].
  rewrite <- hdr_ok_iff. destruct (hdr_ok (ce_rsp e)).
  - split; [tauto|]. split; [now left|]. tauto.
  - split; [split; discriminate|]. split; [now right|]. tauto.
Qed.

(* ---------- pcm_set_params ---------- *)
Definition params_guard (buffer period : N) : bool := (period =? 0) || (buffer <? period) || negb (buffer mod period =? 0).

Lemma params_guard_spec buffer period : params_guard buffer period = false -> spec_params_ok buffer period = true.
Proof. unfold params_guard, spec_params_ok. intros H. lia. Qed.

(* C20_snd_set_params *)
Theorem set_params_spec s sid buffer period features channels format rate e :
  s_set_up s = true -> ctl_idle s ->
  sid < two32 -> buffer < two32 -> period < two32 -> features < two32 -> channels < 256 -> format < 256 -> rate < 256 ->
  env_done s e ->
  (* refused by the driver: nothing reaches the device *)
  (params_guard buffer period = true ->
     snd_pcm_set_params s sid buffer period features channels format rate [e] = Some (Err EInvalidParam, s, [], []))
  /\ (params_guard buffer period = false ->
      exists o s' evs rb,
        snd_pcm_set_params s sid buffer period features channels format rate [e] = Some (o, s', evs, [Some (rb, RECV_SIZE)])
        /\ spec_decode_ctl rb = Some (RqSetParams sid buffer period features channels format rate 0)
        /\ spec_params_ok buffer period = true
        /\ ctl_idle s' /\ s_tx s' = s_tx s /\ s_set_up s' = true /\ s_pcm_infos s' = s_pcm_infos s
        /\ s_tok_buf s' = s_tok_buf s /\ s_tok_rsp s' = s_tok_rsp s
        (* any response other than OK: an error, the stored parameters are untouched *)
        /\ (fld (ce_rsp e) 0 4 <> SND_S_OK -> o = Err EIoError /\ s_params s' = s_params s)
        (* OK: the parameters are recorded for this stream (a stream the driver has no slot for panics) *)
        /\ (fld (ce_rsp e) 0 4 = SND_S_OK ->
            (sid < lenN (s_params s) -> o = Ok tt /\ s_params s' = updN (s_params s) sid (mkPP true buffer period features channels format rate))
            /\ (lenN (s_params s) <= sid -> o = Panic /\ s_params s' = s_params s))).
Proof.
  intros Hsu Hi H1 H2 H3 H4 H5 H6 H7 Hd. unfold snd_pcm_set_params. rewrite with_set_up_done by exact Hsu. cbn [nth].
  fold (params_guard buffer period). split; [intros ->; reflexivity|]. intros Hg. rewrite Hg.
  set (req := enc_set_params sid buffer period features channels format rate).
  assert (Hne : req <> []) by (intros X; apply (f_equal lenN) in X; unfold req in X; rewrite lenN_enc_set_params in X; discriminate).
  assert (Hl : lenN req < two32) by (unfold req; rewrite lenN_enc_set_params; reflexivity).
  destruct (ctl_request_done s req e Hi Hne Hl Hd) as (s' & evs & -> & Hsame & Hidle & _).
  destruct Hsame as (S1 & S2 & S3 & S4 & S5 & S6 & S7 & S8 & S9 & S10 & S11).
  destruct (hdr_ok (ce_rsp e)) eqn:Hh.
  - apply hdr_ok_iff in Hh. destruct (N.ltb_spec sid (lenN (s_params s'))) as [L|L]; rewrite S9 in L.
    + eexists; eexists; exists evs; eexists. split; [reflexivity|]. split; [now apply set_params_roundtrip|].
      split; [now apply params_guard_spec|]. cbn [set_params s_ctl s_tx s_set_up s_pcm_infos s_tok_buf s_tok_rsp s_params].
      split; [exact Hidle|]. split; [exact S1|]. split; [congruence|]. split; [exact S7|]. split; [exact S10|]. split; [exact S11|].
      split; [intros X; contradiction|]. intros _. split; [intros _; split; [reflexivity|now rewrite S9]|intros X; lia].
    + eexists; exists s', evs; eexists. split; [reflexivity|]. split; [now apply set_params_roundtrip|].
      split; [now apply params_guard_spec|].
      split; [exact Hidle|]. split; [exact S1|]. split; [congruence|]. split; [exact S7|]. split; [exact S10|]. split; [exact S11|].
      split; [intros X; contradiction|]. intros _. split; [intros X; lia|intros _; split; [reflexivity|exact S9]].
  - assert (Hn : fld (ce_rsp e) 0 4 <> SND_S_OK) by (intros X; apply hdr_ok_iff in X; congruence).
    eexists; exists s', evs; eexists. split; [reflexivity|]. split; [now apply set_params_roundtrip|].
    split; [now apply params_guard_spec|].
    split; [exact Hidle|]. split; [exact S1|]. split; [congruence|]. split; [exact S7|]. split; [exact S10|]. split; [exact S11|].
    split; [intros _; split; [reflexivity|exact S9]|intros X; contradiction].
Qed.

(* ---------- jack_remap ---------- *)
(* C20_snd_jack_remap (the request proper; the lookup of the jack's features is jack_remap_lookup below) *)
Theorem jack_remap_spec jm s jack association sequence e l j :
  s_set_up s = true -> ctl_idle s -> jack < two32 -> association < two32 -> sequence < two32 -> env_done s e ->
  jack < s_jacks s -> s_jack_infos s = Some l -> nth_safe l jack = Some j -> N.land (j_features j) SND_JACK_F_REMAP <> 0 ->
  exists o s' evs rb,
    snd_jack_remap_gen jm s jack association sequence [e] = Some (o, s', evs, [Some (rb, RECV_SIZE)])
    /\ spec_decode_ctl rb = Some (RqJackRemap jack association sequence)
    /\ (o = Ok tt <-> fld (ce_rsp e) 0 4 = SND_S_OK)
    /\ (o = Ok tt \/ o = Err EUnsupported)
    /\ same_but_ctl s s' /\ ctl_idle s'.
Proof.
  intros Hsu Hi H1 H2 H3 Hd Hj Hl Hn Hf. unfold snd_jack_remap_gen. rewrite with_set_up_done by exact Hsu. cbn [nth].
  destruct (N.eqb_spec (s_jacks s) 0) as [Z|_]; [lia|]. destruct (N.leb_spec (s_jacks s) jack) as [Z|_]; [lia|].
  rewrite Hl, Hn. unfold SND_JACK_F_REMAP in Hf. destruct (N.eqb_spec (N.land (j_features j) 1) 0) as [Z|_]; [contradiction|].
  set (req := enc_jack_remap jack association sequence).
  assert (Hne : req <> []) by (intros X; apply (f_equal lenN) in X; unfold req in X; rewrite lenN_enc_jack_remap in X; discriminate).
  assert (Hlen : lenN req < two32) by (unfold req; rewrite lenN_enc_jack_remap; reflexivity).
  destruct (ctl_request_done s req e Hi Hne Hlen Hd) as (s' & evs & -> & Hsame & Hidle & _).
  eexists; exists s', evs; eexists. split; [reflexivity|]. split; [now apply jack_remap_roundtrip|].
  rewrite <- hdr_ok_iff. destruct (hdr_ok (ce_rsp e)).
  - split; [tauto|]. split; [now left|]. tauto.
  - split; [split; discriminate|]. split; [now right|]. tauto.
Qed.

(* the guards of jack_remap: nothing reaches the device *)
Theorem jack_remap_guards jm s jack association sequence es :
  s_set_up s = true ->
  (s_jacks s <= jack -> snd_jack_remap_gen jm s jack association sequence es = Some (Err EInvalidParam, s, [], []))
  /\ (forall l j, jack < s_jacks s -> s_jack_infos s = Some l -> nth_safe l jack = Some j ->
      N.land (j_features j) SND_JACK_F_REMAP = 0 ->
      snd_jack_remap_gen jm s jack association sequence es = Some (Err EUnsupported, s, [], []))
  (* the stored list is shorter than the configured number of jacks (the jack query failed and was tolerated) *)
  /\ (forall l, jack < s_jacks s -> s_jack_infos s = Some l -> nth_safe l jack = None ->
      snd_jack_remap_gen jm s jack association sequence es = Some (jm, s, [], [])).
Proof.
  intros Hsu. unfold snd_jack_remap_gen. rewrite with_set_up_done by exact Hsu. split; [|split].
  - intros H. destruct (N.eqb_spec (s_jacks s) 0); [reflexivity|]. destruct (N.leb_spec (s_jacks s) jack); [reflexivity|lia].
  - intros l j H Hl Hn Hf. destruct (N.eqb_spec (s_jacks s) 0); [lia|]. destruct (N.leb_spec (s_jacks s) jack); [lia|].
    rewrite Hl, Hn. unfold SND_JACK_F_REMAP in Hf. rewrite Hf. reflexivity.
  - intros l H Hl Hn. destruct (N.eqb_spec (s_jacks s) 0); [lia|]. destruct (N.leb_spec (s_jacks s) jack); [lia|].
    rewrite Hl, Hn. reflexivity.
Qed.

(* ---------- the info queries and set_up ---------- *)
(* what the driver makes of the answer to a query: any header but OK is an error, otherwise the items are read *)
Definition qans {A} (parse : list N -> A) (size count : N) (rsp : list N) : outcome (list A) :=
  if hdr_ok rsp then parse_all parse size rsp count else Err EIoError.

Lemma query_infos_spec {A} s code count size (parse : list N -> A) e :
  ctl_idle s -> code < two32 -> count < two32 -> size < two32 -> env_done s e ->
  exists s' evs,
    query_infos s code count size parse e
      = Some (qans parse size count (ce_rsp e), s', evs, [Some (enc_query code 0 count size, RECV_SIZE)])
    /\ same_but_ctl s s' /\ ctl_idle s'
    /\ q_free_head (s_ctl s') = q_free_head (s_ctl s)
    /\ q_last_used (s_ctl s') = w16 (q_last_used (s_ctl s) + 1).
Proof.
  intros Hi Hc Hn Hz Hd. unfold query_infos.
  set (req := enc_query code 0 count size).
  assert (Hne : req <> []) by (intros X; apply (f_equal lenN) in X; unfold req in X; rewrite lenN_enc_query in X; discriminate).
  assert (Hl : lenN req < two32) by (unfold req; rewrite lenN_enc_query; reflexivity).
  destruct (ctl_request_done s req e Hi Hne Hl Hd) as (s' & evs & -> & Hsame & Hidle & Hf & Hlu).
  exists s', evs. split; [|split; [exact Hsame|]; split; [exact Hidle|]; split; assumption].
  unfold qans. destruct (hdr_ok (ce_rsp e)); reflexivity.
Qed.

Lemma qans_cases {A} (parse : list N -> A) size count rsp :
  is_fatal (qans parse size count rsp) = false ->
  (exists l, qans parse size count rsp = Ok l /\ fld rsp 0 4 = SND_S_OK)
  \/ (qans parse size count rsp = Err EIoError /\ fld rsp 0 4 <> SND_S_OK).
Proof.
  unfold qans. destruct (hdr_ok rsp) eqn:H.
  - apply hdr_ok_iff in H. intros Hf. left. unfold parse_all in *.
    destruct (parse_infos parse size rsp 0 _) as [l|x| |] eqn:E; try discriminate; [eauto|].
    exfalso. clear Hf. revert E. generalize 0 at 1. generalize (N.to_nat (N.min count INFO_FUEL)).
    induction n as [|n IH]; intros i E; cbn [parse_infos] in E; [discriminate|].
    destruct (RECV_SIZE <? 4 + (i + 1) * size); [discriminate|].
    destruct (parse_infos parse size rsp (i + 1) n) eqn:E2; try discriminate. injection E as ->. eapply IH; exact E2.
  - intros _. right. split; [reflexivity|]. intros X. apply hdr_ok_iff in X. congruence.
Qed.

Definition env_done_at (s : sstate) (k : N) (e : cenv) : Prop :=
  w16 (q_last_used (s_ctl s) + k) <> w16 (ce_uidx e) /\ w16 (ce_uid e) = q_free_head (s_ctl s).

Lemma ctl_idle_ext s s' : s_ctl s' = s_ctl s -> ctl_idle s -> ctl_idle s'.
Proof. unfold ctl_idle. intros ->. auto. Qed.

Definition olist {A} (o : outcome (list A)) : list A := match o with Ok l => l | _ => [] end.

(* what set_up leaves unchanged *)
Definition same_but_infos (s s' : sstate) : Prop :=
  s_tx s' = s_tx s /\ s_jacks s' = s_jacks s /\ s_streams s' = s_streams s /\ s_chmaps s' = s_chmaps s
  /\ s_set_up s' = s_set_up s /\ s_params s' = s_params s /\ s_tok_buf s' = s_tok_buf s /\ s_tok_rsp s' = s_tok_rsp s.

(* C20_snd_set_up: for every answer of the device to the three queries (the only exclusion: an OK header for
   more items than the receive buffer holds, where the driver's slice bound panics). The queries are
   JACK_INFO, PCM_INFO, CHMAP_INFO in this order, each for items 0 .. total-1 with the item size of the
   specification; a failed PCM_INFO is returned as an error; a failed JACK_INFO / CHMAP_INFO leaves an empty
   list (the driver's documented tolerance); otherwise the stored items are the ones read from the response. *)
Theorem set_up_spec s e1 e2 e3 :
  ctl_idle s -> s_jacks s < two32 -> s_streams s < two32 -> s_chmaps s < two32 ->
  env_done s e1 -> env_done_at s 1 e2 -> env_done_at s 2 e3 ->
  let aj := qans parse_jack JACK_INFO_SZ (s_jacks s) (ce_rsp e1) in
  let ap := qans parse_pcm PCM_INFO_SZ (s_streams s) (ce_rsp e2) in
  let ac := qans parse_chmap CHMAP_INFO_SZ (s_chmaps s) (ce_rsp e3) in
  is_fatal aj = false -> is_fatal ap = false -> is_fatal ac = false ->
  let vj := Some (enc_query CC_RJackInfo 0 (s_jacks s) JACK_INFO_SZ, RECV_SIZE) in
  let vp := Some (enc_query CC_RPcmInfo 0 (s_streams s) PCM_INFO_SZ, RECV_SIZE) in
  let vc := Some (enc_query CC_RChmapInfo 0 (s_chmaps s) CHMAP_INFO_SZ, RECV_SIZE) in
  exists s' evs,
    same_but_infos s s' /\ ctl_idle s' /\ s_jack_infos s' = Some (olist aj)
    /\ match ap with
       | Ok pl => snd_set_up s e1 e2 e3 = Some (Ok tt, s', evs, [vj; vp; vc])
                  /\ s_pcm_infos s' = Some pl /\ s_chmap_infos s' = Some (olist ac)
       | _ => snd_set_up s e1 e2 e3 = Some (Err EIoError, s', evs, [vj; vp])
              /\ s_pcm_infos s' = s_pcm_infos s /\ s_chmap_infos s' = s_chmap_infos s
       end.
Proof.
  intros Hi Hj Hs Hc Hd1 [D2 D2'] [D3 D3'] aj ap ac Fj Fp Fc vj vp vc.
  unfold snd_set_up.
  destruct (query_infos_spec s CC_RJackInfo (s_jacks s) JACK_INFO_SZ parse_jack e1 Hi eq_refl Hj eq_refl Hd1)
    as (s1 & ev1 & -> & Sm1 & Hi1 & Hf1 & Hl1).
  fold aj. rewrite Fj.
  destruct Sm1 as (A1 & A2 & A3 & A4 & A5 & A6 & A7 & A8 & A9 & A10 & A11).
  set (s1' := set_infos s1 (s_set_up s1) (Some (match aj with Ok l => l | _ => [] end)) (s_pcm_infos s1) (s_chmap_infos s1)).
  assert (Hi1' : ctl_idle s1') by (apply (ctl_idle_ext s1); [reflexivity|exact Hi1]).
  assert (Hd2 : env_done s1' e2).
  { split; cbn [s1' set_infos s_ctl]; [rewrite Hl1|rewrite Hf1; exact D2'].
    exact D2. }
  cbn [set_infos s_streams] in *.
  replace (s_streams s1') with (s_streams s) by (cbn [s1' set_infos s_streams]; congruence).
  destruct (query_infos_spec s1' CC_RPcmInfo (s_streams s) PCM_INFO_SZ parse_pcm e2 Hi1' eq_refl Hs eq_refl Hd2)
    as (s2 & ev2 & -> & Sm2 & Hi2 & Hf2 & Hl2).
  fold ap.
  destruct Sm2 as (B1 & B2 & B3 & B4 & B5 & B6 & B7 & B8 & B9 & B10 & B11).
  cbn [s1' set_infos s_tx s_jacks s_streams s_chmaps s_set_up s_jack_infos s_pcm_infos s_chmap_infos s_params s_tok_buf s_tok_rsp s_ctl] in *.
  destruct (qans_cases parse_pcm PCM_INFO_SZ (s_streams s) (ce_rsp e2) Fp) as [(pl & Ep & _)|(Ep & _)]; fold ap in Ep; rewrite Ep.
  2:{ exists s2, (ev1 ++ ev2). split; [unfold same_but_infos; repeat split; congruence|]. split; [exact Hi2|].
      split; [rewrite B6; reflexivity|]. cbn [fail_as app]. split; [reflexivity|]. split; congruence. }
  set (s2' := set_infos s2 (s_set_up s2) (s_jack_infos s2) (Some pl) (s_chmap_infos s2)).
  assert (Hi2' : ctl_idle s2') by (apply (ctl_idle_ext s2); [reflexivity|exact Hi2]).
  assert (Hd3 : env_done s2' e3).
  { split; cbn [s2' set_infos s_ctl]; [rewrite Hl2, Hl1|rewrite Hf2, Hf1; exact D3'].
    replace (w16 (w16 (q_last_used (s_ctl s) + 1) + 1)) with (w16 (q_last_used (s_ctl s) + 2)); [exact D3|].
    unfold w16. rewrite N.add_mod_idemp_l by discriminate. f_equal. lia. }
  replace (s_chmaps s2) with (s_chmaps s) by congruence.
  destruct (query_infos_spec s2' CC_RChmapInfo (s_chmaps s) CHMAP_INFO_SZ parse_chmap e3 Hi2' eq_refl Hc eq_refl Hd3)
    as (s3 & ev3 & -> & Sm3 & Hi3 & _).
  fold ac. rewrite Fc.
  destruct Sm3 as (C1 & C2 & C3 & C4 & C5 & C6 & C7 & C8 & C9 & C10 & C11).
  cbn [s2' set_infos s_tx s_jacks s_streams s_chmaps s_set_up s_jack_infos s_pcm_infos s_chmap_infos s_params s_tok_buf s_tok_rsp s_ctl] in *.
  eexists; exists (ev1 ++ ev2 ++ ev3).
  split; [|split; [|split; [|split; [reflexivity|]]]];
    cbn [set_infos s_tx s_jacks s_streams s_chmaps s_set_up s_jack_infos s_pcm_infos s_chmap_infos s_params s_tok_buf s_tok_rsp s_ctl].
  - unfold same_but_infos. cbn [set_infos s_tx s_jacks s_streams s_chmaps s_set_up s_params s_tok_buf s_tok_rsp]. repeat split; congruence.
  - apply (ctl_idle_ext s3); [reflexivity|exact Hi3].
  - rewrite C6, B6. reflexivity.
  - split; [congruence|reflexivity].
Qed.

(* a device answering per the specification: status OK followed by exactly the items asked for *)
Lemma qans_conforming {A} (parse : list N -> A) (enc : A -> list N) size (items : list A) tl :
  24 <= size ->
  (forall x, In x items -> length (enc x) = N.to_nat size /\ parse (enc x) = x) ->
  4 + lenN items * size <= RECV_SIZE ->
  qans parse size (lenN items) (spec_info_rsp SND_S_OK (map enc items) ++ tl) = Ok items.
Proof.
  intros Hs Hx Hfit. unfold qans.
  assert (Hh : hdr_ok (spec_info_rsp SND_S_OK (map enc items) ++ tl) = true).
  { apply hdr_ok_iff. unfold spec_info_rsp, SND_S_OK. rewrite <- app_assoc.
    change (spec_le 4 32768) with (le_bytes 4 32768). rewrite fld_le_app. reflexivity. }
  rewrite Hh. now apply parse_all_spec.
Qed.

(* C20_snd_values (storage): the stream / jack / channel-map information stored by set_up is what the device reported *)
Theorem stored_infos_are_reported (jl : list jack_info) (pl : list pcm_info) (cl : list chmap_info)
  (jpad : jack_info -> list N) (ppad : pcm_info -> list N) t1 t2 t3 :
  Forall jack_in_range jl -> Forall pcm_in_range pl -> Forall chmap_in_range cl ->
  4 + lenN jl * 24 <= RECV_SIZE -> 4 + lenN pl * 32 <= RECV_SIZE -> 4 + lenN cl * 24 <= RECV_SIZE ->
  qans parse_jack JACK_INFO_SZ (lenN jl) (spec_info_rsp SND_S_OK (map (fun j => spec_enc_jack_info j (jpad j)) jl) ++ t1) = Ok jl
  /\ qans parse_pcm PCM_INFO_SZ (lenN pl) (spec_info_rsp SND_S_OK (map (fun p => spec_enc_pcm_info p (ppad p)) pl) ++ t2) = Ok pl
  /\ qans parse_chmap CHMAP_INFO_SZ (lenN cl) (spec_info_rsp SND_S_OK (map spec_enc_chmap_info cl) ++ t3) = Ok cl.
Proof.
  intros Fj Fp Fc Lj Lp Lc. rewrite Forall_forall in Fj, Fp, Fc. split; [|split].
  - apply qans_conforming; [unfold JACK_INFO_SZ; lia| |exact Lj].
    intros x Hx. split; [apply enc_jack_len|apply jack_info_roundtrip; auto].
  - apply qans_conforming; [unfold PCM_INFO_SZ; lia| |exact Lp].
    intros x Hx. split; [apply enc_pcm_len|apply pcm_info_roundtrip; auto].
  - apply qans_conforming; [unfold CHMAP_INFO_SZ; lia| |exact Lc].
    intros x Hx. split; [apply enc_chmap_len|apply chmap_info_roundtrip; auto].
Qed.

(* ---------- the queries answered from the stored stream information ---------- *)
Lemma drv_streams_spec infos dir : forall i, i + lenN infos <= two32 ->
  drv_streams_dir infos dir i = streams_with_dir infos dir i.
Proof.
  induction infos as [|p infos IH]; intros i H; [reflexivity|]. rewrite lenN_cons in H.
  cbn [drv_streams_dir streams_with_dir]. rewrite IH by lia.
  unfold w32. rewrite N.mod_small by (unfold two32 in *; lia). reflexivity.
Qed.

Lemma nth_safe_some {A} (l : list A) i x : nth_safe l i = Some x -> i < lenN l /\ nthN_error l i = Some x.
Proof. unfold nth_safe. destruct (N.leb_spec (lenN l) i); [discriminate|]. auto. Qed.
Lemma nth_safe_eq {A} (l : list A) i : nth_safe l i = nthN_error l i.
Proof.
  unfold nth_safe. destruct (N.leb_spec (lenN l) i) as [H|H]; [|reflexivity].
  symmetry. unfold nthN_error. apply nth_error_None. unfold lenN in H. lia.
Qed.

(* C20_snd_values (queries): what the caller is told is derived from the stored (= reported) information exactly as
   the specification's fields say, without any traffic *)
Theorem get_spec s infos es :
  s_set_up s = true -> s_pcm_infos s = Some infos -> lenN infos < two32 ->
  snd_get s 0 0 es = Some (Ok (streams_with_dir infos SND_D_OUTPUT 0), s, [], [])
  /\ snd_get s 1 0 es = Some (Ok (streams_with_dir infos SND_D_INPUT 0), s, [], [])
  /\ (forall sid p, nth_safe infos sid = Some p ->
        snd_get s 2 sid es = Some (Ok [p_rates p], s, [], [])
        /\ snd_get s 3 sid es = Some (Ok [p_formats p], s, [], [])
        /\ snd_get s 4 sid es = Some (Ok [p_chmin p; p_chmax p], s, [], [])
        /\ snd_get s 5 sid es = Some (Ok [p_features p], s, [], []))
  /\ (forall sid which, lenN infos <= sid -> 2 <= which -> snd_get s which sid es = Some (Err EInvalidParam, s, [], [])).
Proof.
  intros Hsu Hp Hl.
  assert (Hw : w32 (lenN infos) = lenN infos) by (unfold w32; apply N.mod_small; exact Hl).
  assert (Hu : forall which sid, snd_get s which sid es =
     (if which =? 0 then Some (Ok (drv_streams_dir infos 0 0), s, [], [])
      else if which =? 1 then Some (Ok (drv_streams_dir infos 1 0), s, [], [])
      else if lenN infos <=? sid then Some (Err EInvalidParam, s, [], [])
      else match nth_safe infos sid with
           | None => Some (Panic, s, [], [])
           | Some p => Some (Ok (if which =? 2 then [p_rates p] else if which =? 3 then [p_formats p]
                                 else if which =? 4 then [p_chmin p; p_chmax p] else [p_features p]), s, [], [])
           end)).
  { intros which sid. unfold snd_get. rewrite with_set_up_done by exact Hsu. rewrite Hp, Hw. reflexivity. }
  split; [rewrite Hu; cbn [N.eqb]; rewrite drv_streams_spec by (unfold two32 in *; lia); reflexivity|].
  split; [rewrite Hu; cbn [N.eqb Pos.eqb]; rewrite drv_streams_spec by (unfold two32 in *; lia); reflexivity|].
  split.
  - intros sid p Hn. destruct (nth_safe_some _ _ _ Hn) as [Hlt _]. rewrite !Hu, Hn.
    destruct (N.leb_spec (lenN infos) sid); [lia|]. cbn [N.eqb Pos.eqb]. repeat split.
  - intros sid which Hge Hwh. rewrite Hu.
    destruct (N.eqb_spec which 0); [lia|]. destruct (N.eqb_spec which 1); [lia|].
    destruct (N.leb_spec (lenN infos) sid); [reflexivity|lia].
Qed.

(* ======================================================================================================= *)
(* 4. the stored parameters: the state rule                                                                *)
Definition pp_ok (p : pparams) : Prop :=
  pp_setup p = true -> pp_period p <> 0 /\ pp_period p <= pp_buffer p /\ pp_buffer p mod pp_period p = 0.
Definition params_wf (ps : list pparams) : Prop := Forall pp_ok ps.

Lemma params_wf_new f j st c : params_wf (s_params (snd_new f j st c)).
Proof. unfold snd_new. cbn [s_params]. apply Forall_forall. intros p Hp. apply repeat_spec in Hp. subst p. intros X. discriminate X. Qed.

Lemma Forall_upd {A} (P : A -> Prop) l i x : Forall P l -> P x -> Forall P (upd l i x).
Proof.
  revert i. induction l as [|h t IH]; intros i Hl Hx; [constructor|].
  inversion Hl; subst. destruct i; cbn [upd]; constructor; auto.
Qed.

(* every operation, every environment: the frames *)
Lemma ctl_request_frame s req e o s' evs vs : ctl_request s req e = Some (o, s', evs, vs) -> same_but_ctl s s'.
Proof.
  unfold ctl_request. destruct (add (s_ctl s) _ _ _) as [[o1 q1] ev1]. destruct o1.
  - destruct (can_pop q1 (ce_uidx e)); [|discriminate]. destruct (pop_used q1 _ _ _ _ _ _) as [[o2 q2] ev2].
    intros H. injection H as _ <- _ _. apply same_but_ctl_set.
  - intros H. injection H as _ <- _ _. apply same_but_ctl_set.
  - intros H. injection H as _ <- _ _. apply same_but_ctl_set.
  - intros H. injection H as _ <- _ _. apply same_but_ctl_set.
Qed.

Lemma query_infos_frame {A} s code count size (parse : list N -> A) e o s' evs vs :
  query_infos s code count size parse e = Some (o, s', evs, vs) -> same_but_ctl s s'.
Proof.
  unfold query_infos. destruct (ctl_request s _ e) as [[[[o1 s1] ev1] v1]|] eqn:E; [|discriminate].
  apply ctl_request_frame in E. destruct o1; [destruct (hdr_ok a)|..]; intros H; injection H as _ <- _ _; exact E.
Qed.

Lemma set_up_frame s e1 e2 e3 o s' evs vs : snd_set_up s e1 e2 e3 = Some (o, s', evs, vs) -> same_but_infos s s'.
Proof.
  unfold snd_set_up.
  destruct (query_infos s _ _ _ _ e1) as [[[[oj s1] ev1] v1]|] eqn:E1; [|discriminate].
  apply query_infos_frame in E1. destruct E1 as (A1 & A2 & A3 & A4 & A5 & A6 & A7 & A8 & A9 & A10 & A11).
  destruct (is_fatal oj). { intros H. injection H as _ <- _ _. unfold same_but_infos. repeat split; assumption. }
  destruct (query_infos _ _ _ _ _ e2) as [[[[op s2] ev2] v2]|] eqn:E2; [|discriminate].
  apply query_infos_frame in E2. destruct E2 as (B1 & B2 & B3 & B4 & B5 & B6 & B7 & B8 & B9 & B10 & B11).
  cbn [set_infos s_tx s_jacks s_streams s_chmaps s_set_up s_jack_infos s_pcm_infos s_chmap_infos s_params s_tok_buf s_tok_rsp] in *.
  destruct op as [pl|x| |]; try (intros H; injection H as _ <- _ _; unfold same_but_infos; repeat split; congruence).
  destruct (query_infos _ _ _ _ _ e3) as [[[[oc s3] ev3] v3]|] eqn:E3; [|discriminate].
  apply query_infos_frame in E3. destruct E3 as (C1 & C2 & C3 & C4 & C5 & C6 & C7 & C8 & C9 & C10 & C11).
  cbn [set_infos s_tx s_jacks s_streams s_chmaps s_set_up s_jack_infos s_pcm_infos s_chmap_infos s_params s_tok_buf s_tok_rsp] in *.
  destruct (is_fatal oc); intros H; injection H as _ <- _ _; unfold same_but_infos;
    cbn [set_infos s_tx s_jacks s_streams s_chmaps s_set_up s_params s_tok_buf s_tok_rsp]; repeat split; congruence.
Qed.

(* the part of the state the set_up prologue never touches, as a relation closed under composition *)
Definition same_core (s s' : sstate) : Prop :=
  s_tx s' = s_tx s /\ s_params s' = s_params s /\ s_tok_buf s' = s_tok_buf s /\ s_tok_rsp s' = s_tok_rsp s.

Lemma with_set_up_inv {A} (R : sstate -> sstate -> Prop) s es (k : sstate -> list cenv -> sres A) o s' evs vs :
  (forall a b, same_core a b -> R a b) ->
  (forall a b c, same_core a b -> R b c -> R a c) ->
  (forall s1 es1 o1 s2 ev1 v1, k s1 es1 = Some (o1, s2, ev1, v1) -> R s1 s2) ->
  with_set_up s es k = Some (o, s', evs, vs) -> R s s'.
Proof.
  intros Hrefl Htrans Hk. unfold with_set_up. destruct (s_set_up s). { apply Hk. }
  destruct (snd_set_up s _ _ _) as [[[[o1 s1] ev1] v1]|] eqn:E; [|discriminate].
  apply set_up_frame in E. destruct E as (A1 & _ & _ & _ & _ & A6 & A7 & A8).
  assert (Hc : same_core s s1) by (unfold same_core; auto).
  destruct o1; try (intros H; injection H as _ <- _ _; now apply Hrefl).
  destruct (k _ _) as [[[[o2 s2] ev2] v2]|] eqn:E2; [|discriminate].
  intros H. injection H as _ <- _ _. apply Hk in E2. eapply Htrans; [|exact E2].
  unfold same_core in *. cbn [set_infos s_tx s_params s_tok_buf s_tok_rsp]. exact Hc.
Qed.

(* ======================================================================================================= *)
(* 5. pcm_xfer                                                                                             *)
(* ---------- chunks ---------- *)
Definition piece_ok (period : N) (c : list N) : Prop := 1 <= lenN c <= period.

Lemma chunks_fuel_spec p : (1 <= p)%nat -> forall fuel l, (length l <= fuel)%nat ->
  concat (chunks_fuel fuel p l) = l
  /\ Forall (fun c => (1 <= length c <= p)%nat /\ (length c <= length l)%nat) (chunks_fuel fuel p l).
Proof.
  intros Hp. induction fuel as [|f IH]; intros l Hl.
  - destruct l; [split; [reflexivity|constructor]|simpl in Hl; lia].
  - destruct l as [|a l]; [split; [reflexivity|constructor]|].
    cbn [chunks_fuel]. set (L := a :: l) in *.
    assert (Hs : (length (skipn p L) <= f)%nat).
    { rewrite skipn_length. unfold L in *. simpl length in *. lia. }
    destruct (IH (skipn p L) Hs) as [Hc Hf]. split.
    + cbn [concat]. rewrite Hc. apply firstn_skipn.
    + constructor.
      * rewrite firstn_length. unfold L. simpl length. lia.
      * eapply Forall_impl; [|exact Hf]. intros c [A B]. split; [exact A|]. rewrite skipn_length in B. lia.
Qed.

Theorem chunks_spec period l :
  0 < period ->
  concat (chunks period l) = l /\ Forall (fun c => piece_ok period c /\ lenN c <= lenN l) (chunks period l).
Proof.
  intros Hp. unfold chunks. destruct l as [|a l]; [split; [reflexivity|constructor]|].
  set (L := a :: l). set (p := N.to_nat (N.min period (lenN L))).
  assert (H1 : (1 <= p)%nat). { unfold p, L. rewrite lenN_cons. lia. }
  destruct (chunks_fuel_spec p H1 (length L) L (le_n _)) as [Hc Hf]. split; [exact Hc|].
  eapply Forall_impl; [|exact Hf]. intros c [[A B] C]. unfold piece_ok, lenN. unfold p in B. unfold lenN in B. lia.
Qed.

(* ---------- arrays indexed modulo 32 ---------- *)
Lemma nth_upd_eq {A} (l : list A) i x d : (i < length l)%nat -> nth i (upd l i x) d = x.
Proof. revert i. induction l as [|h t IH]; intros [|i] H; simpl in *; try lia; auto. apply IH. lia. Qed.
Lemma nth_upd_neq {A} (l : list A) i j x d : i <> j -> nth j (upd l i x) d = nth j l d.
Proof. revert i j. induction l as [|h t IH]; intros [|i] [|j] H; simpl; auto; try congruence. Qed.
Lemma nthN_updN_same {A} (l : list A) i x d : i < lenN l -> nthN (updN l i x) i d = x.
Proof. unfold nthN, updN, lenN. intros H. apply nth_upd_eq. lia. Qed.
Lemma nthN_updN_other {A} (l : list A) i j x d : i <> j -> nthN (updN l i x) j d = nthN l j d.
Proof. unfold nthN, updN. intros H. apply nth_upd_neq. lia. Qed.

Lemma wrap32_mod i : i < 32 -> wrap32 i = (i + 1) mod 32.
Proof. intros H. unfold wrap32, SND_QUEUE_SIZE. destruct (N.leb_spec 32 (i + 1)); lia. Qed.

(* ---------- the loop invariant ---------- *)
Definition per_q (q : qstate) : N := if q_indirect q then 1 else 3.
Definition xbufs (cid clen i : N) : list (ubuf * bool) := tag_bufs (xfer_ins 0 cid clen 0) (xfer_outs i 0).

Record XInv (x : xst) (chains : list chain) : Prop := mkXInv {
  xi_size : q_size (x_q x) = 32;
  xi_tail : x_tail x < 32;
  xi_head : x_head x = (x_tail x + lenN chains) mod 32;
  xi_count : lenN chains <= 32;
  xi_ltok : lenN (x_tokens x) = 32;
  xi_lbuf : lenN (x_bufs x) = 32;
  xi_per : Forall (fun c => lenN (c_idxs c) = per_q (x_q x)) chains;
  xi_link : forall i c, nth_error chains i = Some c ->
      nthN (x_tokens x) ((x_tail x + N.of_nat i) mod 32) 0 = c_head c
      /\ exists cid clen, nthN (x_bufs x) ((x_tail x + N.of_nat i) mod 32) None = Some (cid, clen)
                          /\ keys (c_bufs c) = keys (xbufs cid clen ((x_tail x + N.of_nat i) mod 32)) }.

Lemma all_idxs_per chains k : Forall (fun c => lenN (c_idxs c) = k) chains -> lenN (all_idxs chains) = k * lenN chains.
Proof.
  induction 1 as [|c chains Hc _ IH]; [cbn; lia|].
  change (all_idxs (c :: chains)) with (c_idxs c ++ all_idxs chains). rewrite lenN_app, lenN_cons, IH, Hc. lia.
Qed.

(* never more outstanding than the queue admits: a consequence of the invariant at every point of the loop *)
Theorem xfer_outstanding_bound x chains h :
  Reach (x_q x) chains h -> XInv x chains ->
  q_num_used (x_q x) = per_q (x_q x) * lenN chains /\ per_q (x_q x) * lenN chains <= 32.
Proof.
  intros HR XI. destruct (counts_exact _ _ _ HR) as (Hnu & Hle & _).
  rewrite (all_idxs_per chains _ (xi_per _ _ XI)) in Hnu. rewrite (xi_size _ _ XI) in Hle. split; [exact Hnu|lia].
Qed.

Lemma avail3 x chains h :
  Reach (x_q x) chains h -> XInv x chains -> (3 <=? available_desc (x_q x)) = true ->
  lenN chains < 32 /\ capacity_ok (x_q x) 3 = true.
Proof.
  intros HR XI Ha. destruct (xfer_outstanding_bound x chains h HR XI) as [Hnu Hb].
  unfold available_desc, capacity_ok, per_q in *. rewrite (xi_size _ _ XI) in *. rewrite Hnu in *.
  destruct (q_indirect (x_q x)); cbn [negb andb] in *.
  - destruct (N.eqb_spec (1 * lenN chains) 32); [cbn in Ha; discriminate|]. lia.
  - lia.
Qed.

(* what the device obtains from the chain of one chunk *)
Lemma xfer_view sid k c asid achunk i astat :
  asid <> achunk ->
  view_of (fun id => if id =? ID_SID then enc_xfer_hdr sid else if id =? id_chunk k then c else [])
          (xfer_ins asid (id_chunk k) (lenN c) achunk) (xfer_outs i astat)
  = Some (enc_xfer_hdr sid ++ c, 8).
Proof.
  intros Hne. unfold view_of, shared_mem, xfer_ins, xfer_outs.
  cbn [tag_bufs map app buf_shares fold_left hal_share hal_ev fst snd b_id b_len b_addr w_caller w_dev elems concat].
  unfold el_bytes. cbn [fst snd]. rewrite aset_eq, (aset_neq _ achunk _ asid Hne), aset_eq.
  assert (E1 : (ID_SID =? ID_SID) = true) by reflexivity. rewrite E1.
  assert (E2 : (id_chunk k =? ID_SID) = false) by (unfold id_chunk, ID_SID; lia). rewrite E2, N.eqb_refl.
  assert (L4 : lenN (enc_xfer_hdr sid) = 4) by reflexivity.
  rewrite (takeN_all 4 _ L4), (takeN_all 4 _ L4), (takeN_all (lenN c) c eq_refl), (takeN_all (lenN c) c eq_refl).
  rewrite app_nil_r. cbn [sumN]. reflexivity.
Qed.

Definition view_piece (sid : N) (c : list N) : dview := Some (enc_xfer_hdr sid ++ c, 8).

(* ---------- the first half of an iteration ---------- *)
Lemma xfer_add_step sid e x chains h :
  Reach (x_q x) chains h -> XInv x chains ->
  Forall (fun c => 1 <= lenN c /\ lenN c < two32) (x_rem x) ->
  xe_asid e <> xe_achunk e ->
  (* nothing to add, or no room: the locals are unchanged *)
  (xfer_add sid e x = (XCont x, [], []))
  (* the loop ends: nothing is outstanding and nothing remains *)
  \/ (xfer_add sid e x = (XDone (Ok tt) (x_q x), [], []) /\ chains = [] /\ x_rem x = [])
  (* the next chunk is published *)
  \/ (exists c rest x1 evs cn h1,
        x_rem x = c :: rest /\ xfer_add sid e x = (XCont x1, evs, [view_piece sid c])
        /\ x_rem x1 = rest /\ x_tail x1 = x_tail x
        /\ Reach (x_q x1) (chains ++ [cn]) h1 /\ XInv x1 (chains ++ [cn])).
Proof.
  intros HR XI Hrem Haddr. unfold xfer_add.
  destruct (3 <=? available_desc (x_q x)) eqn:Ha; [|now left].
  destruct (avail3 x chains h HR XI Ha) as [Hlt Hcap].
  destruct (x_rem x) as [|c rest] eqn:Er.
  - destruct (N.eqb_spec (x_head x) (x_tail x)) as [E|E]; [|now left].
    right. left. split; [reflexivity|]. split; [|reflexivity].
    rewrite (xi_head _ _ XI) in E. pose proof (xi_tail _ _ XI) as Ht.
    assert (lenN chains = 0) by lia. destruct chains; [reflexivity|]. rewrite lenN_cons in H. lia.
  - right. right.
    inversion Hrem as [|? ? [Hc1 Hc2] Hrest]; subst.
    set (ins := xfer_ins (xe_asid e) (id_chunk (x_k x)) (lenN c) (xe_achunk e)).
    set (outs := xfer_outs (x_head x) (xe_astat e)).
    assert (Hok : bufs_ok (tag_bufs ins outs)).
    { unfold ins, outs, xfer_ins, xfer_outs. cbn [tag_bufs map app]. repeat constructor; cbn [fst b_len]; unfold two32 in *; lia. }
    assert (Hnn : tag_bufs ins outs <> []) by discriminate.
    assert (Hl3 : lenN (tag_bufs ins outs) = 3) by reflexivity.
    rewrite <- Hl3 in Hcap.
    destruct (add_step (x_q x) chains h ins outs (xe_taddr e) HR Hok Hnn Hcap)
      as (q1 & evs1 & Hadd & HR1 & Hch & Hcb & Hsz1 & Hind1 & _ & _ & Hper & Hview).
    rewrite Hadd. rewrite Hview. unfold ins, outs. rewrite (xfer_view sid (x_k x) c _ _ _ _ Haddr).
    set (cn := new_chain (x_q x) ins outs (xe_taddr e)) in *.
    eexists c, rest, _, _, cn, _. split; [reflexivity|]. split; [reflexivity|].
    cbn [x_rem x_tail x_q]. split; [reflexivity|]. split; [reflexivity|]. split; [exact HR1|].
    pose proof (xi_tail _ _ XI) as Ht. pose proof (xi_head _ _ XI) as Hh.
    assert (Hh32 : x_head x < 32) by (rewrite Hh; apply N.mod_lt; discriminate).
    constructor; cbn [x_q x_tail x_head x_tokens x_bufs].
    + rewrite Hsz1. apply (xi_size _ _ XI).
    + exact Ht.
    + rewrite lenN_app, lenN_cons, lenN_nil, wrap32_mod by exact Hh32. rewrite Hh. lia.
    + rewrite lenN_app, lenN_cons, lenN_nil. lia.
    + rewrite lenN_updN. apply (xi_ltok _ _ XI).
    + rewrite lenN_updN. apply (xi_lbuf _ _ XI).
    + apply Forall_app. split.
      * eapply Forall_impl; [|exact (xi_per _ _ XI)]. intros c0 Hc0. unfold per_q in *. now rewrite Hind1.
      * constructor; [|constructor]. fold cn in Hper. rewrite Hper, Hl3. unfold per, per_q. rewrite Hind1.
        destruct (q_indirect (x_q x)); reflexivity.
    + intros i c0 Hi.
      assert (Hil : (i < length (chains ++ [cn]))%nat) by (apply nth_error_Some; congruence).
      rewrite app_length in Hil. cbn [length] in Hil.
      destruct (Nat.eq_dec i (length chains)) as [->|Hne].
      * rewrite nth_error_app2, Nat.sub_diag in Hi by lia. cbn [nth_error] in Hi. injection Hi as <-.
        assert (Ej : (x_tail x + N.of_nat (length chains)) mod 32 = x_head x) by (rewrite Hh; reflexivity).
        rewrite Ej. split.
        -- rewrite nthN_updN_same by (rewrite (xi_ltok _ _ XI); exact Hh32). fold cn in Hch. now rewrite Hch.
        -- exists (id_chunk (x_k x)), (lenN c). split.
           ++ apply nthN_updN_same. rewrite (xi_lbuf _ _ XI). exact Hh32.
           ++ fold cn in Hcb. rewrite Hcb. reflexivity.
      * rewrite nth_error_app1 in Hi by lia.
        assert (Hj : x_head x <> (x_tail x + N.of_nat i) mod 32).
        { rewrite Hh. unfold lenN in *. lia. }
        rewrite !nthN_updN_other by exact Hj. apply (xi_link _ _ XI). exact Hi.
Qed.

(* ---------- the second half ---------- *)
Lemma xfer_pop_step e x chains h :
  Reach (x_q x) chains h -> XInv x chains ->
  (can_pop (x_q x) (xe_uidx e) = true ->
     q_num_used (x_q x) <> 0 /\ w16 (xe_uid e) = nthN (x_tokens x) (x_tail x) 0 /\ w32 (xe_st e) = CC_SOk) ->
  exists x1 evs chains1 h1,
    xfer_pop e x = (XCont x1, evs) /\ x_rem x1 = x_rem x
    /\ Reach (x_q x1) chains1 h1 /\ XInv x1 chains1
    /\ (chains1 = chains \/ exists c, chains = c :: chains1).
Proof.
  intros HR XI Hdev. unfold xfer_pop.
  destruct (can_pop (x_q x) (xe_uidx e)) eqn:Hcp.
  2:{ exists x, [], chains, h. split; [reflexivity|]. split; [reflexivity|]. split; [exact HR|]. split; [exact XI|now left]. }
  destruct (Hdev eq_refl) as (Hnu & Htok & Hst).
  destruct (xfer_outstanding_bound x chains h HR XI) as [Hnum _].
  destruct chains as [|c rest]. { rewrite Hnum in Hnu. cbn in Hnu. lia. }
  pose proof (xi_tail _ _ XI) as Ht.
  destruct (xi_link _ _ XI 0%nat c eq_refl) as (Hl1 & cid & clen & Hl2 & Hl3).
  assert (Ej : (x_tail x + N.of_nat 0) mod 32 = x_tail x) by (change (N.of_nat 0) with 0; rewrite N.add_0_r; apply N.mod_small; exact Ht).
  rewrite Ej in Hl1, Hl2, Hl3. rewrite Hl2, Hl1.
  unfold can_pop in Hcp. destruct (N.eqb_spec (q_last_used (x_q x)) (w16 (xe_uidx e))) as [|E1]; [discriminate|].
  rewrite Hl1 in Htok.
  assert (Hk : keys (tag_bufs (xfer_ins 0 cid clen 0) (xfer_outs (x_tail x) 0)) = keys (c_bufs c)) by (symmetry; exact Hl3).
  destruct (pop_refines (x_q x) [] c rest h _ _ (xe_uidx e) (xe_uid e) (xe_ulen e) HR Hk) as (_ & _ & P3).
  destruct (P3 E1 Htok) as (q1 & evs1 & Hpop & HR1 & _ & _ & _ & _ & _ & _ & _ & Hsz1 & Hind1 & _).
  rewrite Hpop, Hst, N.eqb_refl. cbn [negb app] in *.
  eexists _, _, rest, _. split; [reflexivity|]. cbn [x_rem x_q]. split; [reflexivity|]. split; [exact HR1|].
  split; [|right; eauto].
  pose proof (xi_head _ _ XI) as Hh. pose proof (xi_count _ _ XI) as Hcn. rewrite lenN_cons in Hh, Hcn.
  constructor; cbn [x_q x_tail x_head x_tokens x_bufs].
  - rewrite Hsz1. apply (xi_size _ _ XI).
  - rewrite wrap32_mod by exact Ht. apply N.mod_lt. discriminate.
  - rewrite wrap32_mod by exact Ht. rewrite Hh. lia.
  - lia.
  - apply (xi_ltok _ _ XI).
  - apply (xi_lbuf _ _ XI).
  - pose proof (xi_per _ _ XI) as Hp. inversion Hp; subst. eapply Forall_impl; [|eassumption].
    intros c0 Hc0. unfold per_q in *. now rewrite Hind1.
  - intros i c0 Hi.
    assert (Ei : (wrap32 (x_tail x) + N.of_nat i) mod 32 = (x_tail x + N.of_nat (S i)) mod 32).
    { rewrite wrap32_mod by exact Ht. lia. }
    rewrite Ei. apply (xi_link _ _ XI (S i) c0). exact Hi.
Qed.

(* any status other than OK on a completed transfer: the call fails with IoError, for every status value *)
Theorem xfer_pop_status e x cid clen v q1 evs :
  can_pop (x_q x) (xe_uidx e) = true -> nthN (x_bufs x) (x_tail x) None = Some (cid, clen) ->
  pop_used (x_q x) (nthN (x_tokens x) (x_tail x) 0) (xfer_ins 0 cid clen 0) (xfer_outs (x_tail x) 0)
           (xe_uidx e) (xe_uid e) (xe_ulen e) = (Ok v, q1, evs) ->
  w32 (xe_st e) <> SND_S_OK ->
  xfer_pop e x = (XDone (Err EIoError) q1, sq TX_Q evs).
Proof.
  intros Hc Hb Hp Hs. unfold xfer_pop. rewrite Hc, Hb, Hp.
  destruct (N.eqb_spec (w32 (xe_st e)) CC_SOk) as [E|_]; [contradiction|]. reflexivity.
Qed.

(* ---------- the whole loop ---------- *)
(* the device's side of one iteration, for the blocking call: the two device-readable buffers of a message are
   shared at different addresses (Hal contract), and if the used ring shows something new then a transfer is
   outstanding, the used element names the OLDEST outstanding one (in-order completion) and the status the
   device wrote for it is OK (no device error). Nothing is said about WHEN the device completes, nor how many
   transfers at a time. *)
Definition env_ok (sid : N) (e : xenv) (x : xst) : Prop :=
  xe_asid e <> xe_achunk e /\
  match xfer_add sid e x with
  | (XCont x1, _, _) =>
      can_pop (x_q x1) (xe_uidx e) = true ->
      q_num_used (x_q x1) <> 0 /\ w16 (xe_uid e) = nthN (x_tokens x1) (x_tail x1) 0 /\ w32 (xe_st e) = CC_SOk
  | _ => True
  end.

Fixpoint envs_in_order (sid : N) (envs : list xenv) (x : xst) : Prop :=
  match envs with
  | [] => True
  | e :: rest =>
      env_ok sid e x /\ match xfer_iter sid e x with (XCont x', _, _) => envs_in_order sid rest x' | _ => True end
  end.

Lemma xfer_loop_inv sid :
  forall envs x chains h o q' evs vs,
  Reach (x_q x) chains h -> XInv x chains ->
  Forall (fun c => 1 <= lenN c /\ lenN c < two32) (x_rem x) ->
  envs_in_order sid envs x ->
  xfer_loop sid envs x = Some (o, q', evs, vs) ->
  o = Ok tt /\ vs = map (view_piece sid) (x_rem x) /\ (exists h', Reach q' [] h') /\ q_size q' = 32.
Proof.
  induction envs as [|e envs IH]; intros x chains h o q' evs vs HR XI Hrem Hord Hrun; [discriminate|].
  cbn [xfer_loop envs_in_order] in Hrun, Hord. destruct Hord as [[Haddr Hdev] Hnext].
  unfold xfer_iter in Hrun, Hnext.
  destruct (xfer_add_step sid e x chains h HR XI Hrem Haddr)
    as [Ea|[(Ea & -> & Er)|(c & rest & x1 & evs1 & cn & h1 & Er & Ea & Er1 & Et1 & HR1 & XI1)]]; rewrite Ea in *.
  - (* nothing added *)
    destruct (xfer_pop_step e x chains h HR XI Hdev) as (x2 & evs2 & chains2 & h2 & Ep & Er2 & HR2 & XI2 & _).
    rewrite Ep in *. cbn [app] in *.
    destruct (xfer_loop sid envs x2) as [[[[o2 q2] evs3] vs3]|] eqn:El; [|discriminate].
    injection Hrun as <- <- <- <-.
    rewrite <- Er2 in Hrem. destruct (IH x2 chains2 h2 _ _ _ _ HR2 XI2 Hrem Hnext El) as (A & B & C & D).
    rewrite Er2 in B. auto.
  - (* the loop ends *)
    injection Hrun as <- <- <- <-. rewrite Er. split; [reflexivity|]. split; [reflexivity|].
    split; [eauto|]. apply (xi_size _ _ XI).
  - (* a chunk is published, then possibly a completion consumed *)
    destruct (xfer_pop_step e x1 _ h1 HR1 XI1 Hdev) as (x2 & evs2 & chains2 & h2 & Ep & Er2 & HR2 & XI2 & _).
    rewrite Ep in *.
    destruct (xfer_loop sid envs x2) as [[[[o2 q2] evs3] vs3]|] eqn:El; [|discriminate].
    injection Hrun as <- <- <- <-.
    rewrite Er in Hrem. apply Forall_inv_tail in Hrem. rename Hrem into Hrest.
    rewrite Er1 in Er2. rewrite <- Er2 in Hrest.
    destruct (IH x2 chains2 h2 _ _ _ _ HR2 XI2 Hrest Hnext El) as (A & B & C & D).
    rewrite Er2 in B. rewrite Er. cbn [map app]. rewrite B. auto.
Qed.

Lemma XInv_init q period frames : q_size q = 32 -> XInv (xst_init q period frames) [].
Proof.
  intros Hs. constructor; cbn [xst_init x_q x_tail x_head x_tokens x_bufs]; try reflexivity; try (cbn; lia); try exact Hs.
  - constructor.
  - intros [|i] c H; discriminate H.
Qed.

Definition decode_view (v : dview) : option (N * list N) :=
  match v with Some (rb, wl) => spec_decode_tx rb wl | None => None end.

(* C20_snd_pcm_blocking: for every frame buffer, every period > 0, every stream id, every timing and batching of
   the device's (in-order, error-free) completions, every share address: the loop ends with Ok, the queue is idle
   again, and the TX messages the device received, in order, each decode (specification decoder on device-visible
   memory) to (this stream id, piece) where the pieces are non-empty, at most `period` bytes long and concatenate
   to exactly the caller's frames. *)
Theorem xfer_blocking sid period frames envs q0 h0 o q' evs vs :
  Reach q0 [] h0 -> q_size q0 = 32 -> sid < two32 -> 0 < period -> lenN frames < two32 ->
  envs_in_order sid envs (xst_init q0 period frames) ->
  xfer_loop sid envs (xst_init q0 period frames) = Some (o, q', evs, vs) ->
  o = Ok tt
  /\ (exists pieces,
        spec_pieces_ok period frames pieces
        /\ map decode_view vs = map (fun c => Some (sid, c)) pieces
        /\ vs = map (view_piece sid) pieces)
  /\ (exists h', Reach q' [] h') /\ q_size q' = 32.
Proof.
  intros HR Hs Hsid Hp Hf Hord Hrun.
  destruct (chunks_spec period frames Hp) as [Hc Hpc].
  assert (Hrem : Forall (fun c => 1 <= lenN c /\ lenN c < two32) (x_rem (xst_init q0 period frames))).
  { cbn [xst_init x_rem]. eapply Forall_impl; [|exact Hpc]. intros c [[A B] C]. lia. }
  destruct (xfer_loop_inv sid envs (xst_init q0 period frames) [] h0 o q' evs vs HR (XInv_init q0 period frames Hs) Hrem Hord Hrun) as (A & B & C & D).
  split; [exact A|]. split; [|split; assumption].
  exists (chunks period frames). cbn [xst_init x_rem] in B. split; [|split; [|exact B]].
  - split; [exact Hc|]. eapply Forall_impl; [|exact Hpc]. intros c [H _]. exact H.
  - rewrite B, map_map. apply map_ext. intros c. unfold decode_view, view_piece. now apply xfer_hdr_roundtrip.
Qed.

Definition same_but_tx (s s' : sstate) : Prop :=
  s_ctl s' = s_ctl s /\ s_jacks s' = s_jacks s /\ s_streams s' = s_streams s /\ s_chmaps s' = s_chmaps s
  /\ s_set_up s' = s_set_up s /\ s_jack_infos s' = s_jack_infos s /\ s_pcm_infos s' = s_pcm_infos s
  /\ s_chmap_infos s' = s_chmap_infos s /\ s_params s' = s_params s /\ s_tok_buf s' = s_tok_buf s
  /\ s_tok_rsp s' = s_tok_rsp s.

Definition tx_idle (s : sstate) : Prop := (exists h, Reach (s_tx s) [] h) /\ q_size (s_tx s) = 32.

(* the public function, once set_up has run and parameters have been accepted for the stream *)
Theorem pcm_xfer_spec s sid frames es xenvs p o s' evs vs :
  s_set_up s = true -> nth_safe (s_params s) sid = Some p -> pp_setup p = true -> pp_period p <> 0 ->
  tx_idle s -> sid < two32 -> lenN frames < two32 ->
  envs_in_order sid xenvs (xst_init (s_tx s) (pp_period p) frames) ->
  snd_pcm_xfer s sid frames es xenvs = Some (o, s', evs, vs) ->
  o = Ok tt
  /\ (exists pieces,
        spec_pieces_ok (pp_period p) frames pieces
        /\ map decode_view vs = map (fun c => Some (sid, c)) pieces)
  /\ tx_idle s' /\ same_but_tx s s'.
Proof.
  intros Hsu Hn Hset Hper [[h0 HR] Hsz] Hsid Hf Hord. unfold snd_pcm_xfer. rewrite with_set_up_done by exact Hsu.
  rewrite Hn, Hset. cbn [negb]. destruct (N.eqb_spec (pp_period p) 0) as [|_]; [contradiction|].
  destruct (xfer_loop sid xenvs _) as [[[[o1 q1] ev1] v1]|] eqn:El; [|discriminate].
  intros H. injection H as <- <- <- <-.
  destruct (xfer_blocking sid (pp_period p) frames xenvs (s_tx s) h0 _ _ _ _ HR Hsz Hsid ltac:(lia) Hf Hord El)
    as (A & (pieces & B1 & B2 & _) & C & D).
  split; [exact A|]. split; [eauto|]. split; [split; assumption|].
  unfold same_but_tx, set_tx. cbn. repeat split.
Qed.

Definition ex_q0 : qstate := qnew 32 false false.
Definition ex_envs : list xenv :=
  [mkXE 100 200 300 0 0 0 0 0 0 0;                 (* chunk 0 published, nothing completed yet *)
   mkXE 110 210 310 0 0 0 1 0 8 32768;             (* chunk 1 published, chunk 0 (token 0) completed OK *)
   mkXE 0 1 0 0 0 0 2 3 8 32768;                   (* nothing left to publish, chunk 1 (token 3) completed OK *)
   mkXE 0 1 0 0 0 0 2 0 0 0].                      (* nothing outstanding: the loop ends *)

Example xfer_blocking_nonvacuous :
  envs_in_order 7 ex_envs (xst_init ex_q0 2 [1; 2; 3])
  /\ exists q evs vs, xfer_loop 7 ex_envs (xst_init ex_q0 2 [1; 2; 3]) = Some (Ok tt, q, evs, vs)
                      /\ map decode_view vs = [Some (7, [1; 2]); Some (7, [3])].
Proof.
  split.
  - vm_compute. repeat split; try discriminate; intros; try reflexivity; try (intros X; discriminate X).
  - eexists; eexists; eexists. split; vm_compute; reflexivity.
Qed.

(* ======================================================================================================= *)
(* 6. pcm_xfer_nb / pcm_xfer_ok: any number outstanding, every completion order                            *)
Definition nb_bufs (bid blen rid : N) : list (ubuf * bool) := tag_bufs [mkBuf bid blen 0] [mkBuf rid 8 0].

(* the token maps describe exactly the outstanding chains *)
Definition nb_entry (s : sstate) (c : chain) : Prop :=
  exists bid buf rid, map_get (s_tok_buf s) (c_head c) = Some (bid, buf) /\ map_get (s_tok_rsp s) (c_head c) = Some rid
                      /\ keys (c_bufs c) = keys (nb_bufs bid (lenN buf) rid).
Definition NbInv (s : sstate) (chains : list chain) : Prop :=
  (exists h, Reach (s_tx s) chains h) /\ q_size (s_tx s) = 32 /\ Forall (nb_entry s) chains.

Lemma map_get_insert_same {A} (m : list (N * A)) k v : map_get (map_insert m k v) k = Some v.
Proof. unfold map_insert. cbn [map_get]. now rewrite N.eqb_refl. Qed.
Lemma map_get_remove_other {A} (m : list (N * A)) k j : j <> k -> map_get (map_remove m k) j = map_get m j.
Proof.
  intros H. induction m as [|[k' v] m IH]; [reflexivity|]. cbn [map_remove filter fst].
  destruct (N.eqb_spec k' k) as [->|Hk]; cbn [negb].
  - cbn [map_get]. destruct (N.eqb_spec k j); [congruence|]. exact IH.
  - cbn [map_get]. fold (map_remove m k). now rewrite IH.
Qed.
Lemma map_get_insert_other {A} (m : list (N * A)) k v j : j <> k -> map_get (map_insert m k v) j = map_get m j.
Proof.
  intros H. unfold map_insert. cbn [map_get]. destruct (N.eqb_spec k j); [congruence|]. now apply map_get_remove_other.
Qed.
Lemma map_get_remove_same {A} (m : list (N * A)) k : map_get (map_remove m k) k = None.
Proof.
  induction m as [|[k' v] m IH]; [reflexivity|]. cbn [map_remove filter fst].
  destruct (N.eqb_spec k' k) as [->|Hk]; cbn [negb]; [exact IH|].
  cbn [map_get]. destruct (N.eqb_spec k' k); [contradiction|]. exact IH.
Qed.

Lemma head_in_idxs s chains c : Inv s chains -> In c chains -> In (c_head c) (c_idxs c).
Proof.
  intros (fl & _ & _ & _ & _ & _ & Hch & _) Hin. rewrite Forall_forall in Hch. specialize (Hch c Hin).
  unfold chain_ok in Hch. destruct (c_tbl c) as [[ta tbl]|].
  - destruct Hch as (-> & _). now left.
  - destruct Hch as (Hd & -> & _). destruct (dchain_length _ _ _ Hd) as [_ Hne]. destruct (c_idxs c); [congruence|now left].
Qed.

Lemma set_tx_id s : set_tx s (s_tx s) = s.
Proof. destruct s; reflexivity. Qed.

Lemma capacity_32 q n : q_size q = 32 -> 1 <= n <= 3 ->
  capacity_ok q n = (if q_indirect q then q_num_used q <? 32 else q_num_used q + n <=? 32).
Proof. intros Hs Hn. unfold capacity_ok. rewrite Hs. destruct (q_indirect q); cbn [negb andb]; lia. Qed.

Lemma in_all_idxs chains c x : In c chains -> In x (c_idxs c) -> In x (all_idxs chains).
Proof. intros Hc Hx. unfold all_idxs. apply in_concat. exists (c_idxs c). split; [now apply in_map|exact Hx]. Qed.

(* different outstanding chains have different tokens *)
Lemma heads_distinct s pre c post h :
  Reach s (pre ++ c :: post) h -> forall c', In c' (pre ++ post) -> c_head c' <> c_head c.
Proof.
  intros HR c' Hin E. destruct (Reach_Inv _ _ _ HR) as [HI _].
  destruct (chains_disjoint _ _ _ HR) as (Hnd & _). rewrite all_idxs_mid in Hnd.
  assert (Hc : In (c_head c) (c_idxs c)) by (eapply head_in_idxs; [exact HI|apply in_or_app; right; now left]).
  assert (Hc' : In (c_head c') (c_idxs c')).
  { eapply head_in_idxs; [exact HI|]. apply in_app_or in Hin. apply in_or_app. destruct Hin; [now left|right; now right]. }
  rewrite E in Hc'. apply in_app_or in Hin. destruct Hin as [Hp|Hp].
  - eapply (NoDup_app_disj _ _ (c_head c) Hnd); [eapply in_all_idxs; eauto|apply in_or_app; now left].
  - apply NoDup_app_remove_l in Hnd. eapply (NoDup_app_disj _ _ (c_head c) Hnd); [exact Hc|eapply in_all_idxs; eauto].
Qed.

(* C20_snd_nb_submit: a token transfer, with anything else outstanding *)
Theorem xfer_nb_spec s chains sid frames bid rid es e p :
  s_set_up s = true -> nth_safe (s_params s) sid = Some p -> pp_setup p = true -> pp_period p = lenN frames ->
  frames <> [] -> NbInv s chains -> sid < two32 -> 4 + lenN frames < two32 ->
  let buf := enc_xfer_hdr sid ++ frames in
  (* no room: refused, nothing shared, stored or notified *)
  (capacity_ok (s_tx s) 2 = false -> snd_pcm_xfer_nb s sid frames bid rid es e = Some (Err EQueueFull, s, [], []))
  /\ (capacity_ok (s_tx s) 2 = true ->
      exists s' evs cn,
        snd_pcm_xfer_nb s sid frames bid rid es e = Some (Ok (q_free_head (s_tx s)), s', evs, [Some (buf, 8)])
        (* the device finds one message: this stream id, exactly the caller's frames (one period), 8 writable bytes *)
        /\ decode_view (Some (buf, 8)) = Some (sid, frames) /\ lenN frames = pp_period p
        /\ c_head cn = q_free_head (s_tx s) /\ NbInv s' (chains ++ [cn])
        /\ map_get (s_tok_buf s') (q_free_head (s_tx s)) = Some (bid, buf)
        /\ s_params s' = s_params s /\ s_ctl s' = s_ctl s /\ s_set_up s' = s_set_up s /\ s_pcm_infos s' = s_pcm_infos s).
Proof.
  intros Hsu Hn Hset Hper Hne ([h HR] & Hsz & Hent) Hsid Hlen buf.
  unfold snd_pcm_xfer_nb. rewrite with_set_up_done by exact Hsu. rewrite Hn, Hset, Hper, N.eqb_refl. cbn [negb].
  fold buf.
  set (ins := [mkBuf bid (lenN buf) (ne_abuf e)]). set (outs := [mkBuf rid 8 (ne_arsp e)]).
  assert (Lb : lenN buf = 4 + lenN frames) by (unfold buf; rewrite lenN_app; reflexivity).
  assert (Hok : bufs_ok (tag_bufs ins outs)).
  { unfold ins, outs. cbn [tag_bufs map app]. repeat constructor; cbn [fst b_len]; unfold two32 in *; lia. }
  assert (Hnn : tag_bufs ins outs <> []) by discriminate.
  destruct (add_refusals (s_tx s) chains h ins outs (ne_taddr e) HR Hok) as (_ & R2 & _).
  split.
  - intros Hc. rewrite (R2 Hnn Hc). cbn [fail_as sq map]. now rewrite set_tx_id.
  - intros Hc.
    destruct (add_step (s_tx s) chains h ins outs (ne_taddr e) HR Hok Hnn Hc)
      as (q1 & evs1 & Hadd & HR1 & Hch & Hcb & Hsz1 & _ & _ & _ & _ & Hview).
    rewrite Hadd, Hview.
    assert (Hv : view_of (fun id : N => if id =? bid then buf else []) ins outs = Some (buf, 8)).
    { unfold view_of, shared_mem, ins, outs.
      cbn [tag_bufs map app buf_shares fold_left hal_share hal_ev fst snd b_id b_len b_addr w_caller w_dev elems concat].
      unfold el_bytes. cbn [fst snd]. rewrite aset_eq, N.eqb_refl.
      repeat rewrite (takeN_all (lenN buf) buf eq_refl). rewrite app_nil_r. cbn [sumN]. reflexivity. }
    rewrite Hv. set (cn := new_chain (s_tx s) ins outs (ne_taddr e)) in *.
    eexists; eexists; exists cn. split; [reflexivity|].
    split; [unfold decode_view, buf; now apply xfer_hdr_roundtrip|]. split; [first [reflexivity|now rewrite Hper]|]. split; [exact Hch|].
    cbn [set_toks s_tx s_tok_buf s_tok_rsp s_params s_ctl s_set_up s_pcm_infos].
    split.
    { unfold NbInv. cbn [set_toks s_tx s_tok_buf s_tok_rsp].
      split; [eauto|]. split; [rewrite Hsz1; exact Hsz|].
      apply Forall_app. split.
      - rewrite Forall_forall in Hent |- *. intros c Hc0. destruct (Hent c Hc0) as (b0 & bf0 & r0 & G1 & G2 & G3).
        assert (Hd : c_head c <> q_free_head (s_tx s)).
        { rewrite <- Hch. apply (heads_distinct q1 chains cn [] _ HR1). rewrite app_nil_r. exact Hc0. }
        exists b0, bf0, r0. cbn [set_toks s_tok_buf s_tok_rsp]. rewrite !map_get_insert_other by exact Hd. auto.
      - constructor; [|constructor]. exists bid, buf, rid. cbn [set_toks s_tok_buf s_tok_rsp]. rewrite Hch.
        rewrite !map_get_insert_same. split; [reflexivity|]. split; [reflexivity|]. rewrite Hcb. reflexivity. }
    split; [apply map_get_insert_same|]. repeat split.
Qed.


Definition ok_result (check_status : bool) (st : N) : outcome unit :=
  if check_status && negb (w32 st =? CC_SOk) then Err EIoError else Ok tt.

(* C20_snd_nb_complete: pcm_xfer_ok for the token of chain c, with anything else outstanding (pre, post), for every
   used-ring content and every status value *)
Theorem xfer_ok_spec chk s pre c post u_idx u_id u_len st :
  NbInv s (pre ++ c :: post) ->
  (q_last_used (s_tx s) = w16 u_idx ->
     snd_pcm_xfer_ok_gen chk s (c_head c) u_idx u_id u_len st = (Err ENotReady, s, []))
  /\ (q_last_used (s_tx s) <> w16 u_idx -> w16 u_id <> c_head c ->
     snd_pcm_xfer_ok_gen chk s (c_head c) u_idx u_id u_len st = (Err EWrongToken, s, []))
  /\ (q_last_used (s_tx s) <> w16 u_idx -> w16 u_id = c_head c ->
     exists s' evs,
       snd_pcm_xfer_ok_gen chk s (c_head c) u_idx u_id u_len st = (ok_result chk st, s', evs)
       /\ NbInv s' (pre ++ post)
       /\ map_get (s_tok_buf s') (c_head c) = None /\ map_get (s_tok_rsp s') (c_head c) = None
       /\ s_params s' = s_params s /\ s_ctl s' = s_ctl s /\ s_set_up s' = s_set_up s /\ s_pcm_infos s' = s_pcm_infos s).
Proof.
  intros ([h HR] & Hsz & Hent).
  assert (Hc : nb_entry s c) by (rewrite Forall_forall in Hent; apply Hent; apply in_or_app; right; now left).
  destruct Hc as (bid & buf & rid & G1 & G2 & G3).
  unfold snd_pcm_xfer_ok_gen. rewrite G1, G2.
  assert (Hk : keys (tag_bufs [mkBuf bid (lenN buf) 0] [mkBuf rid 8 0]) = keys (c_bufs c)) by (symmetry; exact G3).
  destruct (pop_refines (s_tx s) pre c post h _ _ u_idx u_id u_len HR Hk) as (P1 & P2 & P3).
  split; [|split].
  - intros E. destruct (P1 E) as [-> _]. cbn [fail_as sq map]. now rewrite set_tx_id.
  - intros E1 E2. destruct (P2 E1 E2) as [-> _]. cbn [fail_as sq map]. now rewrite set_tx_id.
  - intros E1 E2. destruct (P3 E1 E2) as (q1 & evs1 & -> & HR1 & _ & _ & _ & _ & _ & _ & _ & Hsz1 & _).
    eexists; eexists. split; [reflexivity|].
    cbn [set_toks s_tx s_tok_buf s_tok_rsp s_params s_ctl s_set_up s_pcm_infos].
    split; [|split; [apply map_get_remove_same|split; [apply map_get_remove_same|repeat split]]].
    unfold NbInv. cbn [set_toks s_tx s_tok_buf s_tok_rsp]. split; [eauto|]. split; [congruence|].
    rewrite Forall_forall in Hent |- *. intros c' Hc'.
    assert (Hd : c_head c' <> c_head c) by (eapply heads_distinct; eauto).
    destruct (Hent c') as (b0 & bf0 & r0 & F1 & F2 & F3).
    { apply in_app_or in Hc'. apply in_or_app. destruct Hc'; [now left|right; now right]. }
    exists b0, bf0, r0. cbn [set_toks s_tok_buf s_tok_rsp]. rewrite !map_get_remove_other by exact Hd. auto.
Qed.

(* a token that is not outstanding: the documented assertion *)
Lemma xfer_ok_unknown chk s token u_idx u_id u_len st :
  map_get (s_tok_buf s) token = None -> snd_pcm_xfer_ok_gen chk s token u_idx u_id u_len st = (Panic, s, []).
Proof. intros H. unfold snd_pcm_xfer_ok_gen. now rewrite H. Qed.

(* the completions happen in the order the DEVICE chose: each step, the used ring presents `tok` next, with the
   status word st the device wrote into the status structure of that transfer *)
Inductive NbCompletes (chk : bool) : sstate -> list (N * N) -> list (outcome unit) -> sstate -> Prop :=
| NC_nil s : NbCompletes chk s [] [] s
| NC_step s tok st rest u_idx u_id u_len o s1 evs os s2 :
    q_last_used (s_tx s) <> w16 u_idx -> w16 u_id = tok ->
    snd_pcm_xfer_ok_gen chk s tok u_idx u_id u_len st = (o, s1, evs) ->
    NbCompletes chk s1 rest os s2 ->
    NbCompletes chk s ((tok, st) :: rest) (o :: os) s2.

(* C20_snd_nb_out_of_order: any number of token transfers outstanding, completed in ANY permutation of the
   submission order: every pcm_xfer_ok succeeds in leaving the queue, its result depends only on the status of its
   own transfer, the token maps and the queue end empty *)
Theorem nb_out_of_order chk : forall order s os s2,
  NbCompletes chk s order os s2 ->
  forall chains, NbInv s chains -> Permutation (map fst order) (map c_head chains) ->
  os = map (fun ts => ok_result chk (snd ts)) order
  /\ NbInv s2 []
  /\ (forall tok, In tok (map fst order) -> map_get (s_tok_buf s2) tok = None)
  /\ s_params s2 = s_params s /\ s_ctl s2 = s_ctl s.
Proof.
  induction 1 as [s|s tok st rest u_idx u_id u_len o s1 evs os s2 E1 E2 Hrun Hrest IH]; intros chains HI Hperm.
  - cbn [map] in Hperm. apply Permutation_nil in Hperm. apply map_eq_nil in Hperm. subst chains.
    split; [reflexivity|]. split; [exact HI|]. split; [intros tok []|split; reflexivity].
  - cbn [map fst] in Hperm.
    assert (Hin : In tok (map c_head chains)) by (eapply Permutation_in; [exact Hperm|now left]).
    apply in_map_iff in Hin. destruct Hin as (c & <- & Hc). apply in_split in Hc. destruct Hc as (pre & post & ->).
    destruct (xfer_ok_spec chk s pre c post u_idx u_id u_len st HI) as (_ & _ & P3).
    destruct (P3 E1 E2) as (s1' & evs' & Hrun' & HI1 & Hg1 & _ & Hp1 & Hc1 & _).
    rewrite Hrun' in Hrun. injection Hrun as <- <- <-.
    rewrite map_app in Hperm. cbn [map] in Hperm. apply Permutation_cons_app_inv in Hperm. rewrite <- map_app in Hperm.
    destruct (IH _ HI1 Hperm) as (Hos & HI2 & Hg2 & Hp2 & Hc2).
    split; [cbn [map snd]; now rewrite Hos|]. split; [exact HI2|].
    split; [|split; congruence].
    intros t [<-|Ht]; [|now apply Hg2].
    (* the token just completed stays absent: later completions only remove *)
    clear - Hrest Hg1. revert Hg1. induction Hrest as [sa|sa tok sta resta ui uid ul oa sb eva osa sc Ea Eb Hrun Hrest IH]; intros Hg; [exact Hg|].
    apply IH. unfold snd_pcm_xfer_ok_gen in Hrun.
    destruct (map_get (s_tok_buf sa) tok) as [[b bf]|]; [|injection Hrun as _ <- _; exact Hg].
    destruct (map_get (s_tok_rsp sa) tok); [|injection Hrun as _ <- _; exact Hg].
    destruct (pop_used _ _ _ _ _ _ _) as [[o1 q1] e1]. destruct o1; injection Hrun as _ <- _; cbn [set_toks set_tx s_tok_buf]; try exact Hg.
    destruct (N.eq_dec (c_head c) tok) as [->|Hne]; [apply map_get_remove_same|]. now rewrite map_get_remove_other.
Qed.

(* ---------- the finding: pcm_xfer_ok did not look at the status the device wrote ---------- *)
(* as the code stood (check_status = false), a completion whose status is an error was reported as success *)
Theorem xfer_ok_prefix_refuted :
  exists s pre c post u_idx u_id u_len st,
    NbInv s (pre ++ c :: post) /\ q_last_used (s_tx s) <> w16 u_idx /\ w16 u_id = c_head c
    /\ w32 st <> SND_S_OK
    /\ fst (fst (snd_pcm_xfer_ok_prefix s (c_head c) u_idx u_id u_len st)) = Ok tt.
Proof.
  set (s0 := set_params (snd_new 0 0 1 0) [mkPP true 4 4 0 1 1 1]).
  set (r := snd_pcm_xfer_nb (set_infos s0 true (Some []) (Some []) (Some [])) 0 [9; 9; 9; 9] 70 71 [] (mkNE 1000 2000 0 0 0)).
  destruct r as [[[[o s1] evs] vs]|] eqn:Er; [|vm_compute in Er; discriminate].
  assert (Hs1 : exists cn, NbInv s1 ([] ++ cn :: []) /\ c_head cn = 0).
  { assert (HI0 : NbInv (set_infos s0 true (Some []) (Some []) (Some [])) []).
    { split; [exists []; apply (R_new 5 false false 0); [lia|reflexivity]|]. split; [reflexivity|constructor]. }
    destruct (xfer_nb_spec (set_infos s0 true (Some []) (Some []) (Some [])) [] 0 [9; 9; 9; 9] 70 71 [] (mkNE 1000 2000 0 0 0)
                (mkPP true 4 4 0 1 1 1) eq_refl eq_refl eq_refl eq_refl ltac:(discriminate) HI0 ltac:(reflexivity) ltac:(reflexivity))
      as (_ & P). destruct (P eq_refl) as (s' & evs' & cn & Hrun & _ & _ & Hh & HI' & _).
    unfold r in Er. rewrite Hrun in Er. injection Er as _ <- _ _. exists cn. split; [exact HI'|exact Hh]. }
  destruct Hs1 as (cn & HI1 & Hh).
  exists s1, [], cn, [], 1, 0, 8, SND_S_IO_ERR. split; [exact HI1|].
  assert (Es : s1 = snd (fst (fst (match snd_pcm_xfer_nb (set_infos s0 true (Some []) (Some []) (Some [])) 0 [9; 9; 9; 9] 70 71 [] (mkNE 1000 2000 0 0 0) with Some x => x | None => (Panic, s0, [], []) end)))).
  { fold r. rewrite Er. reflexivity. }
  rewrite Hh. split; [rewrite Es; vm_compute; discriminate|]. split; [reflexivity|]. split; [vm_compute; discriminate|].
  rewrite Es. vm_compute. reflexivity.
Qed.

(* with the repair the result of a completion is Ok exactly for the status OK, an error for every other value *)
Theorem xfer_ok_checks_status st :
  (ok_result true st = Ok tt <-> w32 st = SND_S_OK) /\ (w32 st <> SND_S_OK -> ok_result true st = Err EIoError).
Proof.
  unfold ok_result, CC_SOk, SND_S_OK. cbn [andb]. destruct (N.eqb_spec (w32 st) 32768) as [E|E]; cbn [negb].
  - split; [tauto|]. intros X. contradiction.
  - split; [split; [discriminate|intros X; contradiction]|reflexivity].
Qed.

(* ======================================================================================================= *)
(* 7. the state rule, for every history of public operations and every device behaviour                    *)
(* C20_snd_state_rule (a): a stream without accepted parameters: both transfer functions refuse, nothing
   reaches the device, nothing changes; an index the driver has no slot for panics (slice index) *)
Theorem xfer_requires_params s sid frames es xenvs bid rid e :
  s_set_up s = true ->
  (forall p, nth_safe (s_params s) sid = Some p -> pp_setup p = false ->
     snd_pcm_xfer s sid frames es xenvs = Some (Err EIoError, s, [], [])
     /\ snd_pcm_xfer_nb s sid frames bid rid es e = Some (Err EIoError, s, [], []))
  /\ (nth_safe (s_params s) sid = None ->
     snd_pcm_xfer s sid frames es xenvs = Some (Panic, s, [], [])
     /\ snd_pcm_xfer_nb s sid frames bid rid es e = Some (Panic, s, [], [])).
Proof.
  intros Hsu. unfold snd_pcm_xfer, snd_pcm_xfer_nb. rewrite !with_set_up_done by exact Hsu. split.
  - intros p -> ->. split; reflexivity.
  - intros ->. split; reflexivity.
Qed.

Inductive sop :=
| OSetParams (sid buffer period features channels format rate : N) (es : list cenv)
| OCmd (code sid : N) (es : list cenv)
| ORemap (jack association sequence : N) (es : list cenv)
| OGet (which sid : N) (es : list cenv)
| OXfer (sid : N) (frames : list N) (es : list cenv) (xenvs : list xenv)
| OXferNb (sid : N) (frames : list N) (bid rid : N) (es : list cenv) (e : nenv)
| OXferOk (token u_idx u_id u_len st : N).

Definition st_of {A} (r : sres A) : option sstate := match r with Some (_, s, _, _) => Some s | None => None end.

Definition run_op (s : sstate) (op : sop) : option sstate :=
  match op with
  | OSetParams sid b p f c m r es => st_of (snd_pcm_set_params s sid b p f c m r es)
  | OCmd code sid es => st_of (snd_pcm_cmd s code sid es)
  | ORemap j a q es => st_of (snd_jack_remap s j a q es)
  | OGet w sid es => st_of (snd_get s w sid es)
  | OXfer sid frames es xenvs => st_of (snd_pcm_xfer s sid frames es xenvs)
  | OXferNb sid frames bid rid es e => st_of (snd_pcm_xfer_nb s sid frames bid rid es e)
  | OXferOk t ui uid ul st => Some (snd (fst (snd_pcm_xfer_ok s t ui uid ul st)))
  end.

(* every state the driver can be in: any operations, any arguments, any device answers *)
Inductive SReach : sstate -> Prop :=
| SR_new f j st c : SReach (snd_new f j st c)
| SR_step s op s' : SReach s -> run_op s op = Some s' -> SReach s'.

(* how the stored parameters can change in one operation *)
Definition params_step (ps ps' : list pparams) : Prop :=
  ps' = ps \/ exists sid b p f c m r, params_guard b p = false /\ ps' = updN ps sid (mkPP true b p f c m r).

Lemma params_step_refl ps : params_step ps ps.
Proof. now left. Qed.

Lemma set_params_step s sid b p f c m r es o s' evs vs :
  snd_pcm_set_params s sid b p f c m r es = Some (o, s', evs, vs) -> params_step (s_params s) (s_params s').
Proof.
  unfold snd_pcm_set_params.
  apply (with_set_up_inv (fun a b0 => params_step (s_params a) (s_params b0))).
  - intros a b0 (_ & E & _). rewrite E. apply params_step_refl.
  - intros a b0 c0 (_ & E & _) H. now rewrite <- E.
  - intros s1 es1 o1 s2 ev1 v1. fold (params_guard b p). destruct (params_guard b p) eqn:Hg.
    + intros H. injection H as _ <- _ _. apply params_step_refl.
    + destruct (ctl_request s1 _ _) as [[[[o2 s3] ev2] v2]|] eqn:E; [|discriminate].
      apply ctl_request_frame in E. destruct E as (_ & _ & _ & _ & _ & _ & _ & _ & E9 & _).
      destruct o2; try (intros H; injection H as _ <- _ _; rewrite E9; apply params_step_refl).
      destruct (hdr_ok a); [|intros H; injection H as _ <- _ _; rewrite E9; apply params_step_refl].
      destruct (sid <? lenN (s_params s3)); intros H; injection H as _ <- _ _.
      * cbn [set_params s_params]. rewrite E9. right. exists sid, b, p, f, c, m, r. auto.
      * rewrite E9. apply params_step_refl.
Qed.

Lemma keep_params {A} s es (k : sstate -> list cenv -> sres A) o s' evs vs :
  (forall s1 es1 o1 s2 ev1 v1, k s1 es1 = Some (o1, s2, ev1, v1) -> s_params s2 = s_params s1) ->
  with_set_up s es k = Some (o, s', evs, vs) -> s_params s' = s_params s.
Proof.
  intros Hk. apply (with_set_up_inv (fun a b => s_params b = s_params a)).
  - intros a b (_ & E & _). exact E.
  - intros a b c (_ & E & _) H. congruence.
  - exact Hk.
Qed.

Lemma run_op_params s op s' : run_op s op = Some s' -> params_step (s_params s) (s_params s').
Proof.
  destruct op; cbn [run_op].
  - destruct (snd_pcm_set_params _ _ _ _ _ _ _ _ _) as [[[[o s1] e1] v1]|] eqn:E; [|discriminate].
    intros H. injection H as <-. eapply set_params_step; eauto.
  - destruct (snd_pcm_cmd _ _ _ _) as [[[[o s1] e1] v1]|] eqn:E; [|discriminate]. intros H. injection H as <-. left.
    unfold snd_pcm_cmd in E. eapply keep_params; [|exact E]. intros s1' es1 o1 s2 ev1 v1'.
    cbv beta. match goal with |- context [ctl_request ?a ?b ?c] => destruct (ctl_request a b c) as [[[[o2 s3] ev2] v2]|] eqn:E2; [|discriminate] end.
    apply ctl_request_frame in E2. destruct o2; intros H; injection H as _ <- _ _; apply E2.
  - destruct (snd_jack_remap _ _ _ _ _) as [[[[o s1] e1] v1]|] eqn:E; [|discriminate]. intros H. injection H as <-. left.
    unfold snd_jack_remap, snd_jack_remap_gen in E. eapply keep_params; [|exact E]. intros s1' es1 o1 s2 ev1 v1'. cbv beta.
    destruct (s_jacks s1' =? 0); [intros H; injection H as _ <- _ _; reflexivity|].
    destruct (s_jacks s1' <=? jack); [intros H; injection H as _ <- _ _; reflexivity|].
    destruct (s_jack_infos s1'); [|intros H; injection H as _ <- _ _; reflexivity].
    destruct (nth_safe l jack); [|intros H; injection H as _ <- _ _; reflexivity].
    destruct (N.land (j_features j) 1 =? 0); [intros H; injection H as _ <- _ _; reflexivity|].
    cbv beta. match goal with |- context [ctl_request ?a ?b ?c] => destruct (ctl_request a b c) as [[[[o2 s3] ev2] v2]|] eqn:E2; [|discriminate] end.
    apply ctl_request_frame in E2. destruct o2; intros H; injection H as _ <- _ _; apply E2.
  - destruct (snd_get _ _ _ _) as [[[[o s1] e1] v1]|] eqn:E; [|discriminate]. intros H. injection H as <-. left.
    unfold snd_get in E. eapply keep_params; [|exact E]. intros s1' es1 o1 s2 ev1 v1'. cbv beta.
    destruct (s_pcm_infos s1'); [|intros H; injection H as _ <- _ _; reflexivity].
    destruct (which =? 0); [intros H; injection H as _ <- _ _; reflexivity|].
    destruct (which =? 1); [intros H; injection H as _ <- _ _; reflexivity|].
    destruct (w32 (lenN l) <=? sid); [intros H; injection H as _ <- _ _; reflexivity|].
    destruct (nth_safe l sid); intros H; injection H as _ <- _ _; reflexivity.
  - destruct (snd_pcm_xfer _ _ _ _ _) as [[[[o s1] e1] v1]|] eqn:E; [|discriminate]. intros H. injection H as <-. left.
    unfold snd_pcm_xfer in E. eapply keep_params; [|exact E]. intros s1' es1 o1 s2 ev1 v1'. cbv beta.
    destruct (nth_safe (s_params s1') sid); [|intros H; injection H as _ <- _ _; reflexivity].
    destruct (negb (pp_setup p)); [intros H; injection H as _ <- _ _; reflexivity|].
    destruct (pp_period p =? 0); [intros H; injection H as _ <- _ _; reflexivity|].
    match goal with |- context [xfer_loop ?a ?b ?c] => destruct (xfer_loop a b c) as [[[[o2 q2] ev2] v2]|]; [|discriminate] end. intros H; injection H as _ <- _ _; reflexivity.
  - destruct (snd_pcm_xfer_nb _ _ _ _ _ _ _) as [[[[o s1] e1] v1]|] eqn:E; [|discriminate]. intros H. injection H as <-. left.
    unfold snd_pcm_xfer_nb in E. eapply keep_params; [|exact E]. intros s1' es1 o1 s2 ev1 v1'. cbv beta.
    destruct (nth_safe (s_params s1') sid); [|intros H; injection H as _ <- _ _; reflexivity].
    destruct (negb (pp_setup p)); [intros H; injection H as _ <- _ _; reflexivity|].
    destruct (negb (pp_period p =? lenN frames)); [intros H; injection H as _ <- _ _; reflexivity|].
    match goal with |- context [add ?a ?b ?c ?d] => destruct (add a b c d) as [[o2 q2] ev2] end. destruct o2; intros H; injection H as _ <- _ _; reflexivity.
  - intros H. injection H as <-. left. unfold snd_pcm_xfer_ok, snd_pcm_xfer_ok_gen.
    destruct (map_get (s_tok_buf s) token) as [[b bf]|]; [|reflexivity].
    destruct (map_get (s_tok_rsp s) token); [|reflexivity].
    destruct (pop_used _ _ _ _ _ _ _) as [[o1 q1] e1]. destruct o1; reflexivity.
Qed.

Lemma params_guard_ok b p : params_guard b p = false -> p <> 0 /\ p <= b /\ b mod p = 0.
Proof. unfold params_guard. intros H. lia. Qed.

(* C20_snd_state_rule (b): in every reachable state a stream is marked as set up only with parameters that passed
   the driver's checks, which imply the specification's rule (period a non-zero divider of the buffer size); in
   particular the period used for cutting the frames is never 0 *)
Theorem reachable_params_wf s : SReach s -> params_wf (s_params s).
Proof.
  induction 1 as [f j st c|s op s' _ IH Hrun]; [apply params_wf_new|].
  destruct (run_op_params s op s' Hrun) as [->|(sid & b & p & f & c & m & r & Hg & ->)]; [exact IH|].
  unfold params_wf, updN. apply Forall_upd; [exact IH|]. intros _. cbn [pp_period pp_buffer]. now apply params_guard_ok.
Qed.

Theorem reachable_period_nonzero s sid p : SReach s -> nth_safe (s_params s) sid = Some p -> pp_setup p = true ->
  pp_period p <> 0 /\ spec_params_ok (pp_buffer p) (pp_period p) = true.
Proof.
  intros HR Hn Hs. pose proof (reachable_params_wf s HR) as Hw. unfold params_wf in Hw. rewrite Forall_forall in Hw.
  destruct (nth_safe_some _ _ _ Hn) as [_ Hn']. unfold nthN_error in Hn'. apply nth_error_In in Hn'.
  destruct (Hw p Hn' Hs) as (A & B & C). split; [exact A|]. unfold spec_params_ok. lia.
Qed.

(* ---------- the finding: jack_remap after a tolerated failure of the jack query ---------- *)
(* as the code stood, the lookup of a jack below the configured count in the (empty) stored list was unwrapped *)
Theorem jack_remap_prefix_refuted :
  exists s jack, s_set_up s = true /\ jack < s_jacks s /\ s_jack_infos s = Some []
    /\ snd_jack_remap_prefix s jack 0 0 [] = Some (Panic, s, [], []).
Proof.
  exists (set_infos (snd_new 0 2 0 0) true (Some []) (Some []) (Some [])), 1. repeat split.
Qed.
(* since the repair it is an error, as for every other failed lookup, and nothing reaches the device *)
Theorem jack_remap_missing_info s jack association sequence es l :
  s_set_up s = true -> jack < s_jacks s -> s_jack_infos s = Some l -> nth_safe l jack = None ->
  snd_jack_remap s jack association sequence es = Some (Err EIoError, s, [], []).
Proof.
  intros Hsu Hj Hl Hn. destruct (jack_remap_guards (Err EIoError) s jack association sequence es Hsu) as (_ & _ & G).
  eapply G; eauto.
Qed.

(* ======================================================================================================= *)
(* 8. the hypotheses of the theorems above are satisfiable: concrete runs                                  *)
Definition ex_s : sstate :=
  set_infos (snd_new 0 1 2 0) true (Some [mkJack 0 1 0 0 1]) (Some [mkPcm 0 0 3 5 0 1 2; mkPcm 0 0 0 0 1 0 0]) (Some []).
(* the wait ends on used index 1, the used element names chain 0 *)
Definition ex_e (rsp : list N) : cenv := mkCE 1000 2000 0 0 0 1 0 4 rsp.

Lemma ex_reach_q : Reach (qnew 32 false false) [] [].
Proof. apply (R_new 5 false false 0); [lia|reflexivity]. Qed.
Lemma ex_s_idle : ctl_idle ex_s /\ tx_idle ex_s.
Proof. split; (split; [exists []; exact ex_reach_q|reflexivity]). Qed.
Lemma ex_e_done rsp : env_done ex_s (ex_e rsp).
Proof. split; [vm_compute; discriminate|reflexivity]. Qed.

Example ctl_ops_nonvacuous :
  (* pcm_start(1), device answers OK / IO_ERR *)
  (exists s' evs, snd_pcm_cmd ex_s 260 1 [ex_e [0; 128; 0; 0]] = Some (Ok tt, s', evs, [Some ([4; 1; 0; 0; 1; 0; 0; 0], 4096)]))
  /\ (exists s' evs, snd_pcm_cmd ex_s 260 1 [ex_e [3; 128; 0; 0]] = Some (Err EIoError, s', evs, [Some ([4; 1; 0; 0; 1; 0; 0; 0], 4096)]))
  (* pcm_set_params(1, 8, 4, ...) accepted: recorded for stream 1 only *)
  /\ (exists s' evs v, snd_pcm_set_params ex_s 1 8 4 0 2 5 6 [ex_e [0; 128; 0; 0]] = Some (Ok tt, s', evs, v)
                       /\ s_params s' = [pp_default; mkPP true 8 4 0 2 5 6])
  (* refused by the device: nothing recorded *)
  /\ (exists s' evs v, snd_pcm_set_params ex_s 1 8 4 0 2 5 6 [ex_e [1; 128; 0; 0]] = Some (Err EIoError, s', evs, v)
                       /\ s_params s' = [pp_default; pp_default])
  (* jack_remap(0, 7, 9): the jack reported the REMAP feature *)
  /\ (exists s' evs, snd_jack_remap ex_s 0 7 9 [ex_e [0; 128; 0; 0]] = Some (Ok tt, s', evs, [Some ([2; 0; 0; 0; 0; 0; 0; 0; 7; 0; 0; 0; 9; 0; 0; 0], 4096)]))
  (* answers from the stored information *)
  /\ snd_get ex_s 0 0 [] = Some (Ok [0], ex_s, [], []) /\ snd_get ex_s 1 0 [] = Some (Ok [1], ex_s, [], [])
  /\ snd_get ex_s 4 0 [] = Some (Ok [1; 2], ex_s, [], []) /\ snd_get ex_s 2 2 [] = Some (Err EInvalidParam, ex_s, [], []).
Proof.
  repeat split; try (eexists; eexists; vm_compute; reflexivity);
    try (eexists; eexists; eexists; split; vm_compute; reflexivity); vm_compute; reflexivity.
Qed.

(* set_up against a device answering per the specification: one jack, one stream, no channel map *)
Definition ex_jack : jack_info := mkJack 5 1 6 7 1.
Definition ex_pcm : pcm_info := mkPcm 1 2 96 192 0 1 2.
Definition ex_su1 : cenv := mkCE 1000 2000 0 0 0 1 0 28 (spec_info_rsp SND_S_OK [spec_enc_jack_info ex_jack [9; 9]]).
Definition ex_su2 : cenv := mkCE 1010 2010 0 0 0 2 0 36 (spec_info_rsp SND_S_OK [spec_enc_pcm_info ex_pcm []]).
Definition ex_su3 : cenv := mkCE 1020 2020 0 0 0 3 0 4 (spec_info_rsp SND_S_OK []).
Example set_up_nonvacuous :
  let s := snd_new 0 1 1 0 in
  ctl_idle s /\ env_done s ex_su1 /\ env_done_at s 1 ex_su2 /\ env_done_at s 2 ex_su3
  /\ exists s' evs vs, snd_set_up s ex_su1 ex_su2 ex_su3 = Some (Ok tt, s', evs, vs)
       /\ s_jack_infos s' = Some [ex_jack] /\ s_pcm_infos s' = Some [ex_pcm] /\ s_chmap_infos s' = Some []
       /\ map (fun v => match v with Some (rb, _) => spec_decode_ctl rb | None => None end) vs
          = [Some (RqQuery 1 0 1 24); Some (RqQuery 256 0 1 32); Some (RqQuery 512 0 0 24)].
Proof.
  cbv zeta. split; [split; [exists []; exact ex_reach_q|reflexivity]|].
  split; [split; [vm_compute; discriminate|reflexivity]|].
  split; [split; [vm_compute; discriminate|reflexivity]|].
  split; [split; [vm_compute; discriminate|reflexivity]|].
  eexists; eexists; eexists. split; [vm_compute; reflexivity|]. repeat split; vm_compute; reflexivity.
Qed.

(* two token transfers outstanding, completed in the reverse order, the first completion with an error status *)
Definition ex_sp : sstate := set_params ex_s [pp_default; mkPP true 8 4 0 2 5 6].
Definition ex_after (r : sres N) : sstate := match r with Some (_, s, _, _) => s | None => ex_sp end.
Definition ex_n1 : sstate := ex_after (snd_pcm_xfer_nb ex_sp 1 [1; 2; 3; 4] 70 71 [] (mkNE 3000 3100 0 0 0)).
Definition ex_n2 : sstate := ex_after (snd_pcm_xfer_nb ex_n1 1 [5; 6; 7; 8] 72 73 [] (mkNE 3200 3300 0 0 0)).

Example nb_nonvacuous :
  NbInv ex_sp []
  /\ (exists evs, snd_pcm_xfer_nb ex_sp 1 [1; 2; 3; 4] 70 71 [] (mkNE 3000 3100 0 0 0) = Some (Ok 0, ex_n1, evs, [Some ([1; 0; 0; 0; 1; 2; 3; 4], 8)]))
  /\ (exists evs, snd_pcm_xfer_nb ex_n1 1 [5; 6; 7; 8] 72 73 [] (mkNE 3200 3300 0 0 0) = Some (Ok 2, ex_n2, evs, [Some ([1; 0; 0; 0; 5; 6; 7; 8], 8)]))
  /\ exists s3, NbCompletes true ex_n2 [(2, SND_S_IO_ERR); (0, SND_S_OK)] [Err EIoError; Ok tt] s3
                /\ s_tok_buf s3 = [] /\ s_tok_rsp s3 = [].
Proof.
  split; [split; [exists []; exact ex_reach_q|split; [reflexivity|constructor]]|].
  split; [eexists; vm_compute; reflexivity|]. split; [eexists; vm_compute; reflexivity|].
  eexists. split.
  - eapply (NC_step true ex_n2 2 SND_S_IO_ERR [(0, SND_S_OK)] 1 2 8); [vm_compute; discriminate|reflexivity|vm_compute; reflexivity|].
    eapply (NC_step true _ 0 SND_S_OK [] 2 0 8); [vm_compute; discriminate|reflexivity|vm_compute; reflexivity|].
    apply NC_nil.
  - split; vm_compute; reflexivity.
Qed.

Example state_rule_nonvacuous :
  SReach (snd_new 0 1 2 0) /\ snd_pcm_xfer ex_s 0 [1; 2] [] [] = Some (Err EIoError, ex_s, [], []).
Proof. split; [constructor|reflexivity]. Qed.

(* the strongest statement that was true of pcm_xfer_ok before the repair: everything of xfer_ok_spec, except that the
   result of a completed transfer was Ok whatever status the device had written *)
Theorem xfer_ok_prefix_partial s pre c post u_idx u_id u_len st :
  NbInv s (pre ++ c :: post) -> q_last_used (s_tx s) <> w16 u_idx -> w16 u_id = c_head c ->
  exists s' evs,
    snd_pcm_xfer_ok_prefix s (c_head c) u_idx u_id u_len st = (Ok tt, s', evs) /\ NbInv s' (pre ++ post).
Proof.
  intros HI E1 E2. destruct (xfer_ok_spec false s pre c post u_idx u_id u_len st HI) as (_ & _ & P3).
  destruct (P3 E1 E2) as (s' & evs & Hr & HI' & _). exists s', evs. split; [exact Hr|exact HI'].
Qed.

(* ======================================================================================================= *)
(* 7. the event queue: VirtIOSound::new (event-queue part) and latest_notification                         *)
(* Built on the OwningQueue theorems of C19 (Proofs/OwningProofs: owning_new_stocked, poll_stocked).       *)
From VD Require Import Model.Owning Proofs.OwningProofs.

(* the driver's decoder is the specification's: an event is 8 bytes, le32 code then le32 data; the four event codes of
   5.14.6 are accepted, every other code is IoError, a buffer that does not hold 8 written bytes yields no event *)
Theorem snd_event_handler_spec buffer : snd_event_handler buffer = spec_notification buffer EIoError.
Proof.
  unfold snd_event_handler, spec_notification, spec_decode_event, SND_EVENT_SIZE.
  destruct (lenN buffer =? 8); [|reflexivity]. rewrite !rd_fld.
  unfold snd_ntype_known, spec_event_known, SND_EVT_JACK_CONNECTED, SND_EVT_JACK_DISCONNECTED, SND_EVT_PCM_PERIOD_ELAPSED, SND_EVT_PCM_XRUN.
  replace ((fld buffer 0 4 =? 4352) || (fld buffer 0 4 =? 4353) || (fld buffer 0 4 =? 4096) || (fld buffer 0 4 =? 4097))
    with ((fld buffer 0 4 =? 4096) || (fld buffer 0 4 =? 4097) || (fld buffer 0 4 =? 4352) || (fld buffer 0 4 =? 4353)) by lia.
  reflexivity.
Qed.

(* the four codes, one by one, and some others *)
Example snd_event_codes :
  snd_event_handler [0; 16; 0; 0; 7; 0; 0; 0] = Ok (Some (4096, 7))
  /\ snd_event_handler [1; 16; 0; 0; 255; 255; 255; 255] = Ok (Some (4097, 4294967295))
  /\ snd_event_handler [0; 17; 0; 0; 1; 2; 0; 0] = Ok (Some (4352, 513))
  /\ snd_event_handler [1; 17; 0; 0; 0; 0; 0; 0] = Ok (Some (4353, 0))
  /\ snd_event_handler [2; 16; 0; 0; 0; 0; 0; 0] = Err EIoError
  /\ snd_event_handler [0; 128; 0; 0; 0; 0; 0; 0] = Err EIoError
  /\ snd_event_handler [0; 16; 0; 1; 0; 0; 0; 0] = Err EIoError
  /\ snd_event_handler [0; 16; 0; 0; 7; 0; 0] = Ok None
  /\ snd_event_handler [] = Ok None.
Proof. repeat split; reflexivity. Qed.

(* the size of a queue never changes *)
Lemma add_single_size s b : q_size (snd (fst (add s [] [b] 0))) = q_size s.
Proof.
  unfold add. cbn [tag_bufs map app]. change (lenN [(b, true)]) with 1. cbn [N.eqb Pos.eqb].
  destruct (negb (capacity_ok s 1)); [reflexivity|].
  change (1 <? 1) with false. rewrite andb_false_r.
  unfold add_direct. cbn [add_direct_loop].
  destruct (b_len b =? 0); [reflexivity|].
  destruct (nthN_error (q_shadow s) (q_free_head s)) as [d|]; [|reflexivity].
  destruct (two32 <=? b_len b); [reflexivity|].
  destruct (nthN_error _ (q_free_head s)); reflexivity.
Qed.

Lemma owning_new_loop_size bufsz : forall addrs i s, q_size (snd (fst (owning_new_loop addrs i bufsz s))) = q_size s.
Proof.
  induction addrs as [|a r IH]; intros i s; cbn [owning_new_loop]; [reflexivity|].
  pose proof (add_single_size s (obuf i bufsz a)) as Ha.
  destruct (add s [] [obuf i bufsz a] 0) as [[o1 s1] e1]. cbn [fst snd] in Ha.
  destruct o1 as [tok|x| |]; try exact Ha.
  destruct (tok =? i); [|exact Ha].
  specialize (IH (i + 1) s1).
  destruct (owning_new_loop r (i + 1) bufsz s1) as [[o2 s2] e2]. cbn [fst snd] in *. congruence.
Qed.

(* VirtIOSound::new, event-queue part, for every start of the free-running indices, every share answer, every feature
   word of the device and both suppression modes: no `?` and no assert fires, all 32 buffers are posted (token i =
   buffer i, 8 bytes each, device-writable), the notification of queue 1 is sent iff should_notify *)
Theorem snd_evq_new_stocked feats start addrs ae uf :
  lenN addrs = 32 -> start < two16 ->
  exists q evs chains,
    snd_evq_new feats start addrs ae uf
      = (Ok tt, q, map OQ evs ++ (if should_notify q ae uf then [ONotify] else []))
    /\ Reach q chains evs /\ Stocked q chains SND_EVENT_SIZE /\ q_size q = 32.
Proof.
  intros Hl Hs. unfold snd_evq_new.
  destruct (owning_new_stocked 5 (has_feat (N.land feats SND_SUPPORTED) SF_INDIRECT) (has_feat (N.land feats SND_SUPPORTED) SF_EVENT_IDX)
              SND_EVENT_SIZE addrs start ltac:(lia) ltac:(discriminate) ltac:(reflexivity) Hl Hs) as (q & evs & chains & Hrun & HR & HS).
  change (2 ^ 5) with SND_QUEUE_SIZE in Hrun.
  pose proof (owning_new_loop_size SND_EVENT_SIZE addrs 0
                (qset_indices (qnew SND_QUEUE_SIZE (has_feat (N.land feats SND_SUPPORTED) SF_INDIRECT) (has_feat (N.land feats SND_SUPPORTED) SF_EVENT_IDX)) start)) as Hsz.
  rewrite Hrun in *. cbn [fst snd] in Hsz.
  exists q, evs, chains. split; [reflexivity|]. split; [exact HR|]. split; [exact HS|exact Hsz].
Qed.
(* --- one call --- *)
Lemma pop_used_ok_len s token ins outs u_idx u_id u_len l :
  fst (fst (pop_used s token ins outs u_idx u_id u_len)) = Ok l -> l = w32 u_len.
Proof.
  unfold pop_used. destruct (negb (can_pop s u_idx)); [discriminate|].
  destruct (negb (w16 u_id =? token)); [discriminate|].
  destruct (recycle s (w16 u_id) (tag_bufs ins outs)) as [[o s1] e1].
  destruct o; try discriminate. destruct (q_event_idx s1); cbn [fst]; intros [= <-]; reflexivity.
Qed.

Lemma recycle_size s head bufs : q_size (snd (fst (recycle s head bufs))) = q_size s.
Proof.
  unfold recycle. destruct (nthN_error (q_shadow s) head) as [hd|]; [|reflexivity].
  destruct (has_flag (d_flags hd) F_INDIRECT).
  - destruct (nthN_error (q_ind s) head) as [[tbl|]|]; try reflexivity.
    destruct (q_num_used s =? 0); [reflexivity|].
    destruct (negb (lenN tbl =? lenN bufs)); [reflexivity|]. destruct (unshare_ind bufs tbl). reflexivity.
  - destruct (recycle_loop _ _ _ _ _ _) as [[[[sh dt] nu]|e| |] evs]; reflexivity.
Qed.

Lemma pop_used_size s token ins outs u_idx u_id u_len :
  q_size (snd (fst (pop_used s token ins outs u_idx u_id u_len))) = q_size s.
Proof.
  unfold pop_used. destruct (negb (can_pop s u_idx)); [reflexivity|].
  destruct (negb (w16 u_id =? token)); [reflexivity|].
  pose proof (recycle_size s (w16 u_id) (tag_bufs ins outs)) as Hr.
  destruct (recycle s (w16 u_id) (tag_bufs ins outs)) as [[o s1] e1]. cbn [fst snd] in Hr.
  destruct o; try exact Hr. destruct (q_event_idx s1); exact Hr.
Qed.

Lemma owning_poll_size s bufsz u_idx u_id u_len addr ae uf hres :
  q_size (snd (fst (owning_poll s bufsz u_idx u_id u_len addr ae uf hres))) = q_size s.
Proof.
  unfold owning_poll, owning_pop.
  destruct (peek_used s u_idx u_id) as [token|]; [|reflexivity].
  destruct (q_size s <=? token); [reflexivity|].
  pose proof (pop_used_size s token [] [obuf token bufsz 0] u_idx u_id u_len) as Hp.
  destruct (pop_used s token [] [obuf token bufsz 0] u_idx u_id u_len) as [[o s1] e1]. cbn [fst snd] in Hp.
  destruct o as [len|e| |]; try exact Hp.
  unfold owning_readd. destruct (q_size s1 <=? token); [exact Hp|].
  pose proof (add_single_size s1 (obuf token bufsz addr)) as Ha.
  destruct (add s1 [] [obuf token bufsz addr] 0) as [[oa sa] ea]. cbn [fst snd] in Ha.
  destruct oa as [tok|e| |]; [destruct (tok =? token)|..]; cbn [fst snd]; congruence.
Qed.

(* what the closure answers, as the class OwningQueue::poll is parametrised with in Model/Owning.v *)
Definition snd_hclass (wr : list N) (u_len : N) : N :=
  match snd_event_handler (firstn (N.to_nat (w32 u_len)) wr) with Ok (Some _) => 0 | Ok None => 1 | _ => 2 end.

(* latest_notification IS OwningQueue::poll with the closure's answer: same successor state, same effects, and the
   result is the closure's on the first `len` bytes of the buffer *)
Lemma snd_notif_as_poll q v :
  let r := owning_poll q SND_EVENT_SIZE (nv_idx v) (nv_id v) (nv_len v) (nv_addr v) (nv_ae v) (nv_uf v)
             (snd_hclass (nv_wr v) (nv_len v)) in
  snd_latest_notification q v =
  (match fst (fst r) with
   | Ok (Some (l, _)) => snd_event_handler (firstn (N.to_nat l) (nv_wr v))
   | Ok None => Ok None
   | Err e => Err e
   | Panic => Panic
   | UB => UB
   end, snd (fst r), snd r).
Proof.
  cbv zeta. unfold snd_latest_notification, owning_poll.
  pose proof (fun tok => pop_used_ok_len q tok [] [obuf tok SND_EVENT_SIZE 0] (nv_idx v) (nv_id v) (nv_len v)) as HL.
  unfold owning_pop in *.
  destruct (peek_used q (nv_idx v) (nv_id v)) as [token|]; [|reflexivity].
  destruct (q_size q <=? token); [reflexivity|].
  specialize (HL token).
  destruct (pop_used q token [] [obuf token SND_EVENT_SIZE 0] (nv_idx v) (nv_id v) (nv_len v)) as [[o q1] e1].
  cbn [fst] in HL. destruct o as [len|e| |]; try reflexivity.
  specialize (HL len eq_refl). subst len.
  destruct (owning_readd q1 SND_EVENT_SIZE token (nv_addr v) (nv_ae v) (nv_uf v)) as [[o2 q2] e2].
  destruct o2; try reflexivity. cbn [fst snd].
  destruct (SND_EVENT_SIZE <? w32 (nv_len v)); [reflexivity|].
  unfold handler_result, snd_hclass.
  destruct (snd_event_handler (firstn (N.to_nat (w32 (nv_len v))) (nv_wr v))) as [[[c d]|]|e| |] eqn:E; cbn [N.eqb fst snd]; try rewrite E; try reflexivity.
  - (* the closure's only error is IoError *)
    unfold snd_event_handler in E. destruct (lenN _ =? SND_EVENT_SIZE); [|discriminate].
    destruct (snd_ntype_known _); [discriminate|]. now injection E as <-.
  - unfold snd_event_handler in E. destruct (lenN _ =? SND_EVENT_SIZE); [|discriminate]. destruct (snd_ntype_known _); discriminate.
  - unfold snd_event_handler in E. destruct (lenN _ =? SND_EVENT_SIZE); [|discriminate]. destruct (snd_ntype_known _); discriminate.
Qed.

(* what the caller is owed for a completed event buffer: the recorded length cut to... *)
Definition snd_notif_result (u_len : N) (wr : list N) : outcome (option (N * N)) :=
  if SND_EVENT_SIZE <? w32 u_len then Err EIoError
  else spec_notification (firstn (N.to_nat (w32 u_len)) wr) EIoError.

(* latest_notification for EVERY device behaviour (used index, used element, recorded length, buffer contents, share
   answer, suppression words), in every state the driver can be in:
   nothing pending -> None, nothing changes; an id outside the queue -> WrongToken, nothing changes; otherwise the
   completion at the head of the used ring is consumed: the caller gets the specification's reading of the bytes the
   device recorded as written (an event with its type and data; IoError for an unknown type code or a length above
   8; None when fewer than 8 bytes were written), and IN EVERY ONE OF THESE CASES the buffer is posted again under
   the same token and the queue is fully stocked *)
Theorem snd_notif_stocked q chains h v o q' evs :
  Reach q chains h -> Stocked q chains SND_EVENT_SIZE ->
  snd_latest_notification q v = (o, q', evs) ->
  (q_last_used q = w16 (nv_idx v) -> o = Ok None /\ q' = q /\ evs = [])
  /\ (q_last_used q <> w16 (nv_idx v) -> q_size q <= w16 (nv_id v) -> o = Err EWrongToken /\ q' = q /\ evs = [])
  /\ (q_last_used q <> w16 (nv_idx v) -> w16 (nv_id v) < q_size q ->
        o = snd_notif_result (nv_len v) (nv_wr v)
        /\ q_last_used q' = w16 (q_last_used q + 1)
        /\ q_size q' = q_size q
        /\ exists chains' h', Reach q' chains' h' /\ Stocked q' chains' SND_EVENT_SIZE).
Proof.
  intros HR HS Hrun. rewrite snd_notif_as_poll in Hrun. cbv zeta in Hrun.
  destruct (owning_poll q SND_EVENT_SIZE (nv_idx v) (nv_id v) (nv_len v) (nv_addr v) (nv_ae v) (nv_uf v) (snd_hclass (nv_wr v) (nv_len v)))
    as [[op qp] ep] eqn:Ep. cbn [fst snd] in Hrun. injection Hrun as Ho <- <-.
  destruct (poll_stocked q chains h SND_EVENT_SIZE _ _ _ _ _ _ _ op qp ep HR HS ltac:(discriminate) ltac:(reflexivity) Ep) as (P1 & P2 & P3).
  split; [|split].
  - intros E. destruct (P1 E) as (-> & -> & ->). subst o. auto.
  - intros E1 E2. destruct (P2 E1 E2) as (-> & -> & ->). subst o. auto.
  - intros E1 E2. destruct (P3 E1 E2) as (Hop & Hlu & chains' & h' & HR' & HS').
    split; [|split; [exact Hlu|split; [|eauto]]].
    + subst o. rewrite Hop. unfold snd_notif_result.
      destruct (SND_EVENT_SIZE <? w32 (nv_len v)); [reflexivity|].
      unfold handler_result, snd_hclass. rewrite <- snd_event_handler_spec.
      destruct (snd_event_handler (firstn (N.to_nat (w32 (nv_len v))) (nv_wr v))) as [[[c d]|]|e| |] eqn:E; cbn [N.eqb]; try rewrite E; try reflexivity.
      * unfold snd_event_handler in E. destruct (lenN _ =? SND_EVENT_SIZE); [|discriminate].
        destruct (snd_ntype_known _); [discriminate|]. now injection E as <-.
      * unfold snd_event_handler in E. destruct (lenN _ =? SND_EVENT_SIZE); [|discriminate]. destruct (snd_ntype_known _); discriminate.
      * unfold snd_event_handler in E. destruct (lenN _ =? SND_EVENT_SIZE); [|discriminate]. destruct (snd_ntype_known _); discriminate.
    + pose proof (owning_poll_size q SND_EVENT_SIZE (nv_idx v) (nv_id v) (nv_len v) (nv_addr v) (nv_ae v) (nv_uf v) (snd_hclass (nv_wr v) (nv_len v))) as Hsz.
      rewrite Ep in Hsz. exact Hsz.
Qed.

(* --- histories: any number of events, any completion order, any burst size, polls more or less often than events --- *)
(* The device side is an abstract FIFO: `comps` lists its completions in used-ring order, each (token it picked,
   (length it recorded, contents of the buffer after it)); `pub` of them are published (used index = base + pub) when
   a poll runs; the driver has consumed k. Tokens are arbitrary below 32 - any order, any repetition: every buffer is
   posted again before the next poll, so the device may pick any of the 32 at any time. *)
Definition snd_comp : Type := (N * (N * list N))%type.
Definition snd_comp0 : snd_comp := (0, (0, [])).

Definition snd_honest_view (base : N) (comps : list snd_comp) (k pub : nat) (v : nview) : Prop :=
  (k <= pub <= length comps)%nat /\ (pub - k <= 32)%nat
  /\ nv_idx v = base + N.of_nat pub
  /\ ((k < pub)%nat -> w16 (nv_id v) = fst (nth k comps snd_comp0)
                       /\ nv_len v = fst (snd (nth k comps snd_comp0)) /\ nv_wr v = snd (snd (nth k comps snd_comp0))).

Fixpoint snd_honest (base : N) (comps : list snd_comp) (k : nat) (vs : list (nat * nview)) : Prop :=
  match vs with
  | [] => True
  | (pub, v) :: r => snd_honest_view base comps k pub v /\ snd_honest base comps (if (k <? pub)%nat then S k else k) r
  end.

Fixpoint snd_consumed (k : nat) (vs : list (nat * nview)) : nat :=
  match vs with
  | [] => k
  | (pub, _) :: r => snd_consumed (if (k <? pub)%nat then S k else k) r
  end.

(* what the caller is owed for one completion *)
Definition snd_comp_result (c : snd_comp) : outcome (option (N * N)) := snd_notif_result (fst (snd c)) (snd (snd c)).

(* what each poll must return *)
Fixpoint snd_expected (comps : list snd_comp) (k : nat) (vs : list (nat * nview)) : list (outcome (option (N * N))) :=
  match vs with
  | [] => []
  | (pub, _) :: r =>
      if (k <? pub)%nat then snd_comp_result (nth k comps snd_comp0) :: snd_expected comps (S k) r
      else Ok None :: snd_expected comps k r
  end.

Lemma snd_w16_neq_near base k pub :
  (k < pub)%nat -> (pub - k <= 32)%nat -> w16 (base + N.of_nat k) <> w16 (base + N.of_nat pub).
Proof. intros H1 H2. unfold w16. lia. Qed.
Lemma snd_w16_succ base k : w16 (w16 (base + N.of_nat k) + 1) = w16 (base + N.of_nat (S k)).
Proof. unfold w16. lia. Qed.

Theorem snd_notif_history base comps :
  Forall (fun c => fst c < 32) comps ->
  forall vs q chains h k,
  Reach q chains h -> Stocked q chains SND_EVENT_SIZE -> q_size q = 32 ->
  q_last_used q = w16 (base + N.of_nat k) ->
  snd_honest base comps k vs ->
  exists q' chains' h',
    snd_notif_run q (map snd vs) = (snd_expected comps k vs, q')
    /\ Reach q' chains' h' /\ Stocked q' chains' SND_EVENT_SIZE /\ q_size q' = 32
    /\ q_last_used q' = w16 (base + N.of_nat (snd_consumed k vs)).
Proof.
  intros Htok. induction vs as [|[pub v] r IH]; intros q chains h k HR Hst Hsz Hlu Hh.
  - exists q, chains, h. cbn. auto.
  - cbn [snd_honest] in Hh. destruct Hh as [(Hrange & Hnear & Hi & Hpend) Hrest].
    cbn [map snd snd_notif_run snd_expected snd_consumed].
    destruct (snd_latest_notification q v) as [[o q1] e1] eqn:Epop.
    destruct (snd_notif_stocked q chains h v o q1 e1 HR Hst Epop) as (P1 & _ & P3).
    destruct (Nat.ltb_spec k pub) as [Hlt|Hge].
    + destruct (Hpend Hlt) as (Hid & Hlen & Hwr).
      assert (Hne : q_last_used q <> w16 (nv_idx v)) by (rewrite Hlu, Hi; now apply snd_w16_neq_near).
      assert (Ht : w16 (nv_id v) < q_size q).
      { rewrite Hid, Hsz. rewrite Forall_forall in Htok. apply Htok. apply nth_In. lia. }
      destruct (P3 Hne Ht) as (Ho & Hlu1 & Hsz1 & chains1 & h1 & HR1 & Hst1).
      assert (Hlu1' : q_last_used q1 = w16 (base + N.of_nat (S k))) by (rewrite Hlu1, Hlu; apply snd_w16_succ).
      destruct (IH q1 chains1 h1 (S k) HR1 Hst1 ltac:(congruence) Hlu1' Hrest) as (q' & chains' & h' & Hrun & HR' & Hst' & Hsz' & Hlu').
      exists q', chains', h'. rewrite Hrun, Ho. unfold snd_comp_result. rewrite Hlen, Hwr. auto.
    + assert (Ek : k = pub) by lia. subst pub.
      assert (He : q_last_used q = w16 (nv_idx v)) by (now rewrite Hlu, Hi).
      destruct (P1 He) as (-> & -> & _).
      destruct (IH q chains h k HR Hst Hsz Hlu Hrest) as (q' & chains' & h' & Hrun & HR' & Hst' & Hsz' & Hlu').
      exists q', chains', h'. rewrite Hrun. auto.
Qed.

(* exactly once, in order: the polls that found a completion pending return, in this order, what is owed for the
   completions number k, k+1, ... of the device - none twice, none skipped -; every other poll returns None *)
Fixpoint snd_consuming (comps : list snd_comp) (k : nat) (vs : list (nat * nview)) (os : list (outcome (option (N * N))))
  : list (outcome (option (N * N))) * list (outcome (option (N * N))) :=
  match vs, os with
  | (pub, _) :: r, o :: os' =>
      let '(a, b) := snd_consuming comps (if (k <? pub)%nat then S k else k) r os' in
      if (k <? pub)%nat then (o :: a, b) else (a, o :: b)
  | _, _ => ([], [])
  end.

Lemma snd_consumed_ge k vs : (k <= snd_consumed k vs)%nat.
Proof.
  revert k. induction vs as [|[pub v] r IH]; intros k; cbn [snd_consumed]; [lia|].
  destruct (k <? pub)%nat; [specialize (IH (S k)); lia|apply IH].
Qed.

Lemma snd_skipn_nth_cons {A} (l : list A) k d : (k < length l)%nat -> skipn k l = nth k l d :: skipn (S k) l.
Proof.
  revert k. induction l as [|a l IH]; intros [|k] H; cbn [length] in H; try lia; [reflexivity|].
  cbn [skipn nth]. rewrite (IH k) by lia. reflexivity.
Qed.

Theorem snd_notif_exactly_once_in_order base comps vs q chains h k :
  Forall (fun c => fst c < 32) comps ->
  Reach q chains h -> Stocked q chains SND_EVENT_SIZE -> q_size q = 32 ->
  q_last_used q = w16 (base + N.of_nat k) ->
  snd_honest base comps k vs ->
  let '(consuming, idle) := snd_consuming comps k vs (fst (snd_notif_run q (map snd vs))) in
  consuming = map snd_comp_result (firstn (snd_consumed k vs - k) (skipn k comps))
  /\ Forall (fun o => o = Ok None) idle.
Proof.
  intros Htok HR Hst Hsz Hlu Hh.
  destruct (snd_notif_history base comps Htok vs q chains h k HR Hst Hsz Hlu Hh) as (q' & _ & _ & Hrun & _).
  rewrite Hrun. cbn [fst]. clear - Hh. revert k Hh.
  induction vs as [|[pub v] r IH]; intros k Hh.
  - cbn. rewrite Nat.sub_diag. split; [reflexivity|constructor].
  - cbn [snd_honest] in Hh. destruct Hh as [(Hrange & _) Hrest].
    cbn [snd_expected snd_consuming snd_consumed].
    destruct (Nat.ltb_spec k pub) as [Hlt|Hge].
    + cbn [snd_consuming]. replace (k <? pub)%nat with true by (symmetry; apply Nat.ltb_lt; exact Hlt).
      specialize (IH (S k) Hrest).
      destruct (snd_consuming comps (S k) r (snd_expected comps (S k) r)) as [a b]. destruct IH as [IA IB].
      split; [|exact IB]. rewrite IA.
      pose proof (snd_consumed_ge (S k) r) as Hge.
      rewrite (snd_skipn_nth_cons comps k snd_comp0) by (apply Nat.lt_le_trans with pub; [exact Hlt|exact (proj2 Hrange)]).
      replace (snd_consumed (S k) r - k)%nat with (S (snd_consumed (S k) r - S k)) by lia. reflexivity.
    + cbn [snd_consuming]. replace (k <? pub)%nat with false by (symmetry; apply Nat.ltb_ge; exact Hge).
      specialize (IH k Hrest).
      destruct (snd_consuming comps k r (snd_expected comps k r)) as [a b]. destruct IH as [IA IB].
      split; [exact IA|]. constructor; [reflexivity|exact IB].
Qed.

(* non-vacuity: new, then a device that starts at index 65535, completes token 7 (jack 3 connected), token 3 (a code that
   is no event), token 7 again (period elapsed on stream 1, the buffer has been posted again in between), token 0 with only
   4 bytes recorded, token 5 with 9 bytes recorded; the first two published in one burst; seven polls *)
Definition snd_demo_comps : list snd_comp :=
  [(7, (8, [0; 16; 0; 0; 3; 0; 0; 0])); (3, (8, [2; 16; 0; 0; 0; 0; 0; 0])); (7, (8, [0; 17; 0; 0; 1; 0; 0; 0]));
   (0, (4, [0; 16; 0; 0; 9; 9; 9; 9])); (5, (9, [0; 16; 0; 0; 1; 0; 0; 0]))].
Definition snd_demo_view (pub : N) (k : nat) : nview :=
  let c := nth k snd_demo_comps snd_comp0 in
  mkNV (65535 + pub) (fst c) (fst (snd c)) (snd (snd c)) (500 + pub) 0 0.
Definition snd_demo_polls : list (nat * nview) :=
  [(2%nat, snd_demo_view 2 0); (2%nat, snd_demo_view 2 1); (2%nat, snd_demo_view 2 2); (3%nat, snd_demo_view 3 2);
   (5%nat, snd_demo_view 5 3); (5%nat, snd_demo_view 5 4); (5%nat, snd_demo_view 5 5)].

Example snd_notif_history_nonvacuous :
  let q := snd (fst (snd_evq_new (SF_INDIRECT + SF_EVENT_IDX + SF_VERSION_1) 65535 (seqN 100 32) 0 0)) in
  fst (fst (snd_evq_new (SF_INDIRECT + SF_EVENT_IDX + SF_VERSION_1) 65535 (seqN 100 32) 0 0)) = Ok tt
  /\ snd_honest 65535 snd_demo_comps 0 snd_demo_polls
  /\ Forall (fun c => fst c < 32) snd_demo_comps
  /\ snd_consumed 0 snd_demo_polls = 5%nat
  /\ fst (snd_notif_run q (map snd snd_demo_polls))
     = [Ok (Some (4096, 3)); Err EIoError; Ok None; Ok (Some (4352, 1)); Ok None; Err EIoError; Ok None]
  /\ q_num_used (snd (snd_notif_run q (map snd snd_demo_polls))) = 32.
Proof.
  cbv zeta. split; [vm_compute; reflexivity|]. split.
  { unfold snd_demo_polls, snd_demo_view, snd_honest, snd_honest_view.
    cbn [Nat.ltb Nat.leb length snd_demo_comps nth fst snd nv_idx nv_id nv_len nv_wr].
    repeat split; try lia; try reflexivity; intros; try lia; try (vm_compute; reflexivity). }
  split; [repeat constructor|]. split; [reflexivity|]. split; vm_compute; reflexivity.
Qed.

(* ======================================================================================================= *)
(* 8. configuration counters and the stream queries, end to end                                            *)
Lemma sle_bound l : Forall (fun b => b < 256) l -> sle l < 256 ^ N.of_nat (length l).
Proof.
  induction l as [|b l IH]; intros H; cbn [sle length]; [reflexivity|]. inversion H; subst.
  specialize (IH ltac:(assumption)). rewrite Nat2N.inj_succ, N.pow_succ_r'. lia.
Qed.

Lemma Forall_firstn_skipn {A} (P : A -> Prop) (l : list A) off n : Forall P l -> Forall P (firstn n (skipn off l)).
Proof.
  intros H.
  assert (Hs : Forall P (skipn off l)).
  { rewrite <- (firstn_skipn off l) in H. apply Forall_app in H. tauto. }
  rewrite <- (firstn_skipn n (skipn off l)) in Hs. apply Forall_app in Hs. tauto.
Qed.

Lemma fld_bound cfg off n : Forall (fun b => b < 256) cfg -> fld cfg off n < 256 ^ N.of_nat n.
Proof.
  intros H. unfold fld.
  eapply N.lt_le_trans; [apply sle_bound; apply Forall_firstn_skipn; exact H|].
  apply N.pow_le_mono_r; [discriminate|]. rewrite firstn_length. lia.
Qed.

(* VirtIOSound::new reads the three counters with three 4-byte reads at the offsets of struct virtio_snd_config
   (5.14.4), in this order, each followed by `?`: a refused read ends the constructor with the transport's error
   and the later fields are not read *)
Theorem snd_read_config_spec :
  (forall j st c, snd_read_config (Ok j) (Ok st) (Ok c)
     = (Ok (w32 j, w32 st, w32 c), [SCRead SND_CFG_JACKS_OFF 4; SCRead SND_CFG_STREAMS_OFF 4; SCRead SND_CFG_CHMAPS_OFF 4]))
  /\ (forall e a1 a2, snd_read_config (Err e) a1 a2 = (Err e, [SCRead SND_CFG_JACKS_OFF 4]))
  /\ (forall j e a2, snd_read_config (Ok j) (Err e) a2 = (Err e, [SCRead SND_CFG_JACKS_OFF 4; SCRead SND_CFG_STREAMS_OFF 4]))
  /\ (forall j st e, snd_read_config (Ok j) (Ok st) (Err e)
        = (Err e, [SCRead SND_CFG_JACKS_OFF 4; SCRead SND_CFG_STREAMS_OFF 4; SCRead SND_CFG_CHMAPS_OFF 4])).
Proof. repeat split. Qed.

(* jacks() / streams() / chmaps() are the three fields of the configuration space the device exposed at construction:
   for every content cfg of the 12 configuration bytes and every feature word *)
Theorem snd_config_counters feats cfg :
  Forall (fun b => b < 256) cfg ->
  let '(j, st, c) := spec_snd_config cfg in
  fst (snd_read_config (Ok j) (Ok st) (Ok c)) = Ok (j, st, c)
  /\ snd_counters (snd_new feats j st c) = (j, st, c).
Proof.
  intros H. unfold spec_snd_config, snd_read_config, snd_counters, snd_new. cbn [fst s_jacks s_streams s_chmaps].
  pose proof (fld_bound cfg 0 4 H) as B0. pose proof (fld_bound cfg 4 4 H) as B1. pose proof (fld_bound cfg 8 4 H) as B2.
  change (256 ^ N.of_nat 4) with two32 in *.
  unfold w32. rewrite !N.mod_small by (unfold two32 in *; assumption). split; reflexivity.
Qed.

Example snd_config_counters_nonvacuous :
  spec_snd_config [2; 0; 0; 0; 0x78; 0x56; 0x34; 0x12; 255; 255; 255; 255] = (2, 0x12345678, 4294967295)
  /\ snd_counters (snd_new SF_VERSION_1 2 0x12345678 4294967295) = (2, 0x12345678, 4294967295).
Proof. split; reflexivity. Qed.

(* ---------- the answer to PCM_INFO, for EVERY content ---------- *)
Lemma parse_pcm_spec b : parse_pcm b = spec_dec_pcm_info b.
Proof. unfold parse_pcm, spec_dec_pcm_info. now rewrite !rd_fld. Qed.

Lemma slice_pcm_item rsp i : slice rsp (4 + i * PCM_INFO_SZ) PCM_INFO_SZ = spec_pcm_item rsp i.
Proof. unfold slice, spec_pcm_item, PCM_INFO_SZ. do 2 f_equal. lia. Qed.

(* whatever bytes the device put behind an OK status: the driver reads back, item by item, the fields at the positions of
   struct virtio_snd_pcm_info - for every item count that fits the receive buffer *)
Lemma parse_infos_any rsp : forall n i,
  4 + (i + N.of_nat n) * PCM_INFO_SZ <= RECV_SIZE ->
  parse_infos parse_pcm PCM_INFO_SZ rsp i n = Ok (spec_pcm_items rsp i n).
Proof.
  induction n as [|n IH]; intros i H; [reflexivity|]. cbn [parse_infos spec_pcm_items].
  destruct (N.ltb_spec RECV_SIZE (4 + (i + 1) * PCM_INFO_SZ)) as [L|L]; [unfold PCM_INFO_SZ, RECV_SIZE in *; lia|].
  rewrite IH by (unfold PCM_INFO_SZ, RECV_SIZE in *; lia). now rewrite slice_pcm_item, parse_pcm_spec.
Qed.

Theorem parse_all_any_content rsp count :
  4 + count * PCM_INFO_SZ <= RECV_SIZE ->
  parse_all parse_pcm PCM_INFO_SZ rsp count = Ok (spec_pcm_items rsp 0 (N.to_nat count)).
Proof.
  intros H. unfold parse_all.
  replace (N.min count INFO_FUEL) with count by (unfold INFO_FUEL, PCM_INFO_SZ, RECV_SIZE in *; lia).
  apply parse_infos_any. rewrite N2Nat.id. lia.
Qed.

Lemma spec_pcm_items_length rsp : forall n i, length (spec_pcm_items rsp i n) = n.
Proof. induction n as [|n IH]; intros i; cbn [spec_pcm_items length]; [reflexivity|]. now rewrite IH. Qed.

Lemma spec_pcm_items_nth rsp : forall n i j, (j < n)%nat ->
  nth_error (spec_pcm_items rsp i n) j = Some (spec_dec_pcm_info (spec_pcm_item rsp (i + N.of_nat j))).
Proof.
  induction n as [|n IH]; intros i j H; [lia|]. cbn [spec_pcm_items].
  destruct j as [|j]; cbn [nth_error]; [now rewrite N.add_0_r|].
  rewrite IH by lia. do 3 f_equal. lia.
Qed.

(* C20_snd_values, queries, against the ANSWER: once set_up has stored the answer rsp of the device to PCM_INFO for n
   streams, every query returns what the specification's field table says of rsp - the ids of the streams whose direction
   byte is OUTPUT / INPUT in ascending order, the rates / formats bitmaps, channels_min and channels_max, the features word
   of item stream_id - and a stream id the device did not report gives InvalidParam; no traffic, nothing changes *)
Theorem snd_get_of_answer s rsp n es which sid :
  s_set_up s = true -> s_pcm_infos s = Some (spec_pcm_items rsp 0 n) -> N.of_nat n < two32 ->
  snd_get s which sid es = Some (spec_stream_query rsp n which sid EInvalidParam, s, [], []).
Proof.
  intros Hsu Hp Hn.
  assert (Hl : lenN (spec_pcm_items rsp 0 n) = N.of_nat n) by (unfold lenN; now rewrite spec_pcm_items_length).
  destruct (get_spec s _ es Hsu Hp ltac:(now rewrite Hl)) as (G0 & G1 & G2 & G3).
  unfold spec_stream_query.
  destruct (N.eqb_spec which 0) as [->|W0]; [exact G0|].
  destruct (N.eqb_spec which 1) as [->|W1]; [exact G1|].
  destruct (N.leb_spec (N.of_nat n) sid) as [L|L].
  - (* the model's case split on `which` is total: anything but 0 / 1 is a per-stream query *)
    unfold snd_get. rewrite with_set_up_done by exact Hsu. rewrite Hp, Hl.
    replace (which =? 0) with false by lia. replace (which =? 1) with false by lia.
    replace (w32 (N.of_nat n)) with (N.of_nat n) by (unfold w32; rewrite N.mod_small; [reflexivity|exact Hn]).
    replace (N.of_nat n <=? sid) with true by lia. reflexivity.
  - assert (Hnth : nth_safe (spec_pcm_items rsp 0 n) sid = Some (spec_dec_pcm_info (spec_pcm_item rsp sid))).
    { rewrite nth_safe_eq. unfold nthN_error. rewrite spec_pcm_items_nth by lia. do 3 f_equal. lia. }
    unfold snd_get. rewrite with_set_up_done by exact Hsu. rewrite Hp, Hl.
    replace (which =? 0) with false by lia. replace (which =? 1) with false by lia.
    replace (w32 (N.of_nat n)) with (N.of_nat n) by (unfold w32; rewrite N.mod_small; [reflexivity|exact Hn]).
    replace (N.of_nat n <=? sid) with false by lia. rewrite Hnth. reflexivity.
Qed.

(* ... and the FIRST query, which runs set_up: for every answer of the device to the three queries (the only exclusion, as in
   C20_snd_set_up: an OK status claimed for more items than the receive buffer holds). If the device answers PCM_INFO with
   OK, the query returns what the specification says of THAT answer, for every content of it; if it answers anything else,
   the query fails with IoError. *)
Theorem snd_first_query s e1 e2 e3 which sid :
  ctl_idle s -> s_set_up s = false ->
  s_jacks s < two32 -> s_streams s < two32 -> s_chmaps s < two32 ->
  env_done s e1 -> env_done_at s 1 e2 -> env_done_at s 2 e3 ->
  is_fatal (qans parse_jack JACK_INFO_SZ (s_jacks s) (ce_rsp e1)) = false ->
  is_fatal (qans parse_chmap CHMAP_INFO_SZ (s_chmaps s) (ce_rsp e3)) = false ->
  4 + s_streams s * PCM_INFO_SZ <= RECV_SIZE ->
  (fld (ce_rsp e2) 0 4 = SND_S_OK ->
     exists s' evs vs,
       snd_get s which sid [e1; e2; e3]
         = Some (spec_stream_query (ce_rsp e2) (N.to_nat (s_streams s)) which sid EInvalidParam, s', evs, vs)
       /\ s_set_up s' = true /\ s_pcm_infos s' = Some (spec_pcm_items (ce_rsp e2) 0 (N.to_nat (s_streams s))))
  /\ (fld (ce_rsp e2) 0 4 <> SND_S_OK ->
     exists s' evs vs, snd_get s which sid [e1; e2; e3] = Some (Err EIoError, s', evs, vs) /\ s_set_up s' = false).
Proof.
  intros Hi Hsu Hj Hs Hc D1 D2 D3 Fj Fc Hfit.
  assert (Hap : forall rsp, qans parse_pcm PCM_INFO_SZ (s_streams s) rsp
                     = if hdr_ok rsp then Ok (spec_pcm_items rsp 0 (N.to_nat (s_streams s))) else Err EIoError).
  { intros rsp. unfold qans. destruct (hdr_ok rsp); [|reflexivity]. now apply parse_all_any_content. }
  assert (Fp : is_fatal (qans parse_pcm PCM_INFO_SZ (s_streams s) (ce_rsp e2)) = false).
  { rewrite Hap. destruct (hdr_ok (ce_rsp e2)); reflexivity. }
  destruct (set_up_spec s e1 e2 e3 Hi Hj Hs Hc D1 D2 D3 Fj Fp Fc) as (s1 & evs & Hsame & Hidle & Hji & Hcase).
  destruct Hsame as (S1 & S2 & S3 & S4 & S5 & S6 & S7 & S8).
  rewrite Hap in Hcase.
  split.
  - intros Hok. apply hdr_ok_iff in Hok. rewrite Hok in Hcase. destruct Hcase as (Hrun & Hpi & Hci).
    set (s1' := set_infos s1 true (s_jack_infos s1) (s_pcm_infos s1) (s_chmap_infos s1)).
    assert (Hg : snd_get s1' which sid (skipn 3 [e1; e2; e3])
                 = Some (spec_stream_query (ce_rsp e2) (N.to_nat (s_streams s)) which sid EInvalidParam, s1', [], [])).
    { apply snd_get_of_answer; [reflexivity|exact Hpi|]. rewrite N2Nat.id. exact Hs. }
    unfold snd_get at 1. unfold with_set_up. rewrite Hsu. cbn [nth]. rewrite Hrun.
    fold s1'. unfold snd_get in Hg. rewrite with_set_up_done in Hg by reflexivity. rewrite Hg.
    eexists _, _, _. split; [reflexivity|]. split; [reflexivity|exact Hpi].
  - intros Hno. assert (Hh : hdr_ok (ce_rsp e2) = false).
    { destruct (hdr_ok (ce_rsp e2)) eqn:E; [|reflexivity]. apply hdr_ok_iff in E. contradiction. }
    rewrite Hh in Hcase. destruct Hcase as (Hrun & _ & _).
    unfold snd_get, with_set_up. rewrite Hsu. cbn [nth]. rewrite Hrun. cbn [fail_as].
    eexists _, _, _. split; [reflexivity|]. congruence.
Qed.

(* non-vacuity and a look at arbitrary content: the PCM_INFO answer below is NOT what a conforming device would send (the
   second item has direction 7 and channels_min 200 > channels_max 3) - the queries still return exactly its fields *)
Definition ex_rsp : list N :=
  spec_info_rsp SND_S_OK [spec_enc_pcm_info (mkPcm 1 2 96 192 0 1 2) []; spec_enc_pcm_info (mkPcm 9 0xffffffff 0xffffffffffffffff 5 7 200 3) [1; 2; 3; 4; 5];
                          spec_enc_pcm_info (mkPcm 0 0 0 0 1 0 0) []].
Example snd_queries_nonvacuous :
  let s := set_infos ex_s true (Some []) (Some (spec_pcm_items ex_rsp 0 3)) (Some []) in
  snd_get s 0 0 [] = Some (Ok [0], s, [], [])
  /\ snd_get s 1 0 [] = Some (Ok [2], s, [], [])
  /\ snd_get s 2 1 [] = Some (Ok [5], s, [], [])
  /\ snd_get s 3 1 [] = Some (Ok [0xffffffffffffffff], s, [], [])
  /\ snd_get s 4 1 [] = Some (Ok [200; 3], s, [], [])
  /\ snd_get s 5 1 [] = Some (Ok [0xffffffff], s, [], [])
  /\ snd_get s 2 3 [] = Some (Err EInvalidParam, s, [], [])
  /\ snd_get s 5 4294967295 [] = Some (Err EInvalidParam, s, [], [])
  /\ spec_stream_query ex_rsp 3 4 1 EInvalidParam = Ok [200; 3].
Proof. cbv zeta. repeat split; vm_compute; reflexivity. Qed.
