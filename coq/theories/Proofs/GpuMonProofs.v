(* What the GPU monitors of Extract/GpuIO.v (kinds 2020 .. 2026) MEAN, and that they hold of the model (C20, GPU part).

   The monitors are boolean functions over flat number lists; the runner evaluates them on what the harness
   (scen/c20_gpu.rs) observed of the implementation.  Here each of them is tied to the statement it stands for:
     A. meaning: a TRUE verdict on ANY input list implies the clause of the property, spelled out as facts about the decoded
        observation.  What stays un-unfolded in the conclusions are definitions of the SPECIFICATION side (Model/GpuSpec.v,
        written from VirtIO 1.2 5.7 and the E-EDID text): the decoder spec_decode, the command lists expected_cmds, the
        success types expected_ok, the resource / memory bookkeeping bstep of a conforming device, spec_preferred /
        spec_std_list; none of the monitors' own parsing or comparison helpers occurs;
     B. holds of the model: the line the harness would write from the MODEL's own behaviour (Model/Gpu.v) gets the verdict
        true, reusing the theorems of Proofs/GpuProofs.v (no false alarm on code that behaves like the model). *)
From VD Require Import Base.Words Base.ListUpd Model.Blk Model.BlkSpec Model.Edid Model.Gpu Model.GpuSpec Proofs.GpuProofs
  Extract.QueueIO Extract.GpuIO.
From Coq Require Import ZArith Lia ZifyBool ZifyN Permutation Sorted.
Ltac Zify.zify_post_hook ::= Z.div_mod_to_equations.

(* ------------------------------------------------------------------------------------------------ *)
(* small facts about the parsing helpers                                                             *)
Lemma gb2n_one b : [b2n b] = [1] -> b = true.
Proof. destruct b; [reflexivity|discriminate]. Qed.

Lemma firstn_cnt k (l : list N) : firstn (cnt k l) l = firstn (N.to_nat k) l.
Proof.
  unfold cnt. destruct (N.le_ge_cases k (lenN l)) as [H|H]; [now rewrite N.min_l|].
  rewrite N.min_r by exact H. unfold lenN in *. rewrite Nat2N.id. rewrite firstn_all. symmetry. apply firstn_all2. lia.
Qed.
Lemma skipn_cnt k (l : list N) : skipn (cnt k l) l = skipn (N.to_nat k) l.
Proof.
  unfold cnt. destruct (N.le_ge_cases k (lenN l)) as [H|H]; [now rewrite N.min_l|].
  rewrite N.min_r by exact H. unfold lenN in *. rewrite Nat2N.id. rewrite skipn_all. symmetry. apply skipn_all2. lia.
Qed.
Lemma cnt_app_exact (a b : list N) : cnt (lenN a) (a ++ b) = length a.
Proof. unfold cnt. rewrite lenN_app, N.min_l by lia. unfold lenN. apply Nat2N.id. Qed.
Lemma firstn_exact {A} (a b : list A) : firstn (length a) (a ++ b) = a.
Proof. rewrite firstn_app, Nat.sub_diag, firstn_O, app_nil_r. apply firstn_all. Qed.
Lemma skipn_exact {A} (a b : list A) : skipn (length a) (a ++ b) = b.
Proof. rewrite skipn_app, Nat.sub_diag, skipn_all. reflexivity. Qed.

Lemma lN_eqb_eq a b : lN_eqb a b = true -> a = b.
Proof.
  revert b. induction a as [|x a IH]; intros [|y b] H; cbn [lN_eqb] in H; try discriminate; [reflexivity|].
  apply andb_prop in H. destruct H as [H1 H2]. apply N.eqb_eq in H1. subst. f_equal. auto.
Qed.

(* the sum of a list of lengths *)
Definition total (l : list N) : N := fold_right N.add 0 l.
Lemma sumN'_total l : sumN' l = total l.
Proof. induction l as [|x t IH]; cbn [sumN' total fold_right]; [reflexivity|]. now rewrite IH. Qed.

(* (length, writable) pairs as the harness writes them: two numbers each, writable = second number non-zero *)
Fixpoint flat_lw (l : list (N * N)) : list N :=
  match l with [] => [] | (a, b) :: t => a :: b :: flat_lw t end.
Definition lw_shape (ws : list (N * N)) : list (N * bool) := map (fun p => (fst p, n2b (snd p))) ws.

Lemma lenN_flat_lw l : lenN (flat_lw l) = 2 * lenN l.
Proof. induction l as [|[a b] t IH]; [reflexivity|]. cbn [flat_lw]. rewrite !lenN_cons, IH. lia. Qed.

Lemma take_shape_flat ws r : take_shape (length ws) (flat_lw ws ++ r) = (lw_shape ws, r).
Proof.
  induction ws as [|[a b] t IH]; cbn [length flat_lw app take_shape lw_shape map]; [now destruct r|].
  fold (lw_shape t). now rewrite IH.
Qed.

Lemma take_shape_inv : forall k l ps r, take_shape k l = (ps, r) ->
  exists ws, ps = lw_shape ws /\ l = flat_lw ws ++ r /\ (length ws <= k)%nat /\ (length ws = k \/ (length r <= 1)%nat).
Proof.
  induction k as [|k IH]; intros l ps r H.
  - cbn [take_shape] in H. assert (E : ([] : list (N * bool), l) = (ps, r)) by (destruct l; exact H).
    inversion E; subst. exists []. repeat split; auto.
  - destruct l as [|a [|b t]]; cbn [take_shape] in H.
    + inversion H; subst. exists []. repeat split; cbn; auto; lia.
    + inversion H; subst. exists []. repeat split; cbn; auto; lia.
    + destruct (take_shape k t) as [ps' r'] eqn:E. inversion H; subst. destruct (IH _ _ _ E) as (ws & E1 & E2 & E3 & E4).
      exists ((a, b) :: ws). cbn [lw_shape map fst snd flat_lw app length]. fold (lw_shape ws).
      split; [now rewrite E1|]. split; [now rewrite E2|]. split; [lia|]. destruct E4; [left; lia|now right].
Qed.

(* readable elements first, then writable ones *)
Lemma shape_readable_first_split : forall l, shape_readable_first l = true ->
  exists rd wr, l = rd ++ wr /\ Forall (fun e => snd e = false) rd /\ Forall (fun e => snd e = true) wr.
Proof.
  induction l as [|[x w] t IH]; intros H.
  - exists [], []. repeat split; constructor.
  - destruct w; cbn [shape_readable_first] in H.
    + exists [], ((x, true) :: t). split; [reflexivity|]. split; [constructor|]. constructor; [reflexivity|].
      apply Forall_forall. intros e He. rewrite forallb_forall in H. exact (H e He).
    + destruct (IH H) as (rd & wr & E & H1 & H2). exists ((x, false) :: rd), wr. split; [now rewrite E|].
      split; [constructor; auto|exact H2].
Qed.
Lemma shape_readable_first_app rd wr :
  Forall (fun e => snd e = false) rd -> Forall (fun e => snd e = true) wr -> shape_readable_first (rd ++ wr) = true.
Proof.
  intros H1 H2. induction H1 as [|[x w] t Hx _ IH]; cbn [app].
  - destruct wr as [|[x w] t]; [reflexivity|]. inversion H2 as [|? ? Hw Ht]; subst. cbn [snd] in Hw. subst w.
    cbn [shape_readable_first]. apply forallb_forall. rewrite Forall_forall in Ht. exact Ht.
  - cbn [snd] in Hx. subst w. exact IH.
Qed.

Lemma filter_all {A} (f : A -> bool) l : Forall (fun x => f x = true) l -> filter f l = l.
Proof. induction 1 as [|x t Hx _ IH]; cbn [filter]; [reflexivity|]. now rewrite Hx, IH. Qed.
Lemma filter_none {A} (f : A -> bool) l : Forall (fun x => f x = false) l -> filter f l = [].
Proof. induction 1 as [|x t Hx _ IH]; cbn [filter]; [reflexivity|]. now rewrite Hx. Qed.

(* the two totals the monitor compares with the structure sizes: readable and writable bytes of the chain *)
Lemma shape_totals rd wr :
  Forall (fun e : N * bool => snd e = false) rd -> Forall (fun e : N * bool => snd e = true) wr ->
  sumN' (map fst (filter (fun e => negb (snd e)) (rd ++ wr))) = total (map fst rd)
  /\ sumN' (map fst (filter (fun e => snd e) (rd ++ wr))) = total (map fst wr).
Proof.
  intros H1 H2. rewrite !filter_app, !sumN'_total.
  rewrite (filter_all (fun e : N * bool => negb (snd e)) rd), (filter_none (fun e : N * bool => negb (snd e)) wr),
          (filter_none (fun e : N * bool => snd e) rd), (filter_all (fun e : N * bool => snd e) wr), app_nil_r.
  - split; reflexivity.
  - exact H2.
  - exact H1.
  - eapply Forall_impl; [|exact H2]. intros e He. cbv beta. now rewrite He.
  - eapply Forall_impl; [|exact H1]. intros e He. cbv beta. now rewrite He.
Qed.

(* ------------------------------------------------------------------------------------------------ *)
(* kind 2020 (C20 "command structures ... with the caller's parameters in the specified field positions and byte order")  *)

(* cmd_size is the size of the specification's request structure: the decoder needs that many bytes, and the driver's
   request has exactly that many (GpuProofs.enc_req_length) *)
Lemma cmd_size_decoder bs h c : spec_decode bs = Some (h, c) -> cmd_size c <= lenN bs.
Proof.
  unfold spec_decode. intros H.
  destruct (lenN bs <? 24); [discriminate|].
  repeat match type of H with
  | (if ?t =? ?T then _ else _) = _ => destruct (t =? T)
  | (if 16 <? ?n then _ else _) = _ => destruct (N.ltb_spec 16 n); [discriminate|]
  | (if ?n <=? lenN bs then _ else _) = _ => destruct (N.leb_spec n (lenN bs)); [|discriminate]
  end; try discriminate; injection H as _ <-; cbn [cmd_size]; assumption.
Qed.
Lemma cmd_size_driver r : lenN (enc_req r) = cmd_size (spec_of r).
Proof. rewrite enc_req_length. destruct r; try (destruct is_move); reflexivity. Qed.

(* resp_size is the size of the specification's response structure (5.7.6.8): the plain header, the header plus sixteen
   24-byte display entries, the header plus size, padding and 1024 EDID bytes; cursor commands have none *)
Lemma resp_size_table c :
  resp_size c = match expected_ok c with
                | None => 0
                | Some t => if t =? T_RESP_OK_DISPLAY_INFO then 408 else if t =? T_RESP_OK_EDID then 1056 else 24
                end.
Proof. destruct c; reflexivity. Qed.

Definition wire_line (q : N) (ws : list (N * N)) (exp : list N) (k : N) (r3 : list N) : list N :=
  q :: lenN ws :: flat_lw ws ++ lenN exp :: exp ++ k :: r3.

(* every list monitor 2020 accepts is a line
     [cursor queue?; n; (len, writable)*n; m; the expected command flat (m numbers); k; bytes ...] with consistent counts *)
Theorem mon_wire_decodes ins : mon_wire ins = true -> exists q ws exp k r3, ins = wire_line q ws exp k r3.
Proof.
  unfold mon_wire. intros H. destruct ins as [|q [|n rest]]; try discriminate.
  destruct (take_shape (cnt n rest) rest) as [shape r1] eqn:E. destruct r1 as [|m r2]; [discriminate|].
  destruct (skipn (cnt m r2) r2) as [|k r3] eqn:Es; [discriminate|].
  destruct (take_shape_inv _ _ _ _ E) as (ws & E1 & E2 & E3 & E4).
  assert (Lws : lenN ws = n).
  { destruct E4 as [E4|E4]; [|destruct r2; [destruct (cnt m []); discriminate Es|cbn [length] in E4; lia]].
    unfold cnt in E4. assert (L : lenN rest = 2 * lenN ws + lenN (m :: r2)) by (rewrite E2 at 1; rewrite lenN_app, lenN_flat_lw; reflexivity).
    rewrite lenN_cons in L. unfold lenN in *. lia. }
  assert (Lexp : lenN (firstn (cnt m r2) r2) = m).
  { assert (L : length (skipn (cnt m r2) r2) = (length r2 - cnt m r2)%nat) by apply skipn_length.
    rewrite Es in L. cbn [length] in L. unfold lenN. rewrite firstn_length. unfold cnt, lenN in *. lia. }
  exists q, ws, (firstn (cnt m r2) r2), k, r3. unfold wire_line. rewrite Lws, Lexp, <- Es.
  rewrite firstn_skipn. now rewrite <- E2.
Qed.

Lemma mon_wire_line q ws exp k r3 :
  mon_wire (wire_line q ws exp k r3)
  = match spec_decode (firstn (N.to_nat k) r3) with
    | Some (h, c) =>
        plain_hdr h && lN_eqb (flat_cmd (snd (norm_cmd (n2b q, c)))) exp && shape_readable_first (lw_shape ws)
        && (cmd_size c <=? sumN' (map fst (filter (fun e => negb (snd e)) (lw_shape ws))))
        && (resp_size c <=? sumN' (map fst (filter (fun e => snd e) (lw_shape ws))))
    | None => false
    end.
Proof.
  unfold mon_wire, wire_line.
  assert (C1 : cnt (lenN ws) (flat_lw ws ++ lenN exp :: exp ++ k :: r3) = length ws).
  { unfold cnt. rewrite N.min_l by (rewrite lenN_app, lenN_flat_lw, lenN_cons; lia). unfold lenN. apply Nat2N.id. }
  rewrite C1, take_shape_flat, cnt_app_exact, firstn_exact, skipn_exact, firstn_cnt. reflexivity.
Qed.

(* MEANING of a true verdict of monitor 2020, one request as the reference device found it:
     q      1 = it arrived on the cursor queue, 0 = on the control queue
     ws     the elements of the chain in order, (length, writable)
     exp    the command the harness expects at this position, built from the CALLER's parameters in the order of the
            specification's structure (flat_cmd: type, then the fields; padding fields as 0)
     k, r3  the number of device-readable bytes looked at, and those bytes (r3 may be longer: only the first k count)
   Then: the bytes decode, by the decoder written from the VirtIO field tables, to a command whose header has flags =
   fence_id = ctx_id = ring_idx = padding = 0 and whose type and fields are exactly the expected ones (for MOVE_CURSOR the
   three fields the device does not use are not compared); the chain consists of device-readable elements followed by
   device-writable ones; the readable part has room for the request structure and the writable part for the response
   structure the device must write for that command *)
Theorem mon_wire_meaning q ws exp k r3 :
  mon_wire (wire_line q ws exp k r3) = true ->
  exists h c rd wr,
    spec_decode (firstn (N.to_nat k) r3) = Some (h, c)
    /\ h_flags h = 0 /\ h_fence_id h = 0 /\ h_ctx_id h = 0 /\ h_ring_idx h = 0 /\ h_padding h = 0
    /\ flat_cmd (snd (norm_cmd (negb (q =? 0), c))) = exp
    /\ ws = rd ++ wr /\ Forall (fun e => snd e = 0) rd /\ Forall (fun e => snd e <> 0) wr
    /\ cmd_size c <= total (map fst rd)
    /\ match expected_ok c with
       | None => True
       | Some t => (if t =? T_RESP_OK_DISPLAY_INFO then 408 else if t =? T_RESP_OK_EDID then 1056 else 24) <= total (map fst wr)
       end.
Proof.
  rewrite mon_wire_line. destruct (spec_decode (firstn (N.to_nat k) r3)) as [[h c]|]; [|discriminate]. intros H.
  apply andb_prop in H. destruct H as [H Hrs]. apply andb_prop in H. destruct H as [H Hcs].
  apply andb_prop in H. destruct H as [H Hsh]. apply andb_prop in H. destruct H as [Hpl Heq].
  apply lN_eqb_eq in Heq. apply N.leb_le in Hcs. apply N.leb_le in Hrs.
  destruct (shape_readable_first_split _ Hsh) as (rd' & wr' & Esh & Hrd & Hwr).
  destruct (shape_totals rd' wr' Hrd Hwr) as [T1 T2]. rewrite Esh, T1 in Hcs. rewrite Esh, T2 in Hrs.
  unfold lw_shape in Esh. apply map_eq_app in Esh. destruct Esh as (rd & wr & Ews & Erd & Ewr).
  exists h, c, rd, wr. split; [reflexivity|].
  unfold plain_hdr in Hpl.
  apply andb_prop in Hpl. destruct Hpl as [Hpl P5]. apply andb_prop in Hpl. destruct Hpl as [Hpl P4].
  apply andb_prop in Hpl. destruct Hpl as [Hpl P3]. apply andb_prop in Hpl. destruct Hpl as [P1 P2].
  apply N.eqb_eq in P1, P2, P3, P4, P5.
  do 5 (split; [assumption|]). split; [exact Heq|]. split; [exact Ews|].
  assert (Frd : Forall (fun e : N * N => snd e = 0) rd).
  { subst rd'. rewrite Forall_map in Hrd. eapply Forall_impl; [|exact Hrd]. intros e He. cbn [snd] in He.
    unfold n2b in He. apply negb_false_iff in He. now apply N.eqb_eq. }
  assert (Fwr : Forall (fun e : N * N => snd e <> 0) wr).
  { subst wr'. rewrite Forall_map in Hwr. eapply Forall_impl; [|exact Hwr]. intros e He. cbn [snd] in He.
    unfold n2b in He. apply negb_true_iff in He. now apply N.eqb_neq. }
  split; [exact Frd|]. split; [exact Fwr|].
  assert (M1 : map fst rd' = map fst rd) by (subst rd'; rewrite map_map; reflexivity).
  assert (M2 : map fst wr' = map fst wr) by (subst wr'; rewrite map_map; reflexivity).
  rewrite M1 in Hcs. rewrite M2 in Hrs. split; [exact Hcs|].
  rewrite resp_size_table in Hrs. destruct (expected_ok c); [exact Hrs|exact I].
Qed.

(* HOLDS OF THE MODEL: a request of the model (the bytes enc_req r at the start of the send buffer, whatever follows),
   found in a chain of readable elements with room for it followed by writable elements with room for the response, and
   compared with the specification's reading spec_of r of the driver's parameters, passes - for every request with u32 /
   u64 parameters, on either queue *)
Theorem mon_wire_holds_of_model r tail (q : bool) rd wr :
  req_wf r ->
  Forall (fun e : N * N => snd e = 0) rd -> Forall (fun e : N * N => snd e <> 0) wr ->
  cmd_size (spec_of r) <= total (map fst rd) -> resp_size (spec_of r) <= total (map fst wr) ->
  mon_wire (wire_line (b2n q) (rd ++ wr) (flat_cmd (snd (norm_cmd (q, spec_of r)))) (lenN (enc_req r ++ tail)) (enc_req r ++ tail)) = true.
Proof.
  intros Hwf Hrd Hwr Hc Hr. rewrite mon_wire_line.
  unfold lenN at 1. rewrite Nat2N.id, firstn_all, (roundtrip r tail Hwf).
  assert (Eq : n2b (b2n q) = q) by (destruct q; reflexivity). rewrite Eq.
  assert (Frd : Forall (fun e : N * bool => snd e = false) (lw_shape rd)).
  { unfold lw_shape. rewrite Forall_map. eapply Forall_impl; [|exact Hrd]. intros e He. cbn [snd]. now rewrite He. }
  assert (Fwr : Forall (fun e : N * bool => snd e = true) (lw_shape wr)).
  { unfold lw_shape. rewrite Forall_map. eapply Forall_impl; [|exact Hwr]. intros e He. cbn [snd].
    unfold n2b. apply negb_true_iff. now apply N.eqb_neq. }
  unfold lw_shape in *. rewrite map_app.
  destruct (shape_totals _ _ Frd Fwr) as [T1 T2]. rewrite T1, T2, !map_map. cbn [fst].
  rewrite (shape_readable_first_app _ _ Frd Fwr), lN_eqb_refl.
  apply N.leb_le in Hc. apply N.leb_le in Hr. change (map (fun x : N * N => fst x)) with (@map (N * N) N fst).
  rewrite Hc, Hr. reflexivity.
Qed.

(* ------------------------------------------------------------------------------------------------ *)
(* comparing commands: the flat form determines the command                                          *)
Lemma flat_entries_inj : forall a b, flat_map flat_entry a = flat_map flat_entry b -> a = b.
Proof.
  induction a as [|[[x y] z] a IH]; intros [|[[x' y'] z'] b] H; cbn [flat_map flat_entry fst snd app] in H; try discriminate H.
  - reflexivity.
  - injection H as -> -> -> H. f_equal. auto.
Qed.

Lemma flat_cmd_inj a b : flat_cmd a = flat_cmd b -> a = b.
Proof.
  destruct a, b; cbn [flat_cmd app];
    unfold T_GET_DISPLAY_INFO, T_RESOURCE_CREATE_2D, T_RESOURCE_UNREF, T_SET_SCANOUT, T_RESOURCE_FLUSH, T_TRANSFER_TO_HOST_2D,
           T_RESOURCE_ATTACH_BACKING, T_RESOURCE_DETACH_BACKING, T_GET_EDID, T_UPDATE_CURSOR, T_MOVE_CURSOR;
    intros H; try discriminate H; try reflexivity; injection H; intros; subst; try reflexivity.
  f_equal. now apply flat_entries_inj.
Qed.

Lemma qcmds_eqb_eq : forall a b, qcmds_eqb a b = true -> a = b.
Proof.
  induction a as [|[q c] a IH]; intros [|[q' c'] b] H; cbn [qcmds_eqb] in H; try discriminate H; [reflexivity|].
  apply andb_prop in H. destruct H as [H1 H2]. unfold qcmd_eqb, cmd_eqb in H1. cbn [fst snd] in H1.
  apply andb_prop in H1. destruct H1 as [Hq Hc]. apply eqb_prop in Hq. apply lN_eqb_eq, flat_cmd_inj in Hc. subst.
  f_equal. auto.
Qed.

(* an unfenced 2D command: the five other header fields are zero *)
Definition hdr_plain (h : shdr) : Prop :=
  h_flags h = 0 /\ h_fence_id h = 0 /\ h_ctx_id h = 0 /\ h_ring_idx h = 0 /\ h_padding h = 0.
Lemma plain_hdr_iff h : plain_hdr h = true <-> hdr_plain h.
Proof.
  unfold plain_hdr, hdr_plain. rewrite !andb_true_iff, !N.eqb_eq. tauto.
Qed.

(* ------------------------------------------------------------------------------------------------ *)
(* kind 2021 (C20 "in the required order: create resource, attach backing, set scanout; transfer then flush")             *)

(* requests as the device saw them, each written as [cursor queue?; n; the device-readable bytes (n, fewer only when the
   list ends)] *)
Fixpoint flat_reqs (l : list (N * N * list N)) : list N :=
  match l with [] => [] | (q, n, bs) :: t => q :: n :: bs ++ flat_reqs t end.

(* one such request reads, by the specification's decoder, as the plain command c on queue qb *)
Definition decodes_to (it : N * N * list N) (qc : qcmd) : Prop :=
  match it with (q, n, bs) =>
    lenN bs <= n /\ fst qc = negb (q =? 0) /\ exists h, spec_decode bs = Some (h, snd qc) /\ hdr_plain h
  end.

Lemma take_reqs_inv : forall fuel l cmds, (length l <= fuel)%nat -> take_reqs fuel l = Some cmds ->
  exists items, l = flat_reqs items /\ Forall2 decodes_to items cmds.
Proof.
  induction fuel as [|f IH]; intros l cmds Hl H.
  - destruct l; [|cbn [length] in Hl; lia]. cbn [take_reqs] in H. injection H as <-. exists []. split; [reflexivity|constructor].
  - destruct l as [|q [|n rest]]; cbn [take_reqs] in H.
    + injection H as <-. exists []. split; [reflexivity|constructor].
    + discriminate H.
    + destruct (spec_decode (firstn (cnt n rest) rest)) as [[h c]|] eqn:Ed; [|discriminate H].
      destruct (take_reqs f (skipn (cnt n rest) rest)) as [cs|] eqn:Et; [|discriminate H].
      destruct (plain_hdr h) eqn:Ep; [|discriminate H]. injection H as <-.
      assert (Hl' : (length (skipn (cnt n rest) rest) <= f)%nat) by (rewrite skipn_length; cbn [length] in Hl; lia).
      destruct (IH _ _ Hl' Et) as (items & E1 & E2).
      exists ((q, n, firstn (cnt n rest) rest) :: items). split.
      * cbn [flat_reqs]. rewrite <- E1, firstn_skipn. reflexivity.
      * constructor; [|exact E2]. cbn [decodes_to fst snd]. split.
        { unfold lenN. rewrite firstn_length. unfold cnt, lenN. lia. }
        split; [reflexivity|]. exists h. split; [exact Ed|]. now apply plain_hdr_iff.
Qed.

(* the operation a line names: 1 change_resolution (a scanout resource existed; its id; w; h; dma address), 2 flush (resource
   on scanout 0; its size), 3 setup_cursor (x; y; hot_x; hot_y; dma address), 4 move_cursor (x; y), 5 resolution, 6 get_edid *)
Definition names_op (op p1 p2 p3 p4 p5 : N) (o : sop) : Prop :=
  (op = 1 /\ o = OChange (negb (p1 =? 0)) p2 p3 p4 p5) \/ (op = 2 /\ o = OFlush p1 p2 p3)
  \/ (op = 3 /\ o = OSetupCursor p1 p2 p3 p4 p5) \/ (op = 4 /\ o = OMove p1 p2) \/ (op = 5 /\ o = OResolution)
  \/ (op = 6 /\ o = OGetEdid p1).
Lemma dec_sop_names op p1 p2 p3 p4 p5 o : dec_sop op p1 p2 p3 p4 p5 = Some o -> names_op op p1 p2 p3 p4 p5 o.
Proof.
  unfold dec_sop, names_op, n2b. intros H.
  destruct (N.eqb_spec op 1); [injection H as <-; auto|]. destruct (N.eqb_spec op 2); [injection H as <-; auto|].
  destruct (N.eqb_spec op 3); [injection H as <-; auto|]. destruct (N.eqb_spec op 4); [injection H as <-; auto 6|].
  destruct (N.eqb_spec op 5); [injection H as <-; auto 7|]. destruct (N.eqb_spec op 6); [injection H as <-; auto 8|]. discriminate.
Qed.

(* the sequence rule on decoded commands: with rid = the id of the first RESOURCE_CREATE_2D among them,
   either the specification has no command list for the operation (4wh = 0 or beyond the le32 length field; flush without a
   scanout resource) and the operation ended in an error having sent nothing, or it returned Ok and the commands, in order
   and on their queues, are exactly the specification's list (MOVE_CURSOR: the three unused fields not compared); the id
   chosen for a new resource is not 0 (0 means "no resource" in SET_SCANOUT) *)
Definition sequence_rule (o : sop) (class : N) (cmds : list qcmd) : Prop :=
  match expected_cmds o (first_create cmds) with
  | None => class = 1 /\ cmds = []
  | Some exp =>
      class = 0 /\ map norm_cmd cmds = exp
      /\ match o with OChange _ _ _ _ _ | OSetupCursor _ _ _ _ _ => first_create cmds <> 0 | _ => True end
  end.

Lemma seq_ok_rule o class cmds : seq_ok o class cmds = true <-> sequence_rule o class cmds.
Proof.
  unfold seq_ok, sequence_rule. destruct (expected_cmds o (first_create cmds)) as [exp|].
  - rewrite !andb_true_iff, N.eqb_eq. split.
    + intros [[H1 H2] H3]. split; [exact H1|]. split; [now apply qcmds_eqb_eq|].
      destruct o; try exact I; apply negb_true_iff in H3; now apply N.eqb_neq.
    + intros (H1 & H2 & H3). split; [split; [exact H1|rewrite H2; apply qcmds_eqb_refl]|].
      destruct o; try reflexivity; apply negb_true_iff; now apply N.eqb_neq.
  - rewrite andb_true_iff, N.eqb_eq. destruct cmds; split; intros [H1 H2]; (split; [exact H1|]); try reflexivity; discriminate.
Qed.

(* MEANING of a true verdict of monitor 2021 (written for an operation during which every answer was the expected success
   and dma_alloc worked): ANY accepted list is a line
     [op; p1; p2; p3; p4; p5; result class] ++ the requests the device received, in order
   naming one of the six operations with the caller's parameters; every request decodes as a plain command, and the decoded
   commands obey the sequence rule for that operation *)
Theorem mon_sequence_meaning ins : mon_sequence ins = true ->
  exists op p1 p2 p3 p4 p5 class items o cmds,
    ins = op :: p1 :: p2 :: p3 :: p4 :: p5 :: class :: flat_reqs items
    /\ names_op op p1 p2 p3 p4 p5 o /\ Forall2 decodes_to items cmds /\ sequence_rule o class cmds.
Proof.
  unfold mon_sequence. intros H. destruct ins as [|op [|p1 [|p2 [|p3 [|p4 [|p5 [|class rest]]]]]]]; try discriminate H.
  destruct (dec_sop op p1 p2 p3 p4 p5) as [o|] eqn:Eo; [|discriminate H].
  destruct (take_reqs (length rest) rest) as [cmds|] eqn:Et; [|discriminate H].
  destruct (take_reqs_inv _ _ _ (le_n _) Et) as (items & E1 & E2).
  exists op, p1, p2, p3, p4, p5, class, items, o, cmds. rewrite E1.
  split; [reflexivity|]. split; [now apply dec_sop_names|]. split; [exact E2|]. now apply seq_ok_rule.
Qed.

(* the sequence rule, operation by operation, in terms of the commands themselves *)
Theorem sequence_rule_change had old w h paddr class cmds :
  sequence_rule (OChange had old w h paddr) class cmds ->
  (4 * w * h = 0 \/ two32 <= 4 * w * h -> class = 1 /\ cmds = [])
  /\ (0 < 4 * w * h < two32 ->
      exists rid, rid <> 0 /\ class = 0
        /\ cmds = (if had then [ctl (SSetScanout 0 0 0 0 0 0); ctl (SDetachBacking old 0); ctl (SResourceUnref old 0)] else [])
                  ++ [ctl (SResourceCreate2D rid FORMAT_B8G8R8A8_UNORM w h); ctl (SAttachBacking rid 1 [(paddr, 4 * w * h, 0)]);
                      ctl (SSetScanout 0 0 w h 0 rid)]).
Proof.
  unfold sequence_rule, expected_cmds. intros H. split.
  - intros Hz. assert (E : (two32 <=? 4 * w * h) || (4 * w * h =? 0) = true).
    { destruct Hz as [Hz|Hz]; [rewrite Hz; apply orb_true_r|]. apply orb_true_iff. left. now apply N.leb_le. }
    rewrite E in H. exact H.
  - intros Hz. assert (E : (two32 <=? 4 * w * h) || (4 * w * h =? 0) = false).
    { apply orb_false_iff. split; [apply N.leb_gt|apply N.eqb_neq]; lia. }
    rewrite E in H. destruct H as (H1 & H2 & H3). exists (first_create cmds). split; [exact H3|]. split; [exact H1|].
    rewrite <- H2. clear H1 H3. set (rid := first_create cmds) in *. clearbody rid.
    (* no MOVE_CURSOR in the expected list: norm_cmd is the identity on every command *)
    assert (Hid : forall l, Forall (fun qc => match snd qc with SMoveCursor _ _ _ _ _ _ _ _ => False | _ => True end) (map norm_cmd l) ->
                   map norm_cmd l = l).
    { induction l as [|[q c] l IH]; intros HF; [reflexivity|]. cbn [map] in *. inversion HF as [|? ? Hx Hl]; subst.
      rewrite (IH Hl). f_equal. destruct c; try reflexivity. cbn [norm_cmd snd] in Hx. contradiction. }
    symmetry. apply Hid. rewrite H2. destruct had; repeat constructor.
Qed.

Theorem sequence_rule_flush rid w h class cmds :
  sequence_rule (OFlush rid w h) class cmds ->
  (rid = 0 -> class = 1 /\ cmds = [])
  /\ (rid <> 0 -> class = 0 /\ cmds = [ctl (STransferToHost2D 0 0 w h 0 rid 0); ctl (SResourceFlush 0 0 w h rid 0)]).
Proof.
  unfold sequence_rule, expected_cmds. intros H. split; intros Hr.
  - subst rid. exact H.
  - apply N.eqb_neq in Hr. rewrite Hr in H. destruct H as (H1 & H2 & _). split; [exact H1|].
    destruct cmds as [|[q1 c1] [|[q2 c2] [|? ?]]]; cbn [map] in H2; try discriminate H2.
    injection H2 as E1 E2. destruct c1; try discriminate E1. destruct c2; try discriminate E2.
    cbn [norm_cmd] in E1, E2. now rewrite E1, E2.
Qed.

Theorem sequence_rule_setup_cursor x y hx hy paddr class cmds :
  sequence_rule (OSetupCursor x y hx hy paddr) class cmds ->
  exists rid, rid <> 0 /\ class = 0
    /\ cmds = [ctl (SResourceCreate2D rid FORMAT_B8G8R8A8_UNORM 64 64); ctl (SAttachBacking rid 1 [(paddr, 16384, 0)]);
               ctl (STransferToHost2D 0 0 64 64 0 rid 0); cur (SUpdateCursor 0 x y 0 rid hx hy 0)].
Proof.
  unfold sequence_rule, expected_cmds. intros (H1 & H2 & H3). exists (first_create cmds). split; [exact H3|]. split; [exact H1|].
  set (rid := first_create cmds) in *. clearbody rid.
  destruct cmds as [|[q1 c1] [|[q2 c2] [|[q3 c3] [|[q4 c4] [|? ?]]]]]; cbn [map] in H2; try discriminate H2.
  injection H2 as E1 E2 E3 E4. destruct c1; try discriminate E1. destruct c2; try discriminate E2.
  destruct c3; try discriminate E3. destruct c4; try discriminate E4. cbn [norm_cmd] in *. now rewrite E1, E2, E3, E4.
Qed.

Theorem sequence_rule_move x y class cmds :
  sequence_rule (OMove x y) class cmds ->
  class = 0 /\ exists rid hx hy, cmds = [cur (SMoveCursor 0 x y 0 rid hx hy 0)].
Proof.
  unfold sequence_rule, expected_cmds. intros (H1 & H2 & _). split; [exact H1|].
  destruct cmds as [|[q1 c1] [|? ?]]; cbn [map] in H2; try discriminate H2.
  injection H2 as E1. destruct c1; try discriminate E1. cbn [norm_cmd] in E1. unfold cur in *. injection E1 as -> -> -> -> -> ->.
  eexists _, _, _. reflexivity.
Qed.

(* HOLDS OF THE MODEL.  The requests of a model run as the harness writes them *)
Definition req_line_ev (e : gev) : list N :=
  match e with GCtrl b => 0 :: lenN b :: b | GCursor b => 1 :: lenN b :: b | _ => [] end.
Definition req_line (evs : list gev) : list N := flat_map req_line_ev evs.

Lemma take_reqs_req_line : forall evs cmds fuel, cmds_of evs = Some cmds -> (length (req_line evs) <= fuel)%nat ->
  take_reqs fuel (req_line evs) = Some cmds.
Proof.
  assert (Step : forall (qn : N) (q : bool) b evs cmds fuel, n2b qn = q ->
            (forall cmds fuel, cmds_of evs = Some cmds -> (length (req_line evs) <= fuel)%nat -> take_reqs fuel (req_line evs) = Some cmds) ->
            match spec_decode b, cmds_of evs with
            | Some (h, c), Some cs => if plain_hdr h then Some ((q, c) :: cs) else None
            | _, _ => None
            end = Some cmds ->
            (length (qn :: lenN b :: b ++ req_line evs) <= fuel)%nat ->
            take_reqs fuel (qn :: lenN b :: b ++ req_line evs) = Some cmds).
  { intros qn q b evs cmds fuel Hq IH H Hl. destruct fuel as [|f]; [cbn [length] in Hl; lia|].
    cbn [take_reqs]. rewrite cnt_app_exact, firstn_exact, skipn_exact.
    destruct (spec_decode b) as [[h c]|]; [|discriminate H]. destruct (cmds_of evs) as [cs|]; [|discriminate H].
    rewrite (IH cs f eq_refl) by (cbn [length] in Hl; rewrite app_length in Hl; lia).
    destruct (plain_hdr h); [|discriminate H]. now rewrite Hq. }
  induction evs as [|e t IH]; intros cmds fuel H Hl.
  - cbn [cmds_of] in H. injection H as <-. destruct fuel; reflexivity.
  - unfold req_line in *. cbn [flat_map] in *. destruct e; cbn [req_line_ev cmds_of qbytes app] in *;
      try (now apply IH).
    + apply (Step 0 false bytes t cmds fuel eq_refl IH H Hl).
    + apply (Step 1 true bytes t cmds fuel eq_refl IH H Hl).
Qed.

(* whatever operation of the model ran: when the commands the device decodes from its requests pass the specification's
   sequence checker (the theorems of GpuProofs establish that), the line written from its events passes monitor 2021 *)
Theorem mon_sequence_of_events op p1 p2 p3 p4 p5 o class evs cmds :
  dec_sop op p1 p2 p3 p4 p5 = Some o -> cmds_of evs = Some cmds -> seq_ok o class cmds = true ->
  mon_sequence (op :: p1 :: p2 :: p3 :: p4 :: p5 :: class :: req_line evs) = true.
Proof.
  intros Ho Hc Hs. unfold mon_sequence. rewrite Ho, (take_reqs_req_line evs cmds _ Hc (le_n _)). exact Hs.
Qed.

(* change_resolution(w, h) with 0 < 4wh < 2^32 and only success answers, from every state *)
Theorem mon_sequence_holds_change s w h paddr bs :
  w < two32 -> h < two32 -> paddr <> 0 -> paddr < two64 -> 0 < w * h * 4 < two32 ->
  Forall (fun b => hdr_type b = OK_NODATA) bs ->
  length bs = (match g_fb s with Some _ => 6 | None => 3 end)%nat ->
  exists v s' evs,
    change_resolution w h paddr s (map RB bs) = Some (Ok v, s', [], evs)
    /\ mon_sequence (1 :: b2n (match g_fb s with Some _ => true | None => false end) :: RESOURCE_ID_FB :: w :: h :: paddr :: 0
                     :: req_line evs) = true.
Proof.
  intros Hw Hh Hp Hp2 Hsz Hok Hlen.
  destruct (change_sequence_spec s w h paddr bs Hw Hh Hp Hp2 Hsz Hok Hlen) as (v & s' & evs & cmds & E & Hc & _ & Hs & _).
  exists v, s', evs. split; [exact E|]. eapply mon_sequence_of_events; [|exact Hc|exact Hs].
  destruct (g_fb s); reflexivity.
Qed.

Theorem mon_sequence_holds_flush s w h b1 b2 :
  g_rect s = Some (w, h) -> w < two32 -> h < two32 -> hdr_type b1 = OK_NODATA -> hdr_type b2 = OK_NODATA ->
  exists evs, flush s [RB b1; RB b2] = Some (Ok tt, s, [], evs)
    /\ mon_sequence (2 :: RESOURCE_ID_FB :: w :: h :: 0 :: 0 :: 0 :: req_line evs) = true.
Proof.
  intros Hr Hw Hh H1 H2. destruct (flush_sequence s w h b1 b2 Hr Hw Hh H1 H2) as (evs & cmds & E & Hc & _ & Hs).
  exists evs. split; [exact E|]. eapply mon_sequence_of_events; [reflexivity|exact Hc|exact Hs].
Qed.

(* flush before any framebuffer was set up: refused, nothing sent *)
Theorem mon_sequence_holds_flush_not_ready s rs :
  g_rect s = None -> flush s rs = Some (Err ENotReady, s, rs, []) /\ mon_sequence (2 :: 0 :: 0 :: 0 :: 0 :: 0 :: 1 :: req_line []) = true.
Proof. intros H. split; [exact (proj1 (flush_not_ready s rs H))|reflexivity]. Qed.

Theorem mon_sequence_holds_setup_cursor s x y hx hy paddr b1 b2 b3 b4 :
  x < two32 -> y < two32 -> hx < two32 -> hy < two32 -> paddr <> 0 -> paddr < two64 ->
  hdr_type b1 = OK_NODATA -> hdr_type b2 = OK_NODATA -> hdr_type b3 = OK_NODATA ->
  exists evs, setup_cursor 16384 x y hx hy paddr s [RB b1; RB b2; RB b3; RB b4] = Some (Ok tt, set_cur s (Some (paddr, 4)), [], evs)
    /\ mon_sequence (3 :: x :: y :: hx :: hy :: paddr :: 0 :: req_line evs) = true.
Proof.
  intros Hx Hy Hhx Hhy Hp Hp2 H1 H2 H3.
  destruct (setup_cursor_sequence s x y hx hy paddr b1 b2 b3 b4 Hx Hy Hhx Hhy Hp Hp2 H1 H2 H3) as (evs & cmds & E & _ & Hc & _ & Hs).
  exists evs. split; [exact E|]. eapply mon_sequence_of_events; [reflexivity|exact Hc|exact Hs].
Qed.

Theorem mon_sequence_holds_move_cursor s x y b :
  x < two32 -> y < two32 ->
  exists evs, move_cursor x y s [RB b] = Some (Ok tt, s, [], evs) /\ mon_sequence (4 :: x :: y :: 0 :: 0 :: 0 :: 0 :: req_line evs) = true.
Proof.
  intros Hx Hy. destruct (move_cursor_sequence s x y b Hx Hy) as (evs & cmds & E & Hc & Hs).
  exists evs. split; [exact E|]. eapply mon_sequence_of_events; [reflexivity|exact Hc|exact Hs].
Qed.

Theorem mon_sequence_holds_resolution s x y w h en fl rest :
  x < two32 -> y < two32 -> w < two32 -> h < two32 -> en < two32 -> fl < two32 ->
  exists evs, resolution s [RB (resp_display_info T_RESP_OK_DISPLAY_INFO ((x, y, w, h, en, fl) :: rest))] = Some (Ok (w, h), s, [], evs)
    /\ mon_sequence (5 :: 0 :: 0 :: 0 :: 0 :: 0 :: 0 :: req_line evs) = true.
Proof.
  intros Hx Hy Hw Hh He Hf. eexists. split.
  - rewrite (resolution_value s T_RESP_OK_DISPLAY_INFO x y w h en fl rest) by (assumption || reflexivity). reflexivity.
  - eapply mon_sequence_of_events; [reflexivity|apply (cmds_of_req false RGetDisplayInfo I)|reflexivity].
Qed.

Theorem mon_sequence_holds_get_edid s sc size blob rest :
  g_edid s = true -> sc < two32 -> size < two32 -> length blob = 1024%nat ->
  exists evs, get_edid sc s [RB (resp_edid T_RESP_OK_EDID size blob ++ rest)] = Some (Ok (map w8 blob, size), s, [], evs)
    /\ mon_sequence (6 :: sc :: 0 :: 0 :: 0 :: 0 :: 0 :: req_line evs) = true.
Proof.
  intros Hed Hsc Hsz Hl. eexists. split.
  - rewrite (get_edid_value s sc T_RESP_OK_EDID size blob rest Hed) by (assumption || reflexivity). reflexivity.
  - eapply mon_sequence_of_events; [reflexivity|apply (cmds_of_req false (RGetEdid sc) Hsc)|].
    unfold seq_ok. cbn [first_create find snd spec_of expected_cmds map norm_cmd ctl]. rewrite qcmds_eqb_refl. reflexivity.
Qed.

(* ------------------------------------------------------------------------------------------------ *)
(* kind 2022 (C20 "returns an error for any response that is not the expected success type")                              *)

(* the answer to a command is the expected one: the transport delivered a response, and - on the control queue, for a command
   that has a response structure - its type is the success type the specification prescribes for that command *)
Definition expected_answer (qc : qcmd) (rv : option N) : Prop :=
  exists t, rv = Some t /\ (fst qc = false -> forall e, expected_ok (snd qc) = Some e -> t = e).

Lemma good1_iff qc rv : good1 qc rv = true <-> expected_answer qc rv.
Proof.
  unfold good1, expected_answer. destruct qc as [q c]. cbn [fst snd]. destruct rv as [t|].
  - destruct q.
    + split; [intros _; exists t; split; [reflexivity|discriminate]|reflexivity].
    + destruct (expected_ok c) as [e|].
      * rewrite N.eqb_eq. split.
        { intros ->. exists e. split; [reflexivity|]. intros _ e' E. now injection E. }
        { intros (t' & E & H). injection E as <-. exact (H eq_refl e eq_refl). }
      * split; [intros _; exists t; split; [reflexivity|discriminate]|reflexivity].
  - split; [discriminate|]. intros (t & E & _). discriminate.
Qed.

(* one answer per command; if any answer is not the expected one the operation ended in an error *)
Definition errors_rule (cmds : list qcmd) (rvs : list (option N)) (class : N) : Prop :=
  length cmds = length rvs
  /\ forall i qc rv, nth_error cmds i = Some qc -> nth_error rvs i = Some rv -> ~ expected_answer qc rv -> class = 1.

Lemma resp_ok_rule : forall cmds rvs class, resp_ok cmds rvs class = true <-> errors_rule cmds rvs class.
Proof.
  unfold errors_rule. induction cmds as [|c cs IH]; intros rvs class.
  - destruct rvs as [|rv rs]; cbn [resp_ok length].
    + split; [|reflexivity]. intros _. split; [reflexivity|]. intros [|i]; discriminate.
    + split; [discriminate|]. intros [H _]. discriminate.
  - destruct rvs as [|rv rs]; [destruct c; cbn [resp_ok length]; split; [discriminate|intros [H _]; discriminate]|].
    rewrite resp_ok_step. destruct (good1 c rv) eqn:G.
    + rewrite IH. cbn [length]. split.
      * intros [L H]. split; [now rewrite L|]. intros [|i] qc r Hc Hr Hn; cbn [nth_error] in Hc, Hr.
        { injection Hc as <-. injection Hr as <-. exfalso. apply Hn. now apply good1_iff. }
        { exact (H i qc r Hc Hr Hn). }
      * intros [L H]. split; [now injection L|]. intros i qc r Hc Hr Hn. exact (H (S i) qc r Hc Hr Hn).
    + rewrite andb_true_iff, IH, N.eqb_eq. cbn [length]. split.
      * intros [H1 [L H]]. split; [now rewrite L|]. intros [|i] qc r Hc Hr Hn; cbn [nth_error] in Hc, Hr; [exact H1|].
        exact (H i qc r Hc Hr Hn).
      * intros [L H]. assert (Hn : ~ expected_answer c rv) by (intro E; apply good1_iff in E; congruence).
        split; [exact (H 0%nat c rv eq_refl eq_refl Hn)|]. split; [now injection L|].
        intros i qc r Hc Hr Hn'. exact (H (S i) qc r Hc Hr Hn').
Qed.

(* answered requests as the harness writes them: [cursor queue?; answered (0 = the transport call failed, otherwise a response
   came back); response type; n; the device-readable bytes] *)
Fixpoint flat_ans (l : list (N * N * N * N * list N)) : list N :=
  match l with [] => [] | (q, a, t, n, bs) :: tl => q :: a :: t :: n :: bs ++ flat_ans tl end.
Definition ans_decodes_to (it : N * N * N * N * list N) (qc : qcmd) : Prop :=
  match it with (q, a, t, n, bs) => lenN bs <= n /\ fst qc = negb (q =? 0) /\ exists h, spec_decode bs = Some (h, snd qc) end.
Definition ans_view (it : N * N * N * N * list N) : option N :=
  match it with (q, a, t, n, bs) => if a =? 0 then None else Some t end.

Lemma take_answered_inv : forall fuel l cmds rvs, (length l <= fuel)%nat -> take_answered fuel l = Some (cmds, rvs) ->
  exists items, l = flat_ans items /\ Forall2 ans_decodes_to items cmds /\ rvs = map ans_view items.
Proof.
  induction fuel as [|f IH]; intros l cmds rvs Hl H.
  - destruct l; [|cbn [length] in Hl; lia]. cbn [take_answered] in H. injection H as <- <-. exists []. repeat split; constructor.
  - destruct l as [|q [|a [|t [|n rest]]]]; cbn [take_answered] in H; try discriminate H.
    + injection H as <- <-. exists []. repeat split; constructor.
    + destruct (spec_decode (firstn (cnt n rest) rest)) as [[h c]|] eqn:Ed; [|discriminate H].
      destruct (take_answered f (skipn (cnt n rest) rest)) as [[cs rs]|] eqn:Et; [|discriminate H]. injection H as <- <-.
      assert (Hl' : (length (skipn (cnt n rest) rest) <= f)%nat) by (rewrite skipn_length; cbn [length] in Hl; lia).
      destruct (IH _ _ _ Hl' Et) as (items & E1 & E2 & E3).
      exists ((q, a, t, n, firstn (cnt n rest) rest) :: items). split; [|split].
      * cbn [flat_ans]. rewrite <- E1, firstn_skipn. reflexivity.
      * constructor; [|exact E2]. cbn [ans_decodes_to fst snd]. split.
        { unfold lenN. rewrite firstn_length. unfold cnt, lenN. lia. }
        split; [reflexivity|]. now exists h.
      * cbn [map ans_view]. now rewrite E3.
Qed.

(* MEANING of a true verdict of monitor 2022: ANY accepted list is a line [result class] ++ the requests of one public
   operation with what came back for each; every request decodes to a command, and: an answer that is not the expected
   success (a failed transport call, or - control queue - any response type other than the one the specification prescribes
   for that command) is the answer to the last request the operation made, and the operation's result is an error (class 1) *)
Theorem mon_errors_meaning ins : mon_errors ins = true ->
  exists class items cmds,
    ins = class :: flat_ans items /\ Forall2 ans_decodes_to items cmds
    /\ forall i qc it, nth_error cmds i = Some qc -> nth_error items i = Some it -> ~ expected_answer qc (ans_view it) ->
         class = 1.
Proof.
  unfold mon_errors. intros H. destruct ins as [|class rest]; [discriminate H|].
  destruct (take_answered (length rest) rest) as [[cs rs]|] eqn:Et; [|discriminate H].
  destruct (take_answered_inv _ _ _ _ (le_n _) Et) as (items & E1 & E2 & E3).
  apply resp_ok_rule in H. destruct H as [L H]. exists class, items, cs. split; [now rewrite E1|]. split; [exact E2|].
  intros i qc it Hc Hi Hn. subst rs. exact (H i qc (ans_view it) Hc (map_nth_error ans_view i items Hi) Hn).
Qed.

(* HOLDS OF THE MODEL: the line written from the requests of a model run and the answers it consumed *)
Definition reqs_of (evs : list gev) : list (bool * list N) :=
  flat_map (fun e => match qbytes e with Some x => [x] | None => [] end) evs.
Fixpoint ans_line (reqs : list (bool * list N)) (used : list rsp) : list N :=
  match reqs, used with
  | (q, b) :: t, r :: u =>
      b2n q :: (match r with RQ _ => 0 | RB _ => 1 end) :: (match resp_view r with Some ty => ty | None => 0 end) :: lenN b :: b
      ++ ans_line t u
  | _, _ => []
  end.

Lemma take_answered_ans_line : forall evs cmds used fuel,
  cmds_of evs = Some cmds -> length used = length cmds -> (length (ans_line (reqs_of evs) used) <= fuel)%nat ->
  take_answered fuel (ans_line (reqs_of evs) used) = Some (cmds, map resp_view used).
Proof.
  induction evs as [|e t IH]; intros cmds used fuel H L Hl.
  - cbn [cmds_of] in H. injection H as <-. destruct used; [|discriminate L]. destruct fuel; reflexivity.
  - unfold reqs_of in *. cbn [flat_map cmds_of] in *. destruct (qbytes e) as [[q b]|]; [|now apply IH].
    cbn [app] in *. destruct (spec_decode b) as [[h c]|] eqn:Ed; [|discriminate H].
    destruct (cmds_of t) as [cs|] eqn:Ec; [|discriminate H]. destruct (plain_hdr h); [|discriminate H]. injection H as <-.
    destruct used as [|r u]; [discriminate L|]. cbn [ans_line] in *. destruct fuel as [|f]; [cbn [length] in Hl; lia|].
    cbn [take_answered]. rewrite cnt_app_exact, firstn_exact, skipn_exact, Ed.
    rewrite (IH cs u f eq_refl) by (cbn [length] in *; try rewrite app_length in Hl; lia).
    cbn [map]. destruct q, r; reflexivity.
Qed.

(* every operation of the model proved `sound` in GpuProofs (change_resolution, setup_framebuffer, flush, setup_cursor,
   move_cursor, resolution, get_edid, the two EDID queries; from every state, for every parameter and EVERY list of answers:
   the GpuProofs.sound_... theorems) passes monitor 2022 *)
Theorem mon_errors_holds_of_model {A} (m : gm A) s rs o s' t evs :
  sound_at s m -> m s rs = Some (o, s', t, evs) ->
  exists used, rs = used ++ t /\ mon_errors (class o :: ans_line (reqs_of evs) used) = true.
Proof.
  intros Hs H. destruct (Hs _ _ _ _ _ H) as (used & cmds & E & Hc & L & HJ). exists used. split; [exact E|].
  unfold mon_errors. rewrite (take_answered_ans_line evs cmds used _ Hc L (le_n _)). now apply J_resp_ok.
Qed.

(* ------------------------------------------------------------------------------------------------ *)
(* kind 2023 (C20 "GPU backing memory stays allocated for as long as it is attached to a device resource and covers the
   advertised length")                                                                                                    *)

(* resource / memory events as the harness writes them, four numbers each *)
Definition flat_bev (e : bev) : list N :=
  match e with
  | BCreate rid w h => [1; rid; w; h] | BAttach rid addr len => [2; rid; addr; len] | BDetach rid => [3; rid; 0; 0]
  | BUnref rid => [4; rid; 0; 0] | BTransfer rid => [5; rid; 0; 0] | BAlloc pg pa => [6; pg; pa; 0]
  | BDealloc pa pg => [7; pa; pg; 0] | BReset => [8; 0; 0; 0]
  end.
Fixpoint flat4 (l : list (N * N * N * N)) : list N :=
  match l with [] => [] | (t, a, b, c) :: tl => t :: a :: b :: c :: flat4 tl end.
(* [tag; a; b; c]: 1 create rid w h | 2 attach rid addr len | 3 detach rid | 4 unref rid | 5 transfer rid | 6 alloc pages paddr
   | 7 dealloc paddr pages | 8 reset (unused positions are not looked at) *)
Definition quad_names (x : N * N * N * N) (e : bev) : Prop :=
  match x with (t, a, b, c) =>
    (t = 1 /\ e = BCreate a b c) \/ (t = 2 /\ e = BAttach a b c) \/ (t = 3 /\ e = BDetach a) \/ (t = 4 /\ e = BUnref a)
    \/ (t = 5 /\ e = BTransfer a) \/ (t = 6 /\ e = BAlloc a b) \/ (t = 7 /\ e = BDealloc a b) \/ (t = 8 /\ e = BReset)
  end.

Lemma take_bevs_inv : forall fuel l evs, (length l <= fuel)%nat -> take_bevs fuel l = Some evs ->
  exists qs, l = flat4 qs /\ Forall2 quad_names qs evs.
Proof.
  induction fuel as [|f IH]; intros l evs Hl H.
  - destruct l; [|cbn [length] in Hl; lia]. cbn [take_bevs] in H. injection H as <-. exists []. split; [reflexivity|constructor].
  - destruct l as [|t [|a [|b [|c rest]]]]; cbn [take_bevs] in H; try discriminate H.
    + injection H as <-. exists []. split; [reflexivity|constructor].
    + match type of H with match ?e0 with _ => _ end = _ => destruct e0 as [e'|] eqn:Ee; [|discriminate H] end.
      destruct (take_bevs f rest) as [es|] eqn:Et; [|discriminate H]. injection H as <-.
      destruct (IH rest es ltac:(cbn [length] in Hl; lia) Et) as (qs & E1 & E2).
      exists ((t, a, b, c) :: qs). split; [cbn [flat4]; now rewrite E1|]. constructor; [|exact E2].
      unfold quad_names.
      destruct (N.eqb_spec t 1); [injection Ee as <-; auto|]. destruct (N.eqb_spec t 2); [injection Ee as <-; auto|].
      destruct (N.eqb_spec t 3); [injection Ee as <-; auto|]. destruct (N.eqb_spec t 4); [injection Ee as <-; auto 6|].
      destruct (N.eqb_spec t 5); [injection Ee as <-; auto 7|]. destruct (N.eqb_spec t 6); [injection Ee as <-; auto 8|].
      destruct (N.eqb_spec t 7); [injection Ee as <-; auto 9|]. destruct (N.eqb_spec t 8); [injection Ee as <-; auto 10|]. discriminate Ee.
Qed.

Lemma take_bevs_flat : forall evs fuel, (length (flat_map flat_bev evs) <= fuel)%nat -> take_bevs fuel (flat_map flat_bev evs) = Some evs.
Proof.
  induction evs as [|e t IH]; intros fuel Hl; [destruct fuel; reflexivity|].
  cbn [flat_map] in *. destruct fuel as [|f]; [destruct e; cbn [flat_bev app length] in Hl; lia|].
  destruct e; cbn [flat_bev app take_bevs N.eqb Pos.eqb] in *; rewrite (IH f) by (cbn [length] in Hl; lia); reflexivity.
Qed.

(* the rule event by event, against the bookkeeping of a conforming device (GpuSpec.bst: the resources it has, each with the
   backing attached to it, and the DMA regions that are live; brun replays the earlier events):
     attach:   the resource exists, the range lies inside ONE live region (paddr, pages) and is at least 4 * w * h long;
     dealloc:  the region is live and no resource is backed by an address inside it;
     transfer: the resource exists and has backing;   detach: the resource exists *)
Definition backing_rule (evs : list bev) : Prop :=
  forall pre e post, evs = pre ++ e :: post ->
  exists st, brun bst0 pre = Some st /\
    match e with
    | BAttach rid addr len =>
        exists r reg, find_res (b_res st) rid = Some r /\ In reg (b_live st)
                      /\ fst reg <= addr /\ addr + len <= fst reg + snd reg * 4096 /\ 4 * r_w r * r_h r <= len
    | BDealloc pa pg =>
        In (pa, pg) (b_live st)
        /\ forall r a l, In r (b_res st) -> r_back r = Some (a, l) -> ~ (pa <= a < pa + N.max 1 pg * 4096)
    | BTransfer rid => exists r a l, find_res (b_res st) rid = Some r /\ r_back r = Some (a, l)
    | BDetach rid => exists r, find_res (b_res st) rid = Some r
    | _ => True
    end.

Lemma reg_eqb_eq a b : reg_eqb a b = true <-> a = b.
Proof.
  unfold reg_eqb. destruct a, b. cbn [fst snd]. rewrite andb_true_iff, !N.eqb_eq. split; [intros [-> ->]; reflexivity|].
  intros E. now injection E.
Qed.

Lemma bstep_rule st e : (exists st', bstep st e = Some st') <->
  match e with
  | BAttach rid addr len =>
      exists r reg, find_res (b_res st) rid = Some r /\ In reg (b_live st)
                    /\ fst reg <= addr /\ addr + len <= fst reg + snd reg * 4096 /\ 4 * r_w r * r_h r <= len
  | BDealloc pa pg =>
      In (pa, pg) (b_live st)
      /\ forall r a l, In r (b_res st) -> r_back r = Some (a, l) -> ~ (pa <= a < pa + N.max 1 pg * 4096)
  | BTransfer rid => exists r a l, find_res (b_res st) rid = Some r /\ r_back r = Some (a, l)
  | BDetach rid => exists r, find_res (b_res st) rid = Some r
  | _ => True
  end.
Proof.
  destruct e; cbn [bstep].
  - split; [auto|]. intros _. eexists. reflexivity.
  - destruct (find_res (b_res st) rid) as [r|].
    + destruct (existsb (fun reg => covers reg addr len) (b_live st)) eqn:Ec.
      * destruct (N.leb_spec (4 * r_w r * r_h r) len) as [Hl|Hl]; cbn [andb].
        { split; [|intros _; eexists; reflexivity]. intros _. apply existsb_exists in Ec. destruct Ec as (reg & Hi & Hc).
          unfold covers in Hc. apply andb_prop in Hc. destruct Hc as [C1 C2]. apply N.leb_le in C1, C2.
          exists r, reg. auto. }
        { split; [intros [? H]; discriminate H|]. intros (r' & reg & E & _ & _ & _ & H). injection E as <-. lia. }
      * cbn [andb]. split; [intros [? H]; discriminate H|]. intros (r' & reg & _ & Hi & C1 & C2 & _).
        assert (X : existsb (fun reg => covers reg addr len) (b_live st) = true); [|congruence].
        apply existsb_exists. exists reg. split; [exact Hi|]. unfold covers. apply andb_true_intro. split; now apply N.leb_le.
    + split; [intros [? H]; discriminate H|]. intros (r' & reg & E & _). discriminate E.
  - destruct (find_res (b_res st) rid) as [r|].
    + split; [intros _; now exists r|intros _; eexists; reflexivity].
    + split; [intros [? H]; discriminate H|intros [r E]; discriminate E].
  - split; [auto|]. intros _. eexists. reflexivity.
  - destruct (find_res (b_res st) rid) as [r|].
    + destruct (r_back r) as [[a l]|] eqn:Eb.
      * split; [intros _; now exists r, a, l|intros _; eexists; reflexivity].
      * split; [intros [? H]; discriminate H|]. intros (r' & a & l & E & E2). injection E as <-. congruence.
    + split; [intros [? H]; discriminate H|]. intros (r' & a & l & E & _). discriminate E.
  - split; [auto|]. intros _. destruct (paddr =? 0); eexists; reflexivity.
  - destruct (existsb (reg_eqb (paddr, pages)) (b_live st)) eqn:E1.
    + apply existsb_exists in E1. destruct E1 as (x & Hx & Ex). apply reg_eqb_eq in Ex. subst x.
      destruct (existsb (fun r => match r_back r with Some (a, _) => reg_inside (paddr, pages) a | None => false end) (b_res st)) eqn:E2;
        cbn [andb negb].
      * split; [intros [? H]; discriminate H|]. intros [_ H]. apply existsb_exists in E2. destruct E2 as (r & Hr & Hb).
        destruct (r_back r) as [[a l]|] eqn:Eb; [|discriminate Hb]. exfalso. apply (H r a l Hr Eb).
        unfold reg_inside in Hb. cbn [fst snd] in Hb. apply andb_prop in Hb. destruct Hb as [B1 B2].
        apply N.leb_le in B1. apply N.ltb_lt in B2. lia.
      * split; [|intros _; eexists; reflexivity]. intros _. split; [exact Hx|]. intros r a l Hr Eb Hin.
        assert (X : existsb (fun r => match r_back r with Some (a, _) => reg_inside (paddr, pages) a | None => false end) (b_res st) = true);
          [|congruence].
        apply existsb_exists. exists r. split; [exact Hr|]. rewrite Eb. unfold reg_inside. cbn [fst snd].
        apply andb_true_intro. split; [apply N.leb_le|apply N.ltb_lt]; lia.
    + cbn [andb]. split; [intros [? H]; discriminate H|]. intros [Hi _].
      assert (X : existsb (reg_eqb (paddr, pages)) (b_live st) = true); [|congruence].
      apply existsb_exists. exists (paddr, pages). split; [exact Hi|]. now apply reg_eqb_eq.
  - split; [auto|]. intros _. eexists. reflexivity.
Qed.

(* the checker behind monitor 2023 states exactly that rule *)
Theorem backing_ok_rule evs : backing_ok evs = true <-> backing_rule evs.
Proof.
  unfold backing_ok, backing_rule. split.
  - intros H pre e post ->. rewrite brun_app in H. destruct (brun bst0 pre) as [st|]; [|discriminate H].
    exists st. split; [reflexivity|]. cbn [brun] in H. destruct (bstep st e) as [st'|] eqn:Es; [|discriminate H].
    apply (proj1 (bstep_rule st e)). now exists st'.
  - induction evs as [|e t IH] using rev_ind; [reflexivity|]. intros H.
    assert (Ht : match brun bst0 t with Some _ => true | None => false end = true).
    { apply IH. intros pre e' post E. apply (H pre e' (post ++ [e])). rewrite E, <- app_assoc. reflexivity. }
    destruct (H t e [] eq_refl) as (st & Est & Hr). rewrite brun_app, Est. cbn [brun].
    destruct (proj2 (bstep_rule st e) Hr) as [st' Es]. now rewrite Es.
Qed.

(* what the bookkeeping contains comes from the earlier events: a live region was allocated (and the platform did not answer
   0); a resource was created with that size; the backing it has was attached to it with that range *)
Lemma brun_history : forall pre st, brun bst0 pre = Some st ->
  (forall pa pg, In (pa, pg) (b_live st) -> In (BAlloc pg pa) pre /\ pa <> 0)
  /\ (forall r, In r (b_res st) ->
        In (BCreate (r_id r) (r_w r) (r_h r)) pre /\ forall a l, r_back r = Some (a, l) -> In (BAttach (r_id r) a l) pre).
Proof.
  assert (Hrem : forall l x y, In y (remove_reg l x) -> In y l).
  { induction l as [|z l IH]; intros x y Hy; [contradiction|]. cbn [remove_reg] in Hy.
    destruct (reg_eqb z x); [now right|]. destruct Hy as [<-|Hy]; [now left|right; eauto]. }
  assert (Hdel : forall l rid r, In r (del_res l rid) -> In r l) by (intros l rid r Hr; unfold del_res in Hr; apply filter_In in Hr; tauto).
  assert (Hfind : forall l rid r, find_res l rid = Some r -> In r l /\ r_id r = rid).
  { intros l rid r Hf. unfold find_res in Hf. apply find_some in Hf. destruct Hf as [Hi He]. apply N.eqb_eq in He. auto. }
  induction pre as [|e pre IH] using rev_ind; intros st H.
  - cbn [brun] in H. injection H as <-. split; intros; contradiction.
  - rewrite brun_app in H. destruct (brun bst0 pre) as [st1|]; [|discriminate H]. destruct (IH st1 eq_refl) as [L R]. clear IH.
    cbn [brun] in H. destruct (bstep st1 e) as [st2|] eqn:Es; [|discriminate H]. injection H as <-.
    assert (Old : forall x, In x pre -> In x (pre ++ [e])) by (intros; apply in_or_app; now left).
    assert (New : In e (pre ++ [e])) by (apply in_or_app; right; now left).
    assert (OldL : forall pa pg, In (pa, pg) (b_live st1) -> In (BAlloc pg pa) (pre ++ [e]) /\ pa <> 0).
    { intros pa pg Hi. destruct (L pa pg Hi). auto. }
    assert (OldR : forall r, In r (b_res st1) ->
              In (BCreate (r_id r) (r_w r) (r_h r)) (pre ++ [e]) /\ forall a l, r_back r = Some (a, l) -> In (BAttach (r_id r) a l) (pre ++ [e])).
    { intros r Hi. destruct (R r Hi) as [A B]. split; [auto|]. intros a l Hb. auto. }
    destruct e; cbn [bstep] in Es;
      repeat match type of Es with
      | match ?x with _ => _ end = _ => destruct x eqn:?; try discriminate Es
      | (if ?x then _ else _) = _ => destruct x eqn:?; try discriminate Es
      end; injection Es as <-; cbn [b_live b_res]; (split; [try exact OldL|try exact OldR]).
    + intros r [<-|Hr]; [cbn [r_id r_w r_h r_back]; split; [exact New|discriminate]|apply Hdel in Hr; auto].
    + match goal with H : find_res _ _ = Some ?b |- _ => destruct (Hfind _ _ _ H) as [Hi Hid]; destruct (OldR _ Hi) as [A _] end.
      intros r [<-|Hr]; [cbn [r_id r_w r_h r_back]|apply Hdel in Hr; auto].
      subst rid. split; [exact A|]. intros a l E. injection E as <- <-. exact New.
    + match goal with H : find_res _ _ = Some ?b |- _ => destruct (Hfind _ _ _ H) as [Hi Hid]; destruct (OldR _ Hi) as [A _] end.
      intros r [<-|Hr]; [cbn [r_id r_w r_h r_back]|apply Hdel in Hr; auto].
      subst rid. split; [exact A|discriminate].
    + intros r Hr. apply Hdel in Hr. auto.
    + intros pa pg [E|Hi]; [|auto]. injection E as <- <-. split; [exact New|]. now apply N.eqb_neq.
    + intros pa pg Hi. apply Hrem in Hi. auto.
    + intros r [].
Qed.

(* MEANING of a true verdict of monitor 2023 (written at the end of a driver life during which the device never answered
   with an error): ANY accepted list is a sequence of [tag; a; b; c] events, and the events obey the backing rule *)
Theorem mon_backing_meaning ins : mon_backing ins = true ->
  exists qs evs, ins = flat4 qs /\ Forall2 quad_names qs evs /\ backing_rule evs.
Proof.
  unfold mon_backing. intros H. destruct (take_bevs (length ins) ins) as [evs|] eqn:Et; [|discriminate H].
  destruct (take_bevs_inv _ _ _ (le_n _) Et) as (qs & E1 & E2). exists qs, evs. split; [exact E1|]. split; [exact E2|].
  now apply backing_ok_rule.
Qed.

(* HOLDS OF THE MODEL: over every life of the model without device errors (GpuProofs.Life: any interleaving of
   change_resolution, flush, setup_cursor, move_cursor, resolution, get_edid from `new`), closed by Drop, the resource / memory
   events pass monitor 2023 *)
Theorem mon_backing_holds_of_model s evs :
  Life s evs -> mon_backing (flat_map flat_bev (bevs_of (evs ++ gpu_drop s))) = true.
Proof.
  intros HL. unfold mon_backing. rewrite take_bevs_flat by apply le_n. exact (backing_life s evs HL).
Qed.

(* ------------------------------------------------------------------------------------------------ *)
(* kind 2024 (C20 "returned values (resolution ...) equal what the device reported")                                      *)

(* [width, height of pmodes[0] in the device's answer; result class; the two numbers returned]: resolution() returned Ok with
   exactly the device's width and height (written only when the device answered OK_DISPLAY_INFO) *)
Theorem mon_resolution_meaning dw dh class w h : mon_resolution [dw; dh; class; w; h] = true -> class = 0 /\ w = dw /\ h = dh.
Proof.
  unfold mon_resolution. intros H. apply andb_prop in H. destruct H as [H H3]. apply andb_prop in H. destruct H as [H1 H2].
  apply N.eqb_eq in H1, H2, H3. auto.
Qed.
Theorem mon_resolution_decodes ins : mon_resolution ins = true -> exists dw dh class w h, ins = [dw; dh; class; w; h].
Proof.
  unfold mon_resolution. intros H. destruct ins as [|dw [|dh [|class [|w [|h [|? ?]]]]]]; try discriminate H. now exists dw, dh, class, w, h.
Qed.

(* the model's resolution() on an OK_DISPLAY_INFO answer laid out as in 5.7.6.8, whatever the other fields and entries *)
Theorem mon_resolution_holds_of_model s x y w h en fl rest :
  x < two32 -> y < two32 -> w < two32 -> h < two32 -> en < two32 -> fl < two32 ->
  exists o evs, resolution s [RB (resp_display_info T_RESP_OK_DISPLAY_INFO ((x, y, w, h, en, fl) :: rest))] = Some (o, s, [], evs)
    /\ mon_resolution ([w; h] ++ enc_pref o) = true.
Proof.
  intros Hx Hy Hw Hh He Hf. eexists _, _. split.
  - rewrite (resolution_value s T_RESP_OK_DISPLAY_INFO x y w h en fl rest) by (assumption || reflexivity). reflexivity.
  - cbn [N.eqb T_RESP_OK_DISPLAY_INFO Pos.eqb enc_pref app mon_resolution]. now rewrite !N.eqb_refl.
Qed.

(* ------------------------------------------------------------------------------------------------ *)
(* kind 2025 (C20 "returned values (... EDID modes ...) equal what the device reported")                                  *)
Fixpoint flat_wh (l : list (N * N)) : list N :=
  match l with [] => [] | (a, b) :: t => a :: b :: flat_wh t end.

Lemma take_wh_inv : forall k l, exists tail, l = flat_wh (take_wh k l) ++ tail.
Proof.
  induction k as [|k IH]; intros l; [exists l; reflexivity|]. destruct l as [|a [|b rest]]; cbn [take_wh flat_wh app].
  - now exists [].
  - now exists [a].
  - destruct (IH rest) as [tail E]. exists tail. now rewrite <- E.
Qed.
Lemma take_wh_flat l tail : take_wh (length l) (flat_wh l ++ tail) = l.
Proof. induction l as [|[a b] t IH]; cbn [length flat_wh app take_wh]; [now destruct tail|]. now rewrite IH. Qed.
Lemma lenN_flat_wh l : lenN (flat_wh l) = 2 * lenN l.
Proof. induction l as [|[a b] t IH]; [reflexivity|]. cbn [flat_wh]. rewrite !lenN_cons, IH. lia. Qed.

Lemma sorted_desc_iff l : sorted_desc l = true <-> StronglySorted ge_px l.
Proof.
  induction l as [|x t IH]; cbn [sorted_desc]; [split; [constructor|reflexivity]|].
  rewrite andb_true_iff, IH, forallb_forall. split.
  - intros [H1 H2]. constructor; [exact H2|]. apply Forall_forall. intros y Hy. apply N.leb_le. exact (H1 y Hy).
  - intros H. inversion H as [|? ? H2 H1]; subst. split; [|exact H2]. intros y Hy. apply N.leb_le.
    rewrite Forall_forall in H1. exact (H1 y Hy).
Qed.

Lemma pairs_eqb_eq : forall a b, pairs_eqb a b = true <-> a = b.
Proof.
  induction a as [|[x y] a IH]; intros [|[x' y'] b]; cbn [pairs_eqb]; try (split; [discriminate|discriminate]); [tauto|].
  unfold pair_eqb. cbn [fst snd]. rewrite !andb_true_iff, !N.eqb_eq, IH. split; [intros [[-> ->] ->]; reflexivity|].
  intros E. injection E as -> -> ->. auto.
Qed.

Lemma stable_perm_iff l raw :
  stable_perm l raw = true <-> forall k, filter (fun p => pixels p =? k) l = filter (fun p => pixels p =? k) raw.
Proof.
  unfold stable_perm. rewrite forallb_forall. split.
  - intros H k. destruct (in_dec N.eq_dec k (map pixels (l ++ raw))) as [Hi|Hn]; [now apply pairs_eqb_eq, H|].
    assert (E : forall m, (forall p, In p m -> In (pixels p) (map pixels (l ++ raw))) -> filter (fun p => pixels p =? k) m = []).
    { intros m Hm. apply filter_none. apply Forall_forall. intros p Hp. apply N.eqb_neq. intros <-. apply Hn. now apply Hm. }
    rewrite (E l), (E raw); [reflexivity| |]; intros p Hp; apply in_map, in_or_app; auto.
  - intros H k _. apply pairs_eqb_eq, H.
Qed.

(* the same classes of equal pixel count, in the same order, make the same multiset *)
Lemma classes_perm : forall l raw : list (N * N),
  (forall k, filter (fun p => pixels p =? k) l = filter (fun p => pixels p =? k) raw) -> Permutation l raw.
Proof.
  induction l as [|x t IH]; intros raw H.
  - destruct raw as [|y r]; [constructor|]. specialize (H (pixels y)). cbn [filter] in H. rewrite N.eqb_refl in H. discriminate H.
  - assert (Hx : In x (filter (fun p => pixels p =? pixels x) raw)) by (rewrite <- H; cbn [filter]; rewrite N.eqb_refl; now left).
    apply filter_In in Hx. destruct Hx as [Hx _].
    (* split raw at the FIRST element of x's class: it is x *)
    assert (Hsplit : exists r1 r2, raw = r1 ++ x :: r2 /\ Forall (fun p => (pixels p =? pixels x) = false) r1).
    { specialize (H (pixels x)). cbn [filter] in H. rewrite N.eqb_refl in H. clear IH Hx. revert H.
      generalize (filter (fun p => pixels p =? pixels x) t). induction raw as [|y r IHr]; intros f H; [discriminate H|].
      cbn [filter] in H. destruct (pixels y =? pixels x) eqn:Ey.
      - injection H as <- _. exists [], r. split; [reflexivity|constructor].
      - destruct (IHr f H) as (r1 & r2 & -> & F). exists (y :: r1), r2. split; [reflexivity|]. constructor; assumption. }
    destruct Hsplit as (r1 & r2 & -> & F). apply Permutation_cons_app. apply IH. intros k. specialize (H k).
    rewrite filter_app in *. cbn [filter] in H. destruct (N.eqb_spec (pixels x) k) as [Ek|Hk].
    + subst k. rewrite (filter_none _ r1 F) in *. cbn [app] in H. now injection H.
    + exact H.
Qed.

Definition edid_line (size : N) (blob : list N) (pc pw ph : N) (l : list (N * N)) (tail : list N) : list N :=
  size :: blob ++ pc :: pw :: ph :: lenN l :: flat_wh l ++ tail.

(* MEANING of a true verdict of monitor 2025: ANY accepted list is a line
     [size the device reported] ++ the 1024 bytes it sent ++ [preferred_resolution(): class; w; h] ++ [n] ++ standard_timings() as n (w, h) pairs
   and, reading the blob as the E-EDID text says (GpuSpec.spec_preferred: detailed timing #1 at 36h, 12-bit active counts;
   spec_std_list: the used ones of the eight standard-timing slots at 26h): preferred_resolution() returned exactly the
   specification's pair, or an error where the specification has none (fewer than 128 bytes, or a zero count);
   standard_timings() is empty below 128 bytes and otherwise the specification's entries - the same multiset - in order of
   decreasing pixel count, entries of equal pixel count in slot order, at most 8 *)
Theorem mon_edid_meaning ins : mon_edid ins = true ->
  exists size blob pc pw ph l tail,
    ins = edid_line size blob pc pw ph l tail /\ length blob = 1024%nat
    /\ match spec_preferred blob size with Some (w, h) => pc = 0 /\ pw = w /\ ph = h | None => pc = 1 end
    /\ (size < 128 -> l = [])
    /\ (128 <= size ->
          StronglySorted (fun a b => fst b * snd b <= fst a * snd a) l
          /\ Permutation l (spec_std_list blob)
          /\ (forall k, filter (fun p => fst p * snd p =? k) l = filter (fun p => fst p * snd p =? k) (spec_std_list blob))
          /\ (length l <= 8)%nat).
Proof.
  unfold mon_edid. intros H. destruct ins as [|size rest]; [discriminate H|].
  destruct (skipn 1024 rest) as [|pc [|pw [|ph [|n r2]]]] eqn:Es; try discriminate H.
  apply andb_prop in H. destruct H as [H Hstd]. apply andb_prop in H. destruct H as [H Hn].
  apply andb_prop in H. destruct H as [Hb Hp]. apply N.eqb_eq in Hb, Hn.
  destruct (take_wh_inv (cnt n r2) r2) as [tail Et]. set (l := take_wh (cnt n r2) r2) in *.
  exists size, (firstn 1024 rest), pc, pw, ph, l, tail. split.
  { unfold edid_line. rewrite Hn, <- Et, <- Es, firstn_skipn. reflexivity. }
  split; [unfold lenN in Hb; lia|]. split.
  { destruct (spec_preferred (firstn 1024 rest) size) as [[w h]|]; [|now apply N.eqb_eq].
    apply andb_prop in Hp. destruct Hp as [Hp P3]. apply andb_prop in Hp. destruct Hp as [P1 P2]. apply N.eqb_eq in P1, P2, P3. auto. }
  unfold std_ok in Hstd. destruct (N.ltb_spec size 128) as [Hs|Hs].
  - split; [|lia]. intros _. destruct l; [reflexivity|discriminate Hstd].
  - split; [lia|]. intros _. apply andb_prop in Hstd. destruct Hstd as [Hstd H8]. apply andb_prop in Hstd. destruct Hstd as [Hso Hst].
    apply sorted_desc_iff in Hso. pose proof (proj1 (stable_perm_iff _ _) Hst) as Hcl. apply N.leb_le in H8.
    split; [exact Hso|]. split; [now apply classes_perm|]. split; [exact Hcl|]. unfold lenN in H8. lia.
Qed.

(* HOLDS OF THE MODEL: for EVERY 1024-byte blob and every size, the results of the model's Edid methods pass monitor 2025 *)
Theorem mon_edid_holds_of_model blob size :
  length blob = 1024%nat ->
  exists l, standard_timings blob size = Ok l
    /\ mon_edid (size :: blob ++ enc_pref (preferred_resolution blob size) ++ lenN l :: flat_wh l) = true.
Proof.
  intros Hlen. destruct (edid_standard blob size) as (l & El & Hlt & Hge). exists l. split; [exact El|].
  unfold mon_edid.
  assert (Ef : firstn 1024 (blob ++ enc_pref (preferred_resolution blob size) ++ lenN l :: flat_wh l) = blob)
    by (rewrite <- Hlen; apply firstn_exact).
  assert (Esk : skipn 1024 (blob ++ enc_pref (preferred_resolution blob size) ++ lenN l :: flat_wh l)
                = enc_pref (preferred_resolution blob size) ++ lenN l :: flat_wh l) by (rewrite <- Hlen; apply skipn_exact).
  rewrite Ef, Esk, edid_preferred.
  assert (Etk : take_wh (cnt (lenN l) (flat_wh l)) (flat_wh l) = l).
  { unfold cnt. rewrite N.min_l by (rewrite lenN_flat_wh; lia). unfold lenN. rewrite Nat2N.id.
    rewrite <- (app_nil_r (flat_wh l)) at 1. apply take_wh_flat. }
  assert (Hstd : std_ok blob size l = true).
  { unfold std_ok. destruct (N.ltb_spec size 128) as [Hs|Hs]; [now rewrite (Hlt Hs)|].
    destruct (Hge Hs) as (_ & Hso & Hcl & H8 & _). apply andb_true_intro. split; [apply andb_true_intro; split|].
    - now apply sorted_desc_iff.
    - now apply stable_perm_iff.
    - apply N.leb_le. unfold lenN. lia. }
  assert (Hb : (lenN blob =? 1024) = true) by (apply N.eqb_eq; unfold lenN; rewrite Hlen; reflexivity).
  destruct (spec_preferred blob size) as [[w h]|]; cbn [enc_pref app]; rewrite Etk, Hb, Hstd, !N.eqb_refl; reflexivity.
Qed.

(* ------------------------------------------------------------------------------------------------ *)
(* kind 2026 (setup_cursor): [the bytes the device read from the cursor backing at TRANSFER_TO_HOST_2D equal the caller's
   image; how many it read]: the whole 64 x 64 x 4 image reached the device unchanged.  The model does not carry the image
   bytes (C20's theorems are about the commands), so this one is a monitor only. *)
Theorem mon_image_meaning ins : mon_image ins = true -> exists eq len, ins = [eq; len] /\ eq = 1 /\ len = 16384.
Proof.
  unfold mon_image. intros H. destruct ins as [|eq [|len [|? ?]]]; try discriminate H.
  apply andb_prop in H. destruct H as [H1 H2]. apply N.eqb_eq in H1, H2. now exists eq, len.
Qed.

(* the dispatcher: kinds 2020 .. 2026 are these functions; 2027 .. 2033 are reserved (never [1]) *)
Lemma gpu_monitor_kinds ins :
  gpu_monitor 2020 ins = [b2n (mon_wire ins)] /\ gpu_monitor 2021 ins = [b2n (mon_sequence ins)]
  /\ gpu_monitor 2022 ins = [b2n (mon_errors ins)] /\ gpu_monitor 2023 ins = [b2n (mon_backing ins)]
  /\ gpu_monitor 2024 ins = [b2n (mon_resolution ins)] /\ gpu_monitor 2025 ins = [b2n (mon_edid ins)]
  /\ gpu_monitor 2026 ins = [b2n (mon_image ins)].
Proof. repeat split. Qed.

(* ------------------------------------------------------------------------------------------------ *)
(* AUDIT witnesses (the monitor definitions are left as they are; see the builder's report)            *)

(* 2022 says "returns an error for any response that is not the expected success type" and no more: a driver that, after an
   error answer to RESOURCE_ATTACH_BACKING, still sends RESOURCE_UNREF for the resource it had created (a clean-up) and then
   returns the error passes. (As first written the monitor refused this line, because the unexpected answer was not the LAST
   request; that clause was removed from Model/GpuSpec.v resp_ok.) *)
Example mon_errors_accepts_cleanup_after_an_error_answer :
  mon_errors (1 :: [0; 1; 4608; 48] ++ enc_req (RAttach 47806 4096 4096) ++ [0; 1; 4352; 32] ++ enc_req (RUnref 47806)) = true
  /\ mon_errors (1 :: [0; 1; 4608; 48] ++ enc_req (RAttach 47806 4096 4096)) = true.
Proof. split; vm_compute; reflexivity. Qed.

(* 2022 demands LESS than one might read into it: when every answer was the expected one the result class is not looked at,
   so a panic (class 2) after only good answers, or without any request, passes this monitor (the kind 2001 .. 2009
   correspondence is what compares the class in that case) *)
Example mon_errors_ignores_the_class_when_all_answers_are_expected :
  mon_errors [2] = true /\ mon_errors (2 :: [0; 1; 4352; 32] ++ enc_req (RUnref 47806)) = true.
Proof. split; vm_compute; reflexivity. Qed.

(* 2021 demands the tear-down of the old framebuffer in one particular order (SET_SCANOUT(0), DETACH, UNREF) before the new
   resource is created; the property names only "create resource, attach backing, set scanout" *)
Example mon_sequence_fixes_the_teardown_order :
  let req r := 0 :: lenN (enc_req r) :: enc_req r in
  let create := req (RCreate2D 47806 8 8) ++ req (RAttach 47806 4096 256) ++ req (RSetScanout 0 0 8 8 0 47806) in
  mon_sequence ([1; 1; 47806; 8; 8; 4096; 0] ++ req (RSetScanout 0 0 0 0 0 0) ++ req (RDetach 47806) ++ req (RUnref 47806) ++ create) = true
  /\ mon_sequence ([1; 1; 47806; 8; 8; 4096; 0] ++ req (RSetScanout 0 0 0 0 0 0) ++ req (RUnref 47806) ++ create) = false.
Proof. split; vm_compute; reflexivity. Qed.

(* kinds 2027 .. 2033 are listed in gpu_is_monitor but have no definition: a line of such a kind can never be [1] *)
Example kinds_2027_2033_have_no_definition ins : gpu_is_monitor 2030 = true /\ gpu_monitor 2030 ins = [77777].
Proof. split; reflexivity. Qed.

(* concrete lines as the harness writes them *)
Example mon_lines_nonvacuous :
  (* SET_SCANOUT on the control queue: one 48-byte readable element, one 24-byte writable element *)
  mon_wire ([0; 2; 48; 0; 24; 1; 7; 259; 1; 2; 640; 480; 0; 47806; 48] ++ enc_req (RSetScanout 1 2 640 480 0 47806)) = true
  (* the same request in a chain whose writable part is too small for the response header *)
  /\ mon_wire ([0; 2; 48; 0; 23; 1; 7; 259; 1; 2; 640; 480; 0; 47806; 48] ++ enc_req (RSetScanout 1 2 640 480 0 47806)) = false
  (* a life: allocate, create, attach, transfer, drop (reset, then release) ... *)
  /\ mon_backing [6; 1; 4096; 0;  1; 5; 8; 8;  2; 5; 4096; 256;  5; 5; 0; 0;  8; 0; 0; 0;  7; 4096; 1; 0] = true
  (* ... and the same with the memory released while still attached *)
  /\ mon_backing [6; 1; 4096; 0;  1; 5; 8; 8;  2; 5; 4096; 256;  7; 4096; 1; 0] = false
  (* ... or attached with less than 4 * w * h bytes *)
  /\ mon_backing [6; 1; 4096; 0;  1; 5; 8; 8;  2; 5; 4096; 255] = false.
Proof. repeat split; vm_compute; reflexivity. Qed.
