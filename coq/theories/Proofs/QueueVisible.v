(* C02: what a device can see at ANY instant. Device-visible, driver-written memory is the result of
   applying the store events in order; the theorems below speak about every prefix of the stores of an
   operation (sequentially consistent memory). *)
From VD Require Import Base.Words Base.ListUpd Model.Queue Proofs.QueueInv Proofs.QueueReach Proofs.QueueProps.
From Coq Require Import ZArith Lia Permutation ZifyBool ZifyN ZifyNat.
Ltac Zify.zify_post_hook ::= Z.div_mod_to_equations.

Record vis := mkVis { v_dt : list desc; v_ring : list N; v_idx : N; v_flags : N; v_uevent : N }.

Definition vis_of (s : qstate) : vis := mkVis (q_dtable s) (q_aring s) (q_aidx s) (q_aflags s) (q_uevent s).

Definition apply_ev (v : vis) (e : qev) : vis :=
  match e with
  | QStoreDesc i d => mkVis (updN (v_dt v) i d) (v_ring v) (v_idx v) (v_flags v) (v_uevent v)
  | QStoreRing slot h => mkVis (v_dt v) (updN (v_ring v) slot h) (v_idx v) (v_flags v) (v_uevent v)
  | QStoreIdx x => mkVis (v_dt v) (v_ring v) x (v_flags v) (v_uevent v)
  | QStoreFlags x => mkVis (v_dt v) (v_ring v) (v_idx v) x (v_uevent v)
  | QStoreUsedEvent x => mkVis (v_dt v) (v_ring v) (v_idx v) (v_flags v) x
  | _ => v
  end.

Definition apply_evs (v : vis) (evs : list qev) : vis := fold_left apply_ev evs v.

Lemma apply_evs_cons v e l : apply_evs v (e :: l) = apply_evs (apply_ev v e) l.
Proof. reflexivity. Qed.

Lemma apply_evs_app v a b : apply_evs v (a ++ b) = apply_evs (apply_evs v a) b.
Proof. unfold apply_evs. apply fold_left_app. Qed.

(* ---------- the event lists are faithful: applying them yields the successor state ---------- *)
Lemma apply_direct_loop : forall bufs sh dt fh last sh' dt' fh' last' evs v,
  add_direct_loop bufs sh dt fh last = (Ok (sh', dt', fh', last'), evs) -> v_dt v = dt ->
  apply_evs v evs = mkVis dt' (v_ring v) (v_idx v) (v_flags v) (v_uevent v).
Proof.
  induction bufs as [|[b w] rest IH]; intros sh dt fh last sh' dt' fh' last' evs v Hrun Hv.
  - cbn [add_direct_loop] in Hrun. inversion Hrun; subst. destruct v; reflexivity.
  - cbn [add_direct_loop] in Hrun. destruct (b_len b =? 0); [discriminate|].
    destruct (nthN_error sh fh) as [d|]; [|discriminate].
    destruct (two32 <=? b_len b); [discriminate|].
    set (d' := mkDesc (b_addr b) (b_len b) (F_NEXT + wflag w) (d_next d)) in *.
    destruct (add_direct_loop rest (updN sh fh d') (updN dt fh d') (d_next d) fh) as [o evs1] eqn:E.
    inversion Hrun; subst o evs. clear Hrun.
    cbn [apply_evs fold_left apply_ev]. fold (apply_evs (mkVis (updN (v_dt v) fh d') (v_ring v) (v_idx v) (v_flags v) (v_uevent v)) evs1).
    rewrite (IH _ _ _ _ _ _ _ _ _ _ E) by (cbn; now rewrite Hv). reflexivity.
Qed.

Lemma apply_recycle_loop : forall bufs sh dt next orig nu sh' dt' nu' evs v,
  recycle_loop bufs sh dt next orig nu = (Ok (sh', dt', nu'), evs) -> v_dt v = dt ->
  apply_evs v evs = mkVis dt' (v_ring v) (v_idx v) (v_flags v) (v_uevent v).
Proof.
  induction bufs as [|[b w] rest IH]; intros sh dt next orig nu sh' dt' nu' evs v Hrun Hv.
  - cbn [recycle_loop] in Hrun. destruct next; [discriminate|]. inversion Hrun; subst. destruct v; reflexivity.
  - cbn [recycle_loop] in Hrun. destruct (b_len b =? 0); [discriminate|].
    destruct next as [i|]; [|discriminate].
    destruct (nthN_error sh i) as [d|]; [|discriminate].
    destruct (nu =? 0); [discriminate|].
    set (nx := if has_flag (d_flags d) F_NEXT then Some (d_next d) else None) in *.
    set (d2 := match nx with None => set_next (unset_buf d) orig | Some _ => unset_buf d end) in *.
    destruct (recycle_loop rest (updN sh i d2) (updN dt i d2) nx orig (nu - 1)) as [o evs1] eqn:E.
    inversion Hrun; subst o evs. clear Hrun.
    cbn [apply_evs fold_left apply_ev].
    fold (apply_evs (mkVis (updN (v_dt v) i d2) (v_ring v) (v_idx v) (v_flags v) (v_uevent v)) evs1).
    rewrite (IH _ _ _ _ _ _ _ _ _ _ E) by (cbn; now rewrite Hv). reflexivity.
Qed.

Lemma apply_share_evs bufs v : apply_evs v (share_evs bufs) = v.
Proof. unfold share_evs. induction bufs as [|x l IH]; [reflexivity|]. cbn [map apply_evs fold_left apply_ev]. exact IH. Qed.

Lemma apply_unshare_ind : forall bufs tbl o evs v, unshare_ind bufs tbl = (o, evs) -> apply_evs v evs = v.
Proof.
  induction bufs as [|[b w] rest IH]; intros tbl o evs v H; cbn [unshare_ind] in H.
  - inversion H; reflexivity.
  - destruct (b_len b =? 0); [inversion H; reflexivity|]. destruct tbl as [|d tbl]; [inversion H; reflexivity|].
    destruct (unshare_ind rest tbl) as [o1 e1] eqn:E. inversion H; subst.
    cbn [apply_evs fold_left apply_ev]. eapply IH; eauto.
Qed.

Lemma add_direct_loop_no_err : forall bufs sh dt fh last e evs, add_direct_loop bufs sh dt fh last <> (Err e, evs).
Proof.
  induction bufs as [|[b w] rest IH]; intros sh dt fh last e evs E; cbn [add_direct_loop] in E; [discriminate|].
  destruct (b_len b =? 0); [discriminate|]. destruct (nthN_error sh fh) as [d|]; [|discriminate].
  destruct (two32 <=? b_len b); [discriminate|].
  destruct (add_direct_loop rest _ _ _ _) as [o1 e1] eqn:E1. inversion E; subst. eapply IH; eauto.
Qed.

Lemma recycle_loop_no_err : forall bufs sh dt nx orig nu e evs, recycle_loop bufs sh dt nx orig nu <> (Err e, evs).
Proof.
  induction bufs as [|[b w] rest IH]; intros sh dt nx orig nu e evs E; cbn [recycle_loop] in E.
  - destruct nx; discriminate.
  - destruct (b_len b =? 0); [discriminate|]. destruct nx as [i|]; [|discriminate].
    destruct (nthN_error sh i); [|discriminate]. destruct (nu =? 0); [discriminate|].
    destruct (recycle_loop rest _ _ _ _ _) as [o4 e4] eqn:E4. inversion E; subst. eapply IH; eauto.
Qed.

Lemma unshare_ind_no_err : forall bufs tbl e evs, unshare_ind bufs tbl <> (Err e, evs).
Proof.
  induction bufs as [|[b w] rest IH]; intros tbl e evs E; cbn [unshare_ind] in E; [discriminate|].
  destruct (b_len b =? 0); [discriminate|]. destruct tbl; [discriminate|].
  destruct (unshare_ind rest tbl) as [o3 e3] eqn:E3. inversion E; subst. eapply IH; eauto.
Qed.

(* every operation: the successor state's device-visible memory is the old one with the events applied *)
Theorem add_events_faithful s ins outs taddr o s' evs :
  add s ins outs taddr = (o, s', evs) -> (exists h, o = Ok h) \/ (exists e, o = Err e) ->
  apply_evs (vis_of s) evs = vis_of s'.
Proof.
  intros H Ho. unfold add in H.
  destruct (lenN (tag_bufs ins outs) =? 0); [inversion H; reflexivity|].
  destruct (negb (capacity_ok s _)); [inversion H; reflexivity|].
  destruct (q_indirect s && (1 <? lenN (tag_bufs ins outs))).
  - unfold add_indirect in H.
    destruct (existsb _ _); [inversion H; subst; destruct Ho as [[? E]|[? E]]; discriminate E|].
    destruct (nthN_error (q_ind s) (q_free_head s)) as [[t|]|];
      try (inversion H; subst; destruct Ho as [[? E]|[? E]]; discriminate E).
    destruct (nthN_error (q_shadow s) (q_free_head s)) as [d|];
      [|inversion H; subst; destruct Ho as [[? E]|[? E]]; discriminate E].
    inversion H; subst. clear H.
    rewrite !apply_evs_app, apply_share_evs. reflexivity.
  - unfold add_direct in H.
    destruct (add_direct_loop (tag_bufs ins outs) (q_shadow s) (q_dtable s) (q_free_head s) (q_free_head s))
      as [[[[[sh' dt'] fh'] last']|e| |] evs1] eqn:E;
      try (inversion H; subst; destruct Ho as [[? E0]|[? E0]]; discriminate E0).
    + destruct (nthN_error sh' last') as [dl|]; [|inversion H; subst; destruct Ho as [[? E0]|[? E0]]; discriminate E0].
      inversion H; subst. clear H.
      rewrite !apply_evs_app. rewrite (apply_direct_loop _ _ _ _ _ _ _ _ _ _ (vis_of s) E eq_refl). reflexivity.
    + exfalso. eapply add_direct_loop_no_err; eauto.
Qed.

Theorem pop_events_faithful s token ins outs u_idx u_id u_len o s' evs :
  pop_used s token ins outs u_idx u_id u_len = (o, s', evs) -> (exists h, o = Ok h) \/ (exists e, o = Err e) ->
  apply_evs (vis_of s) evs = vis_of s'.
Proof.
  intros H Ho. unfold pop_used in H.
  destruct (negb (can_pop s u_idx)); [inversion H; reflexivity|].
  destruct (negb (w16 u_id =? token)); [inversion H; reflexivity|].
  destruct (recycle s (w16 u_id) (tag_bufs ins outs)) as [[o1 s1] evs1] eqn:E.
  assert (Hrec : (exists u, o1 = Ok u) -> apply_evs (vis_of s) evs1 = vis_of s1).
  { intros [u ->]. unfold recycle in E.
    destruct (nthN_error (q_shadow s) (w16 u_id)) as [hd|]; [|discriminate].
    destruct (has_flag (d_flags hd) F_INDIRECT).
    - destruct (nthN_error (q_ind s) (w16 u_id)) as [[tbl|]|]; try discriminate.
      destruct (q_num_used s =? 0); [discriminate|].
      destruct (negb (lenN tbl =? lenN (tag_bufs ins outs))); [discriminate|].
      destruct (unshare_ind (tag_bufs ins outs) tbl) as [o2 e2] eqn:E2. inversion E; subst.
      rewrite apply_evs_cons. cbn [apply_ev]. rewrite (apply_unshare_ind _ _ _ _ _ E2). reflexivity.
    - destruct (recycle_loop _ _ _ _ _ _) as [[[[sh' dt'] nu']|e| |] e3] eqn:E3; try discriminate.
      inversion E; subst. rewrite (apply_recycle_loop _ _ _ _ _ _ _ _ _ _ (vis_of s) E3 eq_refl). reflexivity. }
  destruct o1 as [u|e| |].
  - specialize (Hrec ltac:(eauto)). destruct (q_event_idx s1).
    + inversion H; subst. rewrite apply_evs_app, Hrec. reflexivity.
    + inversion H; subst. rewrite Hrec. reflexivity.
  - (* recycle never returns Err *)
    exfalso. unfold recycle in E.
    destruct (nthN_error (q_shadow s) (w16 u_id)) as [hd|]; [|discriminate].
    destruct (has_flag (d_flags hd) F_INDIRECT).
    + destruct (nthN_error (q_ind s) (w16 u_id)) as [[tbl|]|]; try discriminate.
      destruct (q_num_used s =? 0); [discriminate|].
      destruct (negb (lenN tbl =? lenN (tag_bufs ins outs))); [discriminate|].
      destruct (unshare_ind (tag_bufs ins outs) tbl) as [o2 e2] eqn:E2. inversion E; subst.
      eapply unshare_ind_no_err; eauto.
    + destruct (recycle_loop _ _ _ _ _ _) as [[[[sh' dt'] nu']|e0| |] e3] eqn:E3; try discriminate.
      eapply recycle_loop_no_err; eauto.
  - inversion H; subst. destruct Ho as [[? E0]|[? E0]]; discriminate E0.
  - inversion H; subst. destruct Ho as [[? E0]|[? E0]]; discriminate E0.
Qed.

(* ------------------------------------------------------------------------------------------ *)
(* the available ring: the entries the device has not fetched yet                               *)
Definition dummy_chain : chain := mkChain 0 [] [] None.

(* U = number of most recent submissions the device has not fetched; they are the last U outstanding
   chains (a chain is only completed, hence popped, after it has been fetched) *)
Definition RingOK (s : qstate) (chains : list chain) (U : nat) : Prop :=
  (U <= length chains)%nat /\
  forall d, (1 <= d <= U)%nat ->
    nthN_error (q_aring s) (sub16 (q_avail_idx s) (N.of_nat d) mod q_size s)
    = Some (c_head (nth (length chains - d) chains dummy_chain)).

(* the slot written by a submission is none of the slots of the (fewer than size) unfetched entries;
   proved for each of the sixteen queue sizes 2^0 .. 2^15 by linear arithmetic over mod-constants *)
Lemma slot_distinct a e k :
  k <= 15 -> a < two16 -> 1 <= e -> e < 2 ^ k -> sub16 a e mod 2 ^ k <> a mod 2 ^ k.
Proof.
  intros Hk Ha He1 Hen.
  assert (Hc : k = 0 \/ k = 1 \/ k = 2 \/ k = 3 \/ k = 4 \/ k = 5 \/ k = 6 \/ k = 7 \/ k = 8
               \/ k = 9 \/ k = 10 \/ k = 11 \/ k = 12 \/ k = 13 \/ k = 14 \/ k = 15) by lia.
  unfold sub16, w16, two16 in *.
  repeat (destruct Hc as [->|Hc];
    [ match goal with
      | |- context [2 ^ ?c] => let v := eval vm_compute in (2 ^ c) in change (2 ^ c) with v in *
      end; lia | ]).
  subst k. change (2 ^ 15) with 32768 in *. lia.
Qed.

Lemma chains_le_cells sh dt ind chains :
  Forall (chain_ok sh dt ind) chains -> (length chains <= length (all_idxs chains))%nat.
Proof.
  induction 1 as [|c l Hc _ IH]; [simpl; lia|].
  unfold all_idxs in *. cbn [map concat length]. rewrite app_length.
  apply chain_head_in in Hc. destruct (c_idxs c); [contradiction|]. simpl. lia.
Qed.

Lemma RingOK_fetch s chains U : RingOK s chains (S U) -> RingOK s chains U.
Proof. intros [H1 H2]. split; [lia|]. intros d Hd. apply H2. lia. Qed.

Lemma RingOK_add s chains h U ins outs taddr head s' evs :
  Reach s chains h -> RingOK s chains U -> bufs_ok (tag_bufs ins outs) ->
  add s ins outs taddr = (Ok head, s', evs) ->
  RingOK s' (chains ++ [new_chain s ins outs taddr]) (S U) /\ N.of_nat U < q_size s.
Proof.
  intros HR [HU Hring] Hok Hadd.
  destruct (Reach_Inv _ _ _ HR) as [HI _].
  assert (HI' := HI). destruct HI' as (fl & Hnd & Hlen & Hrange & Hnu & Hseg & Hch & Hind & Hlsh & Hldt & Hlind & Hlring & Hai & Hav & Hlu & [k [Hk Hpow]]).
  destruct (add_cases s chains ins outs taddr HI Hok) as [[_ E]|[(_ & _ & E)|(Hne & Hcap & _)]];
    try (rewrite E in Hadd; discriminate).
  destruct (add_ok s chains ins outs taddr HI Hne Hok Hcap)
    as (s1 & evs1 & c1 & Hrun & _ & Hch1 & _ & _ & Hai1 & Hring1 & _ & Hsz1 & _ & _ & _ & _ & _ & _ & evs0 & _ & _ & Hc1 & _).
  rewrite Hrun in Hadd. inversion Hadd; subst head s1 evs1. subst c1.
  (* fewer unfetched entries than descriptors *)
  assert (HUlt : N.of_nat U < q_size s).
  { pose proof (chains_le_cells _ _ _ _ Hch) as Hle.
    unfold capacity_ok in Hcap.
    destruct (N.ltb_spec (q_size s) (q_num_used s + 1)); [discriminate|].
    rewrite Hnu in *. unfold lenN in *. lia. }
  split; [|exact HUlt].
  split; [rewrite app_length; simpl; lia|].
  intros d Hd. rewrite Hai1, Hring1, Hsz1, app_length. cbn [length].
  destruct (Nat.eq_dec d 1) as [->|Hd1].
  - (* the entry just published *)
    replace (sub16 (w16 (q_avail_idx s + 1)) (N.of_nat 1)) with (q_avail_idx s).
    2:{ unfold sub16, w16, two16 in *. change (N.of_nat 1) with 1.
        rewrite (N.mod_small 1) by lia.
        destruct (N.eq_dec (q_avail_idx s) 65535) as [->|Hne2]; [reflexivity|].
        rewrite (N.mod_small (q_avail_idx s + 1)) by lia.
        replace (q_avail_idx s + 1 + 65536 - 1) with (q_avail_idx s + 1 * 65536) by lia.
        rewrite N.mod_add by discriminate. symmetry. apply N.mod_small. lia. }
    rewrite nthN_updN_eq by (rewrite Hlring; apply N.mod_lt; rewrite Hpow; apply N.pow_nonzero; discriminate).
    replace (length chains + 1 - 1)%nat with (length chains) by lia.
    rewrite app_nth2 by lia. rewrite Nat.sub_diag. cbn [nth]. now rewrite Hch1.
  - (* older entries: their slots are not the one just written *)
    assert (Hd' : (1 <= d - 1 <= U)%nat) by lia.
    replace (sub16 (w16 (q_avail_idx s + 1)) (N.of_nat d)) with (sub16 (q_avail_idx s) (N.of_nat (d - 1))).
    2:{ unfold sub16, w16, two16 in *.
        assert (Hdn : N.of_nat d < 65536) by (rewrite Hpow in HUlt; assert (2 ^ k <= 2 ^ 15) by (apply N.pow_le_mono_r; [discriminate|exact Hk]); change (2 ^ 15) with 32768 in *; lia).
        rewrite (N.mod_small (N.of_nat d)) by lia. rewrite (N.mod_small (N.of_nat (d - 1))) by lia.
        destruct (N.eq_dec (q_avail_idx s) 65535) as [E0|Hne2].
        - rewrite E0. change ((65535 + 1) mod 65536) with 0. lia.
        - rewrite (N.mod_small (q_avail_idx s + 1)) by lia. lia. }
    rewrite nthN_updN_neq.
    2:{ intro E. rewrite Hpow in E. symmetry in E. revert E. apply slot_distinct; try assumption; try lia. }
    rewrite (Hring (d - 1)%nat Hd').
    f_equal. f_equal. rewrite app_nth1 by lia. f_equal. lia.
Qed.

Lemma nth_remove_mid {A} (pre post : list A) c j dflt :
  (length pre < j)%nat -> nth (j - 1) (pre ++ post) dflt = nth j (pre ++ c :: post) dflt.
Proof.
  intros H. rewrite !app_nth2 by lia.
  replace (j - length pre)%nat with (S (j - 1 - length pre)) by lia. reflexivity.
Qed.

(* only fetched chains are completed, so a pop removes a chain in front of the unfetched suffix *)
Lemma RingOK_pop s pre c post U s' :
  RingOK s (pre ++ c :: post) U -> (U <= length post)%nat ->
  q_aring s' = q_aring s -> q_avail_idx s' = q_avail_idx s -> q_size s' = q_size s ->
  RingOK s' (pre ++ post) U.
Proof.
  intros [HU Hring] Hpost Ea Ei Es. split; [rewrite app_length; lia|].
  intros d Hd. rewrite Ea, Ei, Es, (Hring d Hd). f_equal. f_equal.
  rewrite !app_length. cbn [length].
  replace (length pre + length post - d)%nat with (length pre + S (length post) - d - 1)%nat by lia.
  symmetry. apply nth_remove_mid. lia.
Qed.

(* ------------------------------------------------------------------------------------------ *)
(* every instant between two stores of a submission                                             *)
Lemma apply_pre_publish idxs : forall p v,
  (forall e, In e p -> pre_publish_ev idxs e) ->
  v_ring (apply_evs v p) = v_ring v /\ v_idx (apply_evs v p) = v_idx v
  /\ (forall j, ~ In j idxs -> nthN_error (v_dt (apply_evs v p)) j = nthN_error (v_dt v) j).
Proof.
  induction p as [|e p IH]; intros v Hp; [repeat split; reflexivity|].
  rewrite apply_evs_cons.
  assert (He := Hp e ltac:(now left)).
  destruct (IH (apply_ev v e) ltac:(intros x Hx; apply Hp; now right)) as (A & B & C).
  rewrite A, B. destruct e; cbn [pre_publish_ev] in He; try contradiction; cbn [apply_ev v_ring v_idx v_dt] in *.
  - repeat split; auto.
  - repeat split; auto.
  - repeat split; auto. intros j Hj. rewrite C by assumption.
    apply nthN_updN_neq. intro; subst; contradiction.
Qed.

(* the unfetched entry d positions back from the available index is completely written in memory v *)
Definition entry_ok (s : qstate) (chains : list chain) (mem : N -> option (list desc)) (v : vis) (d : nat) : Prop :=
  let c := nth (length chains - d) chains dummy_chain in
  nthN_error (v_ring v) (sub16 (q_avail_idx s) (N.of_nat d) mod q_size s) = Some (c_head c)
  /\ walk (v_dt v) mem (c_head c) (N.to_nat (q_size s)) = Some (elems (c_bufs c)).

Theorem add_prefix_safe s chains h U ins outs taddr head s' evs mem p q :
  Reach s chains h -> RingOK s chains U -> mem_has_tables mem chains ->
  bufs_ok (tag_bufs ins outs) ->
  add s ins outs taddr = (Ok head, s', evs) -> evs = p ++ q ->
  let v := apply_evs (vis_of s) p in
  (* whatever the device has not fetched yet stays complete at this instant ... *)
  (forall d, (1 <= d <= U)%nat -> entry_ok s chains mem v d)
  (* ... and the index it can read is the old one, unless every store has been done *)
  /\ (v_idx v = q_aidx s \/ (q = [] /\ v = vis_of s' /\ v_idx v = w16 (q_aidx s + 1))).
Proof.
  intros HR HRing Hmem Hok Hadd Hsplit v.
  destruct (Reach_Inv _ _ _ HR) as [HI _].
  assert (HI' := HI). destruct HI' as (fl & Hnd & Hlen & Hrange & Hnu & Hseg & Hch & Hind & Hlsh & Hldt & Hlind & Hlring & Hai & Hav & Hlu & [k [Hk Hpow]]).
  destruct (RingOK_add s chains h U ins outs taddr head s' evs HR HRing Hok Hadd) as [_ HUlt].
  destruct (add_store_order s chains h ins outs taddr head s' evs HR Hok Hadd) as (evs0 & Hevs & Hshape & Hdisj).
  destruct HRing as [HU Hring].
  set (nc := new_chain s ins outs taddr) in *.
  (* memory after any prefix p0 of the pre-publication stores *)
  assert (Hpre : forall p0, (forall e, In e p0 -> pre_publish_ev (c_idxs nc) e) ->
                 forall d, (1 <= d <= U)%nat -> entry_ok s chains mem (apply_evs (vis_of s) p0) d).
  { intros p0 Hp0 d Hd. destruct (apply_pre_publish (c_idxs nc) p0 (vis_of s) Hp0) as (A & B & C).
    unfold entry_ok. cbn zeta. rewrite A. cbn [vis_of v_ring]. split; [apply Hring; exact Hd|].
    set (c := nth (length chains - d) chains dummy_chain).
    assert (Hin : In c chains) by (apply nth_In; lia).
    rewrite Forall_forall in Hch.
    eapply walk_chain_ok.
    - eapply chain_ok_frame; [|apply Hch; exact Hin].
      intros i Hi. split; [reflexivity|]. split; [|reflexivity].
      apply C. intro Hnc. eapply Hdisj; [exact Hnc|]. eapply in_all_idxs; eauto.
    - intros ta tbl Et. eapply Hmem; eauto.
    - assert (Hsub : lenN (c_idxs c) <= q_size s).
      { rewrite <- Hlen, lenN_app.
        assert (Hle : lenN (c_idxs c) <= lenN (all_idxs chains)); [|lia].
        clear - Hin. apply in_split in Hin. destruct Hin as (pre & post & E). rewrite E, all_idxs_mid, !lenN_app. lia. }
      unfold lenN in Hsub. lia. }
  (* ... and after the ring-slot store on top of it *)
  assert (Hring2 : forall p0 vv, (forall e, In e p0 -> pre_publish_ev (c_idxs nc) e) ->
                   v_dt vv = v_dt (apply_evs (vis_of s) p0) ->
                   v_ring vv = updN (v_ring (apply_evs (vis_of s) p0)) (q_avail_idx s mod q_size s) head ->
                   forall d, (1 <= d <= U)%nat -> entry_ok s chains mem vv d).
  { intros p0 vv Hp0 Edt Ering d Hd. destruct (Hpre p0 Hp0 d Hd) as [R1 R2].
    unfold entry_ok. cbn zeta. rewrite Edt, Ering. split; [|exact R2].
    rewrite nthN_updN_neq; [exact R1|].
    intro E. rewrite Hpow in E. symmetry in E. revert E. apply slot_distinct; try assumption; lia. }
  rewrite Hevs in Hsplit. symmetry in Hsplit.
  apply app_eq_app in Hsplit. destruct Hsplit as [l [[E1 E2]|[E1 E2]]].
  - (* p = all pre-publication stores followed by a prefix l of [ring slot; fence; index] *)
    assert (H0 : forall e, In e evs0 -> pre_publish_ev (c_idxs nc) e) by exact Hshape.
    destruct (apply_pre_publish (c_idxs nc) evs0 (vis_of s) H0) as (A0 & B0 & _).
    subst p. unfold v. rewrite apply_evs_app.
    destruct l as [|x1 [|x2 [|x3 [|x4 l]]]]; cbn [app] in E2.
    + change (apply_evs (apply_evs (vis_of s) evs0) []) with (apply_evs (vis_of s) evs0).
      split; [apply Hpre; exact H0|]. left. exact B0.
    + inversion E2; subst x1 q. cbn [apply_evs fold_left apply_ev].
      split; [|left; cbn [v_idx]; exact B0].
      eapply Hring2; [exact H0|reflexivity|reflexivity].
    + inversion E2; subst x1 x2 q. cbn [apply_evs fold_left apply_ev].
      split; [|left; cbn [v_idx]; exact B0].
      eapply Hring2; [exact H0|reflexivity|reflexivity].
    + inversion E2; subst x1 x2 x3 q. cbn [apply_evs fold_left apply_ev].
      split; [eapply Hring2; [exact H0|reflexivity|reflexivity]|].
      right. split; [reflexivity|].
      pose proof (add_events_faithful s ins outs taddr _ _ _ Hadd ltac:(left; eauto)) as Hf.
      rewrite Hevs, apply_evs_app in Hf. cbn [apply_evs fold_left apply_ev] in Hf.
      split; [exact Hf|]. cbn [v_idx]. now rewrite Hai.
    + exfalso. clear - E2. inversion E2.
  - (* p ends inside the pre-publication stores *)
    assert (Hp : forall e, In e p -> pre_publish_ev (c_idxs nc) e).
    { intros e He. apply Hshape. rewrite E1. apply in_or_app. now left. }
    split; [apply Hpre; exact Hp|]. left.
    destruct (apply_pre_publish (c_idxs nc) p (vis_of s) Hp) as (_ & B & _). exact B.
Qed.

(* when the last store has been done, the new entry is complete as well: all U + 1 unfetched entries *)
Theorem add_end_safe s chains h U ins outs taddr head s' evs mem :
  Reach s chains h -> RingOK s chains U -> bufs_ok (tag_bufs ins outs) ->
  add s ins outs taddr = (Ok head, s', evs) ->
  mem_has_tables mem (chains ++ [new_chain s ins outs taddr]) ->
  forall d, (1 <= d <= S U)%nat -> entry_ok s' (chains ++ [new_chain s ins outs taddr]) mem (vis_of s') d.
Proof.
  intros HR HRing Hok Hadd Hmem d Hd.
  destruct (RingOK_add s chains h U ins outs taddr head s' evs HR HRing Hok Hadd) as [[HU' Hring'] _].
  assert (HR' := R_add _ _ _ _ _ _ _ _ _ HR Hok Hadd). cbn iota in HR'.
  pose proof (all_chains_walk _ _ _ mem HR' Hmem) as Hall. rewrite Forall_forall in Hall.
  unfold entry_ok. cbn zeta. cbn [vis_of v_ring v_dt]. split; [apply Hring'; exact Hd|].
  apply Hall. apply nth_In. lia.
Qed.

(* consuming a completion never disturbs an unfetched entry *)
Theorem pop_keeps_unfetched s pre c post h U ins outs u_idx u_id u_len o s' evs :
  Reach s (pre ++ c :: post) h -> RingOK s (pre ++ c :: post) U -> (U <= length post)%nat ->
  keys (tag_bufs ins outs) = keys (c_bufs c) ->
  pop_used s (c_head c) ins outs u_idx u_id u_len = (o, s', evs) ->
  match o with
  | Ok _ => RingOK s' (pre ++ post) U
  | _ => s' = s /\ evs = []
  end.
Proof.
  intros HR HRing HU Hkeys Hpop.
  destruct (pop_refines s pre c post h ins outs u_idx u_id u_len HR Hkeys) as (P1 & P2 & P3).
  destruct (N.eq_dec (q_last_used s) (w16 u_idx)) as [E1|E1].
  { destruct (P1 E1) as [E _]. rewrite E in Hpop. inversion Hpop; subst. auto. }
  destruct (N.eq_dec (w16 u_id) (c_head c)) as [E2|E2].
  2:{ destruct (P2 E1 E2) as [E _]. rewrite E in Hpop. inversion Hpop; subst. auto. }
  destruct (P3 E1 E2) as (s1 & evs1 & E & _ & _ & _ & _ & A1 & _ & A3 & _ & A4 & _).
  rewrite E in Hpop. inversion Hpop; subst o s1 evs1.
  eapply RingOK_pop; eauto.
Qed.
